#!/bin/sh
# Offline build of everything the checks need (MANIFEST.setup_cmd).
set -e
cd "$(dirname "$0")"
export GOFLAGS=-mod=mod GOPROXY=off GOSUMDB=off GOTOOLCHAIN=local
mkdir -p build/bin evidence
# gate: nothing forbidden anywhere in the development
if grep -rnE '\b(Admitted|admit|Axiom|Parameter|Conjecture)\b|Unset Guard|bypass_check|type-in-type|impredicative-set' coq/theories coq/srcthm coq/_CoqProject; then
  echo "forbidden construct in the Coq development" >&2; exit 1
fi
(cd coq && coq_makefile -f _CoqProject -o Makefile && timeout 3000 make -j16 > ../build/coq-build.log 2>&1) || { tail -30 build/coq-build.log; exit 1; }
cp /repo/go.sum harness/go.sum
(cd harness && for d in cmd/*/; do n=$(basename $d); go1.26 build -tags verif -o ../build/bin/$n ./cmd/$n || exit 1; done)
if [ -d harness/probes ]; then
  for f in harness/probes/*.c; do [ -f "$f" ] || continue; n=$(basename $f .c); gcc -O1 -static -o build/bin/probe_$n $f -lpthread; done
fi
echo setup ok

(** Executable comparison for the correspondence run of C15 (GetString on crafted memory). *)
From GS Require Import Tracer.Mem.
Open Scope N_scope.

Fixpoint nmem (x : N) (l : list N) : bool := match l with [] => false | y :: r => (x =? y) || nmem x r end.

(** the harness fills byte i of its region with i mod 251 + 1 and writes NULs at [nuls];
    pages 0..3 readable per [pages], page 4 is a guard *)
Definition region (pages : list bool) (nuls : list N) : tmem :=
  {| mapped := fun p => nth (N.to_nat p) pages false;
     byte_at := fun a => if nmem a nuls then 0 else a mod 251 + 1 |}.

Definition checksum (s : list N) : N := fold_left (fun acc b => (acc * 131 + b) mod 4294967291) s 0.

(** observed: None = the call panicked; Some (length, checksum) *)
Definition getstring_ok (x : list bool * list N * N * option (N * N)) : bool :=
  let '(pages, nuls, off, obs) := x in
  match get_string true (region pages nuls) off, obs with
  | GsStr s, Some (l, c) => (N.of_nat (length s) =? l) && (checksum s =? c)
  | GsPanic, None => true
  | _, _ => false
  end.

Definition clen_ok (x : nat * option nat * nat) : bool :=
  let '(n, zero, obs) := x in
  let buf := match zero with Some z => repeat 120 z ++ (if Nat.ltb z n then 0 :: repeat 120 (n - z - 1) else []) | None => repeat 120 n end in
  Nat.eqb (clen true (firstn n buf)) obs.

Fixpoint indexed {A} (i : N) (l : list A) : list (N * A) :=
  match l with [] => [] | x :: r => (i, x) :: indexed (N.succ i) r end.
Definition failing {A} (ok : A -> bool) (l : list A) : list N :=
  flat_map (fun '(i, x) => if ok x then [] else [i]) (indexed 0 l).

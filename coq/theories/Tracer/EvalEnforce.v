(** Replay of the tracer's own event log (verif hook) against [handle], and execution of the composed
    model on the scripts the real programs ran, for the correspondence run of C03. *)
From Coq Require Import List Bool Arith NArith ZArith.
From GS Require Import Verdict.Status Tracer.Enforce.
Import ListNotations.

Inductive lreq := LSet | LCont (sig : Z).

(** one iteration of the wait loop as logged: pid, wait status, the handler's verdict if it was consulted
    (0 allow, 1 ban, 2 kill), whether a register rewrite (skip) was logged, the requests in order *)
Definition lstep := (Z * N * option nat * bool * list lreq)%type.

Fixpoint reqs_match (m : list preq) (l : list lreq) : bool :=
  match m, l with
  | [], [] => true
  | ReqHandleTrap :: m', _ => reqs_match m' l
  | ReqSetOptions :: m', LSet :: l' => reqs_match m' l'
  | ReqCont s :: m', LCont s' :: l' => Z.eqb s s' && reqs_match m' l'
  | _, _ => false
  end.

Definition consulted (m : list preq) : bool := existsb (fun r => match r with ReqHandleTrap => true | _ => false end) m.

(** [Some true]: the log is what [handle] does and it ends with the verdict [final]; the index of the first bad step otherwise *)
Fixpoint replay (st : hstate) (pgid : Z) (l : list lstep) (final : N) (i : N) : option N :=
  match l with
  | [] => Some i                       (* the log ends without the run having returned *)
  | (pid, ws, act, skip, rq) :: rest =>
      let tr := match act with Some 2%nat => TrKill | Some _ => TrOk | None => TrGone end in
      let o := handle st pgid pid ws SoOk tr in
      let fin := o_finished o || negb (N.eqb (status_code (o_status o)) 1) in
      if reqs_match (o_reqs o) rq
         && (match act with Some _ => consulted (o_reqs o) | None => true end)
         && Bool.eqb skip (match act with Some 1%nat => true | _ => false end)
      then if fin then match rest with [] => if N.eqb (status_code (o_status o)) final then None else Some i | _ => Some i end
           else replay (o_state o) pgid rest final (N.succ i)
      else Some i
  end.

Definition log_ok (x : Z * list lstep * N) : bool :=
  let '(pgid, l, final) := x in
  match replay {| h_execved := false; h_traced := [] |} pgid l final 0 with None => true | Some _ => false end.

Fixpoint indexed {A} (i : N) (l : list A) : list (N * A) :=
  match l with [] => [] | x :: r => (i, x) :: indexed (N.succ i) r end.
Definition failing {A} (ok : A -> bool) (l : list A) : list N :=
  flat_map (fun '(i, x) => if ok x then [] else [i]) (indexed 0%N l).

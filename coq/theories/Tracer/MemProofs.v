From GS Require Import Tracer.Mem.
Open Scope N_scope.

(** * no panic *)
Lemma vm_read_str_no_panic : forall fuel m addr filled rest next,
  vm_read_str fuel m addr filled rest next <> RdPanic.
Proof.
  induction fuel as [|f IH]; intros m addr filled rest next; simpl; [discriminate|].
  destruct rest as [|r]; [discriminate|].
  assert (Nat.ltb (S r) (Nat.min next (S r)) = false) as -> by (apply Nat.ltb_ge; lia).
  destruct (negb (readable m (addr + N.of_nat (length filled))) && Nat.ltb 0 (Nat.min next (S r))); [discriminate|].
  cbv zeta. destruct (Nat.eqb (length (vm_read m (addr + N.of_nat (length filled)) (Nat.min next (S r)))) 0); [discriminate|].
  destruct (has_null _); [discriminate|]. apply IH.
Qed.

Lemma first_null_bound : forall l i k, first_null l i = Some k -> (i <= k < i + length l)%nat.
Proof.
  induction l as [|b r IH]; intros i k H; simpl in H; [discriminate|].
  destruct (b =? 0).
  - inversion H; subst. simpl. lia.
  - apply IH in H. simpl. lia.
Qed.

Lemma clen_fixed_le buf : (clen true buf <= length buf)%nat.
Proof.
  unfold clen. destruct (first_null buf 0) as [k|] eqn:E; [|lia].
  apply first_null_bound in E. lia.
Qed.

(** Whatever the program's memory holds and whatever address it passes, reading
    the path does not panic. *)
Theorem getstring_total m addr : get_string true m addr <> GsPanic.
Proof.
  unfold get_string.
  destruct (vm_read_str 4 m addr [] PATH_MAX (N.to_nat (PAGE - addr mod PAGE))) as [fl|fl|] eqn:E.
  - pose proof (clen_fixed_le (pad fl PATH_MAX)) as Hc. apply Nat.ltb_ge in Hc. rewrite Hc. discriminate.
  - pose proof (clen_fixed_le (pad (peek_fill m addr PATH_MAX) PATH_MAX)) as Hc. apply Nat.ltb_ge in Hc. rewrite Hc. discriminate.
  - exfalso. exact (vm_read_str_no_panic _ _ _ _ _ _ E).
Qed.

(** the result is the content of the buffer up to its first NUL *)
Lemma firstn_until_null : forall l, firstn (clen true l) l = until_null l.
Proof.
  assert (forall l i, first_null l i = None -> until_null l = l) as Hnone.
  { induction l as [|b r IH]; intros i H; simpl in *; [reflexivity|].
    destruct (b =? 0); [discriminate|]. f_equal. eapply IH. exact H. }
  assert (forall l i k, first_null l i = Some k -> firstn (k - i) l = until_null l) as Hsome.
  { induction l as [|b r IH]; intros i k H; simpl in *; [discriminate|].
    destruct (b =? 0) eqn:E.
    - inversion H; subst. rewrite Nat.sub_diag. reflexivity.
    - pose proof (first_null_bound _ _ _ H) as Hb. specialize (IH _ _ H).
      replace (k - i)%nat with (S (k - S i)) by lia. simpl. f_equal. exact IH. }
  intros l. unfold clen. destruct (first_null l 0) as [k|] eqn:E.
  - rewrite <- (Hsome l 0%nat k E). f_equal. lia.
  - rewrite (Hnone l 0%nat E). apply firstn_all.
Qed.

(** the pinned tree: 4096 readable non-NUL bytes make the slice expression panic *)
Lemma getstring_panics_on_pinned :
  get_string false {| mapped := fun _ => true; byte_at := fun _ => 65 |} 4096 = GsPanic.
Proof. vm_compute. reflexivity. Qed.

(** * the result is the program's string: bytes before the first NUL among the
      readable bytes, at most PATH_MAX *)
Lemma page_pos : 0 < PAGE. Proof. reflexivity. Qed.

Lemma succ_same_page a : a mod PAGE + 1 < PAGE ->
  N.succ a / PAGE = a / PAGE /\ N.succ a mod PAGE = a mod PAGE + 1.
Proof.
  intros H. pose proof (N.div_mod a PAGE ltac:(discriminate)) as Hd.
  assert (N.succ a = PAGE * (a / PAGE) + (a mod PAGE + 1)) as Hs by lia.
  split.
  - symmetry. apply (N.div_unique (N.succ a) PAGE (a / PAGE) (a mod PAGE + 1)); assumption.
  - symmetry. apply (N.mod_unique (N.succ a) PAGE (a / PAGE) (a mod PAGE + 1)); assumption.
Qed.

Lemma page_run m : forall k a, a mod PAGE + N.of_nat k <= PAGE ->
  (readable m a = true -> length (vm_read m a k) = k) /\
  (readable m a = false -> vm_read m a k = []).
Proof.
  induction k as [|k IH]; intros a Hk; simpl.
  - split; reflexivity.
  - split; intros Hr; rewrite Hr; [|reflexivity]. simpl. f_equal.
    destruct k as [|k']; [reflexivity|].
    assert (a mod PAGE + 1 < PAGE) as Hlt by lia.
    destruct (succ_same_page a Hlt) as [Hdiv Hmod].
    apply (IH (N.succ a)); [rewrite Hmod; rewrite !Nat2N.inj_succ in *; lia|]. unfold readable in *. rewrite Hdiv. exact Hr.
Qed.

Lemma vm_read_split m : forall n1 n2 a,
  vm_read m a (n1 + n2) =
    if Nat.eqb (length (vm_read m a n1)) n1 then vm_read m a n1 ++ vm_read m (a + N.of_nat n1) n2 else vm_read m a n1.
Proof.
  induction n1 as [|n1 IH]; intros n2 a.
  - simpl. rewrite N.add_0_r. reflexivity.
  - cbn [Nat.add vm_read]. destruct (readable m a); [|reflexivity].
    rewrite IH. cbn [length]. rewrite Nat2N.inj_succ.
    replace (a + N.succ (N.of_nat n1)) with (N.succ a + N.of_nat n1) by lia.
    change (Nat.eqb (S (length (vm_read m (N.succ a) n1))) (S n1)) with (Nat.eqb (length (vm_read m (N.succ a) n1)) n1).
    destruct (Nat.eqb (length (vm_read m (N.succ a) n1)) n1); reflexivity.
Qed.

Lemma until_null_app_null a b : has_null a = true -> until_null (a ++ b) = until_null a.
Proof.
  induction a as [|x a IH]; simpl; [discriminate|]. destruct (x =? 0); [reflexivity|].
  simpl. intros H. f_equal. apply IH. exact H.
Qed.

Lemma until_null_nonull a : has_null a = false -> forall b, until_null (a ++ b) = a ++ until_null b.
Proof.
  induction a as [|x a IH]; simpl; [reflexivity|]. destruct (x =? 0); [discriminate|].
  simpl. intros H b. f_equal. apply IH. exact H.
Qed.

Lemma until_null_zeros k : until_null (repeat 0 k) = [].
Proof. destruct k; reflexivity. Qed.

Lemma until_null_pad l cap : until_null (pad l cap) = until_null l \/ (has_null l = false /\ until_null (pad l cap) = l).
Proof.
  unfold pad. destruct (has_null l) eqn:E.
  - left. apply until_null_app_null. exact E.
  - right. split; [reflexivity|]. rewrite (until_null_nonull l E), until_null_zeros, app_nil_r. reflexivity.
Qed.

Lemma until_null_nonull_id l : has_null l = false -> until_null l = l.
Proof. intros H. rewrite <- (app_nil_r l) at 1. rewrite (until_null_nonull l H). simpl. apply app_nil_r. Qed.

Lemma pad_length l cap : (length l <= cap)%nat -> length (pad l cap) = cap.
Proof. intros H. unfold pad. rewrite app_length, repeat_length. lia. Qed.

Lemma vrs_step fuel m addr filled rest next : rest <> 0%nat ->
  vm_read_str (S fuel) m addr filled rest next =
    let next' := Nat.min next rest in
    if Nat.ltb rest next' then RdPanic
    else if negb (readable m (addr + N.of_nat (length filled))) && Nat.ltb 0 next' then RdErr filled
    else let got := vm_read m (addr + N.of_nat (length filled)) next' in
         if Nat.eqb (length got) 0 then RdOk filled
         else if has_null got then RdOk (filled ++ got)
         else vm_read_str fuel m addr (filled ++ got) (rest - length got) (N.to_nat PAGE).
Proof. intros H. destruct rest; [contradiction|]. reflexivity. Qed.

Lemma vrs_zero fuel m addr filled next : vm_read_str fuel m addr filled 0 next = RdOk filled.
Proof. destruct fuel; reflexivity. Qed.

Lemma result_of_buffer b : (length b <= PATH_MAX)%nat ->
  (if Nat.ltb (length (pad b PATH_MAX)) (clen true (pad b PATH_MAX)) then GsPanic
   else GsStr (firstn (clen true (pad b PATH_MAX)) (pad b PATH_MAX))) = GsStr (until_null (pad b PATH_MAX)).
Proof.
  intros Hb. pose proof (clen_fixed_le (pad b PATH_MAX)) as Hc. apply Nat.ltb_ge in Hc. rewrite Hc.
  rewrite firstn_until_null. reflexivity.
Qed.

Lemma until_null_pad_nonull g cap : has_null g = false -> until_null (pad g cap) = g.
Proof. intros H. destruct (until_null_pad g cap) as [E|[_ E]]; rewrite E; [apply until_null_nonull_id; exact H|reflexivity]. Qed.

Theorem getstring_spec m addr : get_string true m addr = GsStr (spec_string m addr).
Proof.
  unfold get_string, spec_string.
  pose proof (N.mod_lt addr PAGE ltac:(discriminate)) as Hmod.
  set (y := addr mod PAGE) in *.
  set (first := N.to_nat (PAGE - y)).
  assert (1 <= first <= 4096)%nat as Hfirst by (unfold first, PAGE in *; lia).
  set (rest := (PATH_MAX - first)%nat).
  assert (PATH_MAX = first + rest)%nat as Hsplit by (unfold rest, PATH_MAX; lia).
  destruct (page_run m first addr ltac:(fold y; unfold first, PAGE in *; lia)) as [R1 R0].
  assert (vm_read m addr PATH_MAX =
          if Nat.eqb (length (vm_read m addr first)) first
          then vm_read m addr first ++ vm_read m (addr + N.of_nat first) rest
          else vm_read m addr first) as Hview by (rewrite Hsplit at 1; apply vm_read_split).
  rewrite vrs_step by (unfold PATH_MAX; lia). cbv zeta. cbn [length N.of_nat app]. rewrite N.add_0_r.
  replace (Nat.min first PATH_MAX) with first by (unfold PATH_MAX; lia).
  assert (Nat.ltb PATH_MAX first = false) as -> by (apply Nat.ltb_ge; unfold PATH_MAX; lia).
  assert (Nat.ltb 0 first = true) as -> by (apply Nat.ltb_lt; lia).
  destruct (readable m addr) eqn:Er; cbn [negb andb].
  2:{ assert (vm_read m addr PATH_MAX = []) as Hv.
      { rewrite Hview, (R0 eq_refl). simpl length. assert (Nat.eqb 0 first = false) as -> by (apply Nat.eqb_neq; lia). reflexivity. }
      unfold peek_fill. rewrite Hv. rewrite result_of_buffer by (simpl; lia).
      f_equal. }
  specialize (R1 eq_refl). rewrite Hview, R1, Nat.eqb_refl.
  set (g1 := vm_read m addr first) in *.
  assert (Nat.eqb first 0 = false) as -> by (apply Nat.eqb_neq; lia).
  destruct (has_null g1) eqn:En1.
  { rewrite result_of_buffer by (rewrite R1; unfold PATH_MAX; lia). f_equal.
    destruct (until_null_pad g1 PATH_MAX) as [H|[H _]]; [|congruence]. rewrite H.
    symmetry. apply until_null_app_null. exact En1. }
  fold rest.
  destruct (Nat.eq_dec rest 0) as [Hr0|Hr0].
  { rewrite Hr0, vrs_zero. rewrite result_of_buffer by (rewrite R1; unfold PATH_MAX; lia).
    simpl vm_read. rewrite app_nil_r. f_equal. rewrite until_null_pad_nonull by exact En1.
    symmetry. apply until_null_nonull_id. exact En1. }
  rewrite vrs_step by exact Hr0. cbv zeta.
  replace (Nat.min (N.to_nat PAGE) rest) with rest by (unfold rest, PAGE, PATH_MAX in *; lia).
  rewrite Nat.ltb_irrefl.
  assert (Nat.ltb 0 rest = true) as -> by (apply Nat.ltb_lt; lia).
  rewrite R1.
  assert ((addr + N.of_nat first) mod PAGE = 0) as Hal.
  { unfold first. rewrite N2Nat.id.
    pose proof (N.div_mod addr PAGE ltac:(discriminate)) as Hd. fold y in Hd.
    replace (addr + (PAGE - y)) with (PAGE * (addr / PAGE + 1) + 0) by (unfold PAGE in *; lia).
    symmetry. apply (N.mod_unique _ PAGE (addr / PAGE + 1) 0); [reflexivity|lia]. }
  destruct (page_run m rest (addr + N.of_nat first) ltac:(rewrite Hal; unfold rest, PAGE, PATH_MAX in *; lia)) as [S1 S0].
  destruct (readable m (addr + N.of_nat first)) eqn:Er2; cbn [negb andb].
  2:{ assert (vm_read m addr PATH_MAX = g1) as Hv by (rewrite Hview, R1, Nat.eqb_refl, (S0 eq_refl), app_nil_r; reflexivity).
      unfold peek_fill. rewrite Hv, (S0 eq_refl), app_nil_r.
      rewrite result_of_buffer by (rewrite R1; unfold PATH_MAX; lia). f_equal.
      rewrite until_null_pad_nonull by exact En1. symmetry. apply until_null_nonull_id. exact En1. }
  specialize (S1 eq_refl). set (g2 := vm_read m (addr + N.of_nat first) rest) in *.
  assert (Nat.eqb (length g2) 0 = false) as -> by (apply Nat.eqb_neq; lia).
  assert (length (g1 ++ g2) = PATH_MAX) as Hfull by (rewrite app_length, S1, R1; lia).
  assert (pad (g1 ++ g2) PATH_MAX = g1 ++ g2) as Hpad.
  { unfold pad. rewrite Hfull, Nat.sub_diag. simpl. apply app_nil_r. }
  destruct (has_null g2).
  - rewrite result_of_buffer by lia. rewrite Hpad. reflexivity.
  - replace (rest - length g2)%nat with 0%nat by lia. rewrite vrs_zero.
    rewrite result_of_buffer by lia. rewrite Hpad. reflexivity.
Qed.

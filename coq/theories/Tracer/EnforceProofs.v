From Coq Require Import List Bool Arith NArith ZArith Lia.
From GS Require Import Verdict.Status Verdict.StatusProofs Tracer.Enforce.
Import ListNotations.

Ltac ws_eval :=
  repeat match goal with
         | |- context [?f (ws_of_stop ?a ?b)] =>
             let v := eval vm_compute in (f (ws_of_stop a b)) in change (f (ws_of_stop a b)) with v
         end.

Lemma ws_exited_exit c : ws_exited (ws_of_exit c) = true.
Proof.
  unfold ws_exited, ws_of_exit. apply N.eqb_eq. change 127%N with (N.ones 7). rewrite N.land_ones, N.shiftl_mul_pow2.
  change (2 ^ 8)%N with (2 * 2 ^ 7)%N. rewrite N.mul_assoc. apply N.mod_mul. discriminate.
Qed.

(** what [handle] does at each kind of stop of the model, once the target has been exec'ed *)
Definition pre_of (st : hstate) (pid : Z) : list preq := if zmem pid (h_traced st) then [] else [ReqSetOptions].

Lemma handle_sec st pgid pid tr : h_execved st = true ->
  let o := handle st pgid pid (ws_of_stop 5 7) SoOk tr in
  h_execved (o_state o) = true /\
  match tr with
  | TrOk | TrGone => o_reqs o = pre_of st pid ++ [ReqHandleTrap; ReqCont 0] /\ o_status o = Normal /\ o_finished o = false
  | TrKill | TrErr => o_reqs o = pre_of st pid ++ [ReqHandleTrap] /\ o_status o = Disallowed /\ o_finished o = false
  end.
Proof.
  intros He. cbv zeta. unfold handle, pre_of. ws_eval. cbv iota beta.
  destruct (zmem pid (h_traced st)); simpl; rewrite ?He; destruct tr; simpl; rewrite ?He; auto.
Qed.

Lemma handle_ev st pgid pid k tr : h_execved st = true ->
  let o := handle st pgid pid (ws_of_stop 5 (cause_of k)) SoOk tr in
  h_execved (o_state o) = true /\ o_reqs o = pre_of st pid ++ [ReqCont 0] /\ o_status o = Normal /\ o_finished o = false.
Proof.
  intros He. cbv zeta. unfold handle, pre_of.
  destruct k; cbn [cause_of]; ws_eval; cbv iota beta; destruct (zmem pid (h_traced st)); simpl; rewrite ?He; auto.
Qed.

Lemma handle_init st pgid pid tr : h_execved st = true ->
  let o := handle st pgid pid (ws_of_stop 19 0) SoOk tr in
  h_execved (o_state o) = true /\ o_reqs o = pre_of st pid ++ [ReqCont 19] /\ o_status o = Normal /\ o_finished o = false.
Proof.
  intros He. cbv zeta. unfold handle, pre_of. ws_eval. cbv iota beta.
  destruct (zmem pid (h_traced st)); simpl; rewrite ?He; auto.
Qed.

Lemma handle_exit st pgid pid c tr : h_execved st = true ->
  let o := handle st pgid pid (ws_of_exit c) SoOk tr in
  h_execved (o_state o) = true /\ o_reqs o = [] /\ o_status o <> Disallowed.
Proof.
  intros He. cbv zeta. unfold handle. rewrite ws_exited_exit, He.
  destruct (pid =? pgid)%Z; simpl; [destruct (ws_exit_status (ws_of_exit c) =? 0)%Z|]; simpl; repeat split; auto; discriminate.
Qed.

Lemma handle_sig st pgid pid sg tr : h_execved st = true -> (1 <= sg)%N -> (sg < 128)%N ->
  let o := handle st pgid pid (ws_of_stop sg 0) SoOk tr in
  h_execved (o_state o) = true /\ o_finished o = false /\
  ((o_status o = Normal /\ exists s, o_reqs o = pre_of st pid ++ [ReqCont s]) \/
   ((o_status o = TimeLimit \/ o_status o = OutputLimit) /\ o_reqs o = pre_of st pid)).
Proof.
  intros He H1 H2. cbv zeta. destruct (decode_stop sg 0 H2 ltac:(lia)) as [E1 [E2 [E3 [E4 E5]]]].
  unfold handle, pre_of. rewrite E1, E2, E3, E4.
  assert (forall (P : Prop), P -> P) as K by auto.
  destruct (zmem pid (h_traced st)); cbn [negb andb app];
    (destruct (Z.of_N sg =? SIGTRAP)%Z eqn:Et;
     [apply Z.eqb_eq in Et; unfold SIGTRAP in Et; assert (sg = 5%N) as Hs by lia; rewrite (E5 Hs)
     |destruct (Z.of_N sg =? SIGXCPU)%Z; [|destruct (Z.of_N sg =? SIGXFSZ)%Z]]);
    simpl; rewrite ?He; simpl; rewrite ?He;
    (split; [first [reflexivity|exact He]|split; [reflexivity|]]);
    first [left; split; [reflexivity|eexists; reflexivity] | right; split; [auto|reflexivity]].
Qed.

(** ** tasks *)
Lemma find_in pid ts t : find_task pid ts = Some t -> In t ts /\ t_pid t = pid.
Proof. unfold find_task. intros H. apply find_some in H. destruct H as [H1 H2]. split; [exact H1|]. apply Z.eqb_eq. exact H2. Qed.

Lemma in_upd pid f ts t' : In t' (upd pid f ts) -> exists t, In t ts /\ ((t' = t /\ t_pid t <> pid) \/ (t' = f t /\ t_pid t = pid)).
Proof.
  unfold upd. intros H. apply in_map_iff in H. destruct H as [t [E Hin]]. exists t. split; [exact Hin|].
  destruct (t_pid t =? pid)%Z eqn:Ep; [right; split; [auto|apply Z.eqb_eq; exact Ep]|left; split; [auto|apply Z.eqb_neq; exact Ep]].
Qed.

Lemma find_upd pid f ts t : (forall x, t_pid (f x) = t_pid x) -> find_task pid ts = Some t -> find_task pid (upd pid f ts) = Some (f t).
Proof.
  intros Hf. unfold find_task, upd. induction ts as [|x r IH]; simpl; [discriminate|].
  destruct (t_pid x =? pid)%Z eqn:E.
  - intros H. injection H as <-. rewrite Hf, E. reflexivity.
  - rewrite E. exact IH.
Qed.

Lemma upd_id pid f ts : (forall t, In t ts -> f t = t) -> upd pid f ts = ts.
Proof.
  intros H. unfold upd. induction ts as [|x r IH]; simpl; [reflexivity|].
  rewrite IH by (intros t Ht; apply H; right; exact Ht).
  destruct (t_pid x =? pid)%Z; [rewrite H by (left; reflexivity)|]; reflexivity.
Qed.

Definition tasks_ok (ts : list task) : Prop := forall t, In t ts -> t_skip t = None /\ t_opts t = true.

Lemma tasks_ok_upd pid f ts : tasks_ok ts -> (forall t, t_skip t = None /\ t_opts t = true -> t_skip (f t) = None /\ t_opts (f t) = true) -> tasks_ok (upd pid f ts).
Proof.
  intros H Hf t' Hin. apply in_upd in Hin. destruct Hin as [t [Hin [[-> _]|[-> _]]]]; [apply H; exact Hin|]. apply Hf. apply H. exact Hin.
Qed.

Lemma with_tasks_same w : with_tasks w (w_tasks w) = w.
Proof. destruct w; reflexivity. Qed.

Section Proofs.
Variable decide : Z -> nat -> dec.
Variable pgid : Z.

Record Inv (w : world) : Prop := {
  i_exec : forall p i, In (p, i) (w_exec w) -> decide p i = Allow;
  i_ret : forall p i r, In (p, i, r) (w_ret w) -> decide p i = Ban /\ r = (- BanRet)%Z;
  i_tasks : tasks_ok (w_tasks w);
  i_execved : h_execved (w_tr w) = true;
  i_dec : forall p i d, In (p, i, d) (w_dec w) ->
          d = decide p i /\ (d = Allow -> In (p, i) (w_exec w)) /\ (d = Ban -> In (p, i, (- BanRet)%Z) (w_ret w)) /\
          (d = Kill -> w_done w = Some Disallowed);
  i_done : forall s, w_done w = Some s -> forall t, In t (w_tasks w) -> t_st t = Gone }.

Lemma inv_init : Inv (init pgid).
Proof.
  constructor; simpl; try contradiction; try reflexivity; try discriminate.
  intros t [<-|[]]. simpl. auto.
Qed.

(** the optional PTRACE_SETOPTIONS in front changes nothing: the options are already in force *)
Lemma apply_pre w pid st : tasks_ok (w_tasks w) -> fold_left (apply_req decide pid) (pre_of st pid) w = w.
Proof.
  intros Hok. unfold pre_of. destruct (zmem pid (h_traced st)); simpl; [reflexivity|].
  unfold apply_req. destruct (find_task pid (w_tasks w)) as [t0|]; [|reflexivity].
  rewrite upd_id; [apply with_tasks_same|]. intros t Ht. destruct (Hok t Ht) as [_ Ho]. destruct t; simpl in *. subst. reflexivity.
Qed.

Lemma setters_ok_run t : t_skip t = None /\ t_opts t = true -> t_skip (set_run t) = None /\ t_opts (set_run t) = true.
Proof. simpl. tauto. Qed.
Lemma setters_ok_st s t : t_skip t = None /\ t_opts t = true -> t_skip (set_st s t) = None /\ t_opts (set_st s t) = true.
Proof. simpl. tauto. Qed.
Lemma setters_ok_gone t : t_skip t = None /\ t_opts t = true -> t_skip (set_gone t) = None /\ t_opts (set_gone t) = true.
Proof. simpl. tauto. Qed.

Lemma gone_all ts t : In t (map set_gone ts) -> t_st t = Gone /\ t_skip t = None.
Proof. intros H. apply in_map_iff in H. destruct H as [x [<- _]]. simpl. auto. Qed.

Lemma tasks_ok_gone ts : (forall t, In t ts -> t_opts t = true) -> tasks_ok (map set_gone ts).
Proof. intros H t Hin. apply in_map_iff in Hin. destruct Hin as [x [<- Hx]]. simpl. split; [reflexivity|apply H; exact Hx]. Qed.

Lemma apply_trap w pid t id : find_task pid (w_tasks w) = Some t -> t_st t = SecStop id ->
  apply_req decide pid w ReqHandleTrap =
  {| w_tasks := match decide pid id with Ban => upd pid (set_skip (- BanRet)) (w_tasks w) | _ => w_tasks w end;
     w_tr := w_tr w; w_done := w_done w; w_exec := w_exec w; w_ret := w_ret w; w_dec := (pid, id, decide pid id) :: w_dec w |}.
Proof. intros Hf Hs. unfold apply_req. rewrite Hf, Hs. reflexivity. Qed.

Lemma apply_cont_sec w pid t id sg : find_task pid (w_tasks w) = Some t -> t_st t = SecStop id ->
  apply_req decide pid w (ReqCont sg) =
  {| w_tasks := upd pid set_run (w_tasks w); w_tr := w_tr w; w_done := w_done w;
     w_exec := match t_skip t with None => (pid, id) :: w_exec w | Some _ => w_exec w end;
     w_ret := match t_skip t with None => w_ret w | Some r => (pid, id, r) :: w_ret w end;
     w_dec := w_dec w |}.
Proof. intros Hf Hs. unfold apply_req. rewrite Hf, Hs. reflexivity. Qed.

(** the reaction to a seccomp-stop *)
Lemma step_sec w pid t id : Inv w -> w_done w = None -> find_task pid (w_tasks w) = Some t -> t_st t = SecStop id ->
  Inv (step decide pgid w (TWait pid)).
Proof.
  intros I Hd Hf Hs. destruct (find_in _ _ _ Hf) as [Hin Hp].
  unfold step. rewrite Hd, Hf, Hs. cbn [wstatus_of].
  pose proof (handle_sec (w_tr w) pgid pid (tres_of decide t) (i_execved w I)) as H. cbv zeta in H.
  destruct H as [He H]. unfold tres_of in *. rewrite Hs, Hp in *.
  set (o := handle (w_tr w) pgid pid (ws_of_stop 5 7) SoOk match decide pid id with Kill => TrKill | _ => TrOk end) in *.
  destruct (i_tasks w I t Hin) as [Hskip Hopts].
  destruct (decide pid id) eqn:D; destruct H as [Hr [Hst Hfin]]; rewrite Hr, Hst, Hfin, fold_left_app, (apply_pre w pid _ (i_tasks w I));
    cbn [fold_left]; rewrite (apply_trap w pid t id Hf Hs), D.
  - (* allow *)
    erewrite apply_cont_sec; [|cbn [w_tasks]; exact Hf|exact Hs]. rewrite Hskip. cbn.
    constructor; cbn.
    + intros p i [E|E]; [injection E as <- <-; exact D|apply (i_exec w I); exact E].
    + apply (i_ret w I).
    + apply tasks_ok_upd; [apply (i_tasks w I)|apply setters_ok_run].
    + exact He.
    + intros p i d [E|E].
      * injection E as <- <- <-. repeat split; auto; try discriminate.
      * destruct (i_dec w I p i d E) as [A [B [C K]]]. repeat split; auto.
        intros Hx. rewrite (K Hx) in Hd. discriminate.
    + discriminate.
  - (* ban *)
    erewrite apply_cont_sec; [|cbn [w_tasks]; apply (find_upd pid (set_skip (- BanRet)) (w_tasks w) t (fun x => eq_refl) Hf)|exact Hs]. cbn.
    constructor; cbn.
    + apply (i_exec w I).
    + intros p i r [E|E]; [injection E as <- <- <-; auto|apply (i_ret w I); exact E].
    + intros t' Hin'. apply in_upd in Hin'. destruct Hin' as [t1 [Hin1 [[-> Hn]|[-> Hy]]]].
      * apply in_upd in Hin1. destruct Hin1 as [t2 [Hin2 [[-> _]|[-> Hy2]]]]; [apply (i_tasks w I); exact Hin2|].
        exfalso. apply Hn. exact Hy2.
      * apply in_upd in Hin1. destruct Hin1 as [t2 [Hin2 [[-> _]|[-> _]]]]; simpl; split; auto; apply (i_tasks w I); exact Hin2.
    + exact He.
    + intros p i d [E|E].
      * injection E as <- <- <-. repeat split; auto; try discriminate.
      * destruct (i_dec w I p i d E) as [A [B [C K]]]. repeat split; auto.
        intros Hx. rewrite (K Hx) in Hd. discriminate.
    + discriminate.
  - (* kill *)
    cbn.
    constructor; cbn.
    + apply (i_exec w I).
    + apply (i_ret w I).
    + apply tasks_ok_gone. intros x Hx. apply (i_tasks w I). exact Hx.
    + exact He.
    + intros p i d [E|E].
      * injection E as <- <- <-. repeat split; auto; discriminate.
      * destruct (i_dec w I p i d E) as [A [B [C K]]]. repeat split; auto.
    + intros s _ x Hx. apply gone_all in Hx. tauto.
Qed.

Lemma inv_dec_keep w (I : Inv w) (Hd : w_done w = None) ex rt dn :
  (forall x, In x (w_exec w) -> In x ex) -> (forall x, In x (w_ret w) -> In x rt) ->
  forall p i d, In (p, i, d) (w_dec w) ->
    d = decide p i /\ (d = Allow -> In (p, i) ex) /\ (d = Ban -> In (p, i, (- BanRet)%Z) rt) /\ (d = Kill -> dn = Some Disallowed).
Proof.
  intros H1 H2 p i d E. destruct (i_dec w I p i d E) as [A [B [C K]]]. repeat split; auto.
  intros Hx. rewrite (K Hx) in Hd. discriminate.
Qed.

Lemma apply_cont_other w pid t sg : find_task pid (w_tasks w) = Some t -> (t_st t = InitStop \/ (exists c, t_st t = EvStop c) \/ exists g, t_st t = SigStop g) ->
  apply_req decide pid w (ReqCont sg) = with_tasks w (upd pid set_run (w_tasks w)).
Proof. intros Hf [Hs|[[c Hs]|[g Hs]]]; unfold apply_req; rewrite Hf, Hs; reflexivity. Qed.

Lemma step_other w pid t : Inv w -> w_done w = None -> find_task pid (w_tasks w) = Some t ->
  (t_st t = InitStop \/ exists c, t_st t = EvStop c) -> Inv (step decide pgid w (TWait pid)).
Proof.
  intros I Hd Hf Hs. unfold step. rewrite Hd, Hf.
  assert (exists ws sg, wstatus_of (t_st t) = Some ws /\
            let o := handle (w_tr w) pgid pid ws SoOk (tres_of decide t) in
            h_execved (o_state o) = true /\ o_reqs o = pre_of (w_tr w) pid ++ [ReqCont sg] /\ o_status o = Normal /\ o_finished o = false) as [ws [sg [Hw H]]].
  { destruct Hs as [Hs|[c Hs]]; rewrite Hs; cbn [wstatus_of].
    - exists (ws_of_stop 19 0), 19%Z. split; [reflexivity|]. apply handle_init. apply (i_execved w I).
    - exists (ws_of_stop 5 (cause_of c)), 0%Z. split; [reflexivity|]. apply handle_ev. apply (i_execved w I). }
  rewrite Hw. cbv zeta in H. destruct H as [He [Hr [Hst Hfin]]]. rewrite Hr, Hst, Hfin, fold_left_app, (apply_pre w pid _ (i_tasks w I)).
  cbn [fold_left]. rewrite (apply_cont_other w pid t sg Hf) by (destruct Hs as [Hs|[c Hs]]; eauto).
  assert (match t_st t with Zombie _ => upd pid set_gone (w_tasks (with_tasks w (upd pid set_run (w_tasks w)))) | _ => w_tasks (with_tasks w (upd pid set_run (w_tasks w))) end
          = upd pid set_run (w_tasks w)) as -> by (destruct Hs as [Hs|[c Hs]]; rewrite Hs; reflexivity).
  cbn. constructor; cbn.
  - apply (i_exec w I).
  - apply (i_ret w I).
  - apply tasks_ok_upd; [apply (i_tasks w I)|apply setters_ok_run].
  - exact He.
  - apply (inv_dec_keep w I Hd); auto.
  - discriminate.
Qed.

Lemma step_sig w pid t g : Inv w -> w_done w = None -> find_task pid (w_tasks w) = Some t -> t_st t = SigStop g -> (1 <= g)%N -> (g < 128)%N ->
  Inv (step decide pgid w (TWait pid)).
Proof.
  intros I Hd Hf Hs G1 G2. unfold step. rewrite Hd, Hf, Hs. cbn [wstatus_of].
  assert ((N.leb 1 g && N.ltb g 128)%bool = true) as -> by (apply andb_true_iff; split; [apply N.leb_le|apply N.ltb_lt]; assumption).
  pose proof (handle_sig (w_tr w) pgid pid g (tres_of decide t) (i_execved w I) G1 G2) as H. cbv zeta in H.
  destruct H as [He [Hfin [[Hst [sg Hr]]|[Hst Hr]]]]; rewrite Hr, Hfin.
  - rewrite Hst, fold_left_app, (apply_pre w pid _ (i_tasks w I)). cbn [fold_left].
    rewrite (apply_cont_other w pid t sg Hf) by eauto.
    cbn. constructor; cbn.
    + apply (i_exec w I).
    + apply (i_ret w I).
    + apply tasks_ok_upd; [apply (i_tasks w I)|apply setters_ok_run].
    + exact He.
    + apply (inv_dec_keep w I Hd); auto.
    + discriminate.
  - rewrite (apply_pre w pid _ (i_tasks w I)).
    assert (orb false (negb (status_code (o_status (handle (w_tr w) pgid pid (ws_of_stop g 0) SoOk (tres_of decide t))) =? 1)%N) = true) as -> by (destruct Hst as [-> | ->]; reflexivity).
    constructor; cbn.
    + apply (i_exec w I).
    + apply (i_ret w I).
    + apply tasks_ok_gone. intros x Hx. apply (i_tasks w I). exact Hx.
    + exact He.
    + intros p i d E. destruct (i_dec w I p i d E) as [A [B [C K]]]. repeat split; auto. intros Hx. rewrite (K Hx) in Hd. discriminate.
    + intros s _ x Hx. apply gone_all in Hx. tauto.
Qed.

Lemma step_zombie w pid t c : Inv w -> w_done w = None -> find_task pid (w_tasks w) = Some t -> t_st t = Zombie c ->
  Inv (step decide pgid w (TWait pid)).
Proof.
  intros I Hd Hf Hs. unfold step. rewrite Hd, Hf, Hs. cbn [wstatus_of].
  pose proof (handle_exit (w_tr w) pgid pid c (tres_of decide t) (i_execved w I)) as H. cbv zeta in H.
  destruct H as [He [Hr Hn]]. rewrite Hr. cbn [fold_left].
  destruct (o_finished _ || negb (status_code _ =? 1)%N); constructor; cbn; try apply (i_exec w I); try apply (i_ret w I); try exact He;
    try (apply (inv_dec_keep w I Hd); auto); try discriminate.
  - apply tasks_ok_gone. intros x Hx. apply in_upd in Hx. destruct Hx as [y [Hy [[-> _]|[-> _]]]]; simpl; apply (i_tasks w I); exact Hy.
  - intros s _ x Hx. apply gone_all in Hx. tauto.
  - apply tasks_ok_upd; [apply (i_tasks w I)|apply setters_ok_gone].
Qed.

Theorem step_inv w e : Inv w -> Inv (step decide pgid w e).
Proof.
  intros I. destruct (w_done w) eqn:Hd; [unfold step; rewrite Hd; exact I|].
  assert (forall ts, tasks_ok ts -> Inv (with_tasks w ts)) as Hwt.
  { intros ts Hts. constructor; cbn; try apply I. - exact Hts. - rewrite Hd. discriminate. }
  destruct e as [pid id|pid child k|pid code|pid sg|pid].
  - unfold step. rewrite Hd. destruct (find_task pid (w_tasks w)) as [t|] eqn:Hf; [|exact I].
    destruct (t_st t) eqn:Hs; try exact I. destruct (find_in _ _ _ Hf) as [Hin _]. destruct (i_tasks w I t Hin) as [_ Ho]. rewrite Ho.
    apply Hwt. apply tasks_ok_upd; [apply (i_tasks w I)|apply setters_ok_st].
  - unfold step. rewrite Hd. destruct (find_task pid (w_tasks w)) as [t|] eqn:Hf; [|exact I].
    destruct (find_task child (w_tasks w)); [exact I|].
    destruct (t_st t) eqn:Hs; try exact I. destruct (find_in _ _ _ Hf) as [Hin _]. destruct (i_tasks w I t Hin) as [_ Ho]. rewrite Ho.
    apply Hwt. intros x [<-|Hx]; [simpl; auto|]. revert x Hx. apply tasks_ok_upd; [apply (i_tasks w I)|apply setters_ok_st].
  - unfold step. rewrite Hd. destruct (find_task pid (w_tasks w)) as [t|] eqn:Hf; [|exact I].
    destruct (t_st t) eqn:Hs; try exact I.
    apply Hwt. apply tasks_ok_upd; [apply (i_tasks w I)|apply setters_ok_st].
  - unfold step. rewrite Hd. destruct (find_task pid (w_tasks w)) as [t|] eqn:Hf; [|exact I].
    destruct (t_st t) eqn:Hs; try exact I. destruct (_ && _)%bool; [|exact I].
    apply Hwt. apply tasks_ok_upd; [apply (i_tasks w I)|apply setters_ok_st].
  - destruct (find_task pid (w_tasks w)) as [t|] eqn:Hf; [|unfold step; rewrite Hd, Hf; exact I].
    destruct (t_st t) as [|id|c| |g|c|] eqn:Hs.
    + unfold step. rewrite Hd, Hf, Hs. exact I.
    + eapply step_sec; eauto.
    + eapply step_other; eauto.
    + eapply step_other; eauto.
    + (* a signal stop exists only for signals 1..127 *)
      destruct (N.leb 1 g && N.ltb g 128)%bool eqn:Eg.
      * apply andb_true_iff in Eg. destruct Eg as [G1 G2]. apply N.leb_le in G1. apply N.ltb_lt in G2. eapply step_sig; eauto.
      * unfold step. rewrite Hd, Hf, Hs. cbn [wstatus_of]. rewrite Eg. exact I.
    + eapply step_zombie; eauto.
    + unfold step. rewrite Hd, Hf, Hs. exact I.
Qed.

Theorem run_inv : forall evs w, Inv w -> Inv (run decide pgid w evs).
Proof. induction evs as [|e r IH]; intros w I; simpl; [exact I|]. apply IH. apply step_inv. exact I. Qed.

Theorem enforced : forall evs, let w := run decide pgid (init pgid) evs in
  (forall p i, In (p, i) (w_exec w) -> decide p i = Allow) /\
  (forall p i r, In (p, i, r) (w_ret w) -> decide p i = Ban /\ r = (- BanRet)%Z) /\
  (forall p i, In (p, i, Allow) (w_dec w) -> In (p, i) (w_exec w)) /\
  (forall p i, In (p, i, Ban) (w_dec w) -> In (p, i, (- BanRet)%Z) (w_ret w) /\ ~ In (p, i) (w_exec w)) /\
  (forall p i, In (p, i, Kill) (w_dec w) -> w_done w = Some Disallowed /\ ~ In (p, i) (w_exec w) /\ forall t, In t (w_tasks w) -> t_st t = Gone) /\
  (forall t, In t (w_tasks w) -> t_opts t = true).
Proof.
  intros evs w. pose proof (run_inv evs (init pgid) inv_init) as I. fold w in I.
  split; [apply (i_exec w I)|]. split; [apply (i_ret w I)|].
  split. { intros p i H. destruct (i_dec w I p i Allow H) as [_ [A _]]. auto. }
  split. { intros p i H. destruct (i_dec w I p i Ban H) as [E [_ [B _]]]. split; [auto|]. intros Hx. rewrite (i_exec w I p i Hx) in E. discriminate. }
  split. { intros p i H. destruct (i_dec w I p i Kill H) as [E [_ [_ K]]]. split; [auto|]. split.
           - intros Hx. rewrite (i_exec w I p i Hx) in E. discriminate.
           - apply (i_done w I Disallowed). auto. }
  intros t Ht. apply (i_tasks w I t Ht).
Qed.
End Proofs.

(** non-vacuity: a program that forks; the child's first traced call is banned, its second allowed, the parent's is killed *)
Definition demo_decide (p : Z) (i : nat) : dec := match i with 1%nat => Ban | 2%nat => Allow | _ => Kill end.
Definition demo_events : list event :=
  [PFork 100 101 KVfork; TWait 100; TWait 101; PSys 101 1%nat; TWait 101; PSys 101 2%nat; PSys 100 3%nat; TWait 101; TWait 100; PSys 101 4%nat].
Example demo_run : let w := run demo_decide 100 (init 100) demo_events in
  w_exec w = [(101%Z, 2%nat)] /\ w_ret w = [(101%Z, 1%nat, (-13)%Z)] /\ w_done w = Some Disallowed /\
  w_dec w = [(100%Z, 3%nat, Kill); (101%Z, 2%nat, Allow); (101%Z, 1%nat, Ban)].
Proof. vm_compute. repeat split; reflexivity. Qed.

(** The launch of a traced program and the death of its tracer: child (forkAndExecInChild with
    Ptrace) || tracer (Tracer.trace: first wait4, PTRACE_SETOPTIONS with PTRACE_O_EXITKILL,
    PTRACE_CONT) || the kernel's rules for a tracee whose tracer dies:
      - a task that asked for a parent-death signal (SIGKILL) or carries PTRACE_O_EXITKILL is killed;
      - otherwise it is detached: a ptrace-stop whose report was consumed by wait4 is simply left
        (the task runs on), an unconsumed SIGSTOP stop becomes a plain stop.
    [armed] says whether the child asks for the parent-death signal before it stops for the tracer
    (it does since the repair; the pinned tree did not). *)
From Coq Require Import List Bool.
Import ListNotations.

Inductive cst := CInit | CEarly | CCred | CArmed | CStopped | CResumed | CProgram | CParked | CDead.
(** how the child goes about it: [Unarmed] = the pinned sequence; [ArmLate] = the repaired one (the request follows the change of
    ids); [ArmEarly] = the request first, the change of ids after it (the kernel clears the request when the ids change);
    [ArmLateOrphanIdiom] = as [ArmLate], but the test for a launcher that is gone already is the orphan idiom "getppid() == 1" in a process
    tree with a child subreaper among the ancestors: the orphan's new parent is not pid 1 and the test does not notice *)
Inductive mode := Unarmed | ArmLate | ArmEarly | ArmLateOrphanIdiom.
Inductive tst := TStart | TWaited | TOptSet | TRunning | TDead.

Record ls := { l_c : cst; l_t : tst; l_pdeath : bool; l_exitkill : bool; l_waited : bool }.

Definition linit : ls := {| l_c := CInit; l_t := TStart; l_pdeath := false; l_exitkill := false; l_waited := false |}.

Definition w_c s c := {| l_c := c; l_t := l_t s; l_pdeath := l_pdeath s; l_exitkill := l_exitkill s; l_waited := l_waited s |}.

Definition t_dead s := match l_t s with TDead => true | _ => false end.

(** the child's own moves: [CInit] the clone has returned; the ids are changed (setgroups / setgid / setuid of the Credential), which
    clears a parent-death signal asked for before; [CCred] ids changed *)
Definition child_steps (m : mode) (s : ls) : list ls :=
  let notices := match m with ArmLateOrphanIdiom => false | _ => true end in
  let arm c := if t_dead s && notices then [w_c s CDead]     (* prctl(PR_SET_PDEATHSIG, SIGKILL), then getppid: a launcher that is gone already is noticed *)
               else [{| l_c := c; l_t := l_t s; l_pdeath := true; l_exitkill := l_exitkill s; l_waited := l_waited s |}] in
  let stop := if t_dead s then [w_c s CParked] else [w_c s CStopped] in            (* PTRACE_TRACEME, kill(self, SIGSTOP) *)
  match l_c s with
  | CInit => match m with
             | ArmEarly => arm CEarly
             | _ => [w_c s CCred]
             end
  | CEarly => [{| l_c := CArmed; l_t := l_t s; l_pdeath := false; l_exitkill := l_exitkill s; l_waited := l_waited s |}]   (* the ids change: request cleared *)
  | CCred => match m with
             | ArmLate | ArmLateOrphanIdiom => arm CArmed
             | _ => stop
             end
  | CArmed => stop
  | CResumed => [w_c s CProgram]          (* filter, execve: the program's code *)
  | _ => []
  end.

(** the tracer's moves *)
Definition tracer_steps (s : ls) : list ls :=
  match l_t s, l_c s with
  | TStart, CStopped => if l_waited s then [] else
      [{| l_c := CStopped; l_t := TWaited; l_pdeath := l_pdeath s; l_exitkill := l_exitkill s; l_waited := true |}]
  | TWaited, CStopped => [{| l_c := CStopped; l_t := TOptSet; l_pdeath := l_pdeath s; l_exitkill := true; l_waited := true |}]
  | TOptSet, CStopped => [{| l_c := CResumed; l_t := TRunning; l_pdeath := l_pdeath s; l_exitkill := l_exitkill s; l_waited := true |}]
  | _, _ => []
  end.

(** SIGKILL of the tracing process, at any moment *)
Definition death (s : ls) : list ls :=
  if t_dead s then [] else
  let c' := match l_c s with
            | CDead => CDead
            | c => if l_pdeath s || l_exitkill s then CDead
                   else match c with
                        | CStopped => if l_waited s then CResumed else CParked
                        | c0 => c0
                        end
            end in
  [{| l_c := c'; l_t := TDead; l_pdeath := l_pdeath s; l_exitkill := l_exitkill s; l_waited := l_waited s |}].

Definition lnext (m : mode) (s : ls) : list ls := child_steps m s ++ tracer_steps s ++ death s.

Inductive lreach (m : mode) : ls -> Prop :=
| lr_init : lreach m linit
| lr_step s s' : lreach m s -> In s' (lnext m s) -> lreach m s'.

(** with the tracer dead the child is dead, or is still the launcher's own code on its way to noticing *)
Definition linv (s : ls) : bool :=
  (if t_dead s then match l_c s with CDead | CInit | CCred => true | _ => false end else true) &&
  (match l_c s with CArmed | CStopped | CResumed | CProgram => l_pdeath s || l_exitkill s | CParked | CEarly => false | _ => true end).

Lemma linv_step s : linv s = true -> forallb linv (lnext ArmLate s) = true.
Proof. destruct s as [c t p e w]. destruct c, t, p, e, w; intros H; try discriminate H; reflexivity. Qed.

Lemma linv_reach s : lreach ArmLate s -> linv s = true.
Proof.
  induction 1 as [|s s' Hr IH Hin]; [reflexivity|].
  pose proof (linv_step s IH) as H. rewrite forallb_forall in H. apply H. exact Hin.
Qed.

Theorem armed_supervised s : lreach ArmLate s ->
  (l_c s = CProgram -> l_t s <> TDead) /\
  (l_t s = TDead -> l_c s = CDead \/ l_c s = CInit \/ (l_c s = CCred /\ child_steps ArmLate s = [w_c s CDead])) /\
  l_c s <> CParked.
Proof.
  intros Hr. pose proof (linv_reach s Hr) as H. destruct s as [c t p e w].
  destruct c, t, p, e, w; try discriminate H; cbn; repeat split; try discriminate; auto; intros E; try discriminate E.
Qed.

(** the pinned sequence (no parent-death signal): a tracer killed between its first wait4 and
    PTRACE_SETOPTIONS leaves the program running with nobody supervising it, and one killed before
    the first wait4 leaves the child behind, stopped *)
Theorem unarmed_refuted :
  (exists s, lreach Unarmed s /\ l_t s = TDead /\ l_c s = CProgram) /\
  (exists s, lreach Unarmed s /\ l_t s = TDead /\ l_c s = CParked).
Proof.
  set (s0 := w_c linit CCred).
  set (s1 := w_c linit CStopped).
  set (s2 := {| l_c := CStopped; l_t := TWaited; l_pdeath := false; l_exitkill := false; l_waited := true |}).
  set (s3 := {| l_c := CResumed; l_t := TDead; l_pdeath := false; l_exitkill := false; l_waited := true |}).
  set (s4 := w_c s3 CProgram).
  set (s5 := {| l_c := CParked; l_t := TDead; l_pdeath := false; l_exitkill := false; l_waited := false |}).
  assert (R0 : lreach Unarmed s0) by (apply (lr_step Unarmed linit); [constructor|cbn; auto]).
  assert (R1 : lreach Unarmed s1) by (apply (lr_step Unarmed s0); [exact R0|cbn; auto]).
  assert (R2 : lreach Unarmed s2) by (apply (lr_step Unarmed s1); [exact R1|cbn; auto]).
  assert (R3 : lreach Unarmed s3) by (apply (lr_step Unarmed s2); [exact R2|cbn; auto]).
  assert (R4 : lreach Unarmed s4) by (apply (lr_step Unarmed s3); [exact R3|cbn; auto]).
  assert (R5 : lreach Unarmed s5) by (apply (lr_step Unarmed s1); [exact R1|cbn; auto]).
  split; [exists s4|exists s5]; repeat split; assumption.
Qed.

(** asking for the signal BEFORE the ids are changed does not help: the change of ids clears the request *)
Theorem arm_early_refuted : exists s, lreach ArmEarly s /\ l_t s = TDead /\ l_c s = CProgram.
Proof.
  set (e1 := {| l_c := CEarly; l_t := TStart; l_pdeath := true; l_exitkill := false; l_waited := false |}).
  set (e2 := {| l_c := CArmed; l_t := TStart; l_pdeath := false; l_exitkill := false; l_waited := false |}).
  set (e3 := w_c e2 CStopped).
  set (e4 := {| l_c := CStopped; l_t := TWaited; l_pdeath := false; l_exitkill := false; l_waited := true |}).
  set (e5 := {| l_c := CResumed; l_t := TDead; l_pdeath := false; l_exitkill := false; l_waited := true |}).
  set (e6 := w_c e5 CProgram).
  assert (R1 : lreach ArmEarly e1) by (apply (lr_step ArmEarly linit); [constructor|cbn; auto]).
  assert (R2 : lreach ArmEarly e2) by (apply (lr_step ArmEarly e1); [exact R1|cbn; auto]).
  assert (R3 : lreach ArmEarly e3) by (apply (lr_step ArmEarly e2); [exact R2|cbn; auto]).
  assert (R4 : lreach ArmEarly e4) by (apply (lr_step ArmEarly e3); [exact R3|cbn; auto]).
  assert (R5 : lreach ArmEarly e5) by (apply (lr_step ArmEarly e4); [exact R4|cbn; auto]).
  assert (R6 : lreach ArmEarly e6) by (apply (lr_step ArmEarly e5); [exact R5|cbn; auto]).
  exists e6. repeat split; assumption.
Qed.

(** the orphan idiom under a child subreaper: a launcher killed while the child is still setting up is not noticed; the request for
    the parent-death signal comes too late (the parent is already gone), and the child stops for a tracer that will never come *)
Theorem orphan_idiom_refuted : exists s, lreach ArmLateOrphanIdiom s /\ l_t s = TDead /\ l_c s = CParked.
Proof.
  set (o0 := w_c linit CCred).
  set (o1 := {| l_c := CCred; l_t := TDead; l_pdeath := false; l_exitkill := false; l_waited := false |}).
  set (o2 := {| l_c := CArmed; l_t := TDead; l_pdeath := true; l_exitkill := false; l_waited := false |}).
  set (o3 := w_c o2 CParked).
  assert (R0 : lreach ArmLateOrphanIdiom o0) by (apply (lr_step _ linit); [constructor|cbn; auto]).
  assert (R1 : lreach ArmLateOrphanIdiom o1) by (apply (lr_step _ o0); [exact R0|cbn; auto]).
  assert (R2 : lreach ArmLateOrphanIdiom o2) by (apply (lr_step _ o1); [exact R1|cbn; auto]).
  assert (R3 : lreach ArmLateOrphanIdiom o3) by (apply (lr_step _ o2); [exact R2|cbn; auto]).
  exists o3. repeat split; assumption.
Qed.

(** * executable prediction for the crash-point runs *)
(** what becomes of the child when the tracer is killed in state [s]: the kill, then the child's own moves (at most three) *)
Fixpoint run_child (m : mode) (fuel : nat) (s : ls) : list cst :=
  match fuel with
  | O => [l_c s]
  | S f => match child_steps m s with
           | [] => [l_c s]
           | l => flat_map (run_child m f) l
           end
  end.
Definition settle (m : mode) (s : ls) : list cst := flat_map (run_child m 4) (death s).

(** the states in which the tracer stands at a step of its launch sequence:
    0 = Start has returned, 1 = the first wait4 has returned, 2 = right before PTRACE_SETOPTIONS,
    3 = options set, 4 = the child was continued *)
Definition states_at (m : mode) (step : nat) : list ls :=
  let mk c t p e w := {| l_c := c; l_t := t; l_pdeath := p; l_exitkill := e; l_waited := w |} in
  let armed := match m with ArmLate | ArmLateOrphanIdiom => true | _ => false end in
  match step with
  | 0 => [mk CInit TStart false false false; mk CCred TStart false false false] ++
         (if armed then [mk CArmed TStart true false false] else []) ++ [mk CStopped TStart armed false false]
  | 1 | 2 => [mk CStopped TWaited armed false true]
  | 3 => [mk CStopped TOptSet armed true true]
  | _ => [mk CResumed TRunning armed true true; mk CProgram TRunning armed true true]
  end.

Definition cst_dead c := match c with CDead => true | _ => false end.

(** (step, nothing of the run was left): the observation must be what the model of the repaired sequence predicts *)
Definition crash_ok (x : nat * bool) : bool :=
  let '(step, all_dead) := x in
  Bool.eqb all_dead (forallb (fun s => forallb cst_dead (settle ArmLate s)) (states_at ArmLate step)).

Example crash_prediction_armed : map (fun k => crash_ok (k, true)) [0; 1; 2; 3; 4] = [true; true; true; true; true].
Proof. reflexivity. Qed.
Example crash_prediction_unarmed :
  map (fun k => forallb (fun s => forallb cst_dead (settle Unarmed s)) (states_at Unarmed k)) [0; 1; 2; 3; 4] = [false; false; false; true; true].
Proof. reflexivity. Qed.

Example crash_prediction_orphan_idiom :
  map (fun k => forallb (fun s => forallb cst_dead (settle ArmLateOrphanIdiom s)) (states_at ArmLateOrphanIdiom k)) [0; 1; 2; 3; 4] = [false; true; true; true; true].
Proof. reflexivity. Qed.

Lemma states_at_reach k s : In s (states_at ArmLate k) -> lreach ArmLate s.
Proof.
  set (a0 := w_c linit CCred).
  set (a1 := {| l_c := CArmed; l_t := TStart; l_pdeath := true; l_exitkill := false; l_waited := false |}).
  set (a2 := {| l_c := CStopped; l_t := TStart; l_pdeath := true; l_exitkill := false; l_waited := false |}).
  set (a3 := {| l_c := CStopped; l_t := TWaited; l_pdeath := true; l_exitkill := false; l_waited := true |}).
  set (a4 := {| l_c := CStopped; l_t := TOptSet; l_pdeath := true; l_exitkill := true; l_waited := true |}).
  set (a5 := {| l_c := CResumed; l_t := TRunning; l_pdeath := true; l_exitkill := true; l_waited := true |}).
  set (a6 := {| l_c := CProgram; l_t := TRunning; l_pdeath := true; l_exitkill := true; l_waited := true |}).
  assert (R0 : lreach ArmLate a0) by (apply (lr_step ArmLate linit); [constructor|cbn; auto]).
  assert (R1 : lreach ArmLate a1) by (apply (lr_step ArmLate a0); [exact R0|cbn; auto]).
  assert (R2 : lreach ArmLate a2) by (apply (lr_step ArmLate a1); [exact R1|cbn; auto]).
  assert (R3 : lreach ArmLate a3) by (apply (lr_step ArmLate a2); [exact R2|cbn; auto]).
  assert (R4 : lreach ArmLate a4) by (apply (lr_step ArmLate a3); [exact R3|cbn; auto]).
  assert (R5 : lreach ArmLate a5) by (apply (lr_step ArmLate a4); [exact R4|cbn; auto]).
  assert (R6 : lreach ArmLate a6) by (apply (lr_step ArmLate a5); [exact R5|cbn; auto]).
  destruct k as [|[|[|[|k]]]]; cbn [states_at app]; intros H; cbn [In] in H;
    repeat (destruct H as [<-|H]; [first [apply lr_init|assumption]|]); contradiction.
Qed.

(** C03: the traced program (any number of tasks, any stream of actions), the kernel's ptrace rules and the
    tracer's [handle] (the function of Verdict/Status.v, the one compared with the code) as one system. *)
From Coq Require Import List Bool Arith NArith ZArith.
From GS Require Import Verdict.Status Verdict.StatusProofs.
Import ListNotations.

Inductive dec := Allow | Ban | Kill.
Definition BanRet : Z := 13.            (* syscall.EACCES *)
Definition ENOSYS : Z := 38.

Inductive fkind := KFork | KVfork | KClone.
Definition cause_of (k : fkind) : N := match k with KFork => 1 | KVfork => 2 | KClone => 3 end.

Inductive tstate :=
| Run
| SecStop (id : nat)        (* seccomp-stop at the entry of the traced syscall instance [id] *)
| EvStop (k : fkind)        (* PTRACE_EVENT_FORK / VFORK / CLONE stop of the parent *)
| InitStop                  (* a new task, attached by the kernel, stopped before its first instruction *)
| SigStop (sig : N)         (* signal-delivery-stop: a signal is about to be delivered to the task *)
| Zombie (code : N)
| Gone.

Record task := { t_pid : Z; t_st : tstate; t_opts : bool; t_skip : option Z }.

Record world := {
  w_tasks : list task;
  w_tr : hstate;                       (* the tracer's execved flag and traced set *)
  w_done : option status;              (* the run has returned with this verdict; everything was killed *)
  w_exec : list (Z * nat);             (* traced syscall instances that executed (with their own arguments) *)
  w_ret : list (Z * nat * Z);          (* instances that did not execute: what the program saw as return value *)
  w_dec : list (Z * nat * dec) }.      (* consultations of the handler *)

Inductive event :=
| PSys (pid : Z) (id : nat)            (* a running task enters a syscall the filter marks as trace *)
| PFork (pid child : Z) (k : fkind)    (* fork / vfork / clone *)
| PExit (pid : Z) (code : N)
| PSignal (pid : Z) (sig : N)          (* a signal (1..127) arrives for a running task: it stops and the tracer is told *)
| TWait (pid : Z).                     (* wait4 reports this task to the tracer, which reacts *)

Definition find_task (pid : Z) (ts : list task) : option task := find (fun t => Z.eqb (t_pid t) pid) ts.
Definition upd (pid : Z) (f : task -> task) (ts : list task) : list task :=
  map (fun t => if Z.eqb (t_pid t) pid then f t else t) ts.
Definition set_st (s : tstate) (t : task) : task := {| t_pid := t_pid t; t_st := s; t_opts := t_opts t; t_skip := t_skip t |}.
Definition set_run (t : task) : task := {| t_pid := t_pid t; t_st := Run; t_opts := t_opts t; t_skip := None |}.
Definition set_opts (t : task) : task := {| t_pid := t_pid t; t_st := t_st t; t_opts := true; t_skip := t_skip t |}.
Definition set_skip (r : Z) (t : task) : task := {| t_pid := t_pid t; t_st := t_st t; t_opts := t_opts t; t_skip := Some r |}.
Definition set_gone (t : task) : task := {| t_pid := t_pid t; t_st := Gone; t_opts := t_opts t; t_skip := None |}.

Definition with_tasks (w : world) (ts : list task) : world :=
  {| w_tasks := ts; w_tr := w_tr w; w_done := w_done w; w_exec := w_exec w; w_ret := w_ret w; w_dec := w_dec w |}.

Definition wstatus_of (s : tstate) : option N :=
  match s with
  | SecStop _ => Some (ws_of_stop 5 7)
  | EvStop k => Some (ws_of_stop 5 (cause_of k))
  | InitStop => Some (ws_of_stop 19 0)
  | SigStop sg => if (N.leb 1 sg && N.ltb sg 128)%bool then Some (ws_of_stop sg 0) else None
  | Zombie c => Some (ws_of_exit c)
  | Run | Gone => None
  end.

Section Sys.
Variable decide : Z -> nat -> dec.
Variable pgid : Z.

(** the kernel's reaction to one request of the tracer on a stopped task (rules PT1-PT3 of DESIGN.md) *)
Definition apply_req (pid : Z) (w : world) (r : preq) : world :=
  match find_task pid (w_tasks w) with
  | None => w
  | Some t =>
      match r with
      | ReqSetOptions => with_tasks w (upd pid set_opts (w_tasks w))
      | ReqHandleTrap =>
          match t_st t with
          | SecStop id =>
              let d := decide pid id in
              {| w_tasks := match d with Ban => upd pid (set_skip (- BanRet)) (w_tasks w) | _ => w_tasks w end;
                 w_tr := w_tr w; w_done := w_done w; w_exec := w_exec w; w_ret := w_ret w; w_dec := (pid, id, d) :: w_dec w |}
          | _ => w
          end
      | ReqCont _ =>
          match t_st t with
          | SecStop id =>
              {| w_tasks := upd pid set_run (w_tasks w); w_tr := w_tr w; w_done := w_done w;
                 w_exec := match t_skip t with None => (pid, id) :: w_exec w | Some _ => w_exec w end;
                 w_ret := match t_skip t with None => w_ret w | Some r => (pid, id, r) :: w_ret w end;
                 w_dec := w_dec w |}
          | EvStop _ | InitStop | SigStop _ => with_tasks w (upd pid set_run (w_tasks w))
          | _ => w
          end
      end
  end.

Definition tres_of (t : task) : tres :=
  match t_st t with SecStop id => match decide (t_pid t) id with Kill => TrKill | _ => TrOk end | _ => TrOk end.

Definition step (w : world) (e : event) : world :=
  match w_done w with
  | Some _ => w
  | None =>
      match e with
      | PSys pid id =>
          match find_task pid (w_tasks w) with
          | Some t => match t_st t with
                      | Run => if t_opts t then with_tasks w (upd pid (set_st (SecStop id)) (w_tasks w))
                               else {| w_tasks := w_tasks w; w_tr := w_tr w; w_done := w_done w; w_exec := w_exec w;
                                       w_ret := (pid, id, (- ENOSYS)%Z) :: w_ret w; w_dec := w_dec w |}
                      | _ => w
                      end
          | None => w
          end
      | PFork pid child cause =>
          match find_task pid (w_tasks w), find_task child (w_tasks w) with
          | Some t, None =>
              match t_st t with
              | Run => if t_opts t
                       then with_tasks w ({| t_pid := child; t_st := InitStop; t_opts := true; t_skip := None |} :: upd pid (set_st (EvStop cause)) (w_tasks w))
                       else with_tasks w ({| t_pid := child; t_st := Run; t_opts := false; t_skip := None |} :: w_tasks w)
              | _ => w
              end
          | _, _ => w
          end
      | PExit pid code =>
          match find_task pid (w_tasks w) with
          | Some t => match t_st t with Run => with_tasks w (upd pid (set_st (Zombie code)) (w_tasks w)) | _ => w end
          | None => w
          end
      | PSignal pid sg =>
          match find_task pid (w_tasks w) with
          | Some t => match t_st t with
                      | Run => if (N.leb 1 sg && N.ltb sg 128)%bool then with_tasks w (upd pid (set_st (SigStop sg)) (w_tasks w)) else w
                      | _ => w
                      end
          | None => w
          end
      | TWait pid =>
          match find_task pid (w_tasks w) with
          | None => w
          | Some t =>
              match wstatus_of (t_st t) with
              | None => w
              | Some ws =>
                  let o := handle (w_tr w) pgid pid ws SoOk (tres_of t) in
                  let w1 := fold_left (apply_req pid) (o_reqs o) w in
                  let ts := match t_st t with Zombie _ => upd pid set_gone (w_tasks w1) | _ => w_tasks w1 end in
                  if o_finished o || negb (N.eqb (status_code (o_status o)) 1)
                  then (* the run returns: killAll + collectZombie (C12) *)
                    {| w_tasks := map set_gone ts; w_tr := o_state o; w_done := Some (o_status o);
                       w_exec := w_exec w1; w_ret := w_ret w1; w_dec := w_dec w1 |}
                  else {| w_tasks := ts; w_tr := o_state o; w_done := None; w_exec := w_exec w1; w_ret := w_ret w1; w_dec := w_dec w1 |}
              end
          end
      end
  end.

Definition run (w : world) (evs : list event) : world := fold_left step evs w.

(** after the target's execve: one task, attached with the options set *)
Definition init : world :=
  {| w_tasks := [{| t_pid := pgid; t_st := Run; t_opts := true; t_skip := None |}];
     w_tr := {| h_execved := true; h_traced := [pgid] |}; w_done := None; w_exec := []; w_ret := []; w_dec := [] |}.
End Sys.

(** C15: the tracer's verdict is about the program. *)
From GS Require Import Verdict.Status Verdict.StatusProofs.
Open Scope N_scope.

Ltac crush_ifs :=
  repeat match goal with
         | |- context [if ?b then _ else _] => destruct b eqn:?; simpl
         end.

(** With ptrace requests that either succeed or find the tracee gone (ESRCH) — the only outcomes a
    program can provoke — Runner Error is reported only when the main task exits before the target
    image was exec'ed, i.e. when the launch itself failed. *)
Theorem verdict_about_program st pgid pid w time tl mem ml so tr r :
  so <> SoErr -> tr <> TrErr ->
  fst (trace_step st pgid pid w time tl mem ml so tr) = inl r -> r_status r = RunnerError ->
  pid = pgid /\ ws_exited w = true /\ h_execved st = false.
Proof.
  intros Hso Htr. unfold trace_step, handle, usage_status.
  destruct so; try congruence; destruct tr; try congruence;
  destruct (negb (zmem pid (h_traced st))) eqn:?; simpl;
  crush_ifs; intros H; inversion H; subst; simpl; intros H'; try discriminate;
  try (apply sig_status_not_error in H'; contradiction);
  repeat match goal with
         | E : (_ =? _)%Z = true |- _ => apply Z.eqb_eq in E
         end; auto.
Qed.

(** Every stop of a traced task is answered: the run ends, or the task is resumed by exactly one
    PTRACE_CONT (the last request issued), or the task was found gone when it was first seen. *)
Definition last_req (l : list preq) : option preq := last (map Some l) None.

Theorem progress st pgid pid w time tl mem ml so tr :
  ws_exited w = false -> ws_signaled w = false -> ws_stopped w = true ->
  let '(res, reqs) := trace_step st pgid pid w time tl mem ml so tr in
  (exists r, res = inl r) \/ (exists s, last_req reqs = Some (ReqCont s)) \/
  (so = SoGone /\ zmem pid (h_traced st) = false).
Proof.
  intros E1 E2 E3. unfold trace_step, handle, usage_status. rewrite E1, E2, E3.
  destruct so; destruct tr; destruct (negb (zmem pid (h_traced st))) eqn:?; simpl; crush_ifs;
  try (left; eexists; reflexivity);
  try (right; left; eexists; unfold last_req; simpl; reflexivity);
  try (right; right; split; [reflexivity|]; apply negb_true_iff; assumption).
  all: try (exfalso; simpl in *; congruence).
Qed.

(** C16: a task is never resumed before the tracer's options (PTRACE_O_EXITKILL among them) were
    set on it: whenever a stop is answered with PTRACE_CONT, the task is in the traced set, and a
    task enters that set only together with a successful PTRACE_SETOPTIONS *)
Definition has_cont (l : list preq) : bool := existsb (fun r => match r with ReqCont _ => true | _ => false end) l.

Theorem resumed_implies_options_set st pgid pid w so tr :
  ws_exited w = false -> ws_signaled w = false -> ws_stopped w = true ->
  let o := handle st pgid pid w so tr in
  has_cont (o_reqs o) = true -> zmem pid (h_traced (o_state o)) = true /\
  (zmem pid (h_traced st) = false -> so = SoOk /\ In ReqSetOptions (o_reqs o)).
Proof.
  intros E1 E2 E3. unfold handle. rewrite E1, E2, E3.
  destruct (zmem pid (h_traced st)) eqn:Et; simpl negb; cbn [andb];
  destruct so; destruct tr; crush_ifs; simpl; intros H; try discriminate;
  try (rewrite Et); try (rewrite Z.eqb_refl);
  repeat split; try reflexivity; try discriminate; try (intros; discriminate); auto.
Qed.

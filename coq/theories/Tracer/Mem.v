(** Reading a path from the traced program's memory: ptracer.vmReadStr (page-wise
    process_vm_readv), the PEEKDATA fallback, clen and the slice expression of
    Context.GetString with Go's bounds rule (an out-of-range slice is a panic
    outcome of the model, not a totalised value). *)
From Coq Require Export List Arith NArith Bool Lia.
Export ListNotations.
Open Scope N_scope.

Definition PAGE : N := 4096.
Definition PATH_MAX : nat := 4096.

(** tracee memory: which pages are readable, and the bytes *)
Record tmem := { mapped : N -> bool; byte_at : N -> N }.

Definition readable (m : tmem) (a : N) : bool := mapped m (a / PAGE).

(** process_vm_readv of [len] bytes at [a]: the bytes before the first unreadable
    page; an error when not even the first byte is readable *)
Fixpoint vm_read (m : tmem) (a : N) (len : nat) : list N :=
  match len with
  | O => []
  | S k => if readable m a then byte_at m a :: vm_read m (N.succ a) k else []
  end.

Definition has_null (l : list N) : bool := existsb (fun b => b =? 0) l.

Inductive rd := RdOk (filled : list N) | RdErr (filled : list N) | RdPanic.

(** vmReadStr on a buffer of [cap] bytes; [filled] are the bytes written so far
    (the rest of the buffer is still zero).  [fuel] bounds the iterations. *)
Fixpoint vm_read_str (fuel : nat) (m : tmem) (addr : N) (filled : list N) (rest : nat) (next : nat) : rd :=
  match fuel with
  | O => RdOk filled
  | S f =>
      match rest with
      | O => RdOk filled
      | _ =>
          let next' := Nat.min next rest in       (* if restToRead < nextRead { nextRead = restToRead } *)
          (* buff[:nextRead] is in range: nextRead <= len(buff) *)
          if Nat.ltb rest next' then RdPanic
          else if negb (readable m (addr + N.of_nat (length filled))) && Nat.ltb 0 next' then RdErr filled
          else
            let got := vm_read m (addr + N.of_nat (length filled)) next' in
            if Nat.eqb (length got) 0 then RdOk filled                  (* curRead == 0 *)
            else if has_null got then RdOk (filled ++ got)
            else vm_read_str f m addr (filled ++ got) (rest - length got) (N.to_nat PAGE)
      end
  end.

(** the PEEKDATA fallback copies aligned words until one fails: every byte
    before the first unreadable page *)
Definition peek_fill (m : tmem) (addr : N) (cap : nat) : list N := vm_read m addr cap.

(** clen: [fixed] = return len(b) when there is no NUL (the pinned tree returned len(b)+1) *)
Fixpoint first_null (l : list N) (i : nat) : option nat :=
  match l with [] => None | b :: r => if b =? 0 then Some i else first_null r (S i) end.

Definition clen (fixed : bool) (buf : list N) : nat :=
  match first_null buf 0 with
  | Some i => i
  | None => if fixed then length buf else S (length buf)
  end.

Definition pad (l : list N) (cap : nat) : list N := l ++ repeat 0 (cap - length l).

Inductive gs := GsStr (s : list N) | GsPanic.

(** Context.GetString (UseVMReadv = true) *)
Definition get_string (fixed : bool) (m : tmem) (addr : N) : gs :=
  let first := N.to_nat (PAGE - addr mod PAGE) in
  let buf :=
    match vm_read_str 4 m addr [] PATH_MAX first with
    | RdOk filled => Some (pad filled PATH_MAX)
    | RdErr _ => Some (pad (peek_fill m addr PATH_MAX) PATH_MAX)
    | RdPanic => None
    end in
  match buf with
  | None => GsPanic
  | Some b => let n := clen fixed b in
              if Nat.ltb (length b) n then GsPanic       (* buff[:n] with n > len: slice bounds out of range *)
              else GsStr (firstn n b)
  end.

(** what the caller should get: the bytes before the first NUL among the readable
    bytes, at most PATH_MAX of them *)
Fixpoint until_null (l : list N) : list N :=
  match l with [] => [] | b :: r => if b =? 0 then [] else b :: until_null r end.
Definition spec_string (m : tmem) (addr : N) : list N := until_null (vm_read m addr PATH_MAX).

(** The text the launcher writes to /proc/<pid>/uid_map and gid_map (pkg/forkexec/userns_linux.go: formatIDMappings):
    one line "<inside> <outside> <count>\n" per mapping, numbers in decimal (strconv.Itoa).  [parse_n] is how such a
    text is read back (three decimal fields separated by one space, ended by a newline). *)
From Coq Require Import List Bool Arith NArith String Ascii DecimalString DecimalN.
Import ListNotations.
Local Open Scope string_scope.
Local Open Scope bool_scope.

Record idmap := { inside : N; outside : N; count : N }.

Definition nl : ascii := ascii_of_nat 10.
Definition sp : ascii := ascii_of_nat 32.

Definition show (n : N) : string := NilEmpty.string_of_uint (N.to_uint n).
Definition format_one (m : idmap) : string :=
  show (inside m) ++ String sp (show (outside m) ++ String sp (show (count m) ++ String nl EmptyString)).
Fixpoint format (l : list idmap) : string :=
  match l with [] => EmptyString | m :: r => format_one m ++ format r end.

Fixpoint take_until (c : ascii) (s : string) : option (string * string) :=
  match s with
  | EmptyString => None
  | String a r => if Ascii.eqb a c then Some (EmptyString, r)
                  else match take_until c r with Some (x, y) => Some (String a x, y) | None => None end
  end.
Definition read_num (s : string) : option N :=
  match NilEmpty.uint_of_string s with Some d => Some (N.of_uint d) | None => None end.

Definition parse_line (s : string) : option (idmap * string) :=
  match take_until sp s with
  | Some (a, r1) =>
    match take_until sp r1 with
    | Some (b, r2) =>
      match take_until nl r2 with
      | Some (c, r3) =>
        match read_num a, read_num b, read_num c with
        | Some x, Some y, Some z => Some ({| inside := x; outside := y; count := z |}, r3)
        | _, _, _ => None
        end
      | None => None
      end
    | None => None
    end
  | None => None
  end.

Fixpoint parse_n (n : nat) (s : string) : option (list idmap * string) :=
  match n with
  | O => Some ([], s)
  | S k => match parse_line s with
           | Some (m, r) => match parse_n k r with Some (l, r') => Some (m :: l, r') | None => None end
           | None => None
           end
  end.

(** writeIDMaps: explicit mappings are formatted; without any the launcher maps its own effective id to 0 (no newline there) *)
Definition written (cfg : option (list idmap)) (eid : N) : string :=
  match cfg with
  | Some l => format l
  | None => show 0 ++ String sp (show eid ++ String sp (show 1))
  end.

(** for the correspondence run: texts as lists of character codes *)
Fixpoint of_codes (l : list N) : string :=
  match l with [] => EmptyString | c :: r => String (ascii_of_N c) (of_codes r) end.
Definition mk (x : N * N * N) : idmap := let '(a, b, c) := x in {| inside := a; outside := b; count := c |}.
(** (mappings configured or none, effective id of the launcher, text written by the launcher): the text is the model's, and
    (explicit mappings) reads back as exactly the mappings *)
Definition same (p : idmap * idmap) : bool :=
  N.eqb (inside (fst p)) (inside (snd p)) && N.eqb (outside (fst p)) (outside (snd p)) && N.eqb (count (fst p)) (count (snd p)).
Definition idmap_ok (x : option (list (N * N * N)) * N * list N) : bool :=
  let '(cfg, eid, codes) := x in
  let c := match cfg with Some l => Some (map mk l) | None => None end in
  String.eqb (written c eid) (of_codes codes) &&
  match c with
  | None => true
  | Some l => match parse_n (List.length l) (of_codes codes) with
              | Some (l', EmptyString) => forallb same (combine l l') && Nat.eqb (List.length l) (List.length l')
              | _ => false
              end
  end.
Definition failing {A} (ok : A -> bool) (l : list A) : list N :=
  let fix go (i : N) (l : list A) : list N :=
    match l with [] => [] | x :: r => if ok x then go (N.succ i) r else i :: go (N.succ i) r end in go 0%N l.

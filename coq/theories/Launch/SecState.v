(** C04: the launch options, the security-relevant syscalls the child issues for them (the three
    differently ordered copies of the cap-drop / seccomp / sync code of fork_child_linux.go written out),
    their effect on the credentials of the process, and the state in which the target starts. *)
From Coq Require Import List Bool Arith NArith.
Import ListNotations.

Record cred := { c_uid : N; c_gid : N; c_groups : list N; c_nosetgroups : bool }.

Record config := {
  f_cred : option cred;
  f_gidmap : bool;                 (* GIDMappings != nil *)
  f_gidmap_setgroups : bool;       (* GIDMappingsEnableSetgroups *)
  f_dropcaps : bool;
  f_nnp : bool;
  f_seccomp : bool;
  f_ptrace : bool;
  f_stop : bool;                   (* StopBeforeSeccomp *)
  f_sync : bool;                   (* SyncFunc != nil *)
  f_ucas : bool;                   (* UnshareCgroupAfterSync *)
  f_workdir : option N;
  f_host : option N;
  f_domain : option N }.

Inductive step :=
| SSetsid
| SKeepCaps                 (* PR_SET_SECUREBITS: KEEP_CAPS_LOCKED | NO_SETUID_FIXUP | NO_SETUID_FIXUP_LOCKED *)
| SSetgroups (g : list N) | SSetgid (g : N) | SSetuid (u : N)
| SSethost (h : option N) | SSetdomain (d : option N) | SChdir (d : option N)   (* None: the option is not set, no syscall *)
| SNoNewPrivs
| SNoRoot                   (* PR_SET_SECUREBITS: the above | NOROOT | NOROOT_LOCKED *)
| SCapset0
| SSyncWrite | SSyncRead
| SUnshareCgroup
| STraceme | SStop
| SSeccomp
| SExec.

Definition drop := [SNoRoot; SCapset0].
Definition sync (c : config) := if f_sync c then [SSyncWrite; SSyncRead] else [].
Definition wants_drop (c : config) : bool := match f_cred c with Some _ => true | None => f_dropcaps c end.

(** the child's sequence when nothing fails (descriptor, mount and rlimit steps do not touch this state) *)
Definition child_steps (c : config) : list step :=
  (match f_cred c with Some _ => [SKeepCaps] | None => if f_ucas c then [SKeepCaps] else [] end) ++
  (match f_cred c with
   | Some k => (if (f_gidmap c && negb (f_gidmap_setgroups c) && match c_groups k with [] => true | _ => false end) || c_nosetgroups k
                then [] else [SSetgroups (c_groups k)]) ++ [SSetgid (c_gid k); SSetuid (c_uid k)]
   | None => []
   end) ++
  [SSetsid] ++
  [SSethost (f_host c); SSetdomain (f_domain c); SChdir (f_workdir c)] ++
  (if f_nnp c || f_seccomp c then [SNoNewPrivs] else []) ++
  (if wants_drop c && negb (f_ucas c) then drop else []) ++
  (if f_ptrace c && f_seccomp c
   then sync c ++ (if f_ucas c then SUnshareCgroup :: (if wants_drop c then drop else []) else []) ++ [STraceme]
   else []) ++
  (if f_stop c || (f_seccomp c && f_ptrace c) then [SStop] else []) ++
  (if f_seccomp c && (negb (f_ucas c) || f_ptrace c) then [SSeccomp] else []) ++
  (if negb (f_ptrace c) || negb (f_seccomp c)
   then sync c ++ (if f_ucas c then SUnshareCgroup :: (if wants_drop c then drop else []) ++ (if f_seccomp c then [SSeccomp] else []) else [])
   else []) ++
  (if f_ptrace c && negb (f_seccomp c) then [STraceme] else []) ++
  [SExec].

(** ** the kernel's side (rules CR1-CR6 of DESIGN.md) *)
Record kst := {
  k_uid : N; k_gid : N; k_groups : list N;
  k_caps : bool;            (* permitted / effective not empty *)
  k_inh : bool;             (* inheritable not empty *)
  k_nofix : bool;           (* NO_SETUID_FIXUP *)
  k_noroot : bool;          (* NOROOT (locked) *)
  k_nnp : bool;
  k_filters : nat;
  k_session : bool;
  k_cwd : option N; k_host : option N; k_domain : option N;
  k_cgroupns : bool;
  k_traced : bool;
  k_execed : bool }.

Definition upd_ids (s : kst) (u g : N) (gr : list N) (caps : bool) : kst :=
  {| k_uid := u; k_gid := g; k_groups := gr; k_caps := caps; k_inh := k_inh s; k_nofix := k_nofix s; k_noroot := k_noroot s;
     k_nnp := k_nnp s; k_filters := k_filters s; k_session := k_session s; k_cwd := k_cwd s; k_host := k_host s;
     k_domain := k_domain s; k_cgroupns := k_cgroupns s; k_traced := k_traced s; k_execed := k_execed s |}.

(** None: the syscall fails (the child reports the error and the target is never run) *)
Definition apply (s : kst) (x : step) : option kst :=
  let keep := Some s in
  match x with
  | SSetsid => Some {| k_uid := k_uid s; k_gid := k_gid s; k_groups := k_groups s; k_caps := k_caps s; k_inh := k_inh s; k_nofix := k_nofix s;
                       k_noroot := k_noroot s; k_nnp := k_nnp s; k_filters := k_filters s; k_session := true; k_cwd := k_cwd s;
                       k_host := k_host s; k_domain := k_domain s; k_cgroupns := k_cgroupns s; k_traced := k_traced s; k_execed := k_execed s |}
  | SKeepCaps => if k_caps s then
                   Some {| k_uid := k_uid s; k_gid := k_gid s; k_groups := k_groups s; k_caps := true; k_inh := k_inh s; k_nofix := true;
                           k_noroot := k_noroot s; k_nnp := k_nnp s; k_filters := k_filters s; k_session := k_session s; k_cwd := k_cwd s;
                           k_host := k_host s; k_domain := k_domain s; k_cgroupns := k_cgroupns s; k_traced := k_traced s; k_execed := k_execed s |}
                 else None
  | SSetgroups g => if k_caps s then Some (upd_ids s (k_uid s) (k_gid s) g true) else None
  | SSetgid g => if k_caps s then Some (upd_ids s (k_uid s) g (k_groups s) true) else None
  | SSetuid u => if k_caps s then Some (upd_ids s u (k_gid s) (k_groups s) (if N.eqb u 0 then true else k_nofix s)) else None
  | SSethost h => Some {| k_uid := k_uid s; k_gid := k_gid s; k_groups := k_groups s; k_caps := k_caps s; k_inh := k_inh s; k_nofix := k_nofix s;
                          k_noroot := k_noroot s; k_nnp := k_nnp s; k_filters := k_filters s; k_session := k_session s; k_cwd := k_cwd s;
                          k_host := match h with Some x => if k_caps s then Some x else k_host s | None => k_host s end; k_domain := k_domain s; k_cgroupns := k_cgroupns s; k_traced := k_traced s; k_execed := k_execed s |}
  | SSetdomain d => Some {| k_uid := k_uid s; k_gid := k_gid s; k_groups := k_groups s; k_caps := k_caps s; k_inh := k_inh s; k_nofix := k_nofix s;
                            k_noroot := k_noroot s; k_nnp := k_nnp s; k_filters := k_filters s; k_session := k_session s; k_cwd := k_cwd s;
                            k_host := k_host s; k_domain := match d with Some x => if k_caps s then Some x else k_domain s | None => k_domain s end; k_cgroupns := k_cgroupns s; k_traced := k_traced s; k_execed := k_execed s |}
  | SChdir d => Some {| k_uid := k_uid s; k_gid := k_gid s; k_groups := k_groups s; k_caps := k_caps s; k_inh := k_inh s; k_nofix := k_nofix s;
                        k_noroot := k_noroot s; k_nnp := k_nnp s; k_filters := k_filters s; k_session := k_session s; k_cwd := match d with Some x => Some x | None => k_cwd s end;
                        k_host := k_host s; k_domain := k_domain s; k_cgroupns := k_cgroupns s; k_traced := k_traced s; k_execed := k_execed s |}
  | SNoNewPrivs => Some {| k_uid := k_uid s; k_gid := k_gid s; k_groups := k_groups s; k_caps := k_caps s; k_inh := k_inh s; k_nofix := k_nofix s;
                           k_noroot := k_noroot s; k_nnp := true; k_filters := k_filters s; k_session := k_session s; k_cwd := k_cwd s;
                           k_host := k_host s; k_domain := k_domain s; k_cgroupns := k_cgroupns s; k_traced := k_traced s; k_execed := k_execed s |}
  | SNoRoot => if k_caps s then
                 Some {| k_uid := k_uid s; k_gid := k_gid s; k_groups := k_groups s; k_caps := true; k_inh := k_inh s; k_nofix := true;
                         k_noroot := true; k_nnp := k_nnp s; k_filters := k_filters s; k_session := k_session s; k_cwd := k_cwd s;
                         k_host := k_host s; k_domain := k_domain s; k_cgroupns := k_cgroupns s; k_traced := k_traced s; k_execed := k_execed s |}
               else None
  | SCapset0 => Some {| k_uid := k_uid s; k_gid := k_gid s; k_groups := k_groups s; k_caps := false; k_inh := false; k_nofix := k_nofix s;
                        k_noroot := k_noroot s; k_nnp := k_nnp s; k_filters := k_filters s; k_session := k_session s; k_cwd := k_cwd s;
                        k_host := k_host s; k_domain := k_domain s; k_cgroupns := k_cgroupns s; k_traced := k_traced s; k_execed := k_execed s |}
  | SSyncWrite | SSyncRead | SStop => keep
  | SUnshareCgroup => Some {| k_uid := k_uid s; k_gid := k_gid s; k_groups := k_groups s; k_caps := k_caps s; k_inh := k_inh s; k_nofix := k_nofix s;
                              k_noroot := k_noroot s; k_nnp := k_nnp s; k_filters := k_filters s; k_session := k_session s; k_cwd := k_cwd s;
                              k_host := k_host s; k_domain := k_domain s; k_cgroupns := k_cgroupns s || k_caps s; k_traced := k_traced s; k_execed := k_execed s |}
  | STraceme => Some {| k_uid := k_uid s; k_gid := k_gid s; k_groups := k_groups s; k_caps := k_caps s; k_inh := k_inh s; k_nofix := k_nofix s;
                        k_noroot := k_noroot s; k_nnp := k_nnp s; k_filters := k_filters s; k_session := k_session s; k_cwd := k_cwd s;
                        k_host := k_host s; k_domain := k_domain s; k_cgroupns := k_cgroupns s; k_traced := true; k_execed := k_execed s |}
  | SSeccomp => if k_nnp s || k_caps s then
                  Some {| k_uid := k_uid s; k_gid := k_gid s; k_groups := k_groups s; k_caps := k_caps s; k_inh := k_inh s; k_nofix := k_nofix s;
                          k_noroot := k_noroot s; k_nnp := k_nnp s; k_filters := S (k_filters s); k_session := k_session s; k_cwd := k_cwd s;
                          k_host := k_host s; k_domain := k_domain s; k_cgroupns := k_cgroupns s; k_traced := k_traced s; k_execed := k_execed s |}
                else None
  | SExec =>
      (* no file capabilities: root without NOROOT regains everything, anybody else keeps nothing *)
      let root := N.eqb (k_uid s) 0 && negb (k_noroot s) in
      Some {| k_uid := k_uid s; k_gid := k_gid s; k_groups := k_groups s; k_caps := root; k_inh := k_inh s; k_nofix := k_nofix s;
              k_noroot := k_noroot s; k_nnp := k_nnp s; k_filters := k_filters s; k_session := k_session s; k_cwd := k_cwd s;
              k_host := k_host s; k_domain := k_domain s; k_cgroupns := k_cgroupns s; k_traced := k_traced s; k_execed := true |}
  end.

Fixpoint run_steps (s : kst) (l : list step) : option kst :=
  match l with [] => Some s | x :: r => match apply s x with Some s' => run_steps s' r | None => None end end.

(** the child right after clone: the caller's identity (a privileged caller, or root of a new user namespace) *)
Definition start (uid gid : N) (groups : list N) (cwd : option N) (host dom : option N) : kst :=
  {| k_uid := uid; k_gid := gid; k_groups := groups; k_caps := true; k_inh := false; k_nofix := false; k_noroot := false; k_nnp := false;
     k_filters := 0; k_session := false; k_cwd := cwd; k_host := host; k_domain := dom; k_cgroupns := false; k_traced := false; k_execed := false |}.

Definition state_at_exec (c : config) (s0 : kst) : option kst := run_steps s0 (child_steps c).

(** the requested state *)
Definition groups_of (c : config) (s0 : kst) : list N :=
  match f_cred c with
  | Some k => if (f_gidmap c && negb (f_gidmap_setgroups c) && match c_groups k with [] => true | _ => false end) || c_nosetgroups k
              then k_groups s0 else c_groups k
  | None => k_groups s0
  end.

Definition spec_state (c : config) (s0 s : kst) : Prop :=
  k_execed s = true /\
  (wants_drop c = true -> k_caps s = false /\ k_inh s = false /\ k_noroot s = true) /\
  k_nnp s = (f_nnp c || f_seccomp c) /\
  k_filters s = (if f_seccomp c then 1 else 0) /\
  k_uid s = match f_cred c with Some k => c_uid k | None => k_uid s0 end /\
  k_gid s = match f_cred c with Some k => c_gid k | None => k_gid s0 end /\
  k_groups s = groups_of c s0 /\
  k_session s = true /\
  k_cwd s = match f_workdir c with Some d => Some d | None => k_cwd s0 end /\
  k_host s = match f_host c with Some h => Some h | None => k_host s0 end /\
  k_domain s = match f_domain c with Some d => Some d | None => k_domain s0 end /\
  k_cgroupns s = f_ucas c /\
  k_traced s = f_ptrace c.

(** The launch handshake of pkg/forkexec: parent (Start, syncWithChild,
    handleChildFailed) || child (phases of forkAndExecInChild, each of which may
    fail) || the sync socketpair (one FIFO per direction, EOF when the peer's end
    is closed) || the caller's callback || the parent's SIGKILL. *)
From Coq Require Import List Bool Arith PArith.
From GS Require Import Base.Code.
Import ListNotations.

Inductive loc := LNone | LClone | LUserns | LSetup | LSyncRead | LExec | LCallback | LPipe.

Inductive kid :=
| KNone          (* no child (clone failed / not yet cloned) *)
| KUserWait      (* waits for the parent's verdict on the id maps *)
| KSetup         (* runs the phases before the sync point *)
| KSyncWait      (* wrote the ready word, blocked in the read *)
| KPostSync      (* between the sync point and exec *)
| KExeced        (* the target program runs *)
| KFailed        (* a phase failed: the record is written, the child exits *)
| KZombie        (* exited or killed, not yet waited for *)
| KReaped.

Inductive par :=
| PStart | PMaps | PSyncRead | PCallback | PExecRead | PFail (l : loc) | PDoneOk | PDoneErr (l : loc)
| PCrashed.      (* the launching process died (killed, crashed): its end of the socket is closed by the kernel, nobody kills or reaps the child *)

Inductive c2p := MReady | MErr (l : loc).
Inductive p2c := MVerdict (ok : bool) | MAck.

Record sst := {
  y_userns : bool; y_sync : bool; y_early : bool;     (* configuration *)
  y_par : par; y_kid : kid;
  y_up : list c2p; y_up_closed : bool;                 (* child -> parent, and "every copy of the child's end is closed" *)
  y_down : list p2c; y_down_closed : bool;             (* parent -> child *)
  y_acked : bool;                                      (* ghost: the callback returned nil (or there is none) and the ack was sent *)
  y_ran : bool;                                        (* ghost: the target program was exec'ed at some point *)
  y_kloc : loc }.                                      (* ghost: the step the child failed at *)

Definition sinit (u s e : bool) : sst :=
  {| y_userns := u; y_sync := s; y_early := e; y_par := PStart; y_kid := KNone; y_up := []; y_up_closed := false;
     y_down := []; y_down_closed := false; y_acked := false; y_ran := false; y_kloc := LNone |}.

Definition w_par (s : sst) p := {| y_userns := y_userns s; y_sync := y_sync s; y_early := y_early s; y_par := p; y_kid := y_kid s;
  y_up := y_up s; y_up_closed := y_up_closed s; y_down := y_down s; y_down_closed := y_down_closed s; y_acked := y_acked s; y_ran := y_ran s; y_kloc := y_kloc s |}.
Definition w_kid (s : sst) k := {| y_userns := y_userns s; y_sync := y_sync s; y_early := y_early s; y_par := y_par s; y_kid := k;
  y_up := y_up s; y_up_closed := y_up_closed s || match k with KExeced | KZombie | KReaped => true | _ => false end;
  y_down := y_down s; y_down_closed := y_down_closed s; y_acked := y_acked s;
  y_ran := y_ran s || match k with KExeced => true | _ => false end; y_kloc := y_kloc s |}.
Definition w_up (s : sst) q := {| y_userns := y_userns s; y_sync := y_sync s; y_early := y_early s; y_par := y_par s; y_kid := y_kid s;
  y_up := q; y_up_closed := y_up_closed s; y_down := y_down s; y_down_closed := y_down_closed s; y_acked := y_acked s; y_ran := y_ran s; y_kloc := y_kloc s |}.
Definition w_down (s : sst) q := {| y_userns := y_userns s; y_sync := y_sync s; y_early := y_early s; y_par := y_par s; y_kid := y_kid s;
  y_up := y_up s; y_up_closed := y_up_closed s; y_down := q; y_down_closed := y_down_closed s; y_acked := y_acked s; y_ran := y_ran s; y_kloc := y_kloc s |}.
Definition w_down_closed (s : sst) := {| y_userns := y_userns s; y_sync := y_sync s; y_early := y_early s; y_par := y_par s; y_kid := y_kid s;
  y_up := y_up s; y_up_closed := y_up_closed s; y_down := y_down s; y_down_closed := true; y_acked := y_acked s; y_ran := y_ran s; y_kloc := y_kloc s |}.
Definition w_acked (s : sst) := {| y_userns := y_userns s; y_sync := y_sync s; y_early := y_early s; y_par := y_par s; y_kid := y_kid s;
  y_up := y_up s; y_up_closed := y_up_closed s; y_down := y_down s; y_down_closed := y_down_closed s; y_acked := true; y_ran := y_ran s; y_kloc := y_kloc s |}.
Definition w_kloc (s : sst) l := {| y_userns := y_userns s; y_sync := y_sync s; y_early := y_early s; y_par := y_par s; y_kid := y_kid s;
  y_up := y_up s; y_up_closed := y_up_closed s; y_down := y_down s; y_down_closed := y_down_closed s; y_acked := y_acked s; y_ran := y_ran s; y_kloc := l |}.

(** the child fails at step l: it writes the record and will exit *)
Definition kid_fail (s : sst) (l : loc) : sst := w_kid (w_kloc (w_up s (y_up s ++ [MErr l])) l) KFailed.

Definition after_maps (s : sst) : par :=
  if y_sync s then PSyncRead else if y_early s then PDoneOk else PExecRead.

(** the launcher can die at any moment after the clone *)
Definition crash (s : sst) : sst := w_par (w_down_closed s) PCrashed.

Definition par_steps (s : sst) : list sst :=
  match y_par s with
  | PStart =>
      (* clone fails, or the child exists *)
      [w_par s (PDoneErr LClone);
       w_par (w_kid s (if y_userns s then KUserWait else KSetup)) (if y_userns s then PMaps else after_maps s)]
  | PMaps =>
      (* the id maps are written (or not) and the verdict is sent *)
      [w_par (w_down s (y_down s ++ [MVerdict true])) (after_maps s);
       w_par (w_down s (y_down s ++ [MVerdict false])) (after_maps s); crash s]
  | PSyncRead =>
      match y_up s with
      | MReady :: r => [w_par (w_up s r) PCallback; crash s]
      | MErr l :: r => [w_par (w_up s r) (PFail l); crash s]
      | [] => if y_up_closed s then [w_par s (PFail LPipe); crash s] else [crash s]
      end
  | PCallback =>
      (* the callback returns nil: ack; or an error: fail *)
      [w_par (w_acked (w_down s (y_down s ++ [MAck]))) (if y_early s then PDoneOk else PExecRead);
       w_par s (PFail LCallback); crash s]
  | PExecRead =>
      match y_up s with
      | MErr l :: r => [w_par (w_up s r) (PFail l); crash s]
      | MReady :: r => [w_par (w_up s r) (PFail LPipe); crash s]
      | [] => if y_up_closed s then [w_par s PDoneOk; crash s] else [crash s]
      end
  | PFail l =>
      (* close the parent's end, SIGKILL, wait4 *)
      [w_par (w_kid (w_down_closed s) KReaped) (PDoneErr l); crash s]
  | PDoneOk | PDoneErr _ | PCrashed => []
  end.

Definition kid_steps (s : sst) : list sst :=
  match y_kid s with
  | KUserWait =>
      match y_down s with
      | MVerdict true :: r => [w_kid (w_down s r) KSetup]
      | MVerdict false :: r => [kid_fail (w_down s r) LUserns]
      | MAck :: r => [kid_fail (w_down s r) LUserns]
      | [] => if y_down_closed s then [kid_fail s LUserns] else []
      end
  | KSetup =>
      (* some phase before the sync point fails, or all succeed *)
      [kid_fail s LSetup;
       if y_sync s then w_kid (w_up s (y_up s ++ [MReady])) KSyncWait
       else w_acked (w_kid s KPostSync)]
  | KSyncWait =>
      match y_down s with
      | MAck :: r => [w_kid (w_down s r) KPostSync]
      | _ :: r => [kid_fail (w_down s r) LSyncRead]
      | [] => if y_down_closed s then [kid_fail s LSyncRead] else []      (* r1 == 0: the parent is gone *)
      end
  | KPostSync => [w_kid s KExeced; kid_fail s LExec]
  | KFailed => [w_kid s KZombie]
  | _ => []
  end.

Definition snext (s : sst) : list sst := par_steps s ++ kid_steps s.

(** encoding *)
Definition loc_num l := match l with LNone => 0 | LClone => 1 | LUserns => 2 | LSetup => 3 | LSyncRead => 4 | LExec => 5 | LCallback => 6 | LPipe => 7 end.
Definition kid_num k := match k with KNone => 0 | KUserWait => 1 | KSetup => 2 | KSyncWait => 3 | KPostSync => 4 | KExeced => 5 | KFailed => 6 | KZombie => 7 | KReaped => 8 end.
Definition par_num p := match p with PStart => 0 | PMaps => 1 | PSyncRead => 2 | PCallback => 3 | PExecRead => 4 | PDoneOk => 5
                                    | PFail l => 10 + loc_num l | PDoneErr l => 20 + loc_num l | PCrashed => 6 end.
Definition c2p_num m := match m with MReady => 0 | MErr l => 1 + loc_num l end.
Definition p2c_num m := match m with MVerdict true => 0 | MVerdict false => 1 | MAck => 2 end.

Lemma loc_num_inj a b : loc_num a = loc_num b -> a = b. Proof. destruct a, b; simpl; congruence. Qed.
Lemma kid_num_inj a b : kid_num a = kid_num b -> a = b. Proof. destruct a, b; simpl; congruence. Qed.
Lemma par_num_inj a b : par_num a = par_num b -> a = b.
Proof. destruct a as [| | | | |[]| |[]|], b as [| | | | |[]| |[]|]; simpl; congruence. Qed.
Lemma c2p_num_inj a b : c2p_num a = c2p_num b -> a = b. Proof. destruct a as [|[]], b as [|[]]; simpl; congruence. Qed.
Lemma p2c_num_inj a b : p2c_num a = p2c_num b -> a = b. Proof. destruct a as [[]|], b as [[]|]; simpl; congruence. Qed.

Definition stuple (s : sst) :=
  (y_userns s, (y_sync s, (y_early s, (y_par s, (y_kid s, (y_up s, (y_up_closed s, (y_down s, (y_down_closed s, (y_acked s, (y_ran s, y_kloc s))))))))))).
Lemma stuple_inj a b : stuple a = stuple b -> a = b.
Proof. destruct a, b. unfold stuple. simpl. intros H. inversion H. reflexivity. Qed.

Definition scode :=
  c_pair c_bool (c_pair c_bool (c_pair c_bool (c_pair (c_enum par_num) (c_pair (c_enum kid_num)
    (c_pair (c_list (c_enum c2p_num)) (c_pair c_bool (c_pair (c_list (c_enum p2c_num)) (c_pair c_bool (c_pair c_bool (c_pair c_bool (c_enum loc_num))))))))))).
Lemma pf_scode : pf scode.
Proof.
  unfold scode.
  repeat first [ apply pf_pair | apply pf_list | apply pf_bool
               | apply (pf_enum par_num par_num_inj) | apply (pf_enum kid_num kid_num_inj)
               | apply (pf_enum c2p_num c2p_num_inj) | apply (pf_enum p2c_num p2c_num_inj) | apply (pf_enum loc_num loc_num_inj) ].
Qed.
Definition senc (s : sst) : positive := bits_pos (scode (stuple s)).
Lemma senc_inj a b : senc a = senc b -> a = b.
Proof. intros H. apply stuple_inj. exact (code_inj scode pf_scode _ _ H). Qed.

(** Executable comparison for the correspondence run of C17 (launcher descriptors): the descriptor events of the
    launching thread, as strace saw them for one start, against [parent_events] of that start's configuration and outcome. *)
From Coq Require Import List Bool Arith NArith.
From GS Require Import Launch.ParentFds.
Import ListNotations.

Definition ev_eqb (x y : ev) : bool :=
  match x, y with
  | ECreate2 a b, ECreate2 c d => (a =? c) && (b =? d)
  | EOpen a, EOpen b | EUse a, EUse b | EClose a, EClose b => a =? b
  | _, _ => false
  end.
Fixpoint evs_eqb (x y : list ev) : bool :=
  match x, y with
  | [], [] => true
  | a :: p, b :: q => ev_eqb a b && evs_eqb p q
  | _, _ => false
  end.

(** (configuration, outcome, observed events of the launching thread) *)
Definition start_ok (x : cfg * outcome * list ev) : bool :=
  let '(c, o, obs) := x in evs_eqb (parent_events c o) obs.

Definition failing {A} (ok : A -> bool) (l : list A) : list N :=
  let fix go (i : N) (l : list A) : list N :=
    match l with [] => [] | x :: r => if ok x then go (N.succ i) r else i :: go (N.succ i) r end in go 0%N l.

From Coq Require Import List Bool Arith NArith String Ascii DecimalString DecimalN Decimal.
From GS Require Import Launch.IdMap.
Import ListNotations.
Local Open Scope string_scope.

Fixpoint chars (s : string) : list ascii := match s with EmptyString => [] | String a r => a :: chars r end.

Definition is_digit (a : ascii) : bool := let n := nat_of_ascii a in (Nat.leb 48 n && Nat.leb n 57)%bool.

Lemma uint_chars_digits : forall d a, In a (chars (NilEmpty.string_of_uint d)) -> is_digit a = true.
Proof.
  induction d as [|d IH|d IH|d IH|d IH|d IH|d IH|d IH|d IH|d IH|d IH]; cbn [NilEmpty.string_of_uint chars]; intros a H;
    [contradiction| | | | | | | | | |]; (destruct H as [<-|H]; [reflexivity|apply IH; exact H]).
Qed.

Lemma show_no_sep : forall n a, In a (chars (show n)) -> a <> sp /\ a <> nl.
Proof.
  intros n a H. apply uint_chars_digits in H. split; intros ->; discriminate H.
Qed.

Lemma take_until_app : forall c s r, (forall a, In a (chars s) -> a <> c) -> take_until c (s ++ String c r) = Some (s, r).
Proof.
  intros c s r. induction s as [|a s IH]; cbn [append take_until chars]; intros H.
  - rewrite Ascii.eqb_refl. reflexivity.
  - destruct (Ascii.eqb_spec a c) as [->|_]; [exfalso; apply (H c); [left; reflexivity|reflexivity]|].
    rewrite IH; [reflexivity|]. intros b Hb. apply H. right. exact Hb.
Qed.

Lemma read_show : forall n, read_num (show n) = Some n.
Proof.
  intros n. unfold read_num, show. rewrite NilEmpty.usu. rewrite DecimalN.Unsigned.of_to. reflexivity.
Qed.

Lemma sapp_assoc : forall a b c : string, (a ++ b) ++ c = a ++ (b ++ c).
Proof. induction a as [|x a IH]; intros b c; cbn [append]; [reflexivity|]. rewrite IH. reflexivity. Qed.

Lemma parse_format_one : forall m rest, parse_line (format_one m ++ rest) = Some (m, rest).
Proof.
  intros [a b c] rest.
  assert (E : format_one {| inside := a; outside := b; count := c |} ++ rest
              = show a ++ String sp (show b ++ String sp (show c ++ String nl rest))).
  { unfold format_one. cbn [inside outside count]. rewrite sapp_assoc. cbn [append]. rewrite sapp_assoc. cbn [append].
    rewrite sapp_assoc. cbn [append]. reflexivity. }
  rewrite E. unfold parse_line.
  rewrite take_until_app by (intros x Hx; apply (show_no_sep a x Hx)).
  rewrite take_until_app by (intros x Hx; apply (show_no_sep b x Hx)).
  rewrite take_until_app by (intros x Hx; apply (show_no_sep c x Hx)).
  rewrite !read_show. reflexivity.
Qed.

(** what is written reads back as exactly the configured mappings, whatever follows; for every list of mappings *)
Theorem parse_format : forall l rest, parse_n (List.length l) (format l ++ rest) = Some (l, rest).
Proof.
  induction l as [|m l IH]; intros rest; cbn [List.length format parse_n]; [reflexivity|].
  rewrite sapp_assoc. rewrite parse_format_one. rewrite IH. reflexivity.
Qed.

(** two lists of mappings with the same text are the same list: the text determines the configuration *)
Theorem format_injective : forall l1 l2, List.length l1 = List.length l2 -> format l1 = format l2 -> l1 = l2.
Proof.
  intros l1 l2 Hl He. pose proof (parse_format l1 EmptyString) as P1. pose proof (parse_format l2 EmptyString) as P2.
  rewrite He, Hl in P1. rewrite P1 in P2. congruence.
Qed.

Example format_example :
  format [ {| inside := 0; outside := 1000; count := 1 |}; {| inside := 1; outside := 100000; count := 65536 |} ]
  = of_codes [48;32;49;48;48;48;32;49;10; 49;32;49;48;48;48;48;48;32;54;53;53;51;54;10]%N.
Proof. reflexivity. Qed.

(** the text written for explicit mappings is never the text written for none (the latter has no newline) and is empty only for no mapping *)
Theorem written_reads_back : forall l eid, parse_n (List.length l) (written (Some l) eid) = Some (l, EmptyString).
Proof.
  intros l eid. cbn [written]. pose proof (parse_format l EmptyString) as P.
  assert (E : format l ++ EmptyString = format l).
  { generalize (format l). induction s as [|a s IH]; cbn [append]; [reflexivity|]. rewrite IH. reflexivity. }
  rewrite E in P. exact P.
Qed.

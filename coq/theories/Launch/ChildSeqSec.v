(** The specification of the child's call sequence (ChildSeq.child_calls, which the translated source is proved to
    follow) projects onto the security steps of SecState.child_steps, for which C04_state_at_exec gives the state
    the program starts in.  Together: the calls the source issues put the program into the requested state. *)
From Coq Require Import List Bool ZArith NArith String.
From GS Require Import Launch.SecState Launch.SecStateProofs Launch.ChildSeq.
Import ListNotations.
Open Scope Z_scope.

(** the values the options carry (the specification names them by selector; SecState by value) *)
Record vals := { vl_uid : N; vl_gid : N; vl_g : N; vl_gs : list N; vl_work : N; vl_host : N; vl_dom : N }.

Definition groups_of_flags (f : flags) (v : vals) : list N := if x_nogroups f then [] else vl_g v :: vl_gs v.

Definition cfg_of (f : flags) (v : vals) : config :=
  {| f_cred := if x_cred f
               then Some {| c_uid := vl_uid v; c_gid := vl_gid v; c_groups := groups_of_flags f v; c_nosetgroups := x_nosetgroups f |}
               else None;
     f_gidmap := x_gidmap f; f_gidmap_setgroups := x_gidsetgroups f; f_dropcaps := x_dropcaps f; f_nnp := x_nnp f;
     f_seccomp := x_seccomp f; f_ptrace := x_ptrace f; f_stop := x_stop f; f_sync := x_sync f; f_ucas := x_ucas f;
     f_workdir := if x_workdir f then Some (vl_work v) else None;
     f_host := if x_host f then Some (vl_host v) else None;
     f_domain := if x_domain f then Some (vl_dom v) else None |}.

Definition arg_is (a : xarg) (s : string) : bool :=
  match a with XSel x | XPtr x => String.eqb x s | _ => false end.

(** the security step a call of the specification stands for *)
Definition sec_of (f : flags) (v : vals) (c : xcall * option Z) : list step :=
  let nr := fst (fst c) in
  let args := snd (fst c) in
  let loc := snd c in
  if Z.eqb nr NR_prctl then
    match args with
    | [XInt a; XInt b] =>
        if Z.eqb a 28 then (if Z.eqb b keep_bits then [SKeepCaps] else if Z.eqb b drop_bits then [SNoRoot] else [])
        else if Z.eqb a 38 then [SNoNewPrivs] else []
    | _ => []
    end
  else if Z.eqb nr NR_setgroups then [SSetgroups (groups_of_flags f v)]
  else if Z.eqb nr NR_setgid then match args with [a] => if arg_is a "cred.Gid" then [SSetgid (vl_gid v)] else [] | _ => [] end
  else if Z.eqb nr NR_setuid then match args with [a] => if arg_is a "cred.Uid" then [SSetuid (vl_uid v)] else [] | _ => [] end
  else if Z.eqb nr NR_setsid then [SSetsid]
  else if Z.eqb nr NR_sethostname then [SSethost (Some (vl_host v))]
  else if Z.eqb nr NR_setdomainname then [SSetdomain (Some (vl_dom v))]
  else if Z.eqb nr NR_chdir then match args with [a] => if arg_is a "workdir" then [SChdir (Some (vl_work v))] else [] | _ => [] end
  else if Z.eqb nr NR_capset then [SCapset0]
  else if Z.eqb nr NR_write then match loc with Some l => if Z.eqb l LocSyncWrite then [SSyncWrite] else [] | None => [] end
  else if Z.eqb nr NR_read then match loc with Some l => if Z.eqb l LocSyncRead then [SSyncRead] else [] | None => [] end
  else if Z.eqb nr NR_unshare then [SUnshareCgroup]
  else if Z.eqb nr NR_ptrace then [STraceme]
  else if Z.eqb nr NR_kill then [SStop]
  else if Z.eqb nr NR_seccomp then [SSeccomp]
  else if is_exec (fst c) then [SExec]
  else [].

(** SecState writes "no such call" as a step with [None]; the specification has no call there *)
Definition real_step (s : step) : bool :=
  match s with SSethost None | SSetdomain None | SChdir None => false | _ => true end.
Definition clean (l : list step) : list step := filter real_step l.

Definition sec_view (f : flags) (v : vals) (l : list (xcall * option Z)) : list step := flat_map (sec_of f v) l.

Lemma sec_view_app f v a b : sec_view f v (a ++ b) = sec_view f v a ++ sec_view f v b.
Proof. apply flat_map_app. Qed.

(** the parts of the sequence that carry no security step *)
Lemma sec_start f v : sec_view f v (seg_start f) = [].
Proof. unfold seg_start, when. destruct (x_newuser f); reflexivity. Qed.
Lemma sec_session f v : sec_view f v (seg_session f) = [SSetsid].
Proof. unfold seg_session, when. destruct (x_ctty f); reflexivity. Qed.
Lemma sec_fs_before f v : sec_view f v (seg_fs_before f) = [].
Proof. unfold seg_fs_before, when. destruct (x_newns f), (x_pivot f); reflexivity. Qed.
Lemma sec_fs_after f v : sec_view f v (seg_fs_after f) = [].
Proof. unfold seg_fs_after, when. destruct (x_pivot f); reflexivity. Qed.
Lemma sec_pdeath f v : sec_view f v (seg_pdeath f) = [].
Proof. unfold seg_pdeath, when. destruct (x_ptrace f), (x_newpid f); reflexivity. Qed.

Lemma sec_exec f v : sec_view f v [(call_exec f, Some LocExecve)] = [SExec].
Proof. unfold call_exec. destruct (x_execfile f); reflexivity. Qed.

(** host name, domain name, working directory: three independent options *)
Lemma sec_names f v :
  sec_view f v (seg_names f) = clean [SSethost (f_host (cfg_of f v)); SSetdomain (f_domain (cfg_of f v)); SChdir (f_workdir (cfg_of f v))].
Proof. unfold seg_names, when, cfg_of; cbn [f_host f_domain f_workdir]. destruct (x_host f), (x_domain f), (x_workdir f); reflexivity. Qed.

(** SecState.child_steps around the three name steps *)
Definition cs_pre (c : config) : list step :=
  (match f_cred c with Some _ => [SKeepCaps] | None => if f_ucas c then [SKeepCaps] else [] end) ++
  (match f_cred c with
   | Some k => (if (f_gidmap c && negb (f_gidmap_setgroups c) && match c_groups k with [] => true | _ => false end) || c_nosetgroups k
                then [] else [SSetgroups (c_groups k)]) ++ [SSetgid (c_gid k); SSetuid (c_uid k)]
   | None => []
   end) ++
  [SSetsid].
Definition cs_post (c : config) : list step :=
  (if f_nnp c || f_seccomp c then [SNoNewPrivs] else []) ++
  (if wants_drop c && negb (f_ucas c) then drop else []) ++
  (if f_ptrace c && f_seccomp c
   then sync c ++ (if f_ucas c then SUnshareCgroup :: (if wants_drop c then drop else []) else []) ++ [STraceme]
   else []) ++
  (if f_stop c || (f_seccomp c && f_ptrace c) then [SStop] else []) ++
  (if f_seccomp c && (negb (f_ucas c) || f_ptrace c) then [SSeccomp] else []) ++
  (if negb (f_ptrace c) || negb (f_seccomp c)
   then sync c ++ (if f_ucas c then SUnshareCgroup :: (if wants_drop c then drop else []) ++ (if f_seccomp c then [SSeccomp] else []) else [])
   else []) ++
  (if f_ptrace c && negb (f_seccomp c) then [STraceme] else []) ++
  [SExec].
Lemma child_steps_split c :
  child_steps c = cs_pre c ++ [SSethost (f_host c); SSetdomain (f_domain c); SChdir (f_workdir c)] ++ cs_post c.
Proof. unfold child_steps, cs_pre, cs_post. rewrite <- !app_assoc. reflexivity. Qed.

Lemma clean_app a b : clean (a ++ b) = clean a ++ clean b.
Proof. apply filter_app. Qed.

Lemma sec_pre f v :
  sec_view f v (seg_ids f) ++ [SSetsid] = clean (cs_pre (cfg_of f v)).
Proof.
  destruct f as [nu np nn cr gm gsg ng nsg dc nnp sc pt st sy uc ct pv ho dm wd ex]. destruct v as [u g g0 gs w h d].
  unfold cfg_of, groups_of_flags, seg_ids, cs_pre, when; cbn [x_cred x_gidmap x_gidsetgroups x_nogroups x_nosetgroups x_ucas f_cred f_ucas f_gidmap f_gidmap_setgroups
    vl_uid vl_gid vl_g vl_gs].
  destruct cr; [destruct gm, gsg, ng, nsg, uc | destruct uc]; reflexivity.
Qed.

Lemma sec_post f v :
  sec_view f v (seg_privs f) ++ sec_view f v (seg_gate f) ++ [SExec] = clean (cs_post (cfg_of f v)).
Proof.
  destruct f as [nu np nn cr gm gsg ng nsg dc nnp sc pt st sy uc ct pv ho dm wd ex]. destruct v as [u g g0 gs w h d].
  unfold cfg_of, seg_privs, seg_gate, calls_sync_block, calls_drop, cs_post, when, wants_drop, sync, drop;
    cbn [x_cred x_dropcaps x_nnp x_seccomp x_ptrace x_stop x_sync x_ucas f_cred f_dropcaps f_nnp f_seccomp f_ptrace f_stop f_sync f_ucas].
  destruct cr, dc, nnp, sc, pt, st, sy, uc; reflexivity.
Qed.

Theorem spec_projects_to_child_steps : forall f v,
  sec_view f v (child_calls f) = clean (child_steps (cfg_of f v)).
Proof.
  intros f v. unfold child_calls.
  rewrite !sec_view_app, sec_start, sec_session, sec_fs_before, sec_fs_after, sec_pdeath, sec_exec, sec_names.
  rewrite child_steps_split, !clean_app, <- sec_pre, <- sec_post.
  cbn [app]. rewrite <- !app_assoc. reflexivity.
Qed.

(** hence: whenever the kernel lets every call of the specified sequence succeed, the program starts in the requested
    state (SecState.spec_state) *)
Lemma run_steps_clean s l : run_steps s (clean l) = run_steps s l.
Proof.
  revert s; induction l as [|x l IH]; intros s; [reflexivity|].
  unfold clean in *; cbn [filter].
  destruct x as [| | | | |h|d|w| | | | | | | | | |]; cbn [real_step run_steps]; try (destruct (apply s _); [apply IH | reflexivity]).
  - destruct h; cbn [real_step run_steps]; [destruct (apply s _); [apply IH | reflexivity]|].
    cbn [apply]. rewrite IH. destruct s; reflexivity.
  - destruct d; cbn [real_step run_steps]; [destruct (apply s _); [apply IH | reflexivity]|].
    cbn [apply]. rewrite IH. destruct s; reflexivity.
  - destruct w; cbn [real_step run_steps]; [destruct (apply s _); [apply IH | reflexivity]|].
    cbn [apply]. rewrite IH. destruct s; reflexivity.
Qed.

Theorem specified_calls_reach_requested_state : forall f v uid gid groups cwd host dom,
  let s0 := start uid gid groups cwd host dom in
  exists s, run_steps s0 (sec_view f v (child_calls f)) = Some s /\ spec_state (cfg_of f v) s0 s.
Proof.
  intros f v uid gid groups cwd host dom s0.
  rewrite spec_projects_to_child_steps, run_steps_clean.
  exact (GS.Launch.SecStateProofs.state_at_exec_spec (cfg_of f v) uid gid groups cwd host dom).
Qed.

From Coq Require Import List Bool Arith Lia.
From GS Require Import Launch.ParentFds.
Import ListNotations.

(** * every start of the code keeps the discipline, whatever its configuration and outcome *)
Lemma map_events_disc : forall m held q, mem (M 0) held = false -> mem (M 1) held = false -> mem (M 2) held = false ->
  disc held (map_events m 0 3 ++ q) = disc held q.
Proof.
  intros m held q H0 H1 H2.
  assert (D : forall k, mem (M k) held = false -> del (M k) (M k :: held) = held).
  { intros k Hk. unfold del. cbn [filter]. rewrite Nat.eqb_refl. cbn [negb].
    clear - Hk. induction held as [|h t IH]; [reflexivity|]. cbn [filter]. unfold mem in Hk. cbn [existsb] in Hk.
    apply orb_false_iff in Hk. destruct Hk as [Hh Ht]. rewrite Nat.eqb_sym in Hh. rewrite Hh. cbn [negb]. f_equal. apply IH. exact Ht. }
  assert (S1 : forall k r, mem (M k) held = false ->
              disc held (EOpen (M k) :: EUse (M k) :: EClose (M k) :: r) = disc held r).
  { intros k r Hk. cbn [disc]. rewrite Hk. unfold mem at 1. cbn [existsb]. rewrite Nat.eqb_refl. cbn [orb].
    unfold mem at 1. cbn [existsb]. rewrite Nat.eqb_refl. cbn [orb]. rewrite (D k Hk). reflexivity. }
  destruct m as [|j|j]; cbn [map_events].
  - cbn [app]. rewrite !S1 by assumption. reflexivity.
  - destruct j as [|[|[|j]]]; cbn [Nat.eqb app]; rewrite ?S1 by assumption; reflexivity.
  - destruct j as [|[|[|j]]]; cbn [Nat.eqb app]; rewrite ?S1 by assumption; reflexivity.
Qed.

Ltac crunch :=
  unfold start_events, start_events_merged, parent_events, parent_events_gen, helper_events, reaches_early, tail_events, P0, P1;
  cbn [userns syncf early clone_err mfail child_bad refuse late_err andb orb negb];
  cbn [app]; rewrite <- ?app_assoc; cbn [app];
  cbn [disc mem existsb Nat.eqb orb del filter negb];
  rewrite ?map_events_disc by reflexivity;
  cbn [disc mem existsb Nat.eqb orb del filter negb];
  try reflexivity.

Theorem start_keeps_discipline : forall c o, disc [] (start_events c o) = Some [].
Proof. intros [u s e] [ce mf cb rf le]. destruct ce, u, s, cb, rf, e, le; crunch. Qed.

(** the launching thread alone leaves p[0] open exactly on the early-return path (the helper goroutine closes it) *)
Theorem parent_thread_leaves : forall c o,
  disc [] (parent_events c o) = Some (if reaches_early c o then [P0] else []).
Proof. intros [u s e] [ce mf cb rf le]. destruct ce, u, s, cb, rf, e, le; crunch. Qed.

(** the merged-label variant closes p[0] twice whenever the child fails late *)
Theorem merged_breaks_discipline : forall c o, early c = false -> clone_err o = false ->
  (syncf c = true -> child_bad o = false /\ refuse o = false) -> late_err o = true ->
  disc [] (start_events_merged c o) = None.
Proof.
  intros [u s e] [ce mf cb rf le]. cbn [userns syncf early clone_err mfail child_bad refuse late_err].
  intros -> -> Hs ->. destruct s; [destruct (Hs eq_refl) as [-> ->]|]; destruct u; crunch.
Qed.

(** * any number of disciplined starts, any interleaving, any allocation of free numbers: nobody's number is hit *)
Lemma owner_none : forall n t, ~ In n (dom t) -> owner n t = None.
Proof.
  intros n t. induction t as [|[m o] r IH]; cbn [owner dom map fst]; intros H; [reflexivity|].
  destruct (Nat.eqb_spec m n) as [->|Hne]; [exfalso; apply H; left; reflexivity|]. apply IH. intros Hi. apply H. right. exact Hi.
Qed.

Lemma owner_drop_other : forall n m t, m <> n -> owner m (drop n t) = owner m t.
Proof.
  intros n m t Hne. induction t as [|[k o] r IH]; [reflexivity|]. cbn [drop filter fst].
  destruct (Nat.eqb_spec k n) as [->|Hkn]; cbn [negb owner].
  - destruct (Nat.eqb_spec n m) as [->|_]; [congruence|]. exact IH.
  - destruct (Nat.eqb_spec k m); [reflexivity|]. exact IH.
Qed.

Lemma mem_true_iff : forall a l, mem a l = true <-> In a l.
Proof.
  intros a l. unfold mem. rewrite existsb_exists. split.
  - intros [x [Hx He]]. apply Nat.eqb_eq in He. subst. exact Hx.
  - intros H. exists a. split; [exact H|apply Nat.eqb_refl].
Qed.
Lemma mem_false_iff : forall a l, mem a l = false <-> ~ In a l.
Proof.
  intros a l. rewrite <- mem_true_iff. destruct (mem a l); split; intros H; try congruence; try discriminate.
Qed.

Lemma in_del : forall a b l, In b (del a l) <-> In b l /\ b <> a.
Proof.
  intros a b l. unfold del. rewrite filter_In. split; intros [H1 H2]; split; try exact H1.
  - apply negb_true_iff in H2. apply Nat.eqb_neq in H2. exact H2.
  - apply negb_true_iff. apply Nat.eqb_neq. exact H2.
Qed.

Section Safety.
  Variable alloc : list nat -> nat.
  Hypothesis alloc_fresh : forall l, ~ In (alloc l) l.

  (** what actor [i] holds: every held name is bound to a number of the table that is [i]'s, distinct names to distinct numbers *)
  Definition holds (s : gst) (i : nat) (held : list fdn) : Prop :=
    disc held (prog (act s i)) <> None /\
    (forall a, In a held -> owner (env (act s i) a) (tbl s) = Some i) /\
    (forall a b, In a held -> In b held -> a <> b -> env (act s i) a <> env (act s i) b).

  Definition inv (s : gst) : Prop := bad s = false /\ exists H : nat -> list fdn, forall i, holds s i (H i).

  Lemma upd_same : forall A (f : nat -> A) i x, upd f i x i = x.
  Proof. intros. unfold upd. rewrite Nat.eqb_refl. reflexivity. Qed.
  Lemma upd_other : forall A (f : nat -> A) i j x, j <> i -> upd f i x j = f j.
  Proof. intros A f i j x H. unfold upd. destruct (Nat.eqb_spec j i); [contradiction|reflexivity]. Qed.

  Lemma step_inv : forall s i, inv s -> inv (step alloc s i).
  Proof.
    intros s i [Hb [H HH]]. unfold step.
    destruct (prog (act s i)) as [|e q] eqn:Hp; [split; [exact Hb|exists H; exact HH]|].
    pose proof (HH i) as [Hd [Hown Hinj]]. rewrite Hp in Hd.
    destruct e as [x y|x|x|x]; cbn [disc] in Hd.
    - (* create2 *)
      destruct (mem x (H i) || mem y (H i) || (x =? y)) eqn:Hm; [congruence|].
      apply orb_false_iff in Hm. destruct Hm as [Hm Hxy]. apply orb_false_iff in Hm. destruct Hm as [Hx Hy].
      apply mem_false_iff in Hx. apply mem_false_iff in Hy. apply Nat.eqb_neq in Hxy.
      set (n1 := alloc (dom (tbl s))). set (n2 := alloc (n1 :: dom (tbl s))).
      assert (F1 : ~ In n1 (dom (tbl s))) by apply alloc_fresh.
      assert (F2 : ~ In n2 (n1 :: dom (tbl s))) by apply alloc_fresh.
      assert (N12 : n2 <> n1) by (intros E; apply F2; left; symmetry; exact E).
      assert (F2' : ~ In n2 (dom (tbl s))) by (intros E; apply F2; right; exact E).
      split; [exact Hb|]. exists (upd H i (x :: y :: H i)). intros j. unfold holds. cbn [tbl act].
      destruct (Nat.eq_dec j i) as [->|Hji].
      + rewrite !upd_same. cbn [prog env]. split; [exact Hd|].
        assert (V : forall a, In a (H i) -> upd (upd (env (act s i)) x n1) y n2 a = env (act s i) a /\ env (act s i) a <> n1 /\ env (act s i) a <> n2).
        { intros a Ha. assert (a <> x) by (intros ->; contradiction). assert (a <> y) by (intros ->; contradiction).
          rewrite !upd_other by assumption. split; [reflexivity|]. pose proof (Hown a Ha) as Ho.
          split; intros E; rewrite E in Ho; rewrite owner_none in Ho by assumption; discriminate. }
        assert (Vx : upd (upd (env (act s i)) x n1) y n2 x = n1) by (rewrite upd_other by exact Hxy; apply upd_same).
        assert (Vy : upd (upd (env (act s i)) x n1) y n2 y = n2) by apply upd_same.
        split.
        * intros a [<-|[<-|Ha]]; cbn [owner].
          -- rewrite Vx. destruct (Nat.eqb_spec n2 n1); [contradiction|]. rewrite Nat.eqb_refl. reflexivity.
          -- rewrite Vy. rewrite Nat.eqb_refl. reflexivity.
          -- destruct (V a Ha) as [-> [V1 V2]].
             destruct (Nat.eqb_spec n2 (env (act s i) a)) as [E|_]; [exfalso; apply V2; symmetry; exact E|].
             destruct (Nat.eqb_spec n1 (env (act s i) a)) as [E|_]; [exfalso; apply V1; symmetry; exact E|].
             apply Hown. exact Ha.
        * intros a b [<-|[<-|Ha]] [<-|[<-|Hb']] Hab; try congruence; rewrite ?Vx, ?Vy;
            try (destruct (V a Ha) as [-> [? ?]]); try (destruct (V b Hb') as [-> [? ?]]); try congruence.
          apply Hinj; assumption.
      + rewrite !upd_other by exact Hji. destruct (HH j) as [Hdj [Hoj Hij]]. split; [exact Hdj|]. split; [|exact Hij].
        intros a Ha. pose proof (Hoj a Ha) as Ho. cbn [owner].
        destruct (Nat.eqb_spec n2 (env (act s j) a)) as [E|_]; [rewrite <- E in Ho; rewrite owner_none in Ho by exact F2'; discriminate|].
        destruct (Nat.eqb_spec n1 (env (act s j) a)) as [E|_]; [rewrite <- E in Ho; rewrite owner_none in Ho by exact F1; discriminate|].
        exact Ho.
    - (* open *)
      destruct (mem x (H i)) eqn:Hx; [congruence|]. apply mem_false_iff in Hx.
      set (n1 := alloc (dom (tbl s))).
      assert (F1 : ~ In n1 (dom (tbl s))) by apply alloc_fresh.
      split; [exact Hb|]. exists (upd H i (x :: H i)). intros j. unfold holds. cbn [tbl act].
      destruct (Nat.eq_dec j i) as [->|Hji].
      + rewrite !upd_same. cbn [prog env]. split; [exact Hd|].
        assert (V : forall a, In a (H i) -> upd (env (act s i)) x n1 a = env (act s i) a /\ env (act s i) a <> n1).
        { intros a Ha. assert (a <> x) by (intros ->; contradiction). rewrite upd_other by assumption. split; [reflexivity|].
          pose proof (Hown a Ha) as Ho. intros E; rewrite E in Ho; rewrite owner_none in Ho by assumption; discriminate. }
        split.
        * intros a [<-|Ha]; cbn [owner].
          -- rewrite upd_same. rewrite Nat.eqb_refl. reflexivity.
          -- destruct (V a Ha) as [-> V1]. destruct (Nat.eqb_spec n1 (env (act s i) a)) as [E|_]; [exfalso; apply V1; symmetry; exact E|].
             apply Hown. exact Ha.
        * intros a b [<-|Ha] [<-|Hb'] Hab; try congruence; rewrite ?upd_same;
            try (destruct (V a Ha) as [-> ?]); try (destruct (V b Hb') as [-> ?]); try congruence.
          apply Hinj; assumption.
      + rewrite !upd_other by exact Hji. destruct (HH j) as [Hdj [Hoj Hij]]. split; [exact Hdj|]. split; [|exact Hij].
        intros a Ha. pose proof (Hoj a Ha) as Ho. cbn [owner].
        destruct (Nat.eqb_spec n1 (env (act s j) a)) as [E|_]; [rewrite <- E in Ho; rewrite owner_none in Ho by exact F1; discriminate|].
        exact Ho.
    - (* use *)
      destruct (mem x (H i)) eqn:Hx; [|congruence]. apply mem_true_iff in Hx.
      split.
      + cbn [bad]. rewrite Hb, (Hown x Hx), Nat.eqb_refl. reflexivity.
      + exists H. intros j. unfold holds. cbn [tbl act]. destruct (Nat.eq_dec j i) as [->|Hji].
        * rewrite upd_same. cbn [prog env]. split; [exact Hd|]. split; assumption.
        * rewrite upd_other by exact Hji. apply HH.
    - (* close *)
      destruct (mem x (H i)) eqn:Hx; [|congruence]. apply mem_true_iff in Hx.
      split.
      + cbn [bad]. rewrite Hb, (Hown x Hx), Nat.eqb_refl. reflexivity.
      + exists (upd H i (del x (H i))). intros j. unfold holds. cbn [tbl act]. destruct (Nat.eq_dec j i) as [->|Hji].
        * rewrite !upd_same. cbn [prog env]. split; [exact Hd|]. split.
          -- intros a Ha. apply in_del in Ha. destruct Ha as [Ha Hax].
             rewrite owner_drop_other; [apply Hown; exact Ha|]. apply Hinj; assumption.
          -- intros a b Ha Hb' Hab. apply in_del in Ha. apply in_del in Hb'. apply Hinj; tauto.
        * rewrite !upd_other by exact Hji. destruct (HH j) as [Hdj [Hoj Hij]]. split; [exact Hdj|]. split; [|exact Hij].
          intros a Ha. rewrite owner_drop_other; [apply Hoj; exact Ha|].
          intros E. pose proof (Hoj a Ha) as Ho. rewrite E in Ho. rewrite (Hown x Hx) in Ho. congruence.
  Qed.

  Lemma run_inv : forall sched s, inv s -> inv (run alloc s sched).
  Proof.
    induction sched as [|i r IH]; intros s Hs; [exact Hs|]. unfold run in *. cbn [fold_left]. apply IH. apply step_inv. exact Hs.
  Qed.

  Lemma init_inv : forall t0 progs, (forall i, disc [] (progs i) <> None) -> inv (init t0 progs).
  Proof.
    intros t0 progs Hp. split; [reflexivity|]. exists (fun _ => []). intros i. unfold holds. cbn [init act prog env tbl].
    split; [apply Hp|]. split; intros; contradiction.
  Qed.

  (** the table may hold anything else to begin with; the schedule is any list of actor numbers *)
  Theorem no_foreign_close : forall t0 progs, (forall i, disc [] (progs i) <> None) ->
    forall sched, bad (run alloc (init t0 progs) sched) = false.
  Proof. intros t0 progs Hp sched. apply (run_inv sched (init t0 progs) (init_inv t0 progs Hp)). Qed.
End Safety.

(** the kernel's allocation is one such [alloc] *)
Lemma lowest_fresh : forall l, ~ In (lowest l) l.
Proof.
  intros l. unfold lowest. destruct (find _ _) as [n|] eqn:Hf.
  - apply find_some in Hf. destruct Hf as [_ Hn]. apply negb_true_iff in Hn. apply mem_false_iff. exact Hn.
  - intros Hin. assert (B : Forall (fun x => x <= list_max l) l) by (apply list_max_le; apply Nat.le_refl).
    rewrite Forall_forall in B. apply B in Hin. lia.
Qed.

(** the code: every start of forkexec, in any configuration, with any outcome, interleaved in any way with any number of others *)
Theorem go_starts_never_hit_foreign_numbers : forall t0 (cfgs : nat -> cfg) (outs : nat -> outcome) sched,
  bad (run lowest (init t0 (fun i => start_events (cfgs i) (outs i))) sched) = false.
Proof.
  intros. apply no_foreign_close; [exact lowest_fresh|]. intros i. rewrite start_keeps_discipline. discriminate.
Qed.

(** the merged-label variant: two starts, the first fails late; between its two closes of p[0] the second start gets that number *)
Definition c0 := {| userns := false; syncf := false; early := false |}.
Definition o_late := {| clone_err := false; mfail := MNone; child_bad := false; refuse := false; late_err := true |}.
Definition o_fine := {| clone_err := false; mfail := MNone; child_bad := false; refuse := false; late_err := false |}.
Theorem merged_labels_refuted : exists sched,
  bad (run lowest (init [(0,9);(1,9);(2,9)] (fun i => start_events_merged c0 (if i =? 0 then o_late else o_fine))) sched) = true.
Proof. exists [0;0;0;0;1;0]. vm_compute. reflexivity. Qed.

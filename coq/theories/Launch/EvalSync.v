(** Executable comparison for the correspondence run of C07: the outcome observed for a launch must
    be one of the terminal outcomes of the sync LTS for that configuration. *)
From Coq Require Import List Bool Arith PArith NArith FMapPositive.
From GS Require Import Launch.SyncLts Launch.SyncProofs.
Import ListNotations.

(** (userns, callback configured, [ok or error location], target ran, callback was called) *)
Definition outcome_ok (x : bool * bool * nat * bool * bool) : bool :=
  let '(u, s, res, ran, cb) := x in
  existsb (fun kv =>
    let t := snd kv in
    (Nat.eqb (par_num (y_par t)) res) && Bool.eqb (y_ran t) ran &&
    (* the callback was called iff the child got as far as the sync point (an ack was sent or the callback failed) *)
    (Bool.eqb cb (s && (y_acked t || Nat.eqb res (20 + loc_num LCallback)))) &&
    (* terminal: nothing more can happen to the parent *)
    (match par_steps t with [] => true | _ => false end) &&
    (match y_par t with PDoneOk => Nat.eqb (kid_num (y_kid t)) 5 | _ => true end))
    (PositiveMap.elements (SV u s false)).

(** the launcher was killed inside the callback (no ack sent): (userns, callback configured, target ran, the child exited
    by itself).  The observed end must be an end of the LTS with the parent crashed and nothing more the child can do. *)
Definition death_ok (x : bool * bool * bool * bool) : bool :=
  let '(u, s, ran, exited) := x in
  existsb (fun kv =>
    let t := snd kv in
    Nat.eqb (par_num (y_par t)) 6 && negb (y_acked t) && Bool.eqb (y_ran t) ran &&
    (match kid_steps t with [] => true | _ => false end) &&
    Bool.eqb exited (Nat.eqb (kid_num (y_kid t)) 7))
    (PositiveMap.elements (SV u s false)).

Fixpoint indexed {A} (i : N) (l : list A) : list (N * A) :=
  match l with [] => [] | x :: r => (i, x) :: indexed (N.succ i) r end.
Definition failing {A} (ok : A -> bool) (l : list A) : list N :=
  flat_map (fun '(i, x) => if ok x then [] else [i]) (indexed 0%N l).

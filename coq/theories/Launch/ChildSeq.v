(** The child side of a launch as a specification: for every combination of options, the system calls the
    child issues between clone and exec, in order, each with the error location that is reported when it
    fails ([None]: the result is not looked at).  Written from the documentation of the options and the
    reading of pkg/forkexec/fork_child_linux.go; the translated source (tools/goxlate) is proved to issue
    exactly these calls for every combination (srcthm/ChildSrcThm.v, re-checked on every run).

    Descriptor shuffle, mounts and resource limits are loops over the caller's lists; here the lists are
    empty and the loops are specified on their own below ([mount_calls], [rlimit_calls]) and in
    FdShuffle.v. *)
From Coq Require Import List ZArith Bool String.
Import ListNotations.
Open Scope Z_scope.
Open Scope string_scope.

Inductive xarg := XInt (z : Z) | XPtr (s : string) | XSel (s : string) | XLen (s : string).
Definition xcall := (Z * list xarg)%type.

(** x86-64 system call numbers (arch/x86/entry/syscalls/syscall_64.tbl) *)
Definition NR_read := 0.        Definition NR_write := 1.       Definition NR_close := 3.
Definition NR_ioctl := 16.      Definition NR_nanosleep := 35.  Definition NR_getpid := 39.
Definition NR_clone := 56.      Definition NR_execve := 59.     Definition NR_kill := 62.
Definition NR_fcntl := 72.      Definition NR_chdir := 80.      Definition NR_ptrace := 101.
Definition NR_setuid := 105.    Definition NR_setgid := 106.    Definition NR_getppid := 110.
Definition NR_setsid := 112.    Definition NR_setgroups := 116. Definition NR_capset := 126.
Definition NR_statfs := 137.    Definition NR_pivot_root := 155. Definition NR_prctl := 157.
Definition NR_mount := 165.     Definition NR_umount2 := 166.   Definition NR_sethostname := 170.
Definition NR_setdomainname := 171. Definition NR_mkdirat := 258. Definition NR_mknodat := 259.
Definition NR_unlinkat := 263.  Definition NR_unshare := 272.   Definition NR_dup3 := 292.
Definition NR_prlimit64 := 302. Definition NR_seccomp := 317.   Definition NR_execveat := 322.
Definition NR_clone3 := 435.

(** error locations (pkg/forkexec/errloc_linux.go, in the order of the String table) *)
Definition LocClone := 1.        Definition LocCloseWrite := 2.   Definition LocUnshareUserRead := 3.
Definition LocGetPid := 4.       Definition LocKeepCapability := 5. Definition LocSetGroups := 6.
Definition LocSetGid := 7.       Definition LocSetUid := 8.       Definition LocDup3 := 9.
Definition LocFcntl := 10.       Definition LocSetSid := 11.      Definition LocIoctl := 12.
Definition LocMountRoot := 13.   Definition LocMountTmpfs := 14.  Definition LocMountChdir := 15.
Definition LocMount := 16.       Definition LocMountMkdir := 17.  Definition LocPivotRoot := 18.
Definition LocChdir := 22.       Definition LocSetRlimit := 23.   Definition LocSetNoNewPrivs := 24.
Definition LocDropCapability := 25. Definition LocSetCap := 26.   Definition LocPtraceMe := 27.
Definition LocStop := 28.        Definition LocSeccomp := 29.     Definition LocSyncWrite := 30.
Definition LocSyncRead := 31.    Definition LocExecve := 32.

Record flags := {
  x_newuser : bool;      (* CLONE_NEWUSER in CloneFlags *)
  x_newpid : bool;       (* CLONE_NEWPID *)
  x_newns : bool;        (* CLONE_NEWNS *)
  x_cred : bool;         (* Credential != nil *)
  x_gidmap : bool;       (* GIDMappings != nil *)
  x_gidsetgroups : bool; (* GIDMappingsEnableSetgroups *)
  x_nogroups : bool;     (* Credential.Groups is empty *)
  x_nosetgroups : bool;  (* Credential.NoSetGroups *)
  x_dropcaps : bool;
  x_nnp : bool;
  x_seccomp : bool;      (* Seccomp != nil *)
  x_ptrace : bool;
  x_stop : bool;         (* StopBeforeSeccomp *)
  x_sync : bool;         (* SyncFunc != nil *)
  x_ucas : bool;         (* UnshareCgroupAfterSync *)
  x_ctty : bool;
  x_pivot : bool;        (* PivotRoot != "" *)
  x_host : bool;         (* HostName != "" *)
  x_domain : bool;
  x_workdir : bool;
  x_execfile : bool }.   (* ExecFile > 0 *)

(** the numbers the specification is instantiated with (the theorems are stated for these; no call depends on them otherwise) *)
Definition fd_parent_end := 20.   (* p[0] *)
Definition fd_sync := 21.         (* p[1]: the child's end of the sync socket *)
Definition the_pid := 1000.
Definition fd_exec := 7.

Definition when {A} (b : bool) (l : list A) : list A := if b then l else [].

(** PR_SET_SECUREBITS words *)
Definition keep_bits := 44.    (* KEEP_CAPS_LOCKED | NO_SETUID_FIXUP | NO_SETUID_FIXUP_LOCKED *)
Definition drop_bits := 47.    (* the above | NOROOT | NOROOT_LOCKED *)

Definition call_sync_write : xcall * option Z := ((NR_write, [XInt fd_sync; XPtr "&err2"; XInt 8]), Some LocSyncWrite).
Definition call_sync_read : xcall * option Z := ((NR_read, [XInt fd_sync; XPtr "&err2"; XInt 8]), Some LocSyncRead).
Definition call_seccomp : xcall * option Z := ((NR_seccomp, [XInt 1; XInt 1; XPtr "r.Seccomp"]), Some LocSeccomp).
(** make sure the program has no privilege at all: NOROOT locked, then every capability set emptied *)
Definition calls_drop (loc_bits : Z) : list (xcall * option Z) :=
  [((NR_prctl, [XInt 28; XInt drop_bits]), Some loc_bits);
   ((NR_capset, [XPtr "&dropCapHeader"; XPtr "&dropCapData"]), Some LocSetCap)].

(** sync with the launcher, then what has to wait for it (cgroup namespace, and with it the last privileges) *)
Definition calls_sync_block (f : flags) (late_seccomp : bool) : list (xcall * option Z) :=
  when (x_sync f) [call_sync_write; call_sync_read] ++
  when (x_ucas f)
    ([((NR_unshare, [XInt 33554432]), None)] ++
     when (x_dropcaps f || x_cred f) (calls_drop LocKeepCapability) ++
     when (late_seccomp && x_seccomp f) [call_seccomp]).

Definition seg_start (f : flags) : list (xcall * option Z) :=
  [((NR_close, [XInt fd_parent_end]), Some LocCloseWrite)] ++
  when (x_newuser f) [((NR_read, [XInt fd_sync; XPtr "&err2"; XInt 8]), Some LocUnshareUserRead)] ++
  [((NR_getpid, []), Some LocGetPid)].

Definition seg_ids (f : flags) : list (xcall * option Z) :=
  when (x_cred f || x_ucas f) [((NR_prctl, [XInt 28; XInt keep_bits]), Some LocKeepCapability)] ++
  when (x_cred f)
    (when (negb (x_gidmap f && negb (x_gidsetgroups f) && x_nogroups f) && negb (x_nosetgroups f))
       [((NR_setgroups, [XInt (if x_nogroups f then 0 else 1); if x_nogroups f then XInt 0 else XPtr "&cred.Groups[0]"]), Some LocSetGroups)] ++
     [((NR_setgid, [XSel "cred.Gid"]), Some LocSetGid); ((NR_setuid, [XSel "cred.Uid"]), Some LocSetUid)]).

Definition seg_session (f : flags) : list (xcall * option Z) :=
  [((NR_setsid, []), Some LocSetSid)] ++
  when (x_ctty f) [((NR_ioctl, [XInt 0; XInt 21518; XInt 1]), Some LocIoctl)].

Definition seg_fs_before (f : flags) : list (xcall * option Z) :=
  when (x_newns f) [((NR_mount, [XPtr "&none[0]"; XPtr "&slash[0]"; XInt 0; XInt 278528]), Some LocMountRoot)] ++
  when (x_pivot f)
    [((NR_mount, [XPtr "&tmpfs[0]"; XPtr "pivotRoot"; XPtr "&tmpfs[0]"; XInt 0; XPtr "&empty[0]"]), Some LocMountTmpfs);
     ((NR_chdir, [XPtr "pivotRoot"]), Some LocMountChdir)].

Definition seg_fs_after (f : flags) : list (xcall * option Z) :=
  when (x_pivot f)
    [((NR_mkdirat, [XInt (-100); XPtr "&oldRoot[0]"; XInt 493]), Some LocPivotRoot);
     ((NR_pivot_root, [XPtr "pivotRoot"; XPtr "&oldRoot[0]"]), Some LocPivotRoot);
     ((NR_umount2, [XPtr "&oldRoot[0]"; XInt 2]), Some LocPivotRoot);
     ((NR_unlinkat, [XInt (-100); XPtr "&oldRoot[0]"; XInt 512]), Some LocPivotRoot);
     (* the new root becomes read-only: MS_BIND | MS_REMOUNT | MS_RDONLY | MS_NOATIME | MS_NOSUID *)
     ((NR_mount, [XPtr "&tmpfs[0]"; XPtr "&slash[0]"; XPtr "&tmpfs[0]"; XInt 5155; XPtr "&empty[0]"]), Some LocPivotRoot)].

Definition seg_names (f : flags) : list (xcall * option Z) :=
  when (x_host f) [((NR_sethostname, [XPtr "hostname"; XLen "r.HostName"]), None)] ++
  when (x_domain f) [((NR_setdomainname, [XPtr "domainname"; XLen "r.DomainName"]), None)] ++
  when (x_workdir f) [((NR_chdir, [XPtr "workdir"]), Some LocChdir)].

Definition seg_privs (f : flags) : list (xcall * option Z) :=
  when (x_nnp f || x_seccomp f) [((NR_prctl, [XInt 38; XInt 1]), Some LocSetNoNewPrivs)] ++
  when ((x_cred f || x_dropcaps f) && negb (x_ucas f)) (calls_drop LocDropCapability).

(** a traced child asks to die with its launcher (PR_SET_PDEATHSIG, SIGKILL) and looks whether it is gone already *)
Definition seg_pdeath (f : flags) : list (xcall * option Z) :=
  when (x_ptrace f)
    ([((NR_prctl, [XInt 1; XInt 9]), Some LocPtraceMe)] ++
     when (negb (x_newpid f)) [((NR_getppid, []), Some LocPtraceMe)]).

Definition seg_gate (f : flags) : list (xcall * option Z) :=
  when (x_ptrace f && x_seccomp f)
    (calls_sync_block f false ++ [((NR_ptrace, []), Some LocPtraceMe)]) ++
  when (x_stop f || (x_seccomp f && x_ptrace f)) [((NR_kill, [XInt the_pid; XInt 19]), Some LocStop)] ++
  when (x_seccomp f && (negb (x_ucas f) || x_ptrace f)) [call_seccomp] ++
  when (negb (x_ptrace f) || negb (x_seccomp f)) (calls_sync_block f true) ++
  when (x_ptrace f && negb (x_seccomp f)) [((NR_ptrace, []), Some LocPtraceMe)].

Definition call_exec (f : flags) : xcall :=
  if x_execfile f
  then (NR_execveat, [XInt fd_exec; XPtr "&empty[0]"; XPtr "&argv[0]"; XPtr "&env[0]"; XInt 4096])
  else (NR_execve, [XPtr "argv0"; XPtr "&argv[0]"; XPtr "&env[0]"]).

Definition child_calls (f : flags) : list (xcall * option Z) :=
  seg_start f ++ seg_ids f ++ seg_session f ++ seg_fs_before f ++ seg_fs_after f ++ seg_names f ++
  seg_privs f ++ seg_pdeath f ++ seg_gate f ++ [(call_exec f, Some LocExecve)].

(** ** the loops *)

(** one mount of the caller's list: directories (or a node) for the target, the mount, and for a read-only
    bind the remount that makes it so, keeping the restrictions the source file system has *)
Definition bind_ro := 4097.   (* MS_BIND | MS_RDONLY *)
Definition mount_calls (idx : Z) (nprefix : nat) (makenod : bool) (mflags statfs_flags : Z) : list (xcall * option (Z * Z)) :=
  (map (fun _ => ((NR_mkdirat, [XInt (-100); XPtr "m.Prefixes[]"; XInt 493]), Some (LocMountMkdir, idx)))
       (seq 0 (if makenod then Nat.pred nprefix else nprefix))) ++
  when (makenod && negb (Nat.eqb nprefix 0)) [((NR_mknodat, [XInt (-100); XPtr "m.Prefixes[]"; XInt 493]), Some (LocMountMkdir, idx))] ++
  [((NR_mount, [XPtr "m.Source"; XPtr "m.Target"; XPtr "m.FsType"; XSel "m.Flags"; XPtr "m.Data"]), Some (LocMount, idx))] ++
  when (Z.eqb (Z.land mflags bind_ro) bind_ro)
    [((NR_statfs, [XPtr "m.Source"; XPtr "&s"]), Some (LocMount, idx));
     (* MS_REMOUNT plus what statfs reports of NOSUID|NODEV|NOEXEC|NOATIME|NODIRATIME|RELATIME (2|4|8|1024|2048|2097152) *)
     ((NR_mount, [XPtr "&empty[0]"; XPtr "m.Target"; XPtr "m.FsType"; XInt (Z.lor (Z.lor mflags 32) (Z.land statfs_flags 2100238)); XPtr "m.Data"]),
      Some (LocMount, idx))].

Definition rlimit_calls (n : nat) : list (xcall * option (Z * Z)) :=
  map (fun i => ((NR_prlimit64, [XInt 0; XSel "rlim.Res"; XPtr "&rlim.Rlim"]), Some (LocSetRlimit, Z.of_nat i))) (seq 0 n).

(** the whole sequence with the two loops at their places *)
Definition child_calls_loops (f : flags) (mc rc : list xcall) : list xcall :=
  map fst (seg_start f ++ seg_ids f ++ seg_session f ++ seg_fs_before f) ++ mc ++
  map fst (seg_fs_after f ++ seg_names f) ++ rc ++
  map fst (seg_privs f ++ seg_pdeath f ++ seg_gate f ++ [(call_exec f, Some LocExecve)]).

(** ** facts the properties need, about the specification *)

Definition is_exec (c : xcall) : bool := Z.eqb (fst c) NR_execve || Z.eqb (fst c) NR_execveat.
Definition is_nr (n : Z) (c : xcall * option Z) : bool := Z.eqb (fst (fst c)) n.

Fixpoint index_of {A} (p : A -> bool) (l : list A) : option nat :=
  match l with [] => None | x :: r => if p x then Some O else option_map S (index_of p r) end.

Definition calls_of (f : flags) : list xcall := map fst (child_calls f).

(** the sync read that the launcher answers (not the read of the id-map result at the very start) *)
Definition is_sync_read (c : xcall * option Z) : bool := match snd c with Some l => Z.eqb l LocSyncRead | None => false end.
Definition is_sync_write (c : xcall * option Z) : bool := match snd c with Some l => Z.eqb l LocSyncWrite | None => false end.

(** what may still happen between the launcher's approval and the exec *)
Definition after_approval_ok (c : xcall * option Z) : bool :=
  let n := fst (fst c) in
  Z.eqb n NR_unshare || Z.eqb n NR_prctl || Z.eqb n NR_capset || Z.eqb n NR_seccomp || Z.eqb n NR_ptrace || Z.eqb n NR_kill
  || is_exec (fst c).

Definition all_flags_of (l : list bool) : option flags :=
  match l with
  | [a; b; c; d; e; f; g; h; i; j; k; l; m; n; o; p; q; r; s; t; u] =>
      Some {| x_newuser := a; x_newpid := b; x_newns := c; x_cred := d; x_gidmap := e; x_gidsetgroups := f; x_nogroups := g;
              x_nosetgroups := h; x_dropcaps := i; x_nnp := j; x_seccomp := k; x_ptrace := l; x_stop := m; x_sync := n; x_ucas := o;
              x_ctty := p; x_pivot := q; x_host := r; x_domain := s; x_workdir := t; x_execfile := u |}
  | _ => None
  end.

Definition bits_of (f : flags) : list bool :=
  [x_newuser f; x_newpid f; x_newns f; x_cred f; x_gidmap f; x_gidsetgroups f; x_nogroups f; x_nosetgroups f; x_dropcaps f; x_nnp f;
   x_seccomp f; x_ptrace f; x_stop f; x_sync f; x_ucas f; x_ctty f; x_pivot f; x_host f; x_domain f; x_workdir f; x_execfile f].

Fixpoint all_bits (n : nat) : list (list bool) :=
  match n with O => [[]] | S k => map (cons true) (all_bits k) ++ map (cons false) (all_bits k) end.

Close Scope string_scope.
Open Scope list_scope.
(** every list of booleans of length n is in [all_bits n]; a list of n + m bits splits *)
Lemma all_bits_complete (l : list bool) : In l (all_bits (List.length l)).
Proof.
  induction l as [|b l IH]; cbn [List.length all_bits]; [left; reflexivity|].
  apply in_or_app. destruct b; [left | right]; apply in_map; exact IH.
Qed.

Lemma all_bits_split n m a : In a (all_bits (n + m)) ->
  exists p r, a = p ++ r /\ In p (all_bits n) /\ In r (all_bits m).
Proof.
  revert a; induction n as [|n IH]; intros a H.
  - exists [], a. repeat split; [left; reflexivity | exact H].
  - cbn [Nat.add all_bits] in H. apply in_app_or in H.
    destruct H as [H|H]; apply in_map_iff in H; destruct H as [x [<- Hx]];
      destruct (IH x Hx) as [p [r [-> [Hp Hr]]]].
    + exists (true :: p), r. repeat split; [| exact Hr]. cbn [all_bits]. apply in_or_app; left; apply in_map; exact Hp.
    + exists (false :: p), r. repeat split; [| exact Hr]. cbn [all_bits]. apply in_or_app; right; apply in_map; exact Hp.
Qed.

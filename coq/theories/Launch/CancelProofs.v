From Coq Require Import List Bool Arith PArith FMapPositive.
From GS Require Import Base.Code Base.Lts Launch.CancelLts.
Import ListNotations.

Definition CR := reach cstate cinit (cnext true).
Definition CV := Eval vm_compute in explore cstate cenc (cnext true) 40 cinit.

Definition cinv (s : cstate) : bool :=
  (* a cancellation that was acted upon is never lost *)
  (negb (c_fired s) || negb (alive (c_child s))) &&
  (* the verdict is the program's own if it ended by itself, else Time Limit Exceeded; never Runner Error *)
  (match c_ret s with
   | VNone => true
   | VGenuine => Nat.eqb (child_num (c_child s)) 4
   | VTimeLimit => Nat.eqb (child_num (c_child s)) 3 && c_ctx s
   | VRunnerError => false
   end).

Lemma CV_ok : wf cstate cenc CV && closed cstate cenc cinit (cnext true) CV && all_inv cstate cinv CV = true.
Proof. vm_compute. reflexivity. Qed.

Lemma cinv_reach s : CR s -> cinv s = true.
Proof.
  pose proof CV_ok as H. apply andb_true_iff in H. destruct H as [H H3]. apply andb_true_iff in H. destruct H as [H1 H2].
  exact (closed_sound cstate cenc cenc_inj cinit (cnext true) CV cinv H1 H2 H3 s).
Qed.

Theorem cancel_not_lost s : CR s -> c_fired s = true -> alive (c_child s) = false.
Proof.
  intros Hr Hf. pose proof (cinv_reach s Hr) as H. unfold cinv in H. apply andb_true_iff in H. destruct H as [H _].
  rewrite Hf in H. simpl in H. apply negb_true_iff in H. exact H.
Qed.

Theorem cancel_truthful s : CR s ->
  match c_ret s with
  | VNone => True
  | VGenuine => c_child s = ChEnded
  | VTimeLimit => c_child s = ChKilled /\ c_ctx s = true
  | VRunnerError => False
  end.
Proof.
  intros Hr. pose proof (cinv_reach s Hr) as H. unfold cinv in H. apply andb_true_iff in H. destruct H as [_ H].
  destruct (c_ret s); try exact I; try discriminate.
  - apply Nat.eqb_eq in H. destruct (c_child s); simpl in H; try discriminate. reflexivity.
  - apply andb_true_iff in H. destruct H as [H1 H2]. apply Nat.eqb_eq in H1. destruct (c_child s); simpl in H1; try discriminate. auto.
Qed.

(** once the context is cancelled, the run returns within five steps of the system *)
Definition cbusy (s : cstate) : bool := c_ctx s && Nat.eqb (verdict_num (c_ret s)) 0.
Definition crank (s : cstate) : nat :=
  (match c_child s with ChNoGroup => 3 | ChGroup => 2 | ChExeced => 1 | _ => 0 end) + (if c_fired s then 0 else 1) + 1.

Lemma crank_ok : rank_ok cstate cenc (cnext_sys true) cbusy crank CV = true.
Proof. vm_compute. reflexivity. Qed.

Theorem cancel_returns s : CR s -> c_ctx s = true -> c_ret s = VNone ->
  cnext_sys true s <> [] /\
  forall p, busy_path cstate (cnext_sys true) cbusy s p -> Forall (fun t => cbusy t = true) p -> length p <= 5.
Proof.
  intros Hr Hc Hn.
  pose proof CV_ok as H. apply andb_true_iff in H. destruct H as [H _]. apply andb_true_iff in H. destruct H as [H1 H2].
  pose proof (reach_in cstate cenc cenc_inj cinit (cnext true) CV H1 H2 s Hr) as Hm.
  assert (cbusy s = true) as Hb by (unfold cbusy; rewrite Hc, Hn; reflexivity).
  split.
  - exact (busy_has_step cstate cenc cenc_inj (cnext_sys true) cbusy crank CV H1 crank_ok s Hm Hb).
  - intros p Hp Hall. pose proof (rank_bound cstate cenc cenc_inj (cnext_sys true) cbusy crank CV H1 crank_ok p s Hm Hb Hp Hall) as Hl.
    unfold crank in Hl. destruct (c_child s), (c_fired s); simpl in Hl; auto with arith.
Qed.

(** the pinned tree: the cancellation is lost when it arrives before the child's setsid; the program
    then ends by itself and the run is reported with its own verdict under a cancelled context *)
Theorem pinned_cancel_lost :
  exists s, reach cstate cinit (cnext false) s /\ c_fired s = true /\ c_ctx s = true /\ c_ret s = VGenuine.
Proof.
  set (p := [ {| c_child := ChNoGroup; c_ctx := true; c_fired := false; c_ret := VNone |};
              {| c_child := ChNoGroup; c_ctx := true; c_fired := true; c_ret := VNone |};
              {| c_child := ChGroup; c_ctx := true; c_fired := true; c_ret := VNone |};
              {| c_child := ChExeced; c_ctx := true; c_fired := true; c_ret := VNone |};
              {| c_child := ChEnded; c_ctx := true; c_fired := true; c_ret := VNone |};
              {| c_child := ChEnded; c_ctx := true; c_fired := true; c_ret := VGenuine |} ]).
  exists (path_end cstate cinit p). split.
  - apply (path_reach cstate cenc cenc_inj cinit (cnext false)); [constructor|vm_compute; reflexivity].
  - vm_compute. auto.
Qed.

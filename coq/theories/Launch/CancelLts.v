(** Cancellation of a run in the ptrace and namespace runners: the launcher's
    child (not yet in its own process group / group leader after setsid /
    exec'ed / dead), the caller's context, the canceller goroutine (one
    killAll when the context is done) and the wait loop. *)
From Coq Require Import List Bool Arith PArith.
From GS Require Import Base.Code.
Import ListNotations.

Inductive child := ChNoGroup | ChGroup | ChExeced | ChKilled | ChEnded.   (* ChEnded: ended by itself *)
Inductive verdict := VNone | VGenuine | VTimeLimit | VRunnerError.

Record cstate := { c_child : child; c_ctx : bool; c_fired : bool; c_ret : verdict }.

Definition cinit : cstate := {| c_child := ChNoGroup; c_ctx := false; c_fired := false; c_ret := VNone |}.

Definition alive (c : child) : bool := match c with ChKilled | ChEnded => false | _ => true end.

Section Steps.
  (** fixed = killAll also signals the pid when the group does not exist yet *)
  Variable fixed : bool.

  (** kernel rule PR1: kill(-pgid) reaches the members of the group; ESRCH when there is none *)
  Definition kill_all (c : child) : child :=
    match c with
    | ChGroup | ChExeced => ChKilled
    | ChNoGroup => if fixed then ChKilled else ChNoGroup
    | other => other
    end.

  Definition cnext (s : cstate) : list cstate :=
    let set_child c := {| c_child := c; c_ctx := c_ctx s; c_fired := c_fired s; c_ret := c_ret s |} in
    (* the child makes progress / the program ends by itself *)
    (match c_child s with
     | ChNoGroup => [set_child ChGroup]
     | ChGroup => [set_child ChExeced]
     | ChExeced => [set_child ChEnded]
     | _ => []
     end) ++
    (* the caller cancels *)
    (if c_ctx s then [] else [{| c_child := c_child s; c_ctx := true; c_fired := c_fired s; c_ret := c_ret s |}]) ++
    (* the canceller goroutine runs killAll once *)
    (if c_ctx s && negb (c_fired s)
     then [{| c_child := kill_all (c_child s); c_ctx := true; c_fired := true; c_ret := c_ret s |}] else []) ++
    (* the wait loop sees the death of the main task and returns the table's verdict *)
    (match c_ret s, c_child s with
     | VNone, ChKilled => [{| c_child := ChKilled; c_ctx := c_ctx s; c_fired := c_fired s; c_ret := VTimeLimit |}]
     | VNone, ChEnded => [{| c_child := ChEnded; c_ctx := c_ctx s; c_fired := c_fired s; c_ret := VGenuine |}]
     | _, _ => []
     end).

  (** the steps other than the caller's decision to cancel *)
  Definition cnext_sys (s : cstate) : list cstate :=
    filter (fun s' => Bool.eqb (c_ctx s') (c_ctx s)) (cnext s).
End Steps.

Definition child_num c := match c with ChNoGroup => 0 | ChGroup => 1 | ChExeced => 2 | ChKilled => 3 | ChEnded => 4 end.
Definition verdict_num v := match v with VNone => 0 | VGenuine => 1 | VTimeLimit => 2 | VRunnerError => 3 end.
Lemma child_num_inj a b : child_num a = child_num b -> a = b. Proof. destruct a, b; simpl; congruence. Qed.
Lemma verdict_num_inj a b : verdict_num a = verdict_num b -> a = b. Proof. destruct a, b; simpl; congruence. Qed.

Definition ctuple (s : cstate) := (c_child s, (c_ctx s, (c_fired s, c_ret s))).
Lemma ctuple_inj a b : ctuple a = ctuple b -> a = b.
Proof. destruct a, b. unfold ctuple. simpl. intros H. inversion H. reflexivity. Qed.

Definition ccode := c_pair (c_enum child_num) (c_pair c_bool (c_pair c_bool (c_enum verdict_num))).
Lemma pf_ccode : pf ccode.
Proof. unfold ccode. repeat first [apply pf_pair | apply pf_bool | apply (pf_enum child_num child_num_inj) | apply (pf_enum verdict_num verdict_num_inj)]. Qed.

Definition cenc (s : cstate) : positive := bits_pos (ccode (ctuple s)).
Lemma cenc_inj a b : cenc a = cenc b -> a = b.
Proof. intros H. apply ctuple_inj. exact (code_inj ccode pf_ccode _ _ H). Qed.

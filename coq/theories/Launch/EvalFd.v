(** Executable comparison for the correspondence run of C06. *)
From GS Require Import Launch.FdShuffle Launch.FdShuffleProofs.
Open Scope Z_scope.

Fixpoint zrange (lo : Z) (n : nat) : list Z :=
  match n with O => [] | S m => lo :: zrange (lo + 1) m end.

Definition onat_eqb (a b : option nat) : bool :=
  match a, b with Some x, Some y => Nat.eqb x y | None, None => true | _, _ => false end.

Fixpoint lookup (l : list (Z * nat)) (x : Z) : option nat :=
  match l with [] => None | (k, v) :: r => if k =? x then Some v else lookup r x end.

(** parent table (all close-on-exec: Go opens everything O_CLOEXEC), the socketpair at (p0, p1),
    the caller's list and exec descriptor; observed: the program's own table or a launch error *)
Definition launch_ok (x : list (Z * nat) * Z * Z * list Z * Z * option (list (Z * nat))) : bool :=
  let '(parent, p0, p1, files, exec, obs) := x in
  let T := close (tab_of ((p0, 0%nat) :: (p1, 1%nat) :: parent)) p0 in
  match shuffle true T files p1 exec, obs with
  | Ok (T', _, _), Some o => forallb (fun fd => onat_eqb (at_exec T' fd) (lookup o fd)) (zrange 0 1100)
  | Err _, None => true
  | _, _ => false
  end.

Fixpoint indexed {A} (i : N) (l : list A) : list (N * A) :=
  match l with [] => [] | x :: r => (i, x) :: indexed (N.succ i) r end.
Definition failing {A} (ok : A -> bool) (l : list A) : list N :=
  flat_map (fun '(i, x) => if ok x then [] else [i]) (indexed 0%N l).

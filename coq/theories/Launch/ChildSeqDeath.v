(** C16 on the specification of the child's call sequence: a traced child asks for the parent-death signal AFTER its last change
    of ids (which would clear the request) and BEFORE it syncs with the launcher, attaches to the tracer or stops — the order
    that Tracer/LaunchDeath.v calls [ArmLate] and for which C16_traced_launch_dies_with_tracer is proved. *)
From Coq Require Import List Bool ZArith String.
From GS Require Import Launch.ChildSeq.
Import ListNotations.
Open Scope Z_scope.

Definition is_pdeathsig (c : xcall * option Z) : bool :=
  Z.eqb (fst (fst c)) NR_prctl && match snd (fst c) with XInt 1 :: XInt 9 :: _ => true | _ => false end.
(** calls that change the ids of the process *)
Definition changes_ids (c : xcall * option Z) : bool :=
  let n := fst (fst c) in Z.eqb n NR_setuid || Z.eqb n NR_setgid || Z.eqb n NR_setgroups.
(** calls after which the child depends on the launcher or the tracer, or is the program *)
Definition waits_or_runs (c : xcall * option Z) : bool :=
  let n := fst (fst c) in
  is_sync_read c || is_sync_write c || Z.eqb n NR_ptrace || Z.eqb n NR_kill || is_exec (fst c).

Definition before_arm (f : flags) : list (xcall * option Z) :=
  seg_start f ++ seg_ids f ++ seg_session f ++ seg_fs_before f ++ seg_fs_after f ++ seg_names f ++ seg_privs f.
Definition after_arm (f : flags) : list (xcall * option Z) :=
  when (negb (x_newpid f)) [((NR_getppid, []), Some LocPtraceMe)] ++ seg_gate f ++ [(call_exec f, Some LocExecve)].

Lemma split_at_arm f : x_ptrace f = true ->
  child_calls f = before_arm f ++ [((NR_prctl, [XInt 1; XInt 9]), Some LocPtraceMe)] ++ after_arm f.
Proof.
  intros H. unfold child_calls, before_arm, after_arm, seg_pdeath. rewrite H. cbn [when].
  rewrite <- !app_assoc. reflexivity.
Qed.

Ltac seg :=
  unfold seg_start, seg_ids, seg_session, seg_fs_before, seg_fs_after, seg_names, seg_privs, seg_gate, seg_pdeath,
         calls_sync_block, calls_drop, call_exec, when;
  repeat match goal with |- context [if ?b then _ else _] => destruct b end; reflexivity.

Section PerSegment.
Variable P : xcall * option Z -> bool.
Definition all_not (l : list (xcall * option Z)) : bool := forallb (fun c => negb (P c)) l.
Lemma all_not_app a b : all_not (a ++ b) = all_not a && all_not b.
Proof. apply forallb_app. Qed.
Lemma all_not_filter l : all_not l = true -> filter P l = [].
Proof.
  induction l as [|x l IH]; [reflexivity|]. cbn [all_not forallb filter]. intros H. apply andb_prop in H. destruct H as [Hx Hl].
  destruct (P x); [discriminate|]. exact (IH Hl).
Qed.
End PerSegment.

(** nothing before the request waits for anybody or runs the program *)
Lemma before_arm_waits_for_nobody f : all_not waits_or_runs (before_arm f) = true.
Proof.
  unfold before_arm. rewrite !all_not_app.
  assert (H1 : all_not waits_or_runs (seg_start f) = true) by seg.
  assert (H2 : all_not waits_or_runs (seg_ids f) = true) by seg.
  assert (H3 : all_not waits_or_runs (seg_session f) = true) by seg.
  assert (H4 : all_not waits_or_runs (seg_fs_before f) = true) by seg.
  assert (H5 : all_not waits_or_runs (seg_fs_after f) = true) by seg.
  assert (H6 : all_not waits_or_runs (seg_names f) = true) by seg.
  assert (H7 : all_not waits_or_runs (seg_privs f) = true) by seg.
  rewrite H1, H2, H3, H4, H5, H6, H7. reflexivity.
Qed.

(** nothing after the request changes the ids (the kernel would clear the request) *)
Lemma after_arm_keeps_ids f : all_not changes_ids (after_arm f) = true.
Proof.
  unfold after_arm. rewrite !all_not_app.
  assert (H1 : all_not changes_ids (when (negb (x_newpid f)) [((NR_getppid, []), Some LocPtraceMe)]) = true) by seg.
  assert (H2 : all_not changes_ids (seg_gate f) = true) by seg.
  assert (H3 : all_not changes_ids [(call_exec f, Some LocExecve)] = true) by seg.
  rewrite H1, H2, H3. reflexivity.
Qed.

(** the request occurs exactly once *)
Lemma one_pdeathsig f : x_ptrace f = true -> List.length (filter is_pdeathsig (child_calls f)) = 1%nat.
Proof.
  intros H. rewrite (split_at_arm f H), filter_app.
  assert (Hb : filter is_pdeathsig (before_arm f) = []).
  { apply all_not_filter. unfold before_arm. rewrite !all_not_app.
    assert (H1 : all_not is_pdeathsig (seg_start f) = true) by seg.
    assert (H2 : all_not is_pdeathsig (seg_ids f) = true) by seg.
    assert (H3 : all_not is_pdeathsig (seg_session f) = true) by seg.
    assert (H4 : all_not is_pdeathsig (seg_fs_before f) = true) by seg.
    assert (H5 : all_not is_pdeathsig (seg_fs_after f) = true) by seg.
    assert (H6 : all_not is_pdeathsig (seg_names f) = true) by seg.
    assert (H7 : all_not is_pdeathsig (seg_privs f) = true) by seg.
    rewrite H1, H2, H3, H4, H5, H6, H7. reflexivity. }
  assert (Ha : filter is_pdeathsig (after_arm f) = []).
  { apply all_not_filter. unfold after_arm. rewrite !all_not_app.
    assert (H1 : all_not is_pdeathsig (when (negb (x_newpid f)) [((NR_getppid, []), Some LocPtraceMe)]) = true) by seg.
    assert (H2 : all_not is_pdeathsig (seg_gate f) = true) by seg.
    assert (H3 : all_not is_pdeathsig [(call_exec f, Some LocExecve)] = true) by seg.
    rewrite H1, H2, H3. reflexivity. }
  rewrite Hb. cbn [app].
  change (filter is_pdeathsig (((NR_prctl, [XInt 1; XInt 9]), Some LocPtraceMe) :: after_arm f))
    with (((NR_prctl, [XInt 1; XInt 9]), Some LocPtraceMe) :: filter is_pdeathsig (after_arm f)).
  rewrite Ha. reflexivity.
Qed.

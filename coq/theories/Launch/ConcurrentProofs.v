From Coq Require Import List Bool Arith Lia.
From GS Require Import Launch.Concurrent.
Import ListNotations.

(** ** descriptors created by concurrent goroutines are never inherited *)
Record HI (h : host) : Prop := {
  hi_open : forall d, In d (table h) -> fd_cloexec d = false -> actor h (fd_owner d) = Creator 2;
  hi_rd : forall i, actor h i = Creator 1 \/ actor h i = Creator 2 \/ actor h i = Creator 3 -> In i (readers h);
  hi_wr : forall w, writer h = Some w -> readers h = [] /\ exists s, actor h w = Launcher 1 s \/ actor h w = Launcher 2 s;
  hi_l1 : forall i s, actor h i = Launcher 1 s \/ actor h i = Launcher 2 s -> writer h = Some i;
  hi_snap : forall i k s, actor h i = Launcher (S (S k)) s -> inherited s = [] }.

Lemma set_actor_same h i r : set_actor h i r i = r.
Proof. unfold set_actor. rewrite Nat.eqb_refl. reflexivity. Qed.
Lemma set_actor_other h i r j : j <> i -> set_actor h i r j = actor h j.
Proof. intros H. unfold set_actor. apply Nat.eqb_neq in H. rewrite H. reflexivity. Qed.

Ltac other j i := let E := fresh "Heq" in destruct (Nat.eq_dec j i) as [E|?Hne]; [try rewrite E in *; rewrite ?set_actor_same in *|rewrite ?set_actor_other in * by assumption].

Lemma hi_init roles : (forall i, fresh (roles i)) -> HI (hinit roles).
Proof.
  intros F. constructor; simpl.
  - intros d [].
  - intros i H. destruct (F i) as [E|[E|[s E]]]; rewrite E in H; destruct H as [H|[H|H]]; discriminate.
  - discriminate.
  - intros i s H. destruct (F i) as [E|[E|[s' E]]]; rewrite E in H; destruct H as [H|H]; discriminate.
  - intros i k s H. destruct (F i) as [E|[E|[s' E]]]; rewrite E in H; discriminate.
Qed.

Lemma inherited_nil_of_all_cloexec s : (forall d, In d s -> fd_cloexec d = true) -> inherited s = [].
Proof.
  intros H. unfold inherited. induction s as [|d r IH]; simpl; [reflexivity|].
  rewrite (H d (or_introl eq_refl)). simpl. apply IH. intros x Hx. apply H. right. exact Hx.
Qed.

(** goroutine i moves from role r0 to role r1 without touching the lock, and r1 needs nothing from the invariant *)
Lemma hi_frame h i r1 tbl : HI h ->
  (forall d, In d tbl -> fd_cloexec d = false -> (fd_owner d = i /\ r1 = Creator 2) \/ (fd_owner d <> i /\ In d (table h))) ->
  (r1 = Creator 1 \/ r1 = Creator 2 \/ r1 = Creator 3 -> In i (readers h)) ->
  (forall s, r1 = Launcher 1 s \/ r1 = Launcher 2 s -> writer h = Some i) ->
  (writer h = Some i -> exists s, r1 = Launcher 1 s \/ r1 = Launcher 2 s) ->
  (forall k s, r1 = Launcher (S (S k)) s -> inherited s = []) ->
  HI {| table := tbl; writer := writer h; readers := readers h; actor := set_actor h i r1 |}.
Proof.
  intros I Ht Hr Hl Hw Hs. constructor; simpl.
  - intros d Hd Hc. destruct (Ht d Hd Hc) as [[Eo Er]|[Eo Hin]].
    + rewrite Eo, set_actor_same. exact Er.
    + rewrite set_actor_other by exact Eo. apply (hi_open h I d Hin Hc).
  - intros j Hj. other j i; [apply Hr; exact Hj|apply (hi_rd h I); exact Hj].
  - intros w Hw'. destruct (hi_wr h I w Hw') as [Hrd [s Hsw]]. split; [exact Hrd|]. other w i; [apply Hw; exact Hw'|exists s; exact Hsw].
  - intros j s Hj. other j i; [apply (Hl s); exact Hj|apply (hi_l1 h I j s Hj)].
  - intros j k s Hj. other j i; [apply (Hs k s); exact Hj|apply (hi_snap h I j k s Hj)].
Qed.

Lemma hi_step h i : HI h -> HI (hstep h i).
Proof.
  intros I. unfold hstep. destruct (actor h i) as [pc|pc|pc s] eqn:Ea.
  - (* creator *)
    destruct pc as [|[|[|[|pc]]]]; [| | | |exact I].
    + (* RLock *)
      destruct (writer h) as [w|] eqn:Ew; [exact I|]. constructor; simpl.
      * intros d Hd Hc. pose proof (hi_open h I d Hd Hc) as Ho. other (fd_owner d) i; [congruence|exact Ho].
      * intros j Hj. other j i; [left; reflexivity|right; apply (hi_rd h I); exact Hj].
      * discriminate.
      * intros j s Hj. other j i; [destruct Hj; discriminate|]. rewrite (hi_l1 h I j s Hj) in Ew. discriminate.
      * intros j k s Hj. other j i; [discriminate|apply (hi_snap h I j k s Hj)].
    + (* create an inheritable descriptor *)
      apply hi_frame; [exact I| | | | |].
      * intros d [<-|Hd] Hc; [left; auto|]. right. split; [|exact Hd]. intros E. pose proof (hi_open h I d Hd Hc) as Ho. rewrite E in Ho. congruence.
      * intros _. apply (hi_rd h I). auto.
      * intros s [H|H]; discriminate.
      * intros Hw. destruct (hi_wr h I i Hw) as [_ [s [H|H]]]; congruence.
      * intros k s H; discriminate.
    + (* CloseOnExec *)
      apply hi_frame; [exact I| | | | |].
      * intros d Hd Hc. apply in_map_iff in Hd. destruct Hd as [d0 [Ed Hd0]].
        destruct (Nat.eqb (fd_owner d0) i) eqn:Eo; [subst d; simpl in Hc; discriminate|]. subst d. right. split; [apply Nat.eqb_neq; exact Eo|exact Hd0].
      * intros _. apply (hi_rd h I). auto.
      * intros s [H|H]; discriminate.
      * intros Hw. destruct (hi_wr h I i Hw) as [_ [s [H|H]]]; congruence.
      * intros k s H; discriminate.
    + (* RUnlock *)
      constructor; simpl.
      * intros d Hd Hc. pose proof (hi_open h I d Hd Hc) as Ho. other (fd_owner d) i; [congruence|exact Ho].
      * intros j Hj. other j i; [destruct Hj as [Hj|[Hj|Hj]]; discriminate|].
        apply filter_In. split; [apply (hi_rd h I); exact Hj|]. apply negb_true_iff. apply Nat.eqb_neq. assumption.
      * intros w Hw. destruct (hi_wr h I w Hw) as [Hr [s Hs]]. rewrite Hr. split; [reflexivity|]. exists s. other w i; [destruct Hs; congruence|exact Hs].
      * intros j s Hj. other j i; [destruct Hj; discriminate|apply (hi_l1 h I j s Hj)].
      * intros j k s Hj. other j i; [discriminate|apply (hi_snap h I j k s Hj)].
  - (* a descriptor that is close-on-exec from birth *)
    destruct pc as [|pc]; [|exact I]. apply hi_frame; [exact I| | | | |].
    + intros d [<-|Hd] Hc; [simpl in Hc; discriminate|]. right. split; [|exact Hd]. intros E. pose proof (hi_open h I d Hd Hc) as Ho. rewrite E in Ho. congruence.
    + intros [H|[H|H]]; discriminate.
    + intros s [H|H]; discriminate.
    + intros Hw. destruct (hi_wr h I i Hw) as [_ [s [H|H]]]; congruence.
    + intros k s H; discriminate.
  - (* launcher *)
    destruct pc as [|[|[|pc]]]; [| | |exact I].
    + (* Lock *)
      destruct (writer h) as [w|] eqn:Ew; [exact I|]. destruct (readers h) as [|r0 rs] eqn:Er; [|exact I]. constructor; simpl.
      * intros d Hd Hc. pose proof (hi_open h I d Hd Hc) as Ho. other (fd_owner d) i; [congruence|exact Ho].
      * intros j Hj. other j i; [destruct Hj as [Hj|[Hj|Hj]]; discriminate|]. pose proof (hi_rd h I j Hj) as Hr. rewrite Er in Hr. exact Hr.
      * intros w Hw. injection Hw as <-. split; [reflexivity|]. exists s. left. apply set_actor_same.
      * intros j s' Hj. other j i; [reflexivity|]. rewrite (hi_l1 h I j s' Hj) in Ew. discriminate.
      * intros j k s' Hj. other j i; [discriminate|apply (hi_snap h I j k s' Hj)].
    + (* clone: the child holds a copy of the table *)
      pose proof (hi_l1 h I i s (or_introl Ea)) as Hw. destruct (hi_wr h I i Hw) as [Hr _].
      apply hi_frame; [exact I| | | | |].
      * intros d Hd Hc. right. split; [|exact Hd]. intros E. pose proof (hi_open h I d Hd Hc) as Ho. rewrite E in Ho. congruence.
      * intros [H|[H|H]]; discriminate.
      * intros s' _. exact Hw.
      * intros _. exists (table h). right. reflexivity.
      * intros k s' H. injection H as <- <-. apply inherited_nil_of_all_cloexec. intros d Hd. destruct (fd_cloexec d) eqn:Ec; [reflexivity|].
        pose proof (hi_open h I d Hd Ec) as Ho. pose proof (hi_rd h I (fd_owner d) (or_intror (or_introl Ho))) as Hin. rewrite Hr in Hin. contradiction.
    + (* Unlock *)
      pose proof (hi_l1 h I i s (or_intror Ea)) as Hw.
      constructor; simpl.
      * intros d Hd Hc. pose proof (hi_open h I d Hd Hc) as Ho. other (fd_owner d) i; [congruence|exact Ho].
      * intros j Hj. other j i; [destruct Hj as [Hj|[Hj|Hj]]; discriminate|apply (hi_rd h I); exact Hj].
      * discriminate.
      * intros j s' Hj. other j i; [destruct Hj; discriminate|]. pose proof (hi_l1 h I j s' Hj) as Hw'. congruence.
      * intros j k s' Hj. other j i; [injection Hj as <- <-; apply (hi_snap h I i 0 s Ea)|apply (hi_snap h I j k s' Hj)].
Qed.

Lemma hi_run roles sched : (forall i, fresh (roles i)) -> HI (hrun (hinit roles) sched).
Proof.
  intros F. unfold hrun. pose proof (hi_init roles F) as I. revert I. generalize (hinit roles).
  induction sched as [|i r IH]; intros h I; simpl; [exact I|]. apply IH. apply hi_step. exact I.
Qed.

(** for ANY set of goroutines (any number of launchers, of creators following the ForkLock protocol and of creators
    of close-on-exec descriptors) and EVERY interleaving: the table a launched program inherits holds no descriptor
    of another goroutine *)
Theorem fd_noninterference : forall roles sched i k s, (forall j, fresh (roles j)) ->
  actor (hrun (hinit roles) sched) i = Launcher (S (S k)) s -> inherited s = [].
Proof. intros roles sched i k s F H. exact (hi_snap _ (hi_run roles sched F) i k s H). Qed.

(** the lock protocol that makes it so: nobody is between creating and marking a descriptor while a launcher clones *)
Theorem no_reader_while_cloning : forall roles sched i s, (forall j, fresh (roles j)) ->
  actor (hrun (hinit roles) sched) i = Launcher 1 s -> readers (hrun (hinit roles) sched) = [].
Proof.
  intros roles sched i s F H. pose proof (hi_run roles sched F) as I.
  destruct (hi_wr _ I i (hi_l1 _ I i s (or_introl H))) as [Hr _]. exact Hr.
Qed.

(** non-vacuity: a creator caught between create and mark, a launcher that has to wait for it *)
Example demo_interleaving :
  let roles := fun j => match j with 0 => Creator 0 | 1 => Launcher 0 [] | _ => Atomic 0 end in
  let h := hrun (hinit roles) [0; 0; 1; 1; 2; 0; 0; 1; 1; 1] in
  actor h 1 = Launcher 3 [{| fd_owner := 2; fd_cloexec := true |}; {| fd_owner := 0; fd_cloexec := true |}] /\ length (table h) = 2.
Proof. vm_compute. split; reflexivity. Qed.

(** ** waits never cross process groups *)
Theorem wait_disjoint : forall ts pg t, In t (waitable pg ts) -> t_pgid t = pg.
Proof. intros ts pg t H. apply filter_In in H. destruct H as [_ H]. apply Nat.eqb_eq. exact H. Qed.

(** ** calls on one environment are serialised *)
Record EI (len : nat) (e : envst) : Prop := {
  ei_in : forall i k, call e i = CInside k -> holder e = Some i /\ k <= len;
  ei_hold : forall i, holder e = Some i -> exists k, call e i = CInside k;
  ei_serial : serial len (log e);
  ei_head : match log e with
            | [] => forall i k, call e i = CInside k -> k = 0
            | (j, m) :: _ => match holder e with
                             | None => S m = len
                             | Some i => forall k, call e i = CInside k -> (k = 0 /\ S m = len) \/ (i = j /\ k = S m)
                             end
            end }.

Lemma ei_step len e i : EI len e -> EI len (estep len e i).
Proof.
  intros I. unfold estep. destruct (call e i) as [|k|] eqn:Ec; [| |exact I].
  - destruct (holder e) as [w|] eqn:Eh; [exact I|]. constructor; simpl.
    + intros j k. destruct (Nat.eqb j i) eqn:Ej; [apply Nat.eqb_eq in Ej; subst j; intros H; injection H as <-; split; [reflexivity|lia]|].
      intros H. destruct (ei_in len e I j k H) as [Hh _]. congruence.
    + intros j Hj. injection Hj as <-. exists 0. rewrite Nat.eqb_refl. reflexivity.
    + apply (ei_serial len e I).
    + pose proof (ei_head len e I) as Hd. rewrite Eh in Hd. destruct (log e) as [|[j m] r].
      * intros j k. destruct (Nat.eqb j i); [intros H; injection H as <-; reflexivity|apply Hd].
      * intros k. rewrite Nat.eqb_refl. intros H. injection H as <-. left. auto.
  - destruct (ei_in len e I i k Ec) as [Hh Hk]. destruct (Nat.ltb k len) eqn:El.
    + apply Nat.ltb_lt in El. constructor; simpl.
      * intros j k'. destruct (Nat.eqb j i) eqn:Ej; [apply Nat.eqb_eq in Ej; subst j; intros H; injection H as <-; split; [exact Hh|lia]|apply (ei_in len e I)].
      * intros j Hj. rewrite Hh in Hj. injection Hj as <-. rewrite Nat.eqb_refl. eauto.
      * split; [|apply (ei_serial len e I)]. pose proof (ei_head len e I) as Hd. destruct (log e) as [|[j m] r].
        -- apply (Hd i k Ec).
        -- rewrite Hh in Hd. destruct (Hd k Ec) as [[-> Hm]|[-> ->]].
           ++ subst len. rewrite Nat.eqb_refl. reflexivity.
           ++ destruct len as [|len']; [lia|]. assert (Nat.eqb m len' = false) as -> by (apply Nat.eqb_neq; lia). auto.
      * rewrite Hh. intros k'. rewrite Nat.eqb_refl. intros H. injection H as <-. right. auto.
    + apply Nat.ltb_ge in El. assert (k = len) as -> by lia. constructor; simpl.
      * intros j k'. destruct (Nat.eqb j i) eqn:Ej; [discriminate|]. intros H. destruct (ei_in len e I j k' H) as [Hj _].
        rewrite Hh in Hj. injection Hj as <-. rewrite Nat.eqb_refl in Ej. discriminate.
      * discriminate.
      * apply (ei_serial len e I).
      * pose proof (ei_head len e I) as Hd. destruct (log e) as [|[j m] r].
        -- intros j k'. destruct (Nat.eqb j i) eqn:Ej; [discriminate|apply Hd].
        -- rewrite Hh in Hd. destruct (Hd len Ec) as [[-> Hm]|[_ Hm]]; [exact Hm|exact (eq_sym Hm)].
Qed.

Theorem env_serialised : forall len sched, serial len (log (erun len sched)).
Proof.
  intros len sched. unfold erun.
  assert (EI len {| holder := None; call := fun _ => CIdle; log := [] |}) as I0 by (constructor; simpl; intros; try discriminate; auto).
  revert I0. generalize {| holder := None; call := fun _ : nat => CIdle; log := [] |}.
  induction sched as [|i r IH]; intros e I; simpl; [apply (ei_serial len e I)|]. apply IH. apply ei_step. exact I.
Qed.

Lemma ei_run len sched : EI len (erun len sched).
Proof.
  unfold erun.
  assert (EI len {| holder := None; call := fun _ => CIdle; log := [] |}) as I0 by (constructor; simpl; intros; try discriminate; auto).
  revert I0. generalize {| holder := None; call := fun _ : nat => CIdle; log := [] |}.
  induction sched as [|x r IH]; intros e0 I; simpl; [exact I|]. apply IH. apply ei_step. exact I.
Qed.

Theorem env_mutual_exclusion : forall len sched i j k m,
  call (erun len sched) i = CInside k -> call (erun len sched) j = CInside m -> i = j.
Proof.
  intros len sched i j k m Hi Hj. pose proof (ei_run len sched) as I.
  destruct (ei_in _ _ I i k Hi) as [H1 _]. destruct (ei_in _ _ I j m Hj) as [H2 _]. congruence.
Qed.

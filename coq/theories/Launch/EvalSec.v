(** Executable comparison for the correspondence run of C04: the self-report of the probe started under a
    configuration against [state_at_exec] of the same configuration. *)
From Coq Require Import List Bool Arith NArith.
From GS Require Import Launch.SecState.
Import ListNotations.

Fixpoint ln_eqb (a b : list N) : bool :=
  match a, b with [], [] => true | x :: a', y :: b' => N.eqb x y && ln_eqb a' b' | _, _ => false end.
Definition on_eqb (a b : option N) : bool :=
  match a, b with None, None => true | Some x, Some y => N.eqb x y | _, _ => false end.

(** observed: uid, gid, groups, holds capabilities, inheritable non-empty, NOROOT, no_new_privs, number of filters,
    own session, cwd, host name, domain name, new cgroup namespace *)
Definition obs := (N * N * list N * bool * bool * bool * bool * nat * bool * option N * option N * option N * bool)%type.

Definition state_ok (x : config * kst * bool * option obs) : bool :=
  let '(c, s0, cg_flag, o) := x in
  match state_at_exec c s0, o with
  | Some s, Some (u, g, gr, caps, inh, noroot, nnp, nf, sess, cwd, host, dom, cgns) =>
      N.eqb (k_uid s) u && N.eqb (k_gid s) g && ln_eqb (k_groups s) gr && Bool.eqb (k_caps s) caps && Bool.eqb (k_inh s) inh &&
      Bool.eqb (k_noroot s) noroot && Bool.eqb (k_nnp s) nnp && Nat.eqb (k_filters s) nf && Bool.eqb (k_session s) sess &&
      on_eqb (k_cwd s) cwd && on_eqb (k_host s) host && on_eqb (k_domain s) dom && Bool.eqb (k_cgroupns s || cg_flag) cgns
  | None, None => true
  | _, _ => false
  end.

Fixpoint indexed {A} (i : N) (l : list A) : list (N * A) :=
  match l with [] => [] | x :: r => (i, x) :: indexed (N.succ i) r end.
Definition failing {A} (ok : A -> bool) (l : list A) : list N :=
  flat_map (fun '(i, x) => if ok x then [] else [i]) (indexed 0%N l).

From Coq Require Import List Bool Arith PArith FMapPositive.
From GS Require Import Base.Code Base.Lts.
From GS Require Import Launch.SyncLts.
Import ListNotations.

Definition SR (u s e : bool) := reach sst (sinit u s e) snext.

Definition loc_eqb a b := Nat.eqb (loc_num a) (loc_num b).

Definition sinv (s : sst) : bool :=
  (* the callback runs only while the child is blocked at the sync point, before any exec *)
  (match y_par s with PCallback => Nat.eqb (kid_num (y_kid s)) 3 && negb (y_ran s) | _ => true end) &&
  (* the target is exec'ed only after the approval (or when no callback is configured) *)
  (negb (y_ran s) || y_acked s) &&
  (* an error return: the target never ran, the child is gone and reaped, the error names the failing step *)
  (match y_par s with
   | PDoneErr l =>
       negb (y_ran s) &&
       (Nat.eqb (kid_num (y_kid s)) 0 || Nat.eqb (kid_num (y_kid s)) 8) &&
       (loc_eqb l LClone || loc_eqb l LCallback || (loc_eqb l (y_kloc s) && negb (loc_eqb l LNone)))
   | _ => true
   end) &&
  (* without the early-return configurations, success is returned only once the exec has succeeded *)
  (match y_par s with PDoneOk => y_early s || y_ran s | _ => true end) &&
  (* the launcher died: a child blocked on the socket is woken by the end of file (it is never left waiting) *)
  (match y_par s, y_kid s with
   | PCrashed, KUserWait | PCrashed, KSyncWait => match kid_steps s with [] => false | _ => true end
   | _, _ => true
   end).

Definition SV (u s e : bool) := explore sst senc snext 60 (sinit u s e).

Lemma SV_ok u s e : wf sst senc (SV u s e) && closed sst senc (sinit u s e) snext (SV u s e) && all_inv sst sinv (SV u s e) = true.
Proof. destruct u, s, e; vm_compute; reflexivity. Qed.

Lemma sinv_reach u s e x : SR u s e x -> sinv x = true.
Proof.
  pose proof (SV_ok u s e) as H. apply andb_true_iff in H. destruct H as [H H3]. apply andb_true_iff in H. destruct H as [H1 H2].
  exact (closed_sound sst senc senc_inj (sinit u s e) snext (SV u s e) sinv H1 H2 H3 x).
Qed.

Ltac split_inv H :=
  unfold sinv in H;
  apply andb_true_iff in H; destruct H as [H ?I5];
  apply andb_true_iff in H; destruct H as [H ?I4];
  apply andb_true_iff in H; destruct H as [H ?I3];
  apply andb_true_iff in H; destruct H as [?I1 ?I2].

Theorem callback_before_exec u s e x : SR u s e x -> y_par x = PCallback -> y_kid x = KSyncWait /\ y_ran x = false.
Proof.
  intros Hr Hp. pose proof (sinv_reach u s e x Hr) as H. split_inv H. rewrite Hp in I1.
  apply andb_true_iff in I1. destruct I1 as [Ha Hb]. apply Nat.eqb_eq in Ha. apply negb_true_iff in Hb.
  split; [destruct (y_kid x); simpl in Ha; try discriminate; reflexivity|exact Hb].
Qed.

Theorem exec_needs_approval u s e x : SR u s e x -> y_ran x = true -> y_acked x = true.
Proof.
  intros Hr Hran. pose proof (sinv_reach u s e x Hr) as H. split_inv H. rewrite Hran in I2. exact I2.
Qed.

Theorem failed_never_runs u s e x l : SR u s e x -> y_par x = PDoneErr l ->
  y_ran x = false /\ (y_kid x = KNone \/ y_kid x = KReaped) /\
  (l = LClone \/ l = LCallback \/ (l = y_kloc x /\ l <> LNone)).
Proof.
  intros Hr Hp. pose proof (sinv_reach u s e x Hr) as H. split_inv H. rewrite Hp in I3.
  apply andb_true_iff in I3. destruct I3 as [Hx Hc]. apply andb_true_iff in Hx. destruct Hx as [Ha Hb].
  apply negb_true_iff in Ha. split; [exact Ha|]. split.
  - apply orb_true_iff in Hb. destruct Hb as [Hb|Hb]; apply Nat.eqb_eq in Hb; destruct (y_kid x); simpl in Hb; try discriminate; auto.
  - apply orb_true_iff in Hc. destruct Hc as [Hc|Hc].
    + apply orb_true_iff in Hc. destruct Hc as [Hc|Hc]; apply Nat.eqb_eq in Hc; apply loc_num_inj in Hc; auto.
    + apply andb_true_iff in Hc. destruct Hc as [Hc Hn]. apply Nat.eqb_eq in Hc. apply loc_num_inj in Hc.
      right. right. split; [exact Hc|]. intros E. rewrite E in Hn. discriminate.
Qed.

Theorem success_means_execed u s e x : SR u s e x -> y_early x = false -> y_par x = PDoneOk -> y_ran x = true.
Proof.
  intros Hr He Hp. pose proof (sinv_reach u s e x Hr) as H. split_inv H. rewrite Hp, He in I4. exact I4.
Qed.

(** the launcher dies at any moment after the clone (nobody kills or reaps the child then): the target is still never
    exec'ed without the approval having been sent, and a child waiting on the socket is not left waiting *)
Theorem launcher_death u s e x : SR u s e x -> y_par x = PCrashed ->
  (y_acked x = false -> y_ran x = false) /\
  (y_kid x = KUserWait \/ y_kid x = KSyncWait -> kid_steps x <> []).
Proof.
  intros Hr Hp. pose proof (sinv_reach u s e x Hr) as H. split_inv H. split.
  - intros Ha. rewrite Ha in I2. rewrite orb_false_r in I2. apply negb_true_iff in I2. exact I2.
  - intros Hk E. rewrite Hp in I5. destruct Hk as [Hk|Hk]; rewrite Hk, E in I5; discriminate.
Qed.

(** no deadlock: until the parent has returned, some step is always enabled, and every run of the
    system returns within a bounded number of steps *)
Definition sbusy (s : sst) : bool := Nat.ltb (par_num (y_par s)) 5 || (Nat.leb 10 (par_num (y_par s)) && Nat.ltb (par_num (y_par s)) 20).

Definition srank_step (V : PositiveMap.t sst) (T : PositiveMap.t nat) : PositiveMap.t nat :=
  fold_left (fun acc kv =>
    let s := snd kv in
    if sbusy s then
      PositiveMap.add (senc s)
        (S (fold_left (fun m s' => if sbusy s' then Nat.max m (match PositiveMap.find (senc s') T with Some r => r | None => 0 end) else m) (snext s) 0)) acc
    else acc) (PositiveMap.elements V) T.
Fixpoint srank_iter (n : nat) V (T : PositiveMap.t nat) := match n with O => T | S m => srank_iter m V (srank_step V T) end.
Definition srank_tab u s e := srank_iter 20 (SV u s e) (PositiveMap.empty nat).
Definition srank u s e (x : sst) : nat := match PositiveMap.find (senc x) (srank_tab u s e) with Some r => r | None => 0 end.

Lemma srank_ok u s e : rank_ok sst senc snext sbusy (srank u s e) (SV u s e) = true.
Proof. destruct u, s, e; vm_compute; reflexivity. Qed.

Theorem no_deadlock u s e x : SR u s e x -> sbusy x = true -> snext x <> [].
Proof.
  intros Hr Hb.
  pose proof (SV_ok u s e) as H. apply andb_true_iff in H. destruct H as [H _]. apply andb_true_iff in H. destruct H as [H1 H2].
  pose proof (reach_in sst senc senc_inj (sinit u s e) snext (SV u s e) H1 H2 x Hr) as Hm.
  exact (busy_has_step sst senc senc_inj snext sbusy (srank u s e) (SV u s e) H1 (srank_ok u s e) x Hm Hb).
Qed.

(** the configurations that return before exec (stop before seccomp, seccomp with ptrace) hand the pid
    back while later steps may still fail: such a failure is not reported by Start *)
Theorem early_return_swallows_failure :
  exists x, SR false false true x /\ y_par x = PDoneOk /\ y_kid x = KFailed /\ y_kloc x = LExec.
Proof.
  set (p := [ w_par (w_kid (sinit false false true) KSetup) PDoneOk ]).
  set (s1 := w_par (w_kid (sinit false false true) KSetup) PDoneOk).
  set (s2 := w_acked (w_kid s1 KPostSync)).
  set (s3 := kid_fail s2 LExec).
  exists (path_end sst (sinit false false true) [s1; s2; s3]). split.
  - apply (path_reach sst senc senc_inj (sinit false false true) snext); [constructor|vm_compute; reflexivity].
  - vm_compute. auto.
Qed.

(** C17: many sandbox launches and other descriptor-creating goroutines in one host process, over one
    descriptor table and syscall.ForkLock; waits by process group; the per-environment mutex. *)
From Coq Require Import List Bool Arith.
Import ListNotations.

(** ** descriptors and the fork lock *)
Record fdesc := { fd_owner : nat;        (* the goroutine that created it *)
                  fd_cloexec : bool }.

(** a goroutine that owns a descriptor which is born inheritable follows the protocol of the syscall package:
    ForkLock.RLock; create; CloseOnExec; ForkLock.RUnlock (container.Open receiving descriptors, os.Pipe on old
    kernels, ...); the library's own descriptors are born close-on-exec (SOCK_CLOEXEC, O_CLOEXEC, MFD_CLOEXEC,
    MSG_CMSG_CLOEXEC) *)
Inductive role :=
| Creator (pc : nat)           (* 0 before RLock, 1 holds RLock, 2 created (inheritable), 3 marked close-on-exec, 4 released *)
| Atomic (pc : nat)            (* 0 before, 1 after creating a descriptor that is close-on-exec from birth *)
| Launcher (pc : nat) (snap : list fdesc).   (* 0 before Lock, 1 holds Lock, 2 cloned (the child holds a copy of the table), 3 released *)

Record host := {
  table : list fdesc;
  writer : option nat;         (* who holds ForkLock for writing *)
  readers : list nat;          (* who holds it for reading *)
  actor : nat -> role }.

Definition set_actor (h : host) (i : nat) (r : role) : nat -> role := fun j => if Nat.eqb j i then r else actor h j.

(** one scheduling decision: goroutine i takes its next step if it can (a blocked goroutine does nothing) *)
Definition hstep (h : host) (i : nat) : host :=
  match actor h i with
  | Creator 0 =>
      match writer h with
      | None => {| table := table h; writer := None; readers := i :: readers h; actor := set_actor h i (Creator 1) |}
      | Some _ => h
      end
  | Creator 1 => {| table := {| fd_owner := i; fd_cloexec := false |} :: table h; writer := writer h; readers := readers h; actor := set_actor h i (Creator 2) |}
  | Creator 2 => {| table := map (fun d => if Nat.eqb (fd_owner d) i then {| fd_owner := i; fd_cloexec := true |} else d) (table h);
                    writer := writer h; readers := readers h; actor := set_actor h i (Creator 3) |}
  | Creator 3 => {| table := table h; writer := writer h; readers := filter (fun j => negb (Nat.eqb j i)) (readers h); actor := set_actor h i (Creator 4) |}
  | Creator _ => h
  | Atomic 0 => {| table := {| fd_owner := i; fd_cloexec := true |} :: table h; writer := writer h; readers := readers h; actor := set_actor h i (Atomic 1) |}
  | Atomic _ => h
  | Launcher 0 s =>
      match writer h, readers h with
      | None, [] => {| table := table h; writer := Some i; readers := []; actor := set_actor h i (Launcher 1 s) |}
      | _, _ => h
      end
  | Launcher 1 _ => {| table := table h; writer := writer h; readers := readers h; actor := set_actor h i (Launcher 2 (table h)) |}
  | Launcher 2 s => {| table := table h; writer := None; readers := readers h; actor := set_actor h i (Launcher 3 s) |}
  | Launcher _ _ => h
  end.

Definition hrun (h : host) (sched : list nat) : host := fold_left hstep sched h.

(** the start: an empty table of protocol descriptors, nobody holds the lock, every goroutine at its first step *)
Definition fresh (r : role) : Prop := r = Creator 0 \/ r = Atomic 0 \/ exists s, r = Launcher 0 s.
Definition hinit (roles : nat -> role) : host := {| table := []; writer := None; readers := []; actor := roles |}.

(** what the program of launch i inherits beyond its own plan: the descriptors of the snapshot that are not close-on-exec *)
Definition inherited (s : list fdesc) : list fdesc := filter (fun d => negb (fd_cloexec d)) s.

(** ** waits *)
Record task := { t_pid : nat; t_pgid : nat }.
(** wait4(-pgid, __WALL) reports only tasks of that process group *)
Definition waitable (pgid : nat) (ts : list task) : list task := filter (fun t => Nat.eqb (t_pgid t) pgid) ts.

(** ** the per-environment mutex: goroutines calling one environment *)
Inductive caller := CIdle | CInside (steps : nat) | CDone.
Record envst := { holder : option nat; call : nat -> caller; log : list (nat * nat) }.   (* log: (caller, step) of every protocol step, newest first *)
Definition estep (len : nat) (e : envst) (i : nat) : envst :=
  match call e i with
  | CIdle => match holder e with
             | None => {| holder := Some i; call := fun j => if Nat.eqb j i then CInside 0 else call e j; log := log e |}
             | Some _ => e
             end
  | CInside k => if Nat.ltb k len
                 then {| holder := holder e; call := fun j => if Nat.eqb j i then CInside (S k) else call e j; log := (i, k) :: log e |}
                 else {| holder := None; call := fun j => if Nat.eqb j i then CDone else call e j; log := log e |}
  | CDone => e
  end.
Definition erun (len : nat) (sched : list nat) : envst := fold_left (estep len) sched {| holder := None; call := fun _ => CIdle; log := [] |}.

(** the log (newest first) is a sequence of whole calls: a step k > 0 of caller i comes right after step k-1 of the
    same caller; a step 0 comes first or right after the last step of a call *)
Fixpoint serial (len : nat) (l : list (nat * nat)) : Prop :=
  match l with
  | [] => True
  | (i, k) :: r => match r with
                   | [] => k = 0
                   | (j, m) :: _ => (if Nat.eqb (S m) len then k = 0 else i = j /\ k = S m)
                   end /\ serial len r
  end.

(** Intermediate representation of the raw-syscall Go code of the child side of a launch
    (pkg/forkexec/fork_child_linux.go), as emitted by tools/goxlate on every run, and its interpreter.

    The translator is syntax directed: every statement of the Go function becomes one [stmt], every
    constant expression is emitted with the value the Go type checker computes for it.  The interpreter
    gives the statements their Go meaning over integers (no overflow occurs in this code: descriptor
    numbers, flag words and small counters), with the kernel as an oracle that answers each call. *)
From Coq Require Import List ZArith NArith Bool String.
Import ListNotations.
Open Scope Z_scope.

Inductive binop := OAnd | OOr | OEq | ONe | OLt | OLe | OGt | OGe | OBand | OBor | OAdd | OSub.

Inductive expr :=
| EConst (z : Z)
| EVar (v : N)
| EIndex (a : N) (i : expr)
| ELen (a : N)
| EBin (o : binop) (a b : expr)
| ENot (a : expr)
| EPtr (p : N).

Inductive lval := LVar (v : N) | LIdx (a : N) (i : expr).

Inductive stmt :=
| SSys (r e : option N) (nr : expr) (args : list expr)       (* r, _, e = RawSyscall(nr, args...) *)
| SSet (l : lval) (x : expr)
| SMake (a : N) (n : expr)                                   (* a = make([]int, n) *)
| SIf (c : expr) (t f : list stmt)
| SWhile (c : expr) (body post : list stmt)
| SRange (k v : option N) (arr : N) (body : list stmt)
| SRepeat (n : Z) (body : list stmt)
| SExit (pipe : expr) (loc : Z) (idx : option expr) (err : expr)   (* childExitError: reports and exits, never returns *)
| SInline (body : list stmt)
| SPrepareFds (f n a : N)                                    (* f, n = prepareFds(a) *)
| SMark (p : N)
| SBreak | SContinue | SReturn.

Inductive global := GBytes (b : list Z) | GStruct (f : list (string * Z)) | GInt (z : Z).

(** an argument as the kernel sees it, with where it came from *)
Inductive targ := TInt (z : Z) | TPtr (p : N) | TVar (v : N) (z : Z) | TIdx (a : N) (z : Z) | TLen (a : N) (z : Z).

Inductive event :=
| EvSys (nr : Z) (args : list targ)
| EvExit (pipe : Z) (loc : Z) (idx : option Z) (err : Z)
| EvMark (p : N)
| EvReturn.

(** an element of a slice of structs: scalar fields, slices of integers, slices of structs *)
Inductive elem := Elem (sc : list (N * Z)) (ar : list (N * list Z)) (sub : list (N * list elem)).

Record state := {
  vars : list (N * Z);
  arrs : list (N * list Z);
  sarrs : list (N * list elem);
  ncalls : nat;
  trace : list event }.        (* newest first *)

Fixpoint assoc {A} (k : N) (l : list (N * A)) : option A :=
  match l with [] => None | (k', x) :: r => if N.eqb k k' then Some x else assoc k r end.

Definition getv (s : state) (v : N) : Z := match assoc v (vars s) with Some z => z | None => 0 end.
Definition geta (s : state) (a : N) : list Z := match assoc a (arrs s) with Some l => l | None => [] end.
Definition lena (s : state) (a : N) : Z :=
  match assoc a (arrs s) with
  | Some l => Z.of_nat (List.length l)
  | None => match assoc a (sarrs s) with Some l => Z.of_nat (List.length l) | None => 0 end
  end.

Definition setv (s : state) (v : N) (z : Z) : state :=
  {| vars := (v, z) :: vars s; arrs := arrs s; sarrs := sarrs s; ncalls := ncalls s; trace := trace s |}.
Definition seta (s : state) (a : N) (l : list Z) : state :=
  {| vars := vars s; arrs := (a, l) :: arrs s; sarrs := sarrs s; ncalls := ncalls s; trace := trace s |}.
Definition setsa (s : state) (a : N) (l : list elem) : state :=
  {| vars := vars s; arrs := arrs s; sarrs := (a, l) :: sarrs s; ncalls := ncalls s; trace := trace s |}.
Definition emit (s : state) (e : event) : state :=
  {| vars := vars s; arrs := arrs s; sarrs := sarrs s; ncalls := ncalls s; trace := e :: trace s |}.
Definition called (s : state) : state :=
  {| vars := vars s; arrs := arrs s; sarrs := sarrs s; ncalls := S (ncalls s); trace := trace s |}.

Definition b2z (b : bool) : Z := if b then 1 else 0.
Definition truthy (z : Z) : bool := negb (Z.eqb z 0).

Definition nth_z (l : list Z) (i : Z) : Z := if Z.ltb i 0 then 0 else nth (Z.to_nat i) l 0.
Fixpoint upd_nth (l : list Z) (i : nat) (x : Z) : list Z :=
  match l, i with
  | [], _ => []
  | _ :: r, O => x :: r
  | y :: r, S j => y :: upd_nth r j x
  end.

Definition binop_eval (o : binop) (a b : Z) : Z :=
  match o with
  | OAnd => b2z (truthy a && truthy b)
  | OOr => b2z (truthy a || truthy b)
  | OEq => b2z (Z.eqb a b) | ONe => b2z (negb (Z.eqb a b))
  | OLt => b2z (Z.ltb a b) | OLe => b2z (Z.leb a b) | OGt => b2z (Z.gtb a b) | OGe => b2z (Z.geb a b)
  | OBand => Z.land a b | OBor => Z.lor a b
  | OAdd => a + b | OSub => a - b
  end.

(** a pointer is not nil and keeps its identity through variables: ptr_base + its number *)
Definition ptr_base : Z := 1099511627776.
Fixpoint eval (s : state) (e : expr) : Z :=
  match e with
  | EConst z => z
  | EVar v => getv s v
  | EIndex a i => nth_z (geta s a) (eval s i)
  | ELen a => lena s a
  | EBin OAnd a b => if truthy (eval s a) then b2z (truthy (eval s b)) else 0      (* short circuit: same value, kept for clarity *)
  | EBin OOr a b => if truthy (eval s a) then 1 else b2z (truthy (eval s b))
  | EBin o a b => binop_eval o (eval s a) (eval s b)
  | ENot a => b2z (negb (truthy (eval s a)))
  | EPtr p => ptr_base + Z.of_N p
  end.

Definition eval_arg (s : state) (e : expr) : targ :=
  match e with
  | EPtr p => TPtr p
  | EVar v => TVar v (getv s v)
  | EIndex a i => TIdx a (eval s e)
  | ELen a => TLen a (lena s a)
  | _ => TInt (eval s e)
  end.

(** the kernel's answer to the n-th call: result, errno, memory it wrote (as variables) *)
Definition oracle := nat -> Z -> list targ -> (Z * Z * list (N * Z)).

Inductive sig := Norm | Brk | Cont | Ret | Exited | OutOfFuel.

Definition opt_set (s : state) (v : option N) (z : Z) : state := match v with Some x => setv s x z | None => s end.

Definition bind_elem (s : state) (e : elem) : state :=
  match e with Elem sc ar sub =>
    let s1 := fold_left (fun s p => setv s (fst p) (snd p)) sc s in
    let s2 := fold_left (fun s p => seta s (fst p) (snd p)) ar s1 in
    fold_left (fun s p => setsa s (fst p) (snd p)) sub s2
  end.

(** the callee of SPrepareFds: (body, parameter array, returned array, returned scalar) *)
Definition prepinfo := (list stmt * N * N * N)%type.

Section Exec.
Variable orc : oracle.
Variable prep : prepinfo.

Fixpoint exec (fuel : nat) (s : state) (l : list stmt) {struct fuel} : sig * state :=
  match fuel with
  | O => (OutOfFuel, s)
  | S n =>
    match l with
    | [] => (Norm, s)
    | x :: rest =>
      let '(sg, s') :=
        match x with
        | SSys r e nr args =>
            let nrv := eval s nr in
            let av := map (eval_arg s) args in
            let '(rv, ev, wr) := orc (ncalls s) nrv av in
            let s1 := emit (called s) (EvSys nrv av) in
            let s2 := fold_left (fun s p => setv s (fst p) (snd p)) wr s1 in
            (* errno -1: the call does not return (a successful exec) *)
            if Z.eqb ev (-1) then (Exited, s2) else (Norm, opt_set (opt_set s2 r rv) e ev)
        | SSet (LVar v) e => (Norm, setv s v (eval s e))
        | SSet (LIdx a i) e => (Norm, seta s a (upd_nth (geta s a) (Z.to_nat (eval s i)) (eval s e)))
        | SMake a ne => (Norm, seta s a (repeat 0 (Z.to_nat (eval s ne))))
        | SIf c t f => if truthy (eval s c) then exec n s t else exec n s f
        | SWhile c b p =>
            if truthy (eval s c) then
              let '(sg1, s1) := exec n s b in
              match sg1 with
              | Norm | Cont =>
                  let '(sg2, s2) := exec n s1 p in
                  match sg2 with Norm => exec n s2 [SWhile c b p] | _ => (sg2, s2) end
              | Brk => (Norm, s1)
              | _ => (sg1, s1)
              end
            else (Norm, s)
        | SRange k v a b =>
            let run_body (s0 : state) : sig * state := exec n s0 b in
            match assoc a (sarrs s) with
            | Some els =>
                (fix go (i : Z) (els : list elem) (s0 : state) : sig * state :=
                   match els with
                   | [] => (Norm, s0)
                   | el :: r =>
                       let s1 := bind_elem (opt_set s0 k i) el in
                       let '(sg1, s2) := run_body s1 in
                       match sg1 with Norm | Cont => go (i + 1) r s2 | Brk => (Norm, s2) | _ => (sg1, s2) end
                   end) 0 els s
            | None =>
                (fix go (i : Z) (els : list Z) (s0 : state) : sig * state :=
                   match els with
                   | [] => (Norm, s0)
                   | el :: r =>
                       let s1 := opt_set (opt_set s0 k i) v el in
                       let '(sg1, s2) := run_body s1 in
                       match sg1 with Norm | Cont => go (i + 1) r s2 | Brk => (Norm, s2) | _ => (sg1, s2) end
                   end) 0 (geta s a) s
            end
        | SRepeat cnt b =>
            (fix go (k : nat) (s0 : state) : sig * state :=
               match k with
               | O => (Norm, s0)
               | S k' =>
                   let '(sg1, s1) := exec n s0 b in
                   match sg1 with Norm | Cont => go k' s1 | Brk => (Norm, s1) | _ => (sg1, s1) end
               end) (Z.to_nat cnt) s
        | SExit pe loc idx err =>
            (Exited, emit s (EvExit (eval s pe) loc (match idx with Some i => Some (eval s i) | None => None end) (eval s err)))
        | SInline b =>
            let '(sg1, s1) := exec n s b in
            match sg1 with Ret => (Norm, s1) | _ => (sg1, s1) end
        | SPrepareFds f nv a =>
            let '(body, pa, ra, rs) := prep in
            let '(sg1, s1) := exec n (seta s pa (geta s a)) body in
            match sg1 with
            | Ret | Norm => (Norm, setv (seta s1 f (geta s1 ra)) nv (getv s1 rs))
            | _ => (sg1, s1)
            end
        | SMark p => (Norm, emit s (EvMark p))
        | SBreak => (Brk, s)
        | SContinue => (Cont, s)
        | SReturn => (Ret, emit s EvReturn)
        end in
      match sg with Norm => exec n s' rest | _ => (sg, s') end
    end
  end.
End Exec.

Definition init_state (v : list (N * Z)) (a : list (N * list Z)) (sa : list (N * list elem)) : state :=
  {| vars := v; arrs := a; sarrs := sa; ncalls := 0; trace := [] |}.

Definition run (orc : oracle) (prep : prepinfo) (fuel : nat) (s : state) (p : list stmt) : sig * list event :=
  let '(sg, s') := exec orc prep fuel s p in (sg, rev (trace s')).

Definition sys_events (l : list event) : list (Z * list targ) :=
  flat_map (fun e => match e with EvSys n a => [(n, a)] | _ => [] end) l.

From Coq Require Import List Bool Arith NArith.
From GS Require Import Launch.SecState.
Import ListNotations.

Ltac fin := eexists; split; [vm_compute; reflexivity|]; vm_compute; repeat split; try reflexivity; try (intros; discriminate).

(** for EVERY combination of the options (and every requested identity), the launch sequence runs through
    and the target starts in exactly the requested state *)
Theorem state_at_exec_spec : forall c uid gid groups cwd host dom,
  let s0 := start uid gid groups cwd host dom in
  exists s, state_at_exec c s0 = Some s /\ spec_state c s0 s.
Proof.
  intros c uid gid groups cwd host dom s0. subst s0.
  destruct c as [cr gm gs dc nn sc pt st sy uc wd ho dm].
  destruct uid as [|pu0]; destruct cr as [[[|pu] g gr nsg]|]; destruct gm, gs, dc, nn, sc, pt, st, sy, uc; try destruct nsg; try destruct gr; fin.
Qed.

(** no combination of options loses or doubles a step *)
Definition tag (x : step) : nat :=
  match x with SSetsid => 0 | SKeepCaps => 1 | SSetgroups _ => 2 | SSetgid _ => 3 | SSetuid _ => 4 | SSethost _ => 5 | SSetdomain _ => 6
          | SChdir _ => 7 | SNoNewPrivs => 8 | SNoRoot => 9 | SCapset0 => 10 | SSyncWrite => 11 | SSyncRead => 12 | SUnshareCgroup => 13
          | STraceme => 14 | SStop => 15 | SSeccomp => 16 | SExec => 17 end.
Definition count (t : nat) (l : list step) : nat := length (filter (fun x => Nat.eqb (tag x) t) l).
Definition b2n (b : bool) : nat := if b then 1 else 0.

Theorem no_step_lost : forall c,
  count 16 (child_steps c) = b2n (f_seccomp c) /\
  count 10 (child_steps c) = b2n (wants_drop c) /\
  count 9 (child_steps c) = b2n (wants_drop c) /\
  count 8 (child_steps c) = b2n (f_nnp c || f_seccomp c) /\
  count 13 (child_steps c) = b2n (f_ucas c) /\
  count 14 (child_steps c) = b2n (f_ptrace c) /\
  count 11 (child_steps c) = b2n (f_sync c) /\
  count 0 (child_steps c) = 1 /\
  count 17 (child_steps c) = 1 /\ last (child_steps c) SSetsid = SExec.
Proof.
  intros c. destruct c as [cr gm gs dc nn sc pt st sy uc wd ho dm].
  destruct cr as [[u g gr nsg]|]; destruct gm, gs, dc, nn, sc, pt, st, sy, uc; try destruct nsg; try destruct gr; vm_compute; repeat split; reflexivity.
Qed.

(** The descriptor shuffle of forkAndExecInChild (pkg/forkexec): prepareFds,
    pass 1 (sync socket, exec descriptor and low sources moved to scratch
    numbers with close-on-exec) and pass 2 (close / clear close-on-exec / dup3
    into place), over a model of the kernel's descriptor table. *)
From Coq Require Export List ZArith Bool Lia.
Export ListNotations.
Open Scope Z_scope.

(** descriptor table: number -> (open file description, close-on-exec) *)
Definition ftab := Z -> option (nat * bool).

Definition upd (T : ftab) (fd : Z) (v : option (nat * bool)) : ftab :=
  fun x => if x =? fd then v else T x.

Inductive res (A : Type) := Ok (a : A) | Err (errno : Z).
Arguments Ok {A}. Arguments Err {A}.

Definition EBADF := 9. Definition EINVAL := 22.

(** dup3(old, new, flags): FD1 of the kernel rules *)
Definition dup3 (T : ftab) (old new : Z) (cloexec : bool) : res ftab :=
  match T old with
  | None => Err EBADF
  | Some (o, _) => if old =? new then Err EINVAL else if new <? 0 then Err EBADF else Ok (upd T new (Some (o, cloexec)))
  end.

Definition set_cloexec (T : ftab) (fd : Z) (c : bool) : res ftab :=
  match T fd with
  | None => Err EBADF
  | Some (o, _) => Ok (upd T fd (Some (o, c)))
  end.

Definition close (T : ftab) (fd : Z) : ftab := upd T fd None.

(** prepareFds: the scratch area starts above the list length and above every listed number *)
Definition next0 (files : list Z) : Z := 1 + fold_left Z.max files (Z.of_nat (length files)).

(** the loops "for nextfd == pipe || nextfd == exec { nextfd++ }": two values to avoid, at most two steps *)
Definition avoid1 (n a b : Z) : Z := if (n =? a) || (n =? b) then n + 1 else n.
Definition avoid (n a b : Z) : Z := avoid1 (avoid1 (avoid1 n a b) a b) a b.

(** [exec] = 0 means no exec descriptor; it never equals a descriptor we dup to (all > 0) *)
Record st := { s_T : ftab; s_next : Z; s_pipe : Z; s_exec : Z }.

(** pass 1a: the sync socket.  [fixed]: also step over the exec descriptor
    (the pinned tree did not: fixed = false reproduces it). *)
Definition pass1a (fixed : bool) (s : st) : res st :=
  if s_pipe s <? s_next s then
    let n := if fixed then avoid1 (s_next s) (s_exec s) (s_exec s) else s_next s in
    match dup3 (s_T s) (s_pipe s) n true with
    | Ok T' => Ok {| s_T := T'; s_next := n + 1; s_pipe := n; s_exec := s_exec s |}
    | Err e => Err e
    end
  else Ok s.

(** pass 1b: the exec descriptor *)
Definition pass1b (s : st) : res st :=
  if (0 <? s_exec s) && (s_exec s <? s_next s) then
    let n := avoid1 (s_next s) (s_pipe s) (s_pipe s) in
    match dup3 (s_T s) (s_exec s) n true with
    | Ok T' => Ok {| s_T := T'; s_next := n + 1; s_pipe := s_pipe s; s_exec := n |}
    | Err e => Err e
    end
  else Ok s.

(** pass 1c: sources below their slot go to scratch numbers *)
Fixpoint pass1c (s : st) (fd : list Z) (i : Z) : res (st * list Z) :=
  match fd with
  | [] => Ok (s, [])
  | f :: r =>
      if (0 <=? f) && (f <? i) then
        let n := avoid (s_next s) (s_pipe s) (s_exec s) in
        match dup3 (s_T s) f n true with
        | Ok T' =>
            match pass1c {| s_T := T'; s_next := n + 1; s_pipe := s_pipe s; s_exec := s_exec s |} r (i + 1) with
            | Ok (s', r') => Ok (s', n :: r')
            | Err e => Err e
            end
        | Err e => Err e
        end
      else
        match pass1c s r (i + 1) with
        | Ok (s', r') => Ok (s', f :: r')
        | Err e => Err e
        end
  end.

(** pass 2: slot i receives fd[i] *)
Fixpoint pass2 (T : ftab) (fd : list Z) (i : Z) : res ftab :=
  match fd with
  | [] => Ok T
  | f :: r =>
      if f =? -1 then pass2 (close T i) r (i + 1)
      else if f =? i then
        match set_cloexec T i false with Ok T' => pass2 T' r (i + 1) | Err e => Err e end
      else
        match dup3 T f i false with Ok T' => pass2 T' r (i + 1) | Err e => Err e end
  end.

(** the whole shuffle: final table, where the sync socket and the exec descriptor ended up *)
Definition shuffle (fixed : bool) (T : ftab) (files : list Z) (pipe exec : Z) : res (ftab * Z * Z) :=
  let s0 := {| s_T := T; s_next := next0 files; s_pipe := pipe; s_exec := exec |} in
  match pass1a fixed s0 with
  | Err e => Err e
  | Ok s1 =>
      match pass1b s1 with
      | Err e => Err e
      | Ok s2 =>
          match pass1c s2 files 0 with
          | Err e => Err e
          | Ok (s3, fd) =>
              match pass2 (s_T s3) fd 0 with
              | Err e => Err e
              | Ok T' => Ok (T', s_pipe s3, s_exec s3)
              end
          end
      end
  end.

(** FD2: exec keeps exactly the descriptors without close-on-exec *)
Definition at_exec (T : ftab) : Z -> option nat :=
  fun fd => match T fd with Some (o, false) => Some o | _ => None end.

From GS Require Import Launch.FdShuffle.
Open Scope Z_scope.

Definition clr (v : option (nat * bool)) : option (nat * bool) :=
  match v with Some (o, _) => Some (o, false) | None => None end.

Definition ofd (v : option (nat * bool)) : option nat :=
  match v with Some (o, _) => Some o | None => None end.

Lemma upd_same T fd v : upd T fd v fd = v.
Proof. unfold upd. rewrite Z.eqb_refl. reflexivity. Qed.

Lemma upd_other T fd v x : x <> fd -> upd T fd v x = T x.
Proof. intros H. unfold upd. apply Z.eqb_neq in H. rewrite H. reflexivity. Qed.

(** * pass 2 *)
Lemma pass2_spec : forall fd T i, 0 <= i ->
  (forall k g, nth_error fd k = Some g -> g = -1 \/ (i + Z.of_nat k <= g /\ T g <> None)) ->
  exists T', pass2 T fd i = Ok T' /\
    (forall k g, nth_error fd k = Some g -> T' (i + Z.of_nat k) = if g =? -1 then None else clr (T g)) /\
    (forall x, x < i \/ i + Z.of_nat (length fd) <= x -> T' x = T x).
Proof.
  induction fd as [|f r IH]; intros T i Hi Hsrc.
  - exists T. simpl. split; [reflexivity|]. split; [intros [|k] g H; discriminate | auto].
  - pose proof (Hsrc 0%nat f eq_refl) as H0. rewrite Z.add_0_r in H0.
    assert (forall T1, (forall x, x <> i -> T1 x = T x) ->
              forall k g, nth_error r k = Some g -> g = -1 \/ (i + 1 + Z.of_nat k <= g /\ T1 g <> None)) as Hnext.
    { intros T1 HT1 k g Hk. destruct (Hsrc (S k) g Hk) as [->|[Hge Hne]]; [left; reflexivity|].
      right. split; [lia|]. rewrite HT1 by lia. exact Hne. }
    cbn [pass2]. destruct (Z.eqb_spec f (-1)) as [->|Hf1].
    + (* close slot i *)
      destruct (IH (close T i) (i + 1) ltac:(lia) (Hnext _ (fun x Hx => upd_other T i None x Hx))) as [T' [E [S1 S2]]].
      exists T'. split; [exact E|]. split.
      * intros [|k] g Hk; simpl in Hk.
        { inversion Hk; subst. rewrite Z.add_0_r. simpl. rewrite S2 by lia. apply upd_same. }
        { rewrite Nat2Z.inj_succ. replace (i + Z.succ (Z.of_nat k)) with (i + 1 + Z.of_nat k) by lia.
          rewrite (S1 k g Hk). destruct (g =? -1) eqn:Eg; [reflexivity|].
          destruct (Hsrc (S k) g Hk) as [->|[Hge _]]; [discriminate|].
          unfold close. rewrite upd_other by lia. reflexivity. }
      * intros x Hx. rewrite S2 by (simpl length in Hx; lia). unfold close. apply upd_other. simpl length in Hx. lia.
    + destruct H0 as [H0|[Hge Hne]]; [contradiction|].
      destruct (T f) as [[o c]|] eqn:ETf; [|congruence].
      destruct (Z.eqb_spec f i) as [->|Hfi].
      * (* already in place: clear close-on-exec *)
        unfold set_cloexec. rewrite ETf.
        destruct (IH (upd T i (Some (o, false))) (i + 1) ltac:(lia) (Hnext _ (fun x Hx => upd_other T i _ x Hx))) as [T' [E [S1 S2]]].
        exists T'. split; [exact E|]. split.
        { intros [|k] g Hk; simpl in Hk.
          - inversion Hk; subst. rewrite Z.add_0_r. rewrite S2 by lia. rewrite upd_same.
            destruct (g =? -1) eqn:Eg; [apply Z.eqb_eq in Eg; lia|]. rewrite ETf. reflexivity.
          - rewrite Nat2Z.inj_succ. replace (i + Z.succ (Z.of_nat k)) with (i + 1 + Z.of_nat k) by lia.
            rewrite (S1 k g Hk). destruct (g =? -1) eqn:Eg; [reflexivity|].
            destruct (Hsrc (S k) g Hk) as [->|[Hge' _]]; [discriminate|].
            rewrite upd_other by lia. reflexivity. }
        { intros x Hx. simpl length in Hx. rewrite S2 by lia. apply upd_other. lia. }
      * (* dup3 into place *)
        unfold dup3. rewrite ETf. apply Z.eqb_neq in Hfi. rewrite Hfi.
        assert (i <? 0 = false) as -> by (apply Z.ltb_ge; lia).
        destruct (IH (upd T i (Some (o, false))) (i + 1) ltac:(lia) (Hnext _ (fun x Hx => upd_other T i _ x Hx))) as [T' [E [S1 S2]]].
        exists T'. split; [exact E|]. split.
        { intros [|k] g Hk; simpl in Hk.
          - inversion Hk; subst. rewrite Z.add_0_r. rewrite S2 by lia. rewrite upd_same.
            apply Z.eqb_neq in Hf1. rewrite Hf1. rewrite ETf. reflexivity.
          - rewrite Nat2Z.inj_succ. replace (i + Z.succ (Z.of_nat k)) with (i + 1 + Z.of_nat k) by lia.
            rewrite (S1 k g Hk). destruct (g =? -1) eqn:Eg; [reflexivity|].
            destruct (Hsrc (S k) g Hk) as [->|[Hge' _]]; [discriminate|].
            rewrite upd_other by lia. reflexivity. }
        { intros x Hx. simpl length in Hx. rewrite S2 by lia. apply upd_other. lia. }
Qed.

(** * the scratch area *)
Lemma fold_max_ge : forall l a, a <= fold_left Z.max l a /\ forall f, In f l -> f <= fold_left Z.max l a.
Proof.
  induction l as [|x l IH]; intros a; simpl.
  - split; [lia|tauto].
  - destruct (IH (Z.max a x)) as [H1 H2]. split; [lia|]. intros f [<-|Hf]; [lia|apply H2; exact Hf].
Qed.

Lemma next0_gt files : Z.of_nat (length files) < next0 files /\ forall f, In f files -> f < next0 files.
Proof.
  unfold next0. destruct (fold_max_ge files (Z.of_nat (length files))) as [H1 H2].
  split; [lia|]. intros f Hf. specialize (H2 f Hf). lia.
Qed.

Lemma avoid1_spec n a : let m := avoid1 n a a in n <= m <= n + 1 /\ m <> a.
Proof. unfold avoid1. destruct (Z.eqb_spec n a); simpl; lia. Qed.

Lemma avoid_spec n a b : let m := avoid n a b in n <= m /\ m <> a /\ m <> b.
Proof.
  cbv zeta. unfold avoid, avoid1.
  repeat match goal with
         | |- context [if ?c then _ else _] => let E := fresh "E" in destruct c eqn:E
         end;
  repeat match goal with
         | H : (_ || _) = true |- _ => apply orb_true_iff in H
         | H : (_ || _) = false |- _ => apply orb_false_iff in H; destruct H
         | H : (_ =? _) = true |- _ => apply Z.eqb_eq in H
         | H : (_ =? _) = false |- _ => apply Z.eqb_neq in H
         end; lia.
Qed.

(** writes of pass 1 go to numbers >= N0 and carry close-on-exec *)
Definition Inv (T : ftab) (N0 : Z) (Ts : ftab) : Prop :=
  (forall x, x < N0 -> Ts x = T x) /\
  (forall x, N0 <= x -> Ts x = T x \/ exists o, Ts x = Some (o, true)).

Lemma Inv_refl T N0 : Inv T N0 T.
Proof. split; auto. Qed.

Lemma Inv_upd T N0 Ts m o : Inv T N0 Ts -> N0 <= m -> Inv T N0 (upd Ts m (Some (o, true))).
Proof.
  intros [I1 I2] Hm. split.
  - intros x Hx. rewrite upd_other by lia. apply I1. exact Hx.
  - intros x Hx. destruct (Z.eq_dec x m) as [->|Hne].
    + right. exists o. apply upd_same.
    + rewrite upd_other by exact Hne. apply I2. exact Hx.
Qed.

(** * pass 1c *)
Lemma pass1c_spec T N0 : forall fd s i,
  Inv T N0 (s_T s) -> N0 <= s_next s -> 0 <= i -> i + Z.of_nat (length fd) < N0 ->
  (forall f, In f fd -> f < N0 /\ (f = -1 \/ (0 <= f /\ T f <> None))) ->
  exists s' fd', pass1c s fd i = Ok (s', fd') /\
    Inv T N0 (s_T s') /\ s_pipe s' = s_pipe s /\ s_exec s' = s_exec s /\ s_next s <= s_next s' /\
    (forall x, x < s_next s \/ x = s_pipe s \/ x = s_exec s -> s_T s' x = s_T s x) /\
    (forall k f, nth_error fd k = Some f -> exists g, nth_error fd' k = Some g /\
        ((f = -1 /\ g = -1) \/ (0 <= f /\ i + Z.of_nat k <= g /\ ofd (s_T s' g) = ofd (T f) /\ T f <> None))).
Proof.
  induction fd as [|f r IH]; intros s i HI Hn Hi Hlen Hsrc.
  - exists s, []. simpl. split; [reflexivity|]. split; [exact HI|]. repeat split; auto; try lia.
    intros [|k] f H; discriminate.
  - destruct (Hsrc f (or_introl eq_refl)) as [HfN Hf].
    assert (forall f', In f' r -> f' < N0 /\ (f' = -1 \/ (0 <= f' /\ T f' <> None))) as Hsrc' by (intros; apply Hsrc; right; assumption).
    simpl length in Hlen. rewrite Nat2Z.inj_succ in Hlen.
    cbn [pass1c]. destruct ((0 <=? f) && (f <? i)) eqn:Emove.
    + (* moved to a scratch number *)
      apply andb_true_iff in Emove. destruct Emove as [E0 E1]. apply Z.leb_le in E0. apply Z.ltb_lt in E1.
      destruct Hf as [Hf|[_ HTf]]; [lia|].
      pose proof (avoid_spec (s_next s) (s_pipe s) (s_exec s)) as Hav. cbv zeta in Hav.
      set (n := avoid (s_next s) (s_pipe s) (s_exec s)) in *. destruct Hav as [Hn1 [Hn2 Hn3]].
      destruct HI as [I1 I2]. unfold dup3. rewrite (I1 f HfN).
      destruct (T f) as [[o c]|] eqn:ETf; [|congruence].
      assert (f =? n = false) as -> by (apply Z.eqb_neq; lia).
      assert (n <? 0 = false) as -> by (apply Z.ltb_ge; lia).
      set (s1 := {| s_T := upd (s_T s) n (Some (o, true)); s_next := n + 1; s_pipe := s_pipe s; s_exec := s_exec s |}).
      destruct (IH s1 (i + 1)) as [s' [r' [E [HI' [Hp [He [Hnx [Hfr Hk]]]]]]]]; simpl; try lia; auto.
      { apply Inv_upd; [split; assumption|lia]. }
      rewrite E. exists s', (n :: r'). split; [reflexivity|]. split; [exact HI'|].
      simpl in Hp, He, Hnx. repeat split; try assumption; try lia.
      * intros x Hx. rewrite Hfr by (simpl; lia). simpl. apply upd_other. lia.
      * intros [|k] f' Hk'; simpl in Hk'.
        { inversion Hk'; subst f'. exists n. split; [reflexivity|]. right.
          rewrite Z.add_0_r. repeat split; try lia; try congruence.
          rewrite Hfr by (simpl; lia). simpl. rewrite upd_same. rewrite ETf. reflexivity. }
        { destruct (Hk k f' Hk') as [g [Hg Hcase]]. exists g. split; [exact Hg|].
          destruct Hcase as [Hc|[H1 [H2 [H3 H4]]]]; [left; exact Hc|right]. repeat split; auto. lia. }
    + (* stays *)
      destruct (IH s (i + 1)) as [s' [r' [E [HI' [Hp [He [Hnx [Hfr Hk]]]]]]]]; try lia; auto.
      rewrite E. exists s', (f :: r'). split; [reflexivity|]. split; [exact HI'|]. split; [exact Hp|]. split; [exact He|].
      split; [lia|]. split; [exact Hfr|].
      intros [|k] f' Hk'; simpl in Hk'.
      * inversion Hk'; subst f'. exists f. split; [reflexivity|].
        destruct Hf as [->|[Hf0 HTf]]; [left; auto|right].
        apply andb_false_iff in Emove. rewrite Z.add_0_r. repeat split; auto.
        { destruct Emove as [Em|Em]; [apply Z.leb_gt in Em; lia|apply Z.ltb_ge in Em; lia]. }
        { rewrite Hfr by lia. destruct HI as [I1 _]. rewrite I1 by lia. reflexivity. }
      * destruct (Hk k f' Hk') as [g [Hg Hcase]]. exists g. split; [exact Hg|].
        destruct Hcase as [Hc|[H1 [H2 [H3 H4]]]]; [left; exact Hc|right]. repeat split; auto. lia.
Qed.

Lemma pass1c_length : forall fd s i s' fd', pass1c s fd i = Ok (s', fd') -> length fd' = length fd.
Proof.
  induction fd as [|f r IH]; intros s i s' fd' H; simpl in H.
  - inversion H. reflexivity.
  - destruct ((0 <=? f) && (f <? i)).
    + destruct (dup3 (s_T s) f (avoid (s_next s) (s_pipe s) (s_exec s)) true) as [T1|e]; [|discriminate].
      match type of H with context [pass1c ?a r ?b] => destruct (pass1c a r b) as [[s1 r1]|e] eqn:E end; [|discriminate].
      inversion H; subst. simpl. f_equal. eapply IH. exact E.
    + destruct (pass1c s r (i + 1)) as [[s1 r1]|e] eqn:E; [|discriminate].
      inversion H; subst. simpl. f_equal. eapply IH. exact E.
Qed.

(** * the theorem *)
Definition pre (T : ftab) (files : list Z) (pipe exec : Z) : Prop :=
  (forall f, In f files -> f = -1 \/ (0 <= f /\ T f <> None)) /\
  0 <= pipe /\ T pipe <> None /\
  (exec = 0 \/ (0 < exec /\ T exec <> None)) /\
  (* every descriptor of the launcher outside the slot range is close-on-exec *)
  (forall x o c, Z.of_nat (length files) <= x -> T x = Some (o, c) -> c = true).

Definition post (T : ftab) (files : list Z) (pipe exec : Z) (T' : ftab) (p' e' : Z) : Prop :=
  (forall k f, nth_error files k = Some f -> at_exec T' (Z.of_nat k) = if f =? -1 then None else ofd (T f)) /\
  (forall x, Z.of_nat (length files) <= x -> at_exec T' x = None) /\
  ofd (T' p') = ofd (T pipe) /\
  (exec = 0 -> e' = 0) /\ (exec <> 0 -> 0 < e' /\ ofd (T' e') = ofd (T exec)).

Lemma ofd_not_none v : v <> None -> exists o, ofd v = Some o.
Proof. destruct v as [[o c]|]; [intros _; exists o; reflexivity|congruence]. Qed.

Theorem shuffle_correct T files pipe exec : pre T files pipe exec ->
  exists T' p' e', shuffle true T files pipe exec = Ok (T', p', e') /\ post T files pipe exec T' p' e'.
Proof.
  intros [Hfiles [Hp0 [HTp [Hexec Hclo]]]].
  set (N0 := next0 files). destruct (next0_gt files) as [HnN HfN]. fold N0 in HnN, HfN.
  unfold shuffle. fold N0.
  (* ---- pass 1a *)
  assert (exists s1, pass1a true {| s_T := T; s_next := N0; s_pipe := pipe; s_exec := exec |} = Ok s1 /\
            Inv T N0 (s_T s1) /\ N0 <= s_next s1 /\ N0 <= s_pipe s1 /\ s_exec s1 = exec /\
            ofd (s_T s1 (s_pipe s1)) = ofd (T pipe) /\ s_T s1 exec = T exec) as [s1 [E1 [I1 [N1 [P1 [X1 [O1 Q1]]]]]]].
  { unfold pass1a. cbn [s_pipe s_next s_exec s_T]. destruct (Z.ltb_spec pipe N0) as [Hlt|Hge].
    - pose proof (avoid1_spec N0 exec) as Hav. cbv zeta in Hav. set (n1 := avoid1 N0 exec exec) in *.
      destruct Hav as [Ha Hb]. unfold dup3. destruct (T pipe) as [[o c]|] eqn:ETp; [|congruence].
      assert (pipe =? n1 = false) as -> by (apply Z.eqb_neq; lia).
      assert (n1 <? 0 = false) as -> by (apply Z.ltb_ge; lia).
      eexists. split; [reflexivity|]. cbn [s_pipe s_next s_exec s_T].
      split; [apply Inv_upd; [apply Inv_refl|lia]|]. repeat split; try lia.
      + rewrite upd_same. reflexivity.
      + apply upd_other. congruence.
    - eexists. split; [reflexivity|]. cbn [s_pipe s_next s_exec s_T].
      split; [apply Inv_refl|]. repeat split; try lia. }
  rewrite E1.
  (* ---- pass 1b *)
  assert (exists s2, pass1b s1 = Ok s2 /\ Inv T N0 (s_T s2) /\ N0 <= s_next s2 /\ N0 <= s_pipe s2 /\
            ofd (s_T s2 (s_pipe s2)) = ofd (T pipe) /\
            (exec = 0 -> s_exec s2 = 0) /\
            (exec <> 0 -> N0 <= s_exec s2 /\ ofd (s_T s2 (s_exec s2)) = ofd (T exec))) as [s2 [E2 [I2 [N2 [P2 [O2 [X2a X2b]]]]]]].
  { unfold pass1b. rewrite X1. destruct ((0 <? exec) && (exec <? s_next s1)) eqn:Eb.
    - apply andb_true_iff in Eb. destruct Eb as [Eb1 Eb2]. apply Z.ltb_lt in Eb1, Eb2.
      pose proof (avoid1_spec (s_next s1) (s_pipe s1)) as Hav. cbv zeta in Hav.
      set (m := avoid1 (s_next s1) (s_pipe s1) (s_pipe s1)) in *. destruct Hav as [Ha Hb].
      unfold dup3. rewrite Q1. destruct Hexec as [Hexec|[_ HTe]]; [lia|].
      destruct (T exec) as [[o c]|] eqn:ETe; [|congruence].
      assert (exec =? m = false) as -> by (apply Z.eqb_neq; lia).
      assert (m <? 0 = false) as -> by (apply Z.ltb_ge; lia).
      eexists. split; [reflexivity|]. cbn [s_pipe s_next s_exec s_T].
      split; [apply Inv_upd; [exact I1|lia]|]. split; [lia|]. split; [lia|]. split.
      { rewrite upd_other by congruence. exact O1. }
      split; [intros He; lia|]. intros _. split; [lia|]. rewrite upd_same. reflexivity.
    - exists s1. split; [reflexivity|]. split; [exact I1|]. split; [exact N1|]. split; [exact P1|]. split; [exact O1|]. split.
      + intros He. rewrite X1. exact He.
      + intros Hne. rewrite X1. split.
        * apply andb_false_iff in Eb. destruct Eb as [Eb|Eb].
          { apply Z.ltb_ge in Eb. destruct Hexec as [Hexec|[Hexec _]]; lia. }
          { apply Z.ltb_ge in Eb. lia. }
        * rewrite Q1. reflexivity. }
  rewrite E2.
  (* ---- pass 1c *)
  destruct (pass1c_spec T N0 files s2 0 I2 N2 ltac:(lia) ltac:(lia)) as [s3 [fd [E3 [I3 [Pp [Pe [_ [Hfr Hk]]]]]]]].
  { intros f Hf. split; [apply HfN; exact Hf|apply Hfiles; exact Hf]. }
  rewrite E3. pose proof (pass1c_length _ _ _ _ _ E3) as Hlen.
  (* ---- pass 2 *)
  destruct (pass2_spec fd (s_T s3) 0 ltac:(lia)) as [T' [E4 [S1 S2]]].
  { intros k g Hg. assert (k < length files)%nat as Hkl by (rewrite <- Hlen; apply nth_error_Some; congruence).
    destruct (nth_error files k) as [f|] eqn:Ef; [|apply nth_error_None in Ef; lia].
    destruct (Hk k f Ef) as [g' [Hg' Hcase]]. rewrite Hg in Hg'. inversion Hg'; subst g'.
    destruct Hcase as [[_ ->]|[H1 [H2 [H3 H4]]]]; [left; reflexivity|right]. split; [lia|].
    destruct (ofd_not_none _ H4) as [o Ho]. rewrite Ho in H3. destruct (s_T s3 g); [congruence|discriminate]. }
  rewrite E4. exists T', (s_pipe s3), (s_exec s3). split; [reflexivity|].
  destruct I3 as [I3a I3b].
  assert (forall x, Z.of_nat (length files) <= x -> T' x = s_T s3 x) as Hhigh.
  { intros x Hx. apply S2. right. rewrite Hlen. lia. }
  unfold post. split; [|split; [|split; [|split]]].
  - intros k f Ef. destruct (Hk k f Ef) as [g [Hg Hcase]]. unfold at_exec.
    specialize (S1 k g Hg). rewrite Z.add_0_l in S1. rewrite S1.
    destruct Hcase as [[-> ->]|[H1 [H2 [H3 H4]]]]; [reflexivity|].
    assert (g =? -1 = false) as -> by (apply Z.eqb_neq; lia).
    assert (f =? -1 = false) as -> by (apply Z.eqb_neq; lia).
    rewrite <- H3. destruct (s_T s3 g) as [[o c]|]; reflexivity.
  - intros x Hx. unfold at_exec. rewrite (Hhigh x Hx).
    destruct (Z.lt_ge_cases x N0) as [Hlt|Hge].
    + rewrite (I3a x Hlt). destruct (T x) as [[o c]|] eqn:ETx; [|reflexivity].
      rewrite (Hclo x o c Hx ETx). reflexivity.
    + destruct (I3b x Hge) as [Heq|[o Ho]].
      * rewrite Heq. destruct (T x) as [[o c]|] eqn:ETx; [|reflexivity]. rewrite (Hclo x o c Hx ETx). reflexivity.
      * rewrite Ho. reflexivity.
  - rewrite Hhigh by (rewrite Pp; lia). rewrite Hfr by (rewrite Pp; auto). rewrite Pp. exact O2.
  - intros He. rewrite Pe. apply X2a. exact He.
  - intros He. destruct (X2b He) as [Hx1 Hx2]. rewrite Pe. split; [lia|].
    rewrite Hhigh by lia. rewrite Hfr by auto. exact Hx2.
Qed.

(** what survives exec is exactly the caller's list *)
Corollary table_at_exec T files pipe exec T' p' e' :
  pre T files pipe exec -> shuffle true T files pipe exec = Ok (T', p', e') ->
  forall x, at_exec T' x <> None -> 0 <= x < Z.of_nat (length files) \/ x < 0.
Proof.
  intros Hpre E x Hx. destruct (shuffle_correct T files pipe exec Hpre) as [T2 [p2 [e2 [E' [_ [Hhi _]]]]]].
  rewrite E in E'. inversion E'; subst. destruct (Z.lt_ge_cases x (Z.of_nat (length files))); [lia|].
  exfalso. apply Hx. apply Hhi. lia.
Qed.

(** * the pinned tree: the sync socket is moved onto the exec descriptor *)
Definition tab_of (l : list (Z * nat)) : ftab :=
  fun x => match find (fun '(k, _) => k =? x) l with Some (_, o) => Some (o, true) | None => None end.

Lemma pipe_clobbers_exec_on_pinned :
  let T := tab_of [(0, 100%nat); (1, 101%nat); (2, 102%nat); (23, 123%nat); (24, 124%nat); (25, 125%nat); (26, 126%nat); (27, 127%nat)] in
  pre T [0; 1; 2; 25; 26] 24 27 /\
  exists T' p' e', shuffle false T [0; 1; 2; 25; 26] 24 27 = Ok (T', p', e') /\
                   ofd (T' e') = Some 124%nat /\ ofd (T 27) = Some 127%nat.
Proof.
  cbv zeta. split.
  - unfold pre. repeat split.
    + intros f Hf. right. simpl in Hf. repeat (destruct Hf as [<-|Hf]; [split; [lia|vm_compute; discriminate]|]). contradiction.
    + lia.
    + vm_compute. discriminate.
    + right. split; [lia|vm_compute; discriminate].
    + intros x o c _. unfold tab_of. destruct (find _ _) as [[k o']|]; [|discriminate]. intros H; inversion H; reflexivity.
  - eexists _, _, _. split; [vm_compute; reflexivity|]. split; vm_compute; reflexivity.
Qed.

Example shuffle_example :
  let T := tab_of [(0, 100%nat); (1, 101%nat); (2, 102%nat); (9, 109%nat); (12, 112%nat)] in
  match shuffle true T [1; 0; -1; 9; 9; 2] 12 0 with
  | Ok (T', p', e') => map (at_exec T') [0; 1; 2; 3; 4; 5; 6; 9; 12; p'] =
                       [Some 101; Some 100; None; Some 109; Some 109; Some 102; None; None; None; None]%nat
  | Err _ => False
  end.
Proof. vm_compute. reflexivity. Qed.

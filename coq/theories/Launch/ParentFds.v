(** The launching side of forkexec.Runner.Start (pkg/forkexec/fork_linux.go: Start, syncWithChild; userns_linux.go:
    writeIDMaps, writeFile) as the sequence of descriptor events it issues, for every configuration and every way the
    launch can go; and a host process in which ANY number of such starts run interleaved over one descriptor table.

    Names are the start's own variables (p[0], p[1], the three map files); numbers are what the kernel hands out.  A
    close acts on a NUMBER: closing a name whose number was already closed hits whatever holds that number now. *)
From Coq Require Import List Bool Arith Lia.
Import ListNotations.

Definition fdn := nat.
Definition P0 : fdn := 0.
Definition P1 : fdn := 1.
Definition M (k : nat) : fdn := 2 + k.

Inductive ev :=
| ECreate2 (a b : fdn)      (* socketpair *)
| EOpen (a : fdn)           (* open that succeeds *)
| EUse (a : fdn)            (* read / write on the descriptor *)
| EClose (a : fdn).

(** ** the code *)
Record cfg := { userns : bool; syncf : bool; early : bool }.   (* early: StopBeforeSeccomp || (Seccomp != nil && Ptrace) *)
Inductive mapfail := MNone | MOpenFails (k : nat) | MWriteFails (k : nat).
Record outcome := {
  clone_err : bool;          (* the clone itself failed *)
  mfail : mapfail;           (* which of uid_map / setgroups / gid_map fails, and how *)
  child_bad : bool;          (* the record read at the sync point is an error (or the read fails) *)
  refuse : bool;             (* SyncFunc returns an error *)
  late_err : bool }.         (* something arrives on the socket after the sync: the child failed late *)

(** writeFile for file k: open, write, close; writeIDMaps stops at the first failure *)
Fixpoint map_events (m : mapfail) (k n : nat) : list ev :=
  match n with
  | 0 => []
  | S n' =>
    match m with
    | MOpenFails j => if j =? k then [] else EOpen (M k) :: EUse (M k) :: EClose (M k) :: map_events m (S k) n'
    | MWriteFails j => if j =? k then [EOpen (M k); EUse (M k); EClose (M k)]
                       else EOpen (M k) :: EUse (M k) :: EClose (M k) :: map_events m (S k) n'
    | MNone => EOpen (M k) :: EUse (M k) :: EClose (M k) :: map_events m (S k) n'
    end
  end.

(** [merged]: the variant in which the late-failure path jumps to the label that closes p[0] (instead of the one
    after it) -- not the code; kept to show what the theorems exclude *)
Definition tail_events (merged : bool) (c : cfg) (o : outcome) : list ev :=
  if early c then []                                    (* returns; the helper goroutine reads and closes *)
  else EUse P0 :: EClose P0 :: (if late_err o && merged then [EClose P0] else []).

Definition parent_events_gen (merged : bool) (c : cfg) (o : outcome) : list ev :=
  ECreate2 P0 P1 :: EClose P1 ::
  (if clone_err o then [EClose P0] else
     (if userns c then map_events (mfail o) 0 3 ++ [EUse P0] else []) ++
     (if syncf c then
        EUse P0 ::                                       (* readChildErr at the sync point *)
        (if child_bad o then [EClose P0]                 (* fail: *)
         else if refuse o then [EClose P0]               (* fail: *)
         else EUse P0 :: tail_events merged c o)         (* ack *)
      else tail_events merged c o)).

Definition reaches_early (c : cfg) (o : outcome) : bool :=
  early c && negb (clone_err o) && negb (syncf c && (child_bad o || refuse o)).

Definition helper_events (c : cfg) (o : outcome) : list ev :=
  if reaches_early c o then [EUse P0; EClose P0] else [].

Definition parent_events := parent_events_gen false.
Definition start_events (c : cfg) (o : outcome) : list ev := parent_events c o ++ helper_events c o.
Definition start_events_merged (c : cfg) (o : outcome) : list ev := parent_events_gen true c o ++ helper_events c o.

(** ** the discipline of one start: it creates under fresh names, uses and closes only what it holds *)
Definition mem (a : nat) (l : list nat) : bool := existsb (Nat.eqb a) l.
Definition del (a : nat) (l : list nat) : list nat := filter (fun b => negb (b =? a)) l.

Fixpoint disc (held : list fdn) (p : list ev) : option (list fdn) :=
  match p with
  | [] => Some held
  | ECreate2 a b :: q => if mem a held || mem b held || (a =? b) then None else disc (a :: b :: held) q
  | EOpen a :: q => if mem a held then None else disc (a :: held) q
  | EUse a :: q => if mem a held then disc held q else None
  | EClose a :: q => if mem a held then disc (del a held) q else None
  end.

(** ** a host process: one table of numbers, any number of starts, any interleaving *)
Record actor := { prog : list ev; env : fdn -> nat }.
Record gst := { tbl : list (nat * nat);          (* number, owner *)
                act : nat -> actor;
                bad : bool }.                     (* some close / use hit a number that is not the actor's own *)

Definition dom (t : list (nat * nat)) : list nat := map fst t.
Fixpoint owner (n : nat) (t : list (nat * nat)) : option nat :=
  match t with [] => None | (m, o) :: r => if m =? n then Some o else owner n r end.
Definition drop (n : nat) (t : list (nat * nat)) : list (nat * nat) := filter (fun p => negb (fst p =? n)) t.
Definition upd {A} (f : nat -> A) (i : nat) (x : A) : nat -> A := fun j => if j =? i then x else f j.

(** the kernel's choice: the lowest free number *)
Definition lowest (l : list nat) : nat :=
  match find (fun n => negb (mem n l)) (seq 0 (S (length l))) with Some n => n | None => S (list_max l) end.

Section Host.
  Variable alloc : list nat -> nat.

  Definition step (s : gst) (i : nat) : gst :=
    let a := act s i in
    match prog a with
    | [] => s
    | ECreate2 x y :: q =>
        let n1 := alloc (dom (tbl s)) in
        let n2 := alloc (n1 :: dom (tbl s)) in
        {| tbl := (n2, i) :: (n1, i) :: tbl s;
           act := upd (act s) i {| prog := q; env := upd (upd (env a) x n1) y n2 |};
           bad := bad s |}
    | EOpen x :: q =>
        let n1 := alloc (dom (tbl s)) in
        {| tbl := (n1, i) :: tbl s; act := upd (act s) i {| prog := q; env := upd (env a) x n1 |}; bad := bad s |}
    | EUse x :: q =>
        {| tbl := tbl s; act := upd (act s) i {| prog := q; env := env a |};
           bad := bad s || negb (match owner (env a x) (tbl s) with Some j => j =? i | None => false end) |}
    | EClose x :: q =>
        {| tbl := drop (env a x) (tbl s); act := upd (act s) i {| prog := q; env := env a |};
           bad := bad s || negb (match owner (env a x) (tbl s) with Some j => j =? i | None => false end) |}
    end.

  (** [t0]: whatever the process holds besides (stdio, other runs' files, the descriptors of the callers) *)
  Definition init (t0 : list (nat * nat)) (progs : nat -> list ev) : gst :=
    {| tbl := t0; act := fun i => {| prog := progs i; env := fun _ => 0 |}; bad := false |}.

  Definition run (s : gst) (sched : list nat) : gst := fold_left step sched s.
End Host.

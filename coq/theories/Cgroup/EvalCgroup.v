(** Executable comparison for the correspondence run of C20. *)
From Coq Require Import List Bool Arith NArith ZArith.
From GS Require Import Cgroup.Tree.
Import ListNotations.

Inductive hop :=
| HOp (o : op) (existing : option bool)        (* an operation and, for New / Open, the Existing() flag of the handle returned *)
| HExists (p : path) (obs : list bool)         (* which of the controllers 0..4 have the directory of group p *)
| HWhere (pid : nat) (obs : list path).        (* the group of the process in controllers 0..4 *)

Fixpoint lb_eqb (a b : list bool) : bool :=
  match a, b with [], [] => true | x :: a', y :: b' => Bool.eqb x y && lb_eqb a' b' | _, _ => false end.
Fixpoint lp_eqb (a b : list path) : bool :=
  match a, b with [], [] => true | x :: a', y :: b' => path_eqb x y && lp_eqb a' b' | _, _ => false end.

Fixpoint replay (w : world) (l : list hop) (i : N) : option N :=
  match l with
  | [] => None
  | HOp o ex :: r =>
      let w' := step w o in
      let ok := match ex with
                | Some b => match nth_error (w_handles w') (length (w_handles w)) with Some hd => Bool.eqb (h_existing hd) b | None => false end
                | None => true
                end in
      if ok then replay w' r (N.succ i) else Some i
  | HExists p obs :: r =>
      if lb_eqb (map (fun c => has_dir (c, p) (w_dirs w)) [0; 1; 2; 3; 4]) obs then replay w r (N.succ i) else Some i
  | HWhere pid obs :: r =>
      if lp_eqb (map (fun c => w_member w pid c) [0; 1; 2; 3; 4]) obs then replay w r (N.succ i) else Some i
  end.

Definition history_ok (l : list hop) : bool :=
  match replay (init [] (fun _ _ => [])) l 0 with None => true | Some _ => false end.

Definition rd_eqb (a b : rd) : bool :=
  match a, b with ROk x, ROk y => Z.eqb x y | RErr, RErr => true | RNotExist, RNotExist => true | _, _ => false end.
(** the Go readers do not distinguish the kind of error *)
Definition rd_sim (a b : rd) : bool :=
  match a, b with ROk x, ROk y => Z.eqb x y | ROk _, _ => false | _, ROk _ => false | _, _ => true end.
Definition cpu_ok (x : list (list tok) * rd) : bool := rd_sim (cpu_usage (fst x)) (snd x).
Definition uint_ok (x : list tok * rd) : bool := rd_sim (read_uint (fst x)) (snd x).

Fixpoint indexed {A} (i : N) (l : list A) : list (N * A) :=
  match l with [] => [] | x :: r => (i, x) :: indexed (N.succ i) r end.
Definition failing {A} (ok : A -> bool) (l : list A) : list N :=
  flat_map (fun '(i, x) => if ok x then [] else [i]) (indexed 0%N l).

(** C20: cgroup handles over the v1 hierarchy (one directory tree per controller) and the v2 hierarchy
    (the same code with a single tree), concurrent creators, and the readers of statistics files. *)
From Coq Require Import List Bool Arith NArith ZArith.
Import ListNotations.

Definition path := list nat.
Fixpoint path_eqb (a b : path) : bool :=
  match a, b with [], [] => true | x :: a', y :: b' => Nat.eqb x y && path_eqb a' b' | _, _ => false end.

(** a directory of the hierarchy: (controller, group path) *)
Definition dir := (nat * path)%type.
Definition dir_eqb (a b : dir) : bool := Nat.eqb (fst a) (fst b) && path_eqb (snd a) (snd b).
Definition has_dir (d : dir) (l : list dir) : bool := existsb (dir_eqb d) l.

Record handle := { h_path : path; h_ctrls : list nat; h_all : list nat; h_existing : bool }.

(** New / newV1: per enabled controller, mkdir (atomic): an existing directory is skipped and makes the handle
    "existing" iff nothing was created before it; a created one is remembered for Destroy *)
Fixpoint create (p : path) (cs : list nat) (dirs : list dir) (all : list nat) (ex : bool) : list dir * list nat * bool :=
  match cs with
  | [] => (dirs, all, ex)
  | c :: r => if has_dir (c, p) dirs
              then create p r dirs all (ex || match all with [] => true | _ => false end)
              else create p r ((c, p) :: dirs) (all ++ [c]) ex
  end.

Record world := {
  w_dirs : list dir;
  w_handles : list handle;
  w_member : nat -> nat -> path;            (* process -> controller -> group it is in *)
  w_created : list (nat * dir);             (* ghost: which handle (index) created which directory *)
  w_removed : list (nat * dir) }.           (* ghost: which handle's Destroy removed which directory *)

Inductive op :=
| ONew (p : path) (cs : list nat)           (* New / Random / package New: a handle for group p over controllers cs *)
| OOpen (p : path) (cs : list nat)          (* OpenExisting *)
| OAddProc (h : nat) (pid : nat)
| ODestroy (h : nat)
| ORawMkdir (d : dir)                        (* somebody else (another manager, a leftover) creates a directory *)
| ORawRmdir (d : dir).                       (* ... or removes one *)


Definition step (w : world) (o : op) : world :=
  match o with
  | ONew p cs =>
      let '(dirs, all, ex) := create p cs (w_dirs w) [] false in
      let i := length (w_handles w) in
      {| w_dirs := dirs; w_handles := w_handles w ++ [{| h_path := p; h_ctrls := cs; h_all := all; h_existing := ex |}];
         w_member := w_member w; w_created := map (fun c => (i, (c, p))) all ++ w_created w; w_removed := w_removed w |}
  | OOpen p cs =>
      {| w_dirs := w_dirs w; w_handles := w_handles w ++ [{| h_path := p; h_ctrls := cs; h_all := cs; h_existing := true |}];
         w_member := w_member w; w_created := w_created w; w_removed := w_removed w |}
  | OAddProc h pid =>
      match nth_error (w_handles w) h with
      | Some hd => {| w_dirs := w_dirs w; w_handles := w_handles w;
                      w_member := fun q c => if Nat.eqb q pid && existsb (Nat.eqb c) (h_ctrls hd) then h_path hd else w_member w q c;
                      w_created := w_created w; w_removed := w_removed w |}
      | None => w
      end
  | ODestroy h =>
      match nth_error (w_handles w) h with
      | Some hd =>
          if h_existing hd then w
          else let gone := map (fun c => (c, h_path hd)) (h_all hd) in
               {| w_dirs := filter (fun d => negb (has_dir d gone)) (w_dirs w); w_handles := w_handles w; w_member := w_member w;
                  w_created := w_created w; w_removed := map (fun d => (h, d)) (filter (fun d => has_dir d (w_dirs w)) gone) ++ w_removed w |}
      | None => w
      end
  | ORawMkdir d =>
      {| w_dirs := d :: w_dirs w; w_handles := w_handles w; w_member := w_member w; w_created := w_created w; w_removed := w_removed w |}
  | ORawRmdir d =>
      {| w_dirs := filter (fun x => negb (dir_eqb x d)) (w_dirs w); w_handles := w_handles w; w_member := w_member w; w_created := w_created w; w_removed := w_removed w |}
  end.

Definition run (w : world) (ops : list op) : world := fold_left step ops w.
Definition init (dirs : list dir) (member : nat -> nat -> path) : world :=
  {| w_dirs := dirs; w_handles := []; w_member := member; w_created := []; w_removed := [] |}.

(** ** concurrent creators of one group: each performs its mkdirs one controller at a time, in any interleaving *)
Record creator := { cr_pc : nat; cr_all : list nat; cr_existing : bool }.
Record cworld := { c_dirs : list nat;                    (* controllers in which the group's directory exists *)
                   c_cr : nat -> creator;
                   c_owner : nat -> option nat }.        (* ghost: who created the directory of a controller *)

Definition cstep (cs : list nat) (w : cworld) (i : nat) : cworld :=
  let cr := c_cr w i in
  match nth_error cs (cr_pc cr) with
  | None => w
  | Some c =>
      if existsb (Nat.eqb c) (c_dirs w)
      then {| c_dirs := c_dirs w;
              c_cr := fun j => if Nat.eqb j i then {| cr_pc := S (cr_pc cr); cr_all := cr_all cr;
                                                      cr_existing := cr_existing cr || match cr_all cr with [] => true | _ => false end |} else c_cr w j;
              c_owner := c_owner w |}
      else {| c_dirs := c :: c_dirs w;
              c_cr := fun j => if Nat.eqb j i then {| cr_pc := S (cr_pc cr); cr_all := cr_all cr ++ [c]; cr_existing := cr_existing cr |} else c_cr w j;
              c_owner := fun d => if Nat.eqb d c then Some i else c_owner w d |}
  end.
Definition crun (cs : list nat) (sched : list nat) : cworld :=
  fold_left (cstep cs) sched {| c_dirs := []; c_cr := fun _ => {| cr_pc := 0; cr_all := []; cr_existing := false |}; c_owner := fun _ => None |}.

(** ** readers of the statistics files, on tokenised content *)
Inductive tok := TWord (w : nat) | TNum (v : Z).
Definition USAGE_USEC : nat := 1.
Definition two64 : Z := 18446744073709551616.
Inductive rd := ROk (v : Z) | RErr | RNotExist.

(** cpu.stat: the first line with exactly two fields whose first is usage_usec; Atoi (int64), then * 1000 in uint64 *)
Fixpoint cpu_usage (lines : list (list tok)) : rd :=
  match lines with
  | [] => RNotExist
  | [TWord k; x] :: r =>
      if Nat.eqb k USAGE_USEC
      then match x with
           | TNum v => if (Z.leb (- 9223372036854775808) v && Z.ltb v 9223372036854775808)%bool then ROk ((v * 1000) mod two64) else RErr
           | TWord _ => RErr
           end
      else cpu_usage r
  | _ :: r => cpu_usage r
  end.

(** ReadUint: the whole trimmed content is one unsigned 64-bit decimal number *)
Definition read_uint (content : list tok) : rd :=
  match content with
  | [TNum v] => if (Z.leb 0 v && Z.ltb v two64)%bool then ROk v else RErr
  | _ => RErr
  end.

From Coq Require Import List Bool Arith NArith ZArith Lia.
From GS Require Import Cgroup.Tree.
Import ListNotations.

(** ** Destroy removes only what the handle created *)
Definition HInv (w : world) : Prop :=
  forall i hd, nth_error (w_handles w) i = Some hd -> h_existing hd = false ->
  forall c, In c (h_all hd) -> In (i, (c, h_path hd)) (w_created w).

Lemma hinv_init dirs m : HInv (init dirs m).
Proof. intros i hd H. destruct i; discriminate. Qed.

Lemma hinv_step w o : HInv w -> HInv (step w o).
Proof.
  intros I. destruct o as [p cs|p cs|h pid|h|d|d]; simpl; [| | | |exact I|exact I].
  - destruct (create p cs (w_dirs w) [] false) as [[dirs all] ex] eqn:E. intros i hd Hn Hex c Hc. simpl in *.
    destruct (Nat.lt_ge_cases i (length (w_handles w))) as [Hl|Hl].
    + rewrite nth_error_app1 in Hn by exact Hl. apply in_or_app. right. eapply I; eauto.
    + rewrite nth_error_app2 in Hn by exact Hl. destruct (i - length (w_handles w)) eqn:Ed; [|destruct n; discriminate].
      injection Hn as <-. simpl in *. assert (i = length (w_handles w)) as -> by lia.
      apply in_or_app. left. apply in_map_iff. exists c. auto.
  - intros i hd Hn Hex c Hc. simpl in *.
    destruct (Nat.lt_ge_cases i (length (w_handles w))) as [Hl|Hl].
    + rewrite nth_error_app1 in Hn by exact Hl. eapply I; eauto.
    + rewrite nth_error_app2 in Hn by exact Hl. destruct (i - length (w_handles w)); [|destruct n; discriminate].
      injection Hn as <-. discriminate.
  - destruct (nth_error (w_handles w) h); [|exact I]. exact I.
  - destruct (nth_error (w_handles w) h) as [hd|]; [|exact I]. destruct (h_existing hd); exact I.
Qed.

Definition RInv (w : world) : Prop := forall x, In x (w_removed w) -> In x (w_created w).

Lemma created_mono w o x : In x (w_created w) -> In x (w_created (step w o)).
Proof.
  destruct o as [p cs|p cs|h pid|h|d|d]; simpl; intros H; auto.
  - destruct (create p cs (w_dirs w) [] false) as [[dirs all] ex]. simpl. apply in_or_app. right. exact H.
  - destruct (nth_error (w_handles w) h); auto.
  - destruct (nth_error (w_handles w) h) as [hd|]; auto. destruct (h_existing hd); auto.
Qed.

Lemma rinv_step w o : HInv w -> RInv w -> RInv (step w o).
Proof.
  intros I R x Hx. destruct o as [p cs|p cs|h pid|h|d|d]; [| | | |apply R; exact Hx|apply R; exact Hx].
  - apply created_mono. apply R. simpl in Hx. destruct (create p cs (w_dirs w) [] false) as [[dirs all] ex]. exact Hx.
  - apply R. exact Hx.
  - apply created_mono. apply R. simpl in Hx. destruct (nth_error (w_handles w) h); exact Hx.
  - simpl in *. destruct (nth_error (w_handles w) h) as [hd|] eqn:Hn; [|apply R; exact Hx].
    destruct (h_existing hd) eqn:Hex; [apply R; exact Hx|]. simpl in *. apply in_app_or in Hx. destruct Hx as [Hx|Hx]; [|apply R; exact Hx].
    apply in_map_iff in Hx. destruct Hx as [d [<- Hd]]. apply filter_In in Hd. destruct Hd as [Hd _].
    apply in_map_iff in Hd. destruct Hd as [c [<- Hc]]. eapply I; eauto.
Qed.

Theorem destroy_only_own : forall dirs m ops x, In x (w_removed (run (init dirs m) ops)) -> In x (w_created (run (init dirs m) ops)).
Proof.
  intros dirs m ops. unfold run.
  assert (forall w, HInv w -> RInv w -> HInv (fold_left step ops w) /\ RInv (fold_left step ops w)) as G.
  { induction ops as [|o r IH]; intros w I R; simpl; [auto|]. apply IH; [apply hinv_step; exact I|apply rinv_step; assumption]. }
  destruct (G (init dirs m) (hinv_init dirs m)) as [_ R]; [intros x []|]. exact R.
Qed.

(** what a handle records as created did not exist before its mkdir (so a pre-existing group is never in the list) *)
Lemma create_fresh p : forall cs dirs all ex dirs' all' ex', create p cs dirs all ex = (dirs', all', ex') ->
  forall c, In c all' -> In c all \/ has_dir (c, p) dirs = false.
Proof.
  induction cs as [|c0 r IH]; intros dirs all ex dirs' all' ex' H c Hc; simpl in H.
  - injection H as <- <- <-. left. exact Hc.
  - destruct (has_dir (c0, p) dirs) eqn:E.
    + eapply IH; eauto.
    + destruct (IH _ _ _ _ _ _ H c Hc) as [Hin|Hf].
      * apply in_app_or in Hin. destruct Hin as [Hin|[<-|[]]]; [left; exact Hin|right; exact E].
      * right. simpl in Hf. apply orb_false_iff in Hf. tauto.
Qed.

Theorem created_was_absent : forall p cs dirs dirs' all' ex', create p cs dirs [] false = (dirs', all', ex') ->
  forall c, In c all' -> has_dir (c, p) dirs = false.
Proof. intros p cs dirs dirs' all' ex' H c Hc. destruct (create_fresh p cs dirs [] false _ _ _ H c Hc) as [[]|Hf]. exact Hf. Qed.

(** ** AddProc moves exactly that process into the group, in every controller of the handle *)
Theorem addproc_moves : forall w h hd pid, nth_error (w_handles w) h = Some hd ->
  let w' := step w (OAddProc h pid) in
  (forall c, In c (h_ctrls hd) -> w_member w' pid c = h_path hd) /\
  (forall q c, q <> pid -> w_member w' q c = w_member w q c) /\
  (forall c, ~ In c (h_ctrls hd) -> w_member w' pid c = w_member w pid c) /\
  w_dirs w' = w_dirs w.
Proof.
  intros w h hd pid Hn. simpl. rewrite Hn. simpl. repeat split.
  - intros c Hc. rewrite Nat.eqb_refl. simpl.
    assert (existsb (Nat.eqb c) (h_ctrls hd) = true) as -> by (apply existsb_exists; exists c; split; [exact Hc|apply Nat.eqb_refl]). reflexivity.
  - intros q c Hq. apply Nat.eqb_neq in Hq. rewrite Hq. reflexivity.
  - intros c Hc. rewrite Nat.eqb_refl. simpl.
    destruct (existsb (Nat.eqb c) (h_ctrls hd)) eqn:E; [|reflexivity].
    apply existsb_exists in E. destruct E as [x [Hx Ex]]. apply Nat.eqb_eq in Ex. subst x. contradiction.
Qed.

(** ** concurrent creators: exactly one owner *)
Section Creators.
Variable cs : list nat.
Variable c0 : nat.
Hypothesis Hcs : nth_error cs 0 = Some c0.

Record CInv (w : cworld) : Prop := {
  ci_start : forall i, cr_pc (c_cr w i) = 0 -> cr_all (c_cr w i) = [] /\ cr_existing (c_cr w i) = false;
  ci_own : forall i, 0 < cr_pc (c_cr w i) -> (cr_existing (c_cr w i) = false <-> c_owner w c0 = Some i);
  ci_all : forall i, c_owner w c0 = Some i -> cr_all (c_cr w i) <> [] /\ 0 < cr_pc (c_cr w i);
  ci_dir : In c0 (c_dirs w) <-> c_owner w c0 <> None;
  ci_passed : forall i, 0 < cr_pc (c_cr w i) -> In c0 (c_dirs w) }.

Lemma existsb_in c l : existsb (Nat.eqb c) l = true <-> In c l.
Proof.
  rewrite existsb_exists. split; [intros [x [Hx E]]; apply Nat.eqb_eq in E; subst; exact Hx|intros H; exists c; split; [exact H|apply Nat.eqb_refl]].
Qed.

Lemma cinv_step w i : CInv w -> CInv (cstep cs w i).
Proof.
  intros I. unfold cstep. destruct (nth_error cs (cr_pc (c_cr w i))) as [c|] eqn:En; [|exact I].
  destruct (existsb (Nat.eqb c) (c_dirs w)) eqn:Ed.
  - (* the directory exists: skipped *)
    apply existsb_in in Ed.
    constructor; simpl.
    + intros j. destruct (Nat.eqb j i) eqn:Ej; simpl; [discriminate|apply (ci_start w I)].
    + intros j. destruct (Nat.eqb j i) eqn:Ej; simpl; [|apply (ci_own w I)].
      apply Nat.eqb_eq in Ej. subst j. intros _.
      destruct (cr_pc (c_cr w i)) eqn:Ep.
      * (* first controller: it exists, so somebody else owns it *)
        destruct (ci_start w I i Ep) as [Ha He]. rewrite Ha, He. simpl.
        rewrite Hcs in En. injection En as <-. split; [discriminate|].
        intros Ho. destruct (ci_all w I i Ho) as [_ Hp]. lia.
      * assert (0 < cr_pc (c_cr w i)) as Hp by lia. destruct (cr_existing (c_cr w i)) eqn:He; simpl.
        -- split; [discriminate|]. intros Ho. apply (ci_own w I i Hp) in Ho. congruence.
        -- pose proof (proj1 (ci_own w I i Hp) He) as Ho. destruct (ci_all w I i Ho) as [Hne _].
           destruct (cr_all (c_cr w i)); [contradiction|]. simpl. split; auto.
    + intros j Ho. destruct (Nat.eqb j i) eqn:Ej; simpl; [|apply (ci_all w I j Ho)].
      apply Nat.eqb_eq in Ej. subst j. destruct (ci_all w I i Ho) as [Hne Hp]. split; [exact Hne|lia].
    + apply (ci_dir w I).
    + intros j. destruct (Nat.eqb j i) eqn:Ej; simpl; [|apply (ci_passed w I)].
      intros _. destruct (cr_pc (c_cr w i)) eqn:Ep; [rewrite Hcs in En; injection En as <-; exact Ed|apply (ci_passed w I i); lia].
  - (* created *)
    assert (~ In c (c_dirs w)) as Hnd by (intros H; apply existsb_in in H; congruence).
    constructor; simpl.
    + intros j. destruct (Nat.eqb j i) eqn:Ej; simpl; [discriminate|apply (ci_start w I)].
    + intros j. destruct (Nat.eqb j i) eqn:Ej; simpl.
      * apply Nat.eqb_eq in Ej. subst j. intros _. destruct (cr_pc (c_cr w i)) eqn:Ep.
        -- rewrite Hcs in En. injection En as <-. rewrite Nat.eqb_refl. destruct (ci_start w I i Ep) as [_ He]. rewrite He. split; auto.
        -- assert (0 < cr_pc (c_cr w i)) as Hp by lia.
           assert (c <> c0) as Hne by (intros ->; apply Hnd; apply (ci_passed w I i Hp)).
           apply Nat.eqb_neq in Hne. rewrite Nat.eqb_sym in Hne. rewrite Hne. apply (ci_own w I i Hp).
      * intros Hp. destruct (Nat.eqb c0 c) eqn:Ec; [|apply (ci_own w I j Hp)].
        apply Nat.eqb_eq in Ec. subst c. exfalso. apply Hnd. apply (ci_passed w I j Hp).
    + intros j. destruct (Nat.eqb c0 c) eqn:Ec.
      * intros Ho. injection Ho as <-. rewrite Nat.eqb_refl. simpl. split; [destruct (cr_all (c_cr w i)); discriminate|lia].
      * intros Ho. destruct (Nat.eqb j i) eqn:Ej; simpl; [|apply (ci_all w I j Ho)].
        apply Nat.eqb_eq in Ej. subst j. destruct (ci_all w I i Ho) as [Hne Hp]. split; [destruct (cr_all (c_cr w i)); [contradiction|discriminate]|lia].
    + destruct (Nat.eqb c0 c) eqn:Ec.
      * apply Nat.eqb_eq in Ec. subst c. split; [discriminate|auto].
      * apply Nat.eqb_neq in Ec. rewrite <- (ci_dir w I). split; [intros [H|H]; [congruence|exact H]|auto].
    + intros j. destruct (Nat.eqb j i) eqn:Ej; simpl.
      * intros _. destruct (cr_pc (c_cr w i)) eqn:Ep; [rewrite Hcs in En; injection En as <-; left; reflexivity|right; apply (ci_passed w I i); lia].
      * intros Hp. right. apply (ci_passed w I j Hp).
Qed.

Lemma cinv_run sched : CInv (crun cs sched).
Proof.
  unfold crun. set (w0 := {| c_dirs := []; c_cr := fun _ => {| cr_pc := 0; cr_all := []; cr_existing := false |}; c_owner := fun _ => None |}).
  assert (CInv w0) as I0.
  { constructor; simpl; intros; try lia; auto; try discriminate. split; [intros []|intros H; exfalso; apply H; reflexivity]. }
  revert I0. generalize w0. induction sched as [|i r IH]; intros w I; simpl; [exact I|]. apply IH. apply cinv_step. exact I.
Qed.

(** for every number of concurrent creators of a fresh group and every interleaving of their per-controller
    mkdirs: two creators that got past the first controller are never both owners, and as soon as one got
    past it there is an owner (who is one of them, with existing = false) *)
Theorem unique_owner : forall sched, let w := crun cs sched in
  (forall i j, 0 < cr_pc (c_cr w i) -> 0 < cr_pc (c_cr w j) -> cr_existing (c_cr w i) = false -> cr_existing (c_cr w j) = false -> i = j) /\
  (forall i, 0 < cr_pc (c_cr w i) -> exists k, c_owner w c0 = Some k /\ cr_existing (c_cr w k) = false /\ 0 < cr_pc (c_cr w k)).
Proof.
  intros sched w. pose proof (cinv_run sched) as I. fold w in I. split.
  - intros i j Hi Hj Ei Ej. apply (ci_own w I i Hi) in Ei. apply (ci_own w I j Hj) in Ej. congruence.
  - intros i Hi. pose proof (ci_passed w I i Hi) as Hd. apply (ci_dir w I) in Hd.
    destruct (c_owner w c0) as [k|] eqn:Ho; [|contradiction]. exists k. destruct (ci_all w I k Ho) as [_ Hp].
    split; [reflexivity|]. split; [apply (ci_own w I k Hp); exact Ho|exact Hp].
Qed.
End Creators.

(** ** units *)
Theorem cpu_usage_units : forall pre v rest,
  (forall l, In l pre -> match l with [TWord k; _] => k <> USAGE_USEC | _ => True end) ->
  (0 <= v)%Z -> (v * 1000 < two64)%Z ->
  cpu_usage (pre ++ [TWord USAGE_USEC; TNum v] :: rest) = ROk (v * 1000)%Z.
Proof.
  induction pre as [|l pre IH]; intros v rest Hp Hv0 Hv; simpl.
  - assert ((-9223372036854775808 <=? v)%Z && (v <? 9223372036854775808)%Z = true) as ->.
    { unfold two64 in Hv. apply andb_true_iff. split; [apply Z.leb_le|apply Z.ltb_lt]; lia. }
    f_equal. apply Z.mod_small. unfold two64 in *. lia.
  - assert (cpu_usage (pre ++ [TWord USAGE_USEC; TNum v] :: rest) = ROk (v * 1000)%Z) as R by (apply IH; [intros l' Hl'; apply Hp; right; exact Hl'|exact Hv0|exact Hv]).
    pose proof (Hp l (or_introl eq_refl)) as Hl.
    destruct l as [|[k|z] [|x [|y t]]]; try exact R.
    apply Nat.eqb_neq in Hl. rewrite Hl. exact R.
Qed.

Theorem cpu_usage_missing : forall lines,
  (forall l, In l lines -> match l with [TWord k; _] => k <> USAGE_USEC | _ => True end) -> cpu_usage lines = RNotExist.
Proof.
  induction lines as [|l r IH]; intros H; simpl; [reflexivity|].
  assert (cpu_usage r = RNotExist) as R by (apply IH; intros l' Hl'; apply H; right; exact Hl').
  pose proof (H l (or_introl eq_refl)) as Hl.
  destruct l as [|[k|z] [|x [|y t]]]; try exact R. apply Nat.eqb_neq in Hl. rewrite Hl. exact R.
Qed.

Theorem read_uint_units : forall v, (0 <= v < two64)%Z -> read_uint [TNum v] = ROk v.
Proof. intros v Hv. simpl. assert ((0 <=? v)%Z && (v <? two64)%Z = true) as ->; [apply andb_true_iff; split; [apply Z.leb_le|apply Z.ltb_lt]; lia|reflexivity]. Qed.

Theorem read_uint_garbage : forall c, (forall v, c <> [TNum v]) -> read_uint c = RErr.
Proof. intros c H. destruct c as [|[w|v] [|y r]]; try reflexivity. exfalso. apply (H v). reflexivity. Qed.

(** Replay of the wire-level logs of the two endpoints against the very step functions of the
    LTS (host_steps / cont_steps): each endpoint's observed sequence of sends and receives must be
    a behaviour of its automaton. *)
From Coq Require Import List Bool Arith PArith NArith.
From GS Require Import Container.Proto.
Import ListNotations.

Inductive wev := Snd (k : nat) | Rcv (k : nat).
(* command kinds on the wire: 0 simple (ping/open/delete/reset/symlink/conf), 1 execve, 2 ok, 3 kill;
   reply kinds: 0 ack (plain or sync), 1 err, 3 result *)

Definition cmd_of (k : nat) : cmdk := match k with 0 => KSimple | 1 => KExec | 2 => KOk | _ => KKill end.
Definition reps_of (k : nat) : list repk := match k with 0 => [RAck; RSync] | 1 => [RErr] | _ => [RResult] end.

Definition len_eq {A} (a b : list A) : bool := Nat.eqb (length a) (length b).

(** states that differ only in ghost / irrelevant fields are kept apart by the caller: sets are small *)
Definition dedup_states (l : list state) : list state :=
  fold_right (fun s acc => if existsb (fun x => Pos.eqb (enc x) (enc s)) acc then acc else s :: acc) [] l.

(** host: silent steps are those that touch neither queue (returns) *)
Definition host_silent (s : state) : list state :=
  filter (fun s' => len_eq (s_hc s') (s_hc s) && len_eq (s_ch s') (s_ch s)) (host_steps s).

Fixpoint closure (fuel : nat) (step : state -> list state) (l : list state) : list state :=
  match fuel with
  | O => l
  | S f => closure f step (dedup_states (l ++ flat_map step l))
  end.

Definition clear_q (s : state) : state := set_ch (set_hc s []) [].

Definition host_on (l : list state) (e : wev) : list state :=
  let l := closure 3 host_silent l in
  match e with
  | Snd k =>
      (* a step that puts exactly this command on the wire *)
      dedup_states (flat_map (fun s =>
        map clear_q (filter (fun s' => match s_hc s' with
                                        | [(c, _)] => Nat.eqb (cmdk_num c) (cmdk_num (cmd_of k)) && negb (s_bad s')
                                        | _ => false end) (host_steps (clear_q s)))) l)
  | Rcv k =>
      dedup_states (flat_map (fun s =>
        flat_map (fun r =>
          let s0 := set_ch (clear_q s) [(r, s_tag s)] in
          map clear_q (filter (fun s' => match s_ch s' with [] => negb (s_bad s') | _ => false end) (host_steps s0)))
          (reps_of k)) l)
  end.

(** a host step that consumes a reply may also emit a command in the same step (the result is
    answered with a kill): the emitted command is left in the queue and matched by the next Snd *)
Definition host_on' (l : list state) (e : wev) : list state :=
  let l := closure 3 host_silent l in
  match e with
  | Snd k =>
      dedup_states (flat_map (fun s =>
        match s_hc s with
        | [(c, _)] => if Nat.eqb (cmdk_num c) (cmdk_num (cmd_of k)) then [clear_q s] else []      (* already emitted together with a receive *)
        | _ => map clear_q (filter (fun s' => match s_hc s' with
                                              | [(c, _)] => Nat.eqb (cmdk_num c) (cmdk_num (cmd_of k)) && negb (s_bad s')
                                              | _ => false end) (host_steps (clear_q s)))
        end) l)
  | Rcv k =>
      dedup_states (flat_map (fun s =>
        match s_hc s with
        | [] =>
            flat_map (fun r =>
              let s0 := set_ch s [(r, s_tag s)] in
              filter (fun s' => match s_ch s' with [] => negb (s_bad s') | _ => false end) (host_steps s0)) (reps_of k)
        | _ => []
        end) l)
  end.

Definition host_accepts (evs : list wev) : bool :=
  let final := fold_left host_on' evs [init] in
  existsb (fun s => match s_hc s with [] => true | _ => false end) (closure 3 host_silent final).

(** container *)
Definition cont_on (fixed : bool) (l : list state) (e : wev) : list state :=
  match e with
  | Rcv k =>
      dedup_states (flat_map (fun s =>
        match s_ch s with
        | [] =>
            let s0 := set_hc s [(cmd_of k, 0)] in
            filter (fun s' => match s_hc s' with [] => negb (s_bad s') | _ => false end) (cont_steps fixed s0)
        | _ => []
        end) l)
  | Snd k =>
      dedup_states (flat_map (fun s =>
        match s_ch s with
        | [(r, _)] => if existsb (fun r' => Nat.eqb (repk_num r) (repk_num r')) (reps_of k) then [clear_q s] else []
        | _ => map clear_q (filter (fun s' => match s_ch s', s_hc s' with
                                              | [(r, _)], [] => existsb (fun r' => Nat.eqb (repk_num r) (repk_num r')) (reps_of k) && negb (s_bad s')
                                              | _, _ => false end) (cont_steps fixed (clear_q s)))
        end) l)
  end.

Definition cont_accepts (fixed : bool) (evs : list wev) : bool :=
  let final := fold_left (cont_on fixed) evs [init] in
  existsb (fun s => match s_ch s with [] => negb (Nat.eqb (cst_num (s_cont s)) 7) | _ => false end) final.

Definition logs_ok (x : list wev * list wev) : bool := host_accepts (fst x) && cont_accepts true (snd x).

Fixpoint indexed {A} (i : N) (l : list A) : list (N * A) :=
  match l with [] => [] | x :: r => (i, x) :: indexed (N.succ i) r end.
Definition failing {A} (ok : A -> bool) (l : list A) : list N :=
  flat_map (fun '(i, x) => if ok x then [] else [i]) (indexed 0%N l).

(** Reset of a pooled container (handleReset / removeContents) and the sealed
    in-memory executable (memfd.DupToMemfd). *)
From Coq Require Import List Bool Arith NArith Lia.
Import ListNotations.

(** ** file trees of the writable mounts *)
Inductive node :=
| NFile | NFifo | NSock | NLink                    (* leaves: regular file / hard link, FIFO, socket, symbolic link (dangling or not) *)
| NDir (mode : nat) (entries : list (nat * node)).  (* names are numbers; any permission bits *)

Definition tree := list (nat * node).

(** what programs can do between two Resets: create anything anywhere (a history of insertions) *)
Fixpoint insert_at (path : list nat) (name : nat) (n : node) (t : tree) : tree :=
  match path with
  | [] => if existsb (fun e => Nat.eqb (fst e) name) t then t else t ++ [(name, n)]   (* EEXIST keeps the old entry *)
  | d :: rest =>
      map (fun e => match e with
                    | (k, NDir m sub) => if Nat.eqb k d then (k, NDir m (insert_at rest name n sub)) else e
                    | _ => e end) t
  end.

Definition populate (ops : list (list nat * nat * node)) (t : tree) : tree :=
  fold_left (fun t '(p, name, n) => insert_at p name n t) ops t.

(** os.RemoveAll by a caller with DAC override removes the entry, whatever it is and whatever
    it contains; removeContents lists the names of the directory and removes each *)
Definition remove_entry (name : nat) (t : tree) : tree := filter (fun e => negb (Nat.eqb (fst e) name)) t.
Definition remove_contents (t : tree) : tree := fold_left (fun t n => remove_entry n t) (map fst t) t.

Record mnt := { m_tmpfs : bool; m_tree : tree }.

(** handleReset: every tmpfs mount is emptied, other mounts are left alone *)
Definition reset (ms : list mnt) : list mnt :=
  map (fun m => if m_tmpfs m then {| m_tmpfs := true; m_tree := remove_contents (m_tree m) |} else m) ms.

(** ** sealed memfd *)
(** an io.Reader as the sequence of its Read results: each returns some bytes (possibly none) and
    nil, io.EOF or another error; bytes may come together with EOF *)
Inductive rerr := RNil | REof | RErr.
Definition reader := list (list N * rerr).

(** io.Copy as used by File.ReadFrom: bytes are written before the error is looked at; EOF ends
    the copy successfully, any other error fails it (a reader that stops answering is at EOF) *)
Fixpoint copy_all (r : reader) (acc : list N) : option (list N) :=
  match r with
  | [] => Some acc
  | (d, RNil) :: rest => copy_all rest (acc ++ d)
  | (d, REof) :: _ => Some (acc ++ d)
  | (d, RErr) :: _ => None
  end.

(** what the reader supplied: everything up to and including the read that reports EOF *)
Fixpoint supplied (r : reader) : list N :=
  match r with
  | [] => []
  | (d, RNil) :: rest => d ++ supplied rest
  | (d, _) :: _ => d
  end.
Fixpoint fails (r : reader) : bool :=
  match r with
  | [] => false
  | (_, RNil) :: rest => fails rest
  | (_, REof) :: _ => false
  | (_, RErr) :: _ => true
  end.

Record memfd := { f_content : list N; f_pos : nat; f_sealed : bool }.

(** DupToMemfd: ReadFrom until EOF, seal, seek 0; no file when the reader fails *)
Definition dup_to_memfd (r : reader) : option memfd :=
  match copy_all r [] with
  | Some c => Some {| f_content := c; f_pos := 0; f_sealed := true |}
  | None => None
  end.

(** attempts of any holder of the descriptor *)
Inductive mop := MWrite (off : nat) (data : list N) | MTruncate (len : nat) | MAddSeals | MMapSharedWrite | MReopenWrite (data : list N).

(** kernel rule MF1: a memfd sealed with SEAL|SHRINK|GROW|WRITE refuses all of them *)
Definition mstep (f : memfd) (o : mop) : memfd * bool :=
  if f_sealed f then (f, false)
  else match o with
       | MWrite off d => ({| f_content := firstn off (f_content f) ++ d ++ skipn (off + length d) (f_content f); f_pos := f_pos f; f_sealed := false |}, true)
       | MTruncate n => ({| f_content := firstn n (f_content f ++ repeat 0%N n); f_pos := f_pos f; f_sealed := false |}, true)
       | MAddSeals => (f, true)
       | MMapSharedWrite => (f, true)
       | MReopenWrite d => ({| f_content := d ++ skipn (length d) (f_content f); f_pos := f_pos f; f_sealed := false |}, true)
       end.

Definition mrun (f : memfd) (ops : list mop) : memfd := fold_left (fun f o => fst (mstep f o)) ops f.

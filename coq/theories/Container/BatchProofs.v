From GS Require Import Container.Batch.

Definition expected (i : nat) (e : item_env) : ores :=
  match item_result e with Some er => RErr er | None => RFile i end.

Fixpoint expected_from (items : list item_env) (i : nat) : list ores :=
  match items with [] => [] | e :: r => expected i e :: expected_from r (S i) end.

Lemma cont_open_len items : forall i, length (fst (cont_open items i)) = length items.
Proof.
  induction items as [|e r IH]; intros i; simpl; [reflexivity|].
  specialize (IH (S i)). destruct (cont_open r (S i)) as [errs fds]. destruct (item_result e); simpl in *; lia.
Qed.

Lemma host_walk_cont items : forall i acc,
  let '(errs, fds) := cont_open items i in
  host_walk errs fds acc = HOk (rev acc ++ expected_from items i).
Proof.
  induction items as [|e r IH]; intros i acc; simpl.
  - rewrite app_nil_r. reflexivity.
  - specialize (IH (S i)). destruct (cont_open r (S i)) as [errs fds]. unfold expected.
    destruct (item_result e) as [er|]; simpl.
    + rewrite (IH (RErr er :: acc)). simpl. rewrite <- app_assoc. reflexivity.
    + rewrite (IH (RFile i :: acc)). simpl. rewrite <- app_assoc. reflexivity.
Qed.

(** the k-th result belongs to the k-th item, for every batch and every success/failure pattern *)
Theorem open_alignment items :
  let '(errs, fds) := cont_open items 0 in
  host_open (length items) errs fds = HOk (expected_from items 0).
Proof.
  pose proof (cont_open_len items 0) as Hl. pose proof (host_walk_cont items 0 []) as Hw.
  destruct (cont_open items 0) as [errs fds]. simpl in Hl. unfold host_open.
  rewrite Hl, Nat.eqb_refl. exact Hw.
Qed.

Lemma expected_from_nth items : forall i k e, nth_error items k = Some e ->
  nth_error (expected_from items i) k = Some (expected (i + k) e).
Proof.
  induction items as [|x r IH]; intros i k e H; destruct k; simpl in *; try discriminate.
  - inversion H; subst. rewrite Nat.add_0_r. reflexivity.
  - rewrite (IH (S i) k e H). f_equal. f_equal. lia.
Qed.

Theorem open_result_at items k e : nth_error items k = Some e ->
  nth_error (expected_from items 0) k = Some (expected k e).
Proof. intros H. exact (expected_from_nth items 0 k e H). Qed.

(** a descriptor is handed back only for a path that was absent or a regular file when looked at *)
Theorem only_regular k e : forall fd, expected k e = RFile fd ->
  fd = k /\ (ie_lstat e = Absent \/ ie_lstat e = Regular) /\ ie_open_ok e = true /\
  (ie_mkdirall e = true -> ie_mkdir_ok e = true).
Proof.
  intros fd. unfold expected, item_result.
  destruct (ie_mkdirall e) eqn:M; destruct (ie_mkdir_ok e) eqn:K; simpl;
    destruct (ie_lstat e); destruct (ie_open_ok e); intros H; inversion H; subst; auto; try discriminate.
Qed.

(** inconsistent replies: wrong error count, or fewer descriptors than successes: an error, and every
    descriptor taken so far is closed *)
Theorem open_length_mismatch n errs fds : length errs <> n -> host_open n errs fds = HError fds.
Proof. intros H. unfold host_open. apply Nat.eqb_neq in H. rewrite H. reflexivity. Qed.

Lemma files_of_rev acc :
  flat_map (fun x : ores => match x with RFile f => [f] | RErr _ => [] end) (rev acc) =
  rev (flat_map (fun x : ores => match x with RFile f => [f] | RErr _ => [] end) acc).
Proof.
  induction acc as [|x r IH]; simpl; [reflexivity|].
  rewrite flat_map_app, IH. simpl. rewrite app_nil_r. destruct x; simpl; [|rewrite app_nil_r]; reflexivity.
Qed.

Definition successes (errs : list (option oerr)) : nat := length (filter (fun x => match x with None => true | _ => false end) errs).

Theorem open_too_few_fds : forall errs fds acc, length fds < successes errs ->
  exists closed, host_walk errs fds acc = HError closed /\
    (forall f, In f closed <-> In (RFile f) acc \/ In f fds).
Proof.
  induction errs as [|[e|] r IH]; intros fds acc Hlt; simpl in *.
  - unfold successes in Hlt. simpl in Hlt. lia.
  - unfold successes in *. simpl in Hlt. destruct (IH fds (RErr e :: acc) Hlt) as [cl [H1 H2]].
    exists cl. split; [exact H1|]. intros f. rewrite H2. simpl. split; intros [H|H]; auto.
    destruct H as [H|H]; [discriminate|auto].
  - unfold successes in *. simpl in Hlt. destruct fds as [|f0 fr].
    + eexists. split; [reflexivity|]. intros f. rewrite in_flat_map. split.
      * intros [x [Hx Hf]]. apply in_rev in Hx. destruct x; simpl in Hf; [|contradiction].
        destruct Hf as [<-|[]]. left. exact Hx.
      * intros [H|[]]. exists (RFile f). split; [apply -> in_rev; exact H | left; reflexivity].
    + simpl in Hlt. destruct (IH fr (RFile f0 :: acc) ltac:(lia)) as [cl [H1 H2]].
      exists cl. split; [exact H1|]. intros f. rewrite H2. simpl. split.
      * intros [[H|H]|H]; [inversion H; subst; right; left; reflexivity | left; exact H | right; right; exact H].
      * intros [H|[H|H]]; [left; right; exact H | subst; left; left; reflexivity | right; exact H].
Qed.

(** Symlink: the k-th error slot belongs to the k-th link *)
Theorem symlink_alignment oks :
  host_symlink (length oks) (cont_symlink oks) = Some (map (fun b : bool => if b then None else Some tt) oks).
Proof. unfold host_symlink, cont_symlink. rewrite map_length, Nat.eqb_refl. reflexivity. Qed.

Example alignment_example :
  let ok := {| ie_mkdirall := false; ie_mkdir_ok := true; ie_lstat := Absent; ie_open_ok := true |} in
  let planted := {| ie_mkdirall := false; ie_mkdir_ok := true; ie_lstat := Other; ie_open_ok := true |} in
  let noent := {| ie_mkdirall := false; ie_mkdir_ok := true; ie_lstat := Absent; ie_open_ok := false |} in
  cont_open [ok; planted; ok; noent; ok] 0 = ([None; Some ENotRegular; None; Some EOpen; None], [0; 2; 4])%nat /\
  expected_from [ok; planted; ok; noent; ok] 0 = [RFile 0; RErr ENotRegular; RFile 2; RErr EOpen; RFile 4].
Proof. vm_compute. split; reflexivity. Qed.

(** Open / Symlink / Delete batches of the container protocol: the container
    side compacts the descriptors of the successful items while the error list
    keeps full length; the host walks both in lock step. *)
From Coq Require Export List Arith NArith Bool Lia.
Export ListNotations.

(** what the file system holds at an item's path when init looks at it *)
Inductive lstat_out := Absent | Regular | Other | LstatErr.

(** per-item facts the container side observes, in program order *)
Record item_env := {
  ie_mkdirall : bool;      (* OpenCmd.MkdirAll *)
  ie_mkdir_ok : bool;      (* os.MkdirAll succeeded *)
  ie_lstat : lstat_out;    (* os.Lstat of the path *)
  ie_open_ok : bool }.     (* os.OpenFile succeeded *)

(** error text is abstracted to a non-empty class *)
Inductive oerr := EMkdir | ELstat | ENotRegular | EOpen.

Definition item_result (e : item_env) : option oerr :=
  if ie_mkdirall e && negb (ie_mkdir_ok e) then Some EMkdir
  else match ie_lstat e with
       | LstatErr => Some ELstat
       | Other => Some ENotRegular
       | Absent | Regular => if ie_open_ok e then None else Some EOpen
       end.

(** handleOpen: the reply's BatchErrors (None = "") and the attached descriptors;
    a descriptor is identified by the index of the item it was opened for *)
Fixpoint cont_open (items : list item_env) (i : nat) : list (option oerr) * list nat :=
  match items with
  | [] => ([], [])
  | e :: r =>
      let '(errs, fds) := cont_open r (S i) in
      match item_result e with
      | Some er => (Some er :: errs, fds)
      | None => (None :: errs, i :: fds)
      end
  end.

(** host side *)
Inductive ores := RFile (fd : nat) | RErr (e : oerr).

Inductive hres :=
| HOk (results : list ores)
| HError (closed : list nat).   (* every descriptor the host closed on the error path *)

Fixpoint host_walk (errs : list (option oerr)) (fds : list nat) (acc : list ores) : hres :=
  match errs with
  | [] => HOk (rev acc)
  | Some e :: r => host_walk r fds (RErr e :: acc)
  | None :: r =>
      match fds with
      | [] => HError (flat_map (fun x : ores => match x with RFile f => [f] | RErr _ => [] end) (rev acc))
      | f :: fr => host_walk r fr (RFile f :: acc)
      end
  end.

Definition host_open (n : nat) (errs : list (option oerr)) (fds : list nat) : hres :=
  if Nat.eqb (length errs) n then host_walk errs fds [] else HError fds.

(** Symlink: one error slot per item *)
Definition cont_symlink (oks : list bool) : list (option unit) := map (fun b : bool => if b then None else Some tt) oks.
Definition host_symlink (n : nat) (errs : list (option unit)) : option (list (option unit)) :=
  if Nat.eqb (length errs) n then Some errs else None.

(** Executable comparison for the correspondence run of C14. *)
From GS Require Import Container.Batch Container.BatchProofs.

Definition oerr_code (e : oerr) : nat := match e with EMkdir => 1 | ELstat => 2 | ENotRegular => 3 | EOpen => 4 end.

(** observed result per index: 0 = a file, otherwise the error class *)
Definition ores_code (r : ores) : nat := match r with RFile _ => 0 | RErr e => oerr_code e end.

Definition mkenv (a b : bool) (l : nat) (c : bool) : item_env :=
  {| ie_mkdirall := a; ie_mkdir_ok := b;
     ie_lstat := match l with 0 => Absent | 1 => Regular | 2 => Other | _ => LstatErr end; ie_open_ok := c |}.

Fixpoint nats_eqb (a b : list nat) : bool :=
  match a, b with
  | [], [] => true
  | x :: a', y :: b' => Nat.eqb x y && nats_eqb a' b'
  | _, _ => false
  end.

(** the whole pipeline on the model: container side, then host side *)
Definition batch_ok (x : list item_env * list nat) : bool :=
  let '(items, obs) := x in
  let '(errs, fds) := cont_open items 0 in
  match host_open (length items) errs fds with
  | HOk rs => nats_eqb (map ores_code rs) obs &&
              (* descriptor k of the reply is the one opened for item k *)
              forallb (fun '(k, r) => match r with RFile f => Nat.eqb f k | RErr _ => true end) (combine (seq 0 (length rs)) rs)
  | HError _ => false
  end.

Fixpoint indexed {A} (i : N) (l : list A) : list (N * A) :=
  match l with [] => [] | x :: r => (i, x) :: indexed (N.succ i) r end.
Definition failing {A} (ok : A -> bool) (l : list A) : list N :=
  flat_map (fun '(i, x) => if ok x then [] else [i]) (indexed 0%N l).

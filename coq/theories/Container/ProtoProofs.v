(** Safety and fail-fast properties of the RPC, for histories of any length and every interleaving:
    reflection over the finite reachable set (Base/Lts.v). *)
From Coq Require Import List Bool Arith PArith FMapPositive.
From GS Require Import Base.Code Base.Lts Container.Proto.
Import ListNotations.

Definition R := reach state init (next true).

(** candidate set of reachable states (untrusted search), re-validated below *)
Definition V := Eval vm_compute in explore state enc (next true) 200 init.

Definition cmd_eqb (a b : cmdk * nat) : bool := Nat.eqb (cmdk_num (fst a)) (cmdk_num (fst b)) && Nat.eqb (snd a) (snd b).

Definition inv (s : state) : bool :=
  negb (s_bad s) &&
  (match s_cont s with CDead => s_env_lost s | _ => true end) &&
  (match s_host s with
   | HIdle =>
       s_env_lost s ||
       ((match s_ch s with [] => true | _ => false end) &&
        (match s_cont s, s_hc s with
         | CServe, [] => true
         | CWaitKill, [m] => cmd_eqb m (KKill, s_tag s)
         | _, _ => false
         end) &&
        negb (Nat.eqb (ret_num (s_last s)) 2))
   | _ => true
   end).

Lemma V_ok : wf state enc V && closed state enc init (next true) V && all_inv state inv V = true.
Proof. vm_compute. reflexivity. Qed.

Lemma inv_reach s : R s -> inv s = true.
Proof.
  pose proof V_ok as H. apply andb_true_iff in H. destruct H as [H H3]. apply andb_true_iff in H. destruct H as [H1 H2].
  exact (closed_sound state enc enc_inj init (next true) V inv H1 H2 H3 s).
Qed.

(** no reply is ever consumed by another call or in a state that does not expect it; no command is
    ever interpreted in the wrong state *)
Theorem no_desync s : R s -> s_bad s = false.
Proof.
  intros Hr. pose proof (inv_reach s Hr) as H. unfold inv in H.
  apply andb_true_iff in H. destruct H as [H _]. apply andb_true_iff in H. destruct H as [H _].
  apply negb_true_iff in H. exact H.
Qed.

(** the container ends only when the environment took the transport away *)
Theorem container_survives s : R s -> s_cont s = CDead -> s_env_lost s = true.
Proof.
  intros Hr Hd. pose proof (inv_reach s Hr) as H. unfold inv in H.
  apply andb_true_iff in H. destruct H as [H _]. apply andb_true_iff in H. destruct H as [_ H].
  rewrite Hd in H. exact H.
Qed.

(** whenever a call has returned and the transport was not taken away: no reply is left over, the
    container serves (or will after taking the one kill the host owed it), the call did not fail
    for transport reasons — whatever way the request or the program failed *)
Theorem quiescent_at_return s : R s -> s_host s = HIdle -> s_env_lost s = false ->
  s_ch s = [] /\
  ((s_cont s = CServe /\ s_hc s = []) \/ (s_cont s = CWaitKill /\ s_hc s = [(KKill, s_tag s)])) /\
  s_last s <> RTransport.
Proof.
  intros Hr Hi He. pose proof (inv_reach s Hr) as H. unfold inv in H.
  apply andb_true_iff in H. destruct H as [_ H]. rewrite Hi, He in H. simpl in H.
  apply andb_true_iff in H. destruct H as [H H3]. apply andb_true_iff in H. destruct H as [H1 H2].
  split; [destruct (s_ch s); [reflexivity|discriminate]|]. split.
  - destruct (s_cont s); try discriminate.
    + left. destruct (s_hc s); [auto|discriminate].
    + right. destruct (s_hc s) as [|[k t] [|? ?]]; try discriminate. split; [reflexivity|].
      unfold cmd_eqb in H2. simpl in H2. apply andb_true_iff in H2. destruct H2 as [Hk Ht].
      apply Nat.eqb_eq in Hk, Ht. destruct k; try discriminate. subst t. reflexivity.
  - intros E. rewrite E in H3. discriminate.
Qed.

(** ** once the host has noticed the loss of the transport, every call returns within three of its own steps *)
Definition busy (s : state) : bool := s_hdone s && negb (Nat.eqb (hst_num (s_host s)) 0).
Definition rank (s : state) : nat := match s_host s with HE1 _ => 3 | HEDone => 2 | HIdle => 0 | _ => 1 end.

Lemma rank_V_ok : rank_ok state enc (host_steps) busy rank V = true.
Proof. vm_compute. reflexivity. Qed.

Theorem transport_loss_fails_fast s : R s -> s_hdone s = true -> s_host s <> HIdle ->
  host_steps s <> [] /\
  forall p, busy_path state host_steps busy s p -> Forall (fun t => busy t = true) p -> length p <= 3.
Proof.
  intros Hr Hd Hh.
  pose proof V_ok as H. apply andb_true_iff in H. destruct H as [H _]. apply andb_true_iff in H. destruct H as [H1 H2].
  pose proof (reach_in state enc enc_inj init (next true) V H1 H2 s Hr) as Hm.
  assert (busy s = true) as Hb.
  { unfold busy. rewrite Hd. simpl. destruct (s_host s) as [| |[]| | |]; try reflexivity. contradiction. }
  split.
  - exact (busy_has_step state enc enc_inj host_steps busy rank V H1 rank_V_ok s Hm Hb).
  - intros p Hp Hall. pose proof (rank_bound state enc enc_inj host_steps busy rank V H1 rank_V_ok p s Hm Hb Hp Hall) as Hl.
    unfold rank in Hl. destruct (s_host s); simpl in Hl; auto with arith.
Qed.

(** and a call started after that fails at once *)
Theorem new_call_on_lost_transport s : s_host s = HIdle -> s_hdone s = true ->
  host_steps s = [ret_to (set_tag s ((S (s_tag s)) mod 3)) RTransport].
Proof. intros Hi Hd. unfold host_steps. rewrite Hi, Hd. reflexivity. Qed.

(** ** the pinned tree: two request/program-caused failures end the container *)
Definition Rp := reach state init (next false).

Definition goal_execfail (s : state) : bool := s_bad s && negb (s_env_lost s) && Nat.eqb (cst_num (s_cont s)) 7.
Definition goal_emptyargv (s : state) : bool := negb (s_bad s) && negb (s_env_lost s) && Nat.eqb (cst_num (s_cont s)) 7.

Definition path_execfail := Eval vm_compute in find_path state enc (next false) 30 goal_execfail init.
Definition path_emptyargv := Eval vm_compute in find_path state enc (next false) 30 goal_emptyargv init.

Theorem pinned_execfail_kills_container :
  exists s, Rp s /\ s_cont s = CDead /\ s_env_lost s = false /\ s_bad s = true.
Proof.
  destruct path_execfail as [p|] eqn:E; [|vm_compute in E; discriminate].
  exists (path_end state init p). split.
  - apply (path_reach state enc enc_inj init (next false)); [constructor|]. vm_compute in E. inversion E; subst p. vm_compute. reflexivity.
  - vm_compute in E. inversion E; subst p. vm_compute. auto.
Qed.

Theorem pinned_emptyargv_kills_container :
  exists s, Rp s /\ s_cont s = CDead /\ s_env_lost s = false.
Proof.
  destruct path_emptyargv as [p|] eqn:E; [|vm_compute in E; discriminate].
  exists (path_end state init p). split.
  - apply (path_reach state enc enc_inj init (next false)); [constructor|]. vm_compute in E. inversion E; subst p. vm_compute. reflexivity.
  - vm_compute in E. inversion E; subst p. vm_compute. auto.
Qed.

(** ** cancellation (C11): once the caller has cancelled a running Execve (the kill is sent and the
    host waits for the result), host and container steps alone bring the call back within a bounded
    number of steps — whatever the program does, and whether or not it had already ended *)
Definition sys_steps (s : state) : list state := host_steps s ++ cont_steps true s.
Definition cancel_busy (s : state) : bool := Nat.eqb (hst_num (s_host s)) 6 && negb (s_lost s).

Definition rank_tab_step (T : PositiveMap.t nat) : PositiveMap.t nat :=
  fold_left (fun acc kv =>
    let s := snd kv in
    if cancel_busy s then
      PositiveMap.add (enc s)
        (S (fold_left (fun m s' => if cancel_busy s' then Nat.max m (match PositiveMap.find (enc s') T with Some r => r | None => 0 end) else m)
                      (sys_steps s) 0)) acc
    else acc) (PositiveMap.elements V) T.

Fixpoint rank_tab_iter (n : nat) (T : PositiveMap.t nat) : PositiveMap.t nat :=
  match n with O => T | S m => rank_tab_iter m (rank_tab_step T) end.

Definition cancel_rank_tab := Eval vm_compute in rank_tab_iter 12 (PositiveMap.empty nat).
Definition cancel_rank (s : state) : nat := match PositiveMap.find (enc s) cancel_rank_tab with Some r => r | None => 0 end.

Lemma cancel_rank_ok : rank_ok state enc sys_steps cancel_busy cancel_rank V = true.
Proof. vm_compute. reflexivity. Qed.

Definition cancel_bound := Eval vm_compute in PositiveMap.fold (fun _ r m => Nat.max r m) cancel_rank_tab 0.

Lemma cancel_rank_le s : cancel_rank s <= cancel_bound.
Proof.
  unfold cancel_rank. destruct (PositiveMap.find (enc s) cancel_rank_tab) as [r|] eqn:E; [|apply Nat.le_0_l].
  assert (forallb (fun kv => Nat.leb (snd kv) cancel_bound) (PositiveMap.elements cancel_rank_tab) = true) as H by (vm_compute; reflexivity).
  rewrite forallb_forall in H. apply PositiveMap.find_2, PositiveMap.elements_1, SetoidList.InA_alt in E.
  destruct E as [[k v] [[Hk Hv] Hin]]. cbv [PositiveMap.eq_key_elt PositiveMap.E.eq fst snd] in Hk, Hv; simpl in Hk, Hv. subst.
  specialize (H _ Hin). simpl in H. apply Nat.leb_le in H. exact H.
Qed.

Theorem cancel_returns_container s : R s -> s_host s = HECancelWait -> s_lost s = false ->
  sys_steps s <> [] /\
  forall p, busy_path state sys_steps cancel_busy s p -> Forall (fun t => cancel_busy t = true) p -> length p <= cancel_bound.
Proof.
  intros Hr Hh Hl.
  pose proof V_ok as H. apply andb_true_iff in H. destruct H as [H _]. apply andb_true_iff in H. destruct H as [H1 H2].
  pose proof (reach_in state enc enc_inj init (next true) V H1 H2 s Hr) as Hm.
  assert (cancel_busy s = true) as Hb by (unfold cancel_busy; rewrite Hh, Hl; reflexivity).
  split.
  - exact (busy_has_step state enc enc_inj sys_steps cancel_busy cancel_rank V H1 cancel_rank_ok s Hm Hb).
  - intros p Hp Hall. pose proof (rank_bound state enc enc_inj sys_steps cancel_busy cancel_rank V H1 cancel_rank_ok p s Hm Hb Hp Hall) as Hlen.
    pose proof (cancel_rank_le s). eapply Nat.le_trans; eassumption.
Qed.

(** ** death of the controller (C16): the socket is gone and the container has noticed; its own
    steps alone bring the init to its exit within a bounded number of steps, from every reachable
    state (the init never waits on anything that is not guarded by [done]) *)
Definition eof_busy (s : state) : bool := s_cdone s && negb (Nat.eqb (cst_num (s_cont s)) 7).

Definition eof_tab_step (T : PositiveMap.t nat) : PositiveMap.t nat :=
  fold_left (fun acc kv =>
    let s := snd kv in
    if eof_busy s then
      PositiveMap.add (enc s)
        (S (fold_left (fun m s' => if eof_busy s' then Nat.max m (match PositiveMap.find (enc s') T with Some r => r | None => 0 end) else m)
                      (cont_steps true s) 0)) acc
    else acc) (PositiveMap.elements V) T.

Fixpoint eof_tab_iter (n : nat) (T : PositiveMap.t nat) : PositiveMap.t nat :=
  match n with O => T | S m => eof_tab_iter m (eof_tab_step T) end.

Definition eof_rank_tab := Eval vm_compute in eof_tab_iter 12 (PositiveMap.empty nat).
Definition eof_rank (s : state) : nat := match PositiveMap.find (enc s) eof_rank_tab with Some r => r | None => 0 end.

Lemma eof_rank_ok : rank_ok state enc (cont_steps true) eof_busy eof_rank V = true.
Proof. vm_compute. reflexivity. Qed.

Definition eof_bound := Eval vm_compute in PositiveMap.fold (fun _ r m => Nat.max r m) eof_rank_tab 0.

Lemma eof_rank_le s : eof_rank s <= eof_bound.
Proof.
  unfold eof_rank. destruct (PositiveMap.find (enc s) eof_rank_tab) as [r|] eqn:E; [|apply Nat.le_0_l].
  assert (forallb (fun kv => Nat.leb (snd kv) eof_bound) (PositiveMap.elements eof_rank_tab) = true) as H by (vm_compute; reflexivity).
  rewrite forallb_forall in H. apply PositiveMap.find_2, PositiveMap.elements_1, SetoidList.InA_alt in E.
  destruct E as [[k v] [[Hk Hv] Hin]]. cbv [PositiveMap.eq_key_elt PositiveMap.E.eq fst snd] in Hk, Hv; simpl in Hk, Hv. subst.
  specialize (H _ Hin). simpl in H. apply Nat.leb_le in H. exact H.
Qed.

Theorem socket_eof_ends_init s : R s -> s_cdone s = true -> s_cont s <> CDead ->
  cont_steps true s <> [] /\
  forall p, busy_path state (cont_steps true) eof_busy s p -> Forall (fun t => eof_busy t = true) p -> length p <= eof_bound.
Proof.
  intros Hr Hd Hc.
  pose proof V_ok as H. apply andb_true_iff in H. destruct H as [H _]. apply andb_true_iff in H. destruct H as [H1 H2].
  pose proof (reach_in state enc enc_inj init (next true) V H1 H2 s Hr) as Hm.
  assert (eof_busy s = true) as Hb.
  { unfold eof_busy. rewrite Hd. simpl. destruct (s_cont s) as [|[] []| | |]; try reflexivity. contradiction. }
  split.
  - exact (busy_has_step state enc enc_inj (cont_steps true) eof_busy eof_rank V H1 eof_rank_ok s Hm Hb).
  - intros p Hp Hall. pose proof (rank_bound state enc enc_inj (cont_steps true) eof_busy eof_rank V H1 eof_rank_ok p s Hm Hb Hp Hall) as Hlen.
    pose proof (eof_rank_le s). eapply Nat.le_trans; eassumption.
Qed.

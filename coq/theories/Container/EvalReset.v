(** Executable comparison for the correspondence run of C13. *)
From Coq Require Import List Bool Arith NArith.
From GS Require Import Container.Reset.
Import ListNotations.

Definition same_set (a b : list nat) : bool :=
  forallb (fun x => existsb (Nat.eqb x) b) a && forallb (fun x => existsb (Nat.eqb x) a) b.

(** one writable mount of one history: (is tmpfs, creations of all earlier programs, top-level names observed
    before Reset, top-level names observed after Reset) *)
Definition mount_ok (x : bool * list (list nat * nat * node) * list nat * list nat) : bool :=
  let '(tm, ops, before, after) := x in
  let dirty := {| m_tmpfs := tm; m_tree := populate ops [] |} in
  same_set (map fst (m_tree dirty)) before &&
  match reset [dirty] with
  | [m] => same_set (map fst (m_tree m)) after
  | _ => false
  end.
Definition history_ok (ms : list (bool * list (list nat * nat * node) * list nat * list nat)) : bool := forallb mount_ok ms.

Fixpoint list_eqb (a b : list N) : bool :=
  match a, b with
  | [], [] => true
  | x :: a', y :: b' => N.eqb x y && list_eqb a' b'
  | _, _ => false
  end.

(** (reads of the reader, observed: None = DupToMemfd failed | Some (content, position, every attempt refused and nothing changed)) *)
Definition memfd_ok (x : reader * option (list N * nat * bool)) : bool :=
  let '(r, o) := x in
  match dup_to_memfd r, o with
  | None, None => true
  | Some f, Some (c, p, refused) => list_eqb (f_content f) c && Nat.eqb (f_pos f) p && Bool.eqb (f_sealed f) refused
  | _, _ => false
  end.

Fixpoint indexed {A} (i : N) (l : list A) : list (N * A) :=
  match l with [] => [] | x :: r => (i, x) :: indexed (N.succ i) r end.
Definition failing {A} (ok : A -> bool) (l : list A) : list N :=
  flat_map (fun '(i, x) => if ok x then [] else [i]) (indexed 0%N l).

From Coq Require Import List Bool Arith NArith Lia.
From GS Require Import Container.Reset.
Import ListNotations.

Lemma remove_entry_not_in name t : ~ In name (map fst (remove_entry name t)).
Proof.
  unfold remove_entry. intros H. apply in_map_iff in H. destruct H as [e [He Hin]].
  apply filter_In in Hin. destruct Hin as [_ Hf]. rewrite He, Nat.eqb_refl in Hf. discriminate.
Qed.

Lemma remove_entry_subset name t e : In e (remove_entry name t) -> In e t.
Proof. unfold remove_entry. intros H. apply filter_In in H. tauto. Qed.

Lemma fold_remove_subset : forall names t e, In e (fold_left (fun t n => remove_entry n t) names t) -> In e t.
Proof.
  induction names as [|n r IH]; intros t e H; simpl in H; [exact H|].
  apply IH in H. eapply remove_entry_subset. exact H.
Qed.

Lemma fold_remove_not_in : forall names t e, In (fst e) names -> ~ In e (fold_left (fun t n => remove_entry n t) names t).
Proof.
  induction names as [|n r IH]; intros t e Hin H; simpl in *; [contradiction|].
  destruct Hin as [->|Hin].
  - apply fold_remove_subset in H. apply (remove_entry_not_in (fst e) t). apply in_map. exact H.
  - exact (IH _ _ Hin H).
Qed.

(** whatever a directory holds, removeContents leaves it empty *)
Theorem remove_contents_empty t : remove_contents t = [].
Proof.
  unfold remove_contents. destruct (fold_left (fun t0 n => remove_entry n t0) (map fst t) t) as [|e r] eqn:E; [reflexivity|].
  exfalso. assert (In e (fold_left (fun t0 n => remove_entry n t0) (map fst t) t)) as Hin by (rewrite E; left; reflexivity).
  pose proof (fold_remove_subset _ _ _ Hin) as Ht.
  exact (fold_remove_not_in (map fst t) t e (in_map fst t e Ht) Hin).
Qed.

(** after Reset every tmpfs mount is empty, for every history of creations by earlier programs
    (any names, types, depths, permission bits) *)
Theorem reset_empties ms ops_per_mount :
  let dirty := map (fun '(m, ops) => {| m_tmpfs := m_tmpfs m; m_tree := populate ops (m_tree m) |}) (combine ms ops_per_mount) in
  Forall (fun m => m_tmpfs m = true -> m_tree m = []) (reset dirty).
Proof.
  cbv zeta. unfold reset. rewrite Forall_forall. intros m Hin. apply in_map_iff in Hin. destruct Hin as [m0 [Heq _]].
  destruct (m_tmpfs m0) eqn:E; subst m; simpl.
  - intros _. apply remove_contents_empty.
  - intros H. congruence.
Qed.

(** writable mounts that are not tmpfs are not cleaned by Reset (none in the default configuration) *)
Lemma rw_bind_not_reset : exists ms, ~ Forall (fun m => m_tree m = []) (reset ms).
Proof.
  exists [{| m_tmpfs := false; m_tree := [(1, NFile)] |}]. intros H. inversion H; subst. simpl in *. discriminate.
Qed.

(** ** memfd *)
Lemma copy_all_spec : forall r acc, copy_all r acc = if fails r then None else Some (acc ++ supplied r).
Proof.
  induction r as [|[d e] rest IH]; intros acc; simpl.
  - rewrite app_nil_r. reflexivity.
  - destruct e; simpl; try reflexivity. rewrite IH. destruct (fails rest); [reflexivity|]. rewrite app_assoc. reflexivity.
Qed.

(** exactly the supplied bytes, positioned at the start, sealed; no file at all when the reader fails *)
Theorem memfd_content r :
  (fails r = false -> exists f, dup_to_memfd r = Some f /\ f_content f = supplied r /\ f_pos f = 0 /\ f_sealed f = true) /\
  (fails r = true -> dup_to_memfd r = None).
Proof.
  unfold dup_to_memfd. rewrite copy_all_spec. split; intros H; rewrite H; [|reflexivity].
  eexists. split; [reflexivity|]. simpl. auto.
Qed.

Theorem memfd_immutable r f : dup_to_memfd r = Some f -> forall ops, mrun f ops = f.
Proof.
  unfold dup_to_memfd. destruct (copy_all r []) as [c|]; [|discriminate]. intros H. injection H as <-.
  intros ops. unfold mrun. induction ops as [|o rest IH]; simpl; [reflexivity|]. exact IH.
Qed.

Theorem memfd_attempts_refused r f o : dup_to_memfd r = Some f -> snd (mstep f o) = false.
Proof.
  unfold dup_to_memfd. destruct (copy_all r []) as [c|]; [|discriminate]. intros H. injection H as <-. reflexivity.
Qed.

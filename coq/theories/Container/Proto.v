(** The host / container RPC as one labelled transition system: the host's call
    automaton (Ping / Open / Delete / Symlink / Reset as "simple" calls, Execve
    with its sub-protocol), the container's server automaton (serve, handleExecve,
    syncPid, handleExecveStarted), one FIFO per direction (socket + the
    capacity-1 channels preserve order), the two [done] flags, and the
    environment: which way each Execve fails, when the program exits, when the
    caller cancels, when the transport is lost.  Every message carries the ghost
    tag of the call it belongs to (call number mod 3). *)
From Coq Require Import List Bool Arith PArith.
From GS Require Import Base.Code.
Import ListNotations.

Inductive cmdk := KSimple | KExec | KOk | KKill.
Inductive repk := RAck | RErr | RSync | RResult.

Inductive hst :=
| HIdle
| HWait                      (* simple call: command sent, waiting for the reply *)
| HE1 (cb_ok : bool)         (* Execve: command sent, waiting for the first reply; cb_ok: the callback will succeed *)
| HEKillWait                 (* callback failed: kill sent, waiting for one reply *)
| HEDone                     (* waitForDone *)
| HECancelWait.              (* cancelled: kill sent, waiting for the result *)

Inductive cst :=
| CServe
| CSyncWait (sync_after : bool) (will_fail : bool)   (* sync reply sent, waiting for ok / kill *)
| CStarted                                            (* handleExecveStarted: waiting for kill or exit *)
| CWaitKill                                           (* result (or late error) sent, one command of the host still to come *)
| CDead.

(** why the last call returned *)
Inductive ret := ROk | RProgram | RTransport.

Record state := {
  s_host : hst; s_cont : cst;
  s_hc : list (cmdk * nat);        (* host -> container, oldest first *)
  s_ch : list (repk * nat);        (* container -> host *)
  s_tag : nat;                     (* tag of the host's current / last call *)
  s_ctag : nat;                    (* tag of the command the container is handling *)
  s_hdone : bool; s_cdone : bool;  (* each side has noticed the loss of the transport *)
  s_lost : bool;                   (* the transport is gone: nothing is delivered any more *)
  s_env_lost : bool;               (* ghost: the environment (not the protocol) took the transport away *)
  s_last : ret;                    (* ghost: classification of the last return *)
  s_bad : bool }.                  (* ghost: a message was consumed by the wrong call or in the wrong state *)

Definition init : state := {| s_host := HIdle; s_cont := CServe; s_hc := []; s_ch := []; s_tag := 0; s_ctag := 0;
  s_hdone := false; s_cdone := false; s_lost := false; s_env_lost := false; s_last := ROk; s_bad := false |}.

(** field updates *)
Definition set_host (s : state) h := {| s_host := h; s_cont := s_cont s; s_hc := s_hc s; s_ch := s_ch s; s_tag := s_tag s; s_ctag := s_ctag s;
  s_hdone := s_hdone s; s_cdone := s_cdone s; s_lost := s_lost s; s_env_lost := s_env_lost s; s_last := s_last s; s_bad := s_bad s |}.
Definition set_cont (s : state) c := {| s_host := s_host s; s_cont := c; s_hc := s_hc s; s_ch := s_ch s; s_tag := s_tag s; s_ctag := s_ctag s;
  s_hdone := s_hdone s; s_cdone := s_cdone s; s_lost := s_lost s || match c with CDead => true | _ => false end;
  s_env_lost := s_env_lost s; s_last := s_last s; s_bad := s_bad s |}.
Definition set_hc (s : state) q := {| s_host := s_host s; s_cont := s_cont s; s_hc := q; s_ch := s_ch s; s_tag := s_tag s; s_ctag := s_ctag s;
  s_hdone := s_hdone s; s_cdone := s_cdone s; s_lost := s_lost s; s_env_lost := s_env_lost s; s_last := s_last s; s_bad := s_bad s |}.
Definition set_ch (s : state) q := {| s_host := s_host s; s_cont := s_cont s; s_hc := s_hc s; s_ch := q; s_tag := s_tag s; s_ctag := s_ctag s;
  s_hdone := s_hdone s; s_cdone := s_cdone s; s_lost := s_lost s; s_env_lost := s_env_lost s; s_last := s_last s; s_bad := s_bad s |}.
Definition set_tag (s : state) t := {| s_host := s_host s; s_cont := s_cont s; s_hc := s_hc s; s_ch := s_ch s; s_tag := t; s_ctag := s_ctag s;
  s_hdone := s_hdone s; s_cdone := s_cdone s; s_lost := s_lost s; s_env_lost := s_env_lost s; s_last := s_last s; s_bad := s_bad s |}.
Definition set_ctag (s : state) t := {| s_host := s_host s; s_cont := s_cont s; s_hc := s_hc s; s_ch := s_ch s; s_tag := s_tag s; s_ctag := t;
  s_hdone := s_hdone s; s_cdone := s_cdone s; s_lost := s_lost s; s_env_lost := s_env_lost s; s_last := s_last s; s_bad := s_bad s |}.
Definition set_last (s : state) r := {| s_host := s_host s; s_cont := s_cont s; s_hc := s_hc s; s_ch := s_ch s; s_tag := s_tag s; s_ctag := s_ctag s;
  s_hdone := s_hdone s; s_cdone := s_cdone s; s_lost := s_lost s; s_env_lost := s_env_lost s; s_last := r; s_bad := s_bad s |}.
Definition add_bad (s : state) (b : bool) := {| s_host := s_host s; s_cont := s_cont s; s_hc := s_hc s; s_ch := s_ch s; s_tag := s_tag s; s_ctag := s_ctag s;
  s_hdone := s_hdone s; s_cdone := s_cdone s; s_lost := s_lost s; s_env_lost := s_env_lost s; s_last := s_last s; s_bad := s_bad s || b |}.
Definition set_flags (s : state) hd cd lost el := {| s_host := s_host s; s_cont := s_cont s; s_hc := s_hc s; s_ch := s_ch s; s_tag := s_tag s; s_ctag := s_ctag s;
  s_hdone := hd; s_cdone := cd; s_lost := lost; s_env_lost := el; s_last := s_last s; s_bad := s_bad s |}.

Section Steps.
  (** [fixed] = the tree with the two repairs (a late exec failure consumes the owed kill; an empty
      argument list is answered with an error reply); false = the pinned tree *)
  Variable fixed : bool.

  Definition ret_to (s : state) (r : ret) : state := set_last (set_host s HIdle) r.

  (** sendCmd: the command joins the queue (nothing travels on a lost transport) *)
  Definition send_h (s : state) (k : cmdk) (h : hst) : state :=
    set_host (if s_lost s then s else set_hc s (s_hc s ++ [(k, s_tag s)])) h.

  (** the host takes the oldest reply; a reply of another call, or of a kind the state does not
      expect, is a desynchronisation *)
  Definition host_recv (s : state) (expect : repk -> bool) (k : repk -> state -> list state) : list state :=
    match s_ch s with
    | [] => []
    | (r, t) :: rest => k r (add_bad (set_ch s rest) (negb (Nat.eqb t (s_tag s)) || negb (expect r)))
    end.

  Definition host_steps (s : state) : list state :=
    match s_host s with
    | HIdle =>
        (* a new call gets the next tag; on a transport known to be lost it fails at once *)
        let s0 := set_tag s ((S (s_tag s)) mod 3) in
        if s_hdone s then [ret_to s0 RTransport]
        else [send_h s0 KSimple HWait; send_h s0 KExec (HE1 true); send_h s0 KExec (HE1 false)]
    | HWait =>
        (if s_hdone s then [ret_to s RTransport] else []) ++
        host_recv s (fun r => match r with RAck | RErr => true | _ => false end)
                  (fun r s1 => [ret_to s1 (match r with RAck => ROk | _ => RProgram end)])
    | HE1 cb_ok =>
        (if s_hdone s then [ret_to s RTransport] else []) ++
        host_recv s (fun r => match r with RSync | RErr => true | _ => false end)
                  (fun r s1 => match r with
                               | RErr => [ret_to s1 RProgram]
                               | _ => if cb_ok then [send_h s1 KOk HEDone] else [send_h s1 KKill HEKillWait]
                               end)
    | HEKillWait =>
        (if s_hdone s then [ret_to s RProgram] else []) ++
        host_recv s (fun r => match r with RErr | RResult => true | _ => false end) (fun _ s1 => [ret_to s1 RProgram])
    | HEDone =>
        (if s_hdone s then [ret_to s RTransport] else []) ++
        [send_h s KKill HECancelWait] ++                                      (* the caller cancels *)
        host_recv s (fun r => match r with RResult | RErr => true | _ => false end)
                  (fun r s1 => [ret_to (send_h s1 KKill HIdle) (match r with RResult => ROk | _ => RProgram end)])
    | HECancelWait =>
        (if s_hdone s then [ret_to s RTransport] else []) ++
        host_recv s (fun r => match r with RResult | RErr => true | _ => false end)
                  (fun r s1 => [ret_to s1 (match r with RResult => ROk | _ => RProgram end)])
    end.

  (** sendReply, tagged with the call the container is working for *)
  Definition reply_c (s : state) (r : repk) (c : cst) : state :=
    set_cont (if s_lost s then s else set_ch s (s_ch s ++ [(r, s_ctag s)])) c.

  (** the container takes the oldest command *)
  Definition take (s : state) (k : cmdk -> nat -> state -> list state) : list state :=
    match s_hc s with
    | [] => []
    | (c, t) :: rest => k c t (set_hc s rest)
    end.

  Definition cont_steps (s : state) : list state :=
    match s_cont s with
    | CDead => []
    | c =>
        (* the container notices the loss of the transport: serve returns, init exits *)
        (if s_cdone s then [set_cont s CDead] else []) ++
        match c with
        | CServe =>
            take s (fun k t s1 =>
              let s2 := set_ctag s1 t in
              match k with
              | KSimple => [reply_c s2 RAck CServe; reply_c s2 RErr CServe]
              | KExec =>
                  [ reply_c s2 RErr CServe;                                          (* refused before fork / child fails before sync / Start fails *)
                    (if fixed then reply_c s2 RErr CServe else set_cont s2 CDead);   (* empty argv: index out of range on the pinned tree *)
                    reply_c s2 RSync (CSyncWait false false);                        (* sync before exec, will run *)
                    reply_c s2 RSync (CSyncWait false true);                         (* sync before exec, the exec will fail *)
                    reply_c s2 RSync (CSyncWait true false) ]                        (* sync after exec, running *)
              | _ => [add_bad (set_cont s2 CDead) true]                              (* "unknown command": ok / kill in serve *)
              end)
        | CSyncWait sa wf =>
            take s (fun k t s1 =>
              match k with
              | KKill => [reply_c s1 (if sa then RResult else RErr) CServe]          (* kill: reap, answer, back to serve *)
              | KOk => if wf then [reply_c s1 RErr (if fixed then CWaitKill else CServe)]   (* exec failed after the ack *)
                       else [set_cont s1 CStarted]
              | _ => [add_bad (set_cont s1 CStarted) true]                            (* anything else is taken for "ok" *)
              end)
        | CStarted =>
            [reply_c s RResult CWaitKill] ++                                          (* the program exits *)
            take s (fun k t s1 => [add_bad (reply_c s1 RResult CServe) (match k with KKill => false | _ => true end)])
        | CWaitKill =>
            take s (fun k t s1 => [add_bad (set_cont s1 CServe) (match k with KKill => false | _ => true end)])
        | CDead => []
        end
    end.

  (** the environment: the transport is lost (Destroy, death of the controller or of the container),
      and each side notices at some later point *)
  Definition env_steps (s : state) : list state :=
    (if s_lost s then [] else [set_flags s (s_hdone s) (s_cdone s) true true]) ++
    (if s_lost s && negb (s_hdone s) then [set_flags s true (s_cdone s) true (s_env_lost s)] else []) ++
    (if s_lost s && negb (s_cdone s) then [set_flags s (s_hdone s) true true (s_env_lost s)] else []).

  Definition next (s : state) : list state := host_steps s ++ cont_steps s ++ env_steps s.
End Steps.

(** ** encoding into positive: a prefix-free bit code (Base/Code.v) *)
Definition cmdk_num k := match k with KSimple => 0 | KExec => 1 | KOk => 2 | KKill => 3 end.
Definition repk_num k := match k with RAck => 0 | RErr => 1 | RSync => 2 | RResult => 3 end.
Definition hst_num h := match h with HIdle => 0 | HWait => 1 | HE1 true => 2 | HE1 false => 3 | HEKillWait => 4 | HEDone => 5 | HECancelWait => 6 end.
Definition cst_num c := match c with CServe => 0 | CSyncWait false false => 1 | CSyncWait false true => 2 | CSyncWait true false => 3
                                   | CSyncWait true true => 4 | CStarted => 5 | CWaitKill => 6 | CDead => 7 end.
Definition ret_num r := match r with ROk => 0 | RProgram => 1 | RTransport => 2 end.

Lemma cmdk_num_inj a b : cmdk_num a = cmdk_num b -> a = b. Proof. destruct a, b; simpl; congruence. Qed.
Lemma repk_num_inj a b : repk_num a = repk_num b -> a = b. Proof. destruct a, b; simpl; congruence. Qed.
Lemma hst_num_inj a b : hst_num a = hst_num b -> a = b.
Proof. destruct a as [| |[]| | |], b as [| |[]| | |]; simpl; congruence. Qed.
Lemma cst_num_inj a b : cst_num a = cst_num b -> a = b.
Proof. destruct a as [|[] []| | |], b as [|[] []| | |]; simpl; congruence. Qed.
Lemma ret_num_inj a b : ret_num a = ret_num b -> a = b. Proof. destruct a, b; simpl; congruence. Qed.

Definition tuple_of (s : state) :=
  (s_host s, (s_cont s, (s_hc s, (s_ch s, (s_tag s, (s_ctag s, (s_hdone s, (s_cdone s, (s_lost s, (s_env_lost s, (s_last s, s_bad s))))))))))).

Lemma tuple_of_inj a b : tuple_of a = tuple_of b -> a = b.
Proof. destruct a, b. unfold tuple_of. simpl. intros H. inversion H. reflexivity. Qed.

Definition code_tuple :=
  c_pair (c_enum hst_num) (c_pair (c_enum cst_num)
    (c_pair (c_list (c_pair (c_enum cmdk_num) c_nat)) (c_pair (c_list (c_pair (c_enum repk_num) c_nat))
      (c_pair c_nat (c_pair c_nat (c_pair c_bool (c_pair c_bool (c_pair c_bool (c_pair c_bool (c_pair (c_enum ret_num) c_bool)))))))))).

Lemma pf_code_tuple : pf code_tuple.
Proof.
  unfold code_tuple.
  repeat first [ apply pf_pair | apply pf_list | apply pf_nat | apply pf_bool
               | apply (pf_enum hst_num hst_num_inj) | apply (pf_enum cst_num cst_num_inj)
               | apply (pf_enum cmdk_num cmdk_num_inj) | apply (pf_enum repk_num repk_num_inj)
               | apply (pf_enum ret_num ret_num_inj) ].
Qed.

Definition enc (s : state) : positive := bits_pos (code_tuple (tuple_of s)).

Lemma enc_inj a b : enc a = enc b -> a = b.
Proof. intros H. apply tuple_of_inj. exact (code_inj code_tuple pf_code_tuple _ _ H). Qed.

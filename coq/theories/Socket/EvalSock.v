(** Executable comparisons for the correspondence run of C19. *)
From GS Require Import Socket.Oob Socket.Frame.
Open Scope N_scope.

Fixpoint ns_eqb (a b : list N) : bool :=
  match a, b with [], [] => true | x :: a', y :: b' => (x =? y) && ns_eqb a' b' | _, _ => false end.
Fixpoint nats_eqb (a b : list nat) : bool :=
  match a, b with [], [] => true | x :: a', y :: b' => Nat.eqb x y && nats_eqb a' b' | _, _ => false end.

Definition cred_eqb (a b : option ucred) : bool :=
  match a, b with
  | Some x, Some y => (c_pid x =? c_pid y) && (c_uid x =? c_uid y) && (c_gid x =? c_gid y)
  | None, None => true
  | _, _ => false
  end.

Definition mkc (p u g : N) : ucred := {| c_pid := p; c_uid := u; c_gid := g |}.

(** the bytes Go's syscall.UnixRights / UnixCredentials produced, and what the library parsed back *)
Definition oob_ok (x : list N * option ucred * list N * (list N * option ucred)) : bool :=
  let '(fds, cred, bytes, (pf, pc)) := x in
  ns_eqb (encode_oob fds cred) bytes &&
  match decode_oob bytes with
  | Some (f, c) => ns_eqb f pf && cred_eqb c pc
  | None => false
  end.

(** raw history.  Go's net package sends one dummy NUL byte when the payload is empty but control
    data is attached, and reports a zero-length read as EOF: both are part of the model. *)
Inductive rop :=
| OSend (n : nat) (fds : list nat) (cred : bool) (refused : bool)   (* refused: sendmsg fails (a descriptor that is not open) *)
| ORecv (buf : nat)
| ORecvRoom (buf room : nat).   (* the receiving process can take only [room] more descriptors (RLIMIT_NOFILE): the kernel
                                   installs those that fit, drops the rest and flags the control data as truncated *)

Inductive robs :=
| BErr                                       (* the call returned an error *)
| BOk (n : nat) (fds : list nat) (cred : bool).

Definition robs_eqb (a b : robs) : bool :=
  match a, b with
  | BErr, BErr => true
  | BOk n f c, BOk n' f' c' => Nat.eqb n n' && nats_eqb f f' && Bool.eqb c c'
  | _, _ => false
  end.

Fixpoint raw_run (q : list packet) (ops : list rop) : list robs :=
  match ops with
  | [] => []
  | OSend n fds cred refused :: r =>
      if refused then BErr :: raw_run q r
      else
        let n' := if Nat.eqb n 0 && (negb (Nat.eqb (length fds) 0) || cred) then 1%nat else n in
        BOk n fds cred :: raw_run (q ++ [{| p_data := repeat 0 n'; p_fds := fds; p_cred := if cred then Some (mkc 0 0 0) else None |}]) r
  | ORecv buf :: r =>
      match q with
      | [] => BErr :: raw_run q r
      | p :: q' =>
          match recv_msg true (deliver buf 253 p) with
          | ROk data fds c => (if Nat.eqb (length data) 0 then BErr else BOk (length data) fds true) :: raw_run q' r
          | RErr _ _ => BErr :: raw_run q' r
          end
      end
  | ORecvRoom buf room :: r =>
      match q with
      | [] => BErr :: raw_run q r
      | p :: q' =>
          match recv_msg true (deliver buf (Nat.min 253 room) p) with
          | ROk data fds c => (if Nat.eqb (length data) 0 then BErr else BOk (length data) fds true) :: raw_run q' r
          | RErr _ _ => BErr :: raw_run q' r
          end
      end
  end.

(** the receiving end has SO_PASSCRED: every received message carries credentials *)
Definition raw_ok (x : list rop * list robs) : bool :=
  let '(ops, obs) := x in
  (fix cmp (a b : list robs) : bool :=
     match a, b with [], [] => true | x :: a', y :: b' => robs_eqb x y && cmp a' b' | _, _ => false end) (raw_run [] ops) obs.

(** framed history: (type, index, did not reach the wire) and, for every transmitted message, whether
    the receiver decoded it *)
Definition framed_ok (x : list (nat * nat * bool) * list bool) : bool :=
  let '(msgs, obs) := x in
  (fix cmp (a : list (option (nat * nat))) (b : list bool) : bool :=
     match a, b with
     | [], [] => true
     | Some _ :: a', true :: b' => cmp a' b'
     | None :: a', false :: b' => cmp a' b'
     | _, _ => false
     end) (run_lost [] [] msgs) obs.

Fixpoint indexed {A} (i : N) (l : list A) : list (N * A) :=
  match l with [] => [] | x :: r => (i, x) :: indexed (N.succ i) r end.
Definition failing {A} (ok : A -> bool) (l : list A) : list N :=
  flat_map (fun '(i, x) => if ok x then [] else [i]) (indexed 0 l).

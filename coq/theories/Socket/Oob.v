(** Control data of the unix socket: syscall.UnixRights / UnixCredentials
    (encoding), ParseSocketControlMessage and unixsocket.parseMsg (decoding),
    on linux/amd64: cmsghdr = { len : uint64; level : int32; type : int32 },
    data aligned to 8 bytes. *)
From Coq Require Export List Arith NArith Bool Lia.
Export ListNotations.
Open Scope N_scope.

Definition SOL_SOCKET := 1. Definition SCM_RIGHTS := 1. Definition SCM_CREDENTIALS := 2.
Definition HDR := 16.

(** little-endian bytes of a k-byte word *)
Fixpoint le_bytes (k : nat) (v : N) : list N :=
  match k with O => [] | S k' => (v mod 256) :: le_bytes k' (v / 256) end.

Fixpoint le_val (l : list N) : N :=
  match l with [] => 0 | b :: r => b + 256 * le_val r end.

Definition align8 (n : N) : N := (n + 7) / 8 * 8.

Definition cmsg (typ : N) (data : list N) : list N :=
  let len := HDR + N.of_nat (length data) in
  le_bytes 8 len ++ le_bytes 4 SOL_SOCKET ++ le_bytes 4 typ ++ data ++
  repeat 0 (N.to_nat (align8 len - len)).

Record ucred := { c_pid : N; c_uid : N; c_gid : N }.

Definition unix_rights (fds : list N) : list N := cmsg SCM_RIGHTS (flat_map (le_bytes 4) fds).
Definition unix_credentials (c : ucred) : list N :=
  cmsg SCM_CREDENTIALS (le_bytes 4 (c_pid c) ++ le_bytes 4 (c_uid c) ++ le_bytes 4 (c_gid c)).

(** SendMsg's oob buffer *)
Definition encode_oob (fds : list N) (cred : option ucred) : list N :=
  (match fds with [] => [] | _ => unix_rights fds end) ++
  (match cred with Some c => unix_credentials c | None => [] end).

(** ParseSocketControlMessage: a list of (level, type, data) or an error *)
Fixpoint parse_scm (fuel : nat) (b : list N) : option (list (N * N * list N)) :=
  match fuel with
  | O => None
  | S f =>
      if Nat.ltb (length b) (N.to_nat HDR) then (match b with [] => Some [] | _ => None end)
      else
        let len := le_val (firstn 8 b) in
        if (len <? HDR) || (N.of_nat (length b) <? len) then None
        else
          let lvl := le_val (firstn 4 (skipn 8 b)) in
          let typ := le_val (firstn 4 (skipn 12 b)) in
          let data := firstn (N.to_nat (len - HDR)) (skipn 16 b) in
          match parse_scm f (skipn (N.to_nat (align8 len)) b) with
          | Some r => Some ((lvl, typ, data) :: r)
          | None => None
          end
  end.

Fixpoint chunks4 (fuel : nat) (l : list N) : list N :=
  match fuel with
  | O => []
  | S f => match l with [] => [] | _ => le_val (firstn 4 l) :: chunks4 f (skipn 4 l) end
  end.

(** parseMsg: the last SCM_RIGHTS and the last SCM_CREDENTIALS message win *)
Fixpoint parse_msg (ms : list (N * N * list N)) (fds : list N) (cred : option ucred) : option (list N * option ucred) :=
  match ms with
  | [] => Some (fds, cred)
  | (lvl, typ, data) :: r =>
      if negb (lvl =? SOL_SOCKET) then parse_msg r fds cred
      else if typ =? SCM_CREDENTIALS then
        if Nat.eqb (length data) 12
        then parse_msg r fds (Some {| c_pid := le_val (firstn 4 data); c_uid := le_val (firstn 4 (skipn 4 data)); c_gid := le_val (firstn 4 (skipn 8 data)) |})
        else None
      else if typ =? SCM_RIGHTS then
        if Nat.eqb (Nat.modulo (length data) 4) 0 then parse_msg r (chunks4 (length data) data) cred else None
      else parse_msg r fds cred
  end.

Definition decode_oob (b : list N) : option (list N * option ucred) :=
  match parse_scm (S (length b)) b with
  | Some ms => parse_msg ms [] None
  | None => None
  end.

From GS Require Import Socket.Frame.

(** a received message equals the sent one, or the call returns an error: never a truncated payload,
    never a partial descriptor list *)
Theorem whole_or_error fixed B maxfds p data fds cred :
  recv_msg fixed (deliver B maxfds p) = ROk data fds cred ->
  data = p_data p /\ fds = p_fds p /\ cred = p_cred p.
Proof.
  unfold recv_msg, deliver. cbn [d_trunc d_ctrunc d_data d_fds d_cred].
  destruct (Nat.ltb B (length (p_data p))) eqn:E1; [destruct fixed; discriminate|].
  destruct (Nat.ltb maxfds (length (p_fds p))) eqn:E2; [destruct fixed; discriminate|].
  cbn [orb]. intros H. inversion H; subst.
  apply Nat.ltb_ge in E1, E2. rewrite !firstn_all2 by assumption. auto.
Qed.

(** every descriptor that arrived with a rejected message is closed *)
Theorem rejected_not_leaked B maxfds p closed still :
  recv_msg true (deliver B maxfds p) = RErr closed still ->
  still = [] /\ closed = d_fds (deliver B maxfds p).
Proof.
  unfold recv_msg. destruct (d_trunc _ || d_ctrunc _); [|discriminate].
  intros H. inversion H; subst. auto.
Qed.

(** the pinned tree left them open *)
Lemma rejected_leaked_on_pinned :
  exists B maxfds p still, recv_msg false (deliver B maxfds p) = RErr [] still /\ still <> [].
Proof.
  exists 10%nat, 253%nat, {| p_data := repeat 65%N 100; p_fds := [7; 8; 9]%nat; p_cred := None |}, [7; 8; 9]%nat.
  split; [vm_compute; reflexivity|discriminate].
Qed.

(** ** framed layer *)
Section Framed.
  Variable size : list item -> nat.
  Variable cap : nat.

  Lemma decode_encode known t v :
    decode known (snd (encode known t v)) = (fst (encode known t v), Some (t, v)).
  Proof.
    unfold encode. destruct (tmem t known) eqn:E; cbn [snd fst decode].
    - rewrite E. reflexivity.
    - cbn [tmem]. rewrite Nat.eqb_refl. reflexivity.
  Qed.

  (** as long as no send is rejected for its size, the receiver decodes exactly the messages sent,
      in order (both ends agree on which types have been described) *)
  Theorem framed_delivery : forall msgs known, all_fit size cap known msgs ->
    run size cap known known msgs = map Some msgs.
  Proof.
    induction msgs as [|[t v] r IH]; intros known Hfit; [reflexivity|].
    destruct Hfit as [Hf Hr]. cbn [fst snd] in *.
    cbn [run]. unfold send. unfold fits in Hf. cbn [fst snd] in Hf.
    destruct (encode known t v) as [ek' items] eqn:E. cbn [snd fst] in *.
    apply negb_true_iff in Hf. rewrite Hf.
    pose proof (decode_encode known t v) as Hd. rewrite E in Hd. cbn [snd fst] in Hd. rewrite Hd.
    cbn [map]. f_equal. apply IH. exact Hr.
  Qed.

  (** an oversize message never reaches the wire *)
  Theorem oversize_rejected_by_sender known t v :
    (cap < size (snd (encode known t v)))%nat -> snd (send size cap known t v) = None.
  Proof.
    intros H. unfold send. destruct (encode known t v) as [k items]. cbn [snd] in *.
    apply Nat.ltb_lt in H. rewrite H. reflexivity.
  Qed.
End Framed.

(** ... but the encoder has already recorded its type: the next value of that type cannot be decoded
    (the stream is corrupted for later messages by an encode that was not sent) *)
Lemma oversize_poisons_stream :
  exists size cap msgs, run size cap [] [] msgs = [None].
Proof.
  exists (fun items => match items with [Desc _; Val _ v] => v | [Val _ v] => v | _ => 0%nat end), 10%nat, [(1, 50); (1, 3)]%nat.
  vm_compute. reflexivity.
Qed.

From GS Require Import Socket.Oob.
Open Scope N_scope.

Lemma le_bytes_length k v : length (le_bytes k v) = k.
Proof. revert v; induction k as [|k IH]; intros v; simpl; [reflexivity|]. rewrite IH. reflexivity. Qed.

Lemma le_val_bytes : forall k v, v < 256 ^ N.of_nat k -> le_val (le_bytes k v) = v.
Proof.
  induction k as [|k IH]; intros v Hv.
  - simpl in *. lia.
  - cbn [le_bytes le_val]. rewrite IH.
    + pose proof (N.div_mod v 256 ltac:(discriminate)). lia.
    + rewrite Nat2N.inj_succ, N.pow_succ_r' in Hv. apply N.div_lt_upper_bound; [discriminate|exact Hv].
Qed.

Lemma firstn_app_exact {A} (a b : list A) n : length a = n -> firstn n (a ++ b) = a.
Proof. intros <-. rewrite firstn_app, Nat.sub_diag, firstn_all. simpl. apply app_nil_r. Qed.

Lemma skipn_app_exact {A} (a b : list A) n : length a = n -> skipn n (a ++ b) = b.
Proof. intros <-. rewrite skipn_app, Nat.sub_diag, skipn_all. reflexivity. Qed.

Lemma skipn_add {A} : forall a b (l : list A), skipn (a + b) l = skipn b (skipn a l).
Proof. induction a as [|a IH]; intros b l; [reflexivity|]. destruct l; simpl; [rewrite skipn_nil; reflexivity|apply IH]. Qed.

Lemma align8_ge n : n <= align8 n /\ align8 n < n + 8.
Proof.
  unfold align8. pose proof (N.div_mod (n + 7) 8 ltac:(discriminate)) as H.
  pose proof (N.mod_lt (n + 7) 8 ltac:(discriminate)) as H0.
  set (q := (n + 7) / 8) in *. set (r := (n + 7) mod 8) in *. lia.
Qed.

Lemma cmsg_length typ data : N.of_nat (length (cmsg typ data)) = align8 (HDR + N.of_nat (length data)).
Proof.
  unfold cmsg. rewrite !app_length, !le_bytes_length, repeat_length.
  pose proof (align8_ge (HDR + N.of_nat (length data))) as [H1 H2]. unfold HDR in *. lia.
Qed.

(** one control message in front of [rest] is parsed back *)
Lemma parse_one f typ data rest :
  typ < 2 ^ 32 -> N.of_nat (length data) < 2 ^ 32 ->
  parse_scm (S f) (cmsg typ data ++ rest) =
    match parse_scm f rest with Some r => Some ((SOL_SOCKET, typ, data) :: r) | None => None end.
Proof.
  intros Ht Hd. set (len := HDR + N.of_nat (length data)).
  pose proof (cmsg_length typ data) as Hlen. fold len in Hlen.
  pose proof (align8_ge len) as [Ha1 Ha2].
  cbn [parse_scm].
  assert (Nat.ltb (length (cmsg typ data ++ rest)) (N.to_nat HDR) = false) as ->.
  { apply Nat.ltb_ge. rewrite app_length. unfold len, HDR in *. lia. }
  unfold cmsg. fold len. rewrite <- !app_assoc.
  rewrite (firstn_app_exact (le_bytes 8 len)) by apply le_bytes_length.
  rewrite le_val_bytes by (unfold len, HDR; simpl N.of_nat; change (256 ^ 8) with 18446744073709551616; change (2 ^ 32) with 4294967296 in Hd; lia).
  assert (len <? HDR = false) as -> by (apply N.ltb_ge; unfold len; lia).
  assert (N.of_nat (length (le_bytes 8 len ++ le_bytes 4 SOL_SOCKET ++ le_bytes 4 typ ++ data ++
             repeat 0 (N.to_nat (align8 len - len)) ++ rest)) <? len = false) as ->.
  { apply N.ltb_ge. rewrite !app_length, !le_bytes_length, repeat_length. unfold len, HDR in *. lia. }
  cbn [orb].
  change 16%nat with (8 + (4 + 4))%nat. change 12%nat with (8 + 4)%nat. rewrite !skipn_add.
  assert (forall b, skipn 8 (le_bytes 8 len ++ b) = b) as E8 by (intros; apply skipn_app_exact, le_bytes_length).
  assert (forall v b, skipn 4 (le_bytes 4 v ++ b) = b) as E4 by (intros; apply skipn_app_exact, le_bytes_length).
  assert (forall v b, firstn 4 (le_bytes 4 v ++ b) = le_bytes 4 v) as F4 by (intros; apply firstn_app_exact, le_bytes_length).
  rewrite !E8. repeat (first [rewrite E4 | rewrite F4]).
  rewrite (le_val_bytes 4 SOL_SOCKET) by (vm_compute; reflexivity).
  rewrite (le_val_bytes 4 typ) by (simpl N.of_nat; change (256 ^ 4) with 4294967296; change (2^32) with 4294967296 in Ht; lia).
  rewrite (firstn_app_exact data) by (unfold len, HDR; lia).
  (* skip the whole aligned message *)
  assert (skipn (N.to_nat (align8 len))
            (le_bytes 8 len ++ le_bytes 4 SOL_SOCKET ++ le_bytes 4 typ ++ data ++ repeat 0 (N.to_nat (align8 len - len)) ++ rest) = rest) as ->.
  { rewrite !app_assoc. apply skipn_app_exact.
    rewrite !app_length, !le_bytes_length, repeat_length. unfold len, HDR in *. lia. }
  reflexivity.
Qed.


Lemma chunks4_flat : forall fds fuel, (4 * length fds <= fuel)%nat -> Forall (fun f => f < 2 ^ 32) fds ->
  chunks4 fuel (flat_map (le_bytes 4) fds) = fds.
Proof.
  induction fds as [|x r IH]; intros fuel Hf Hall.
  - destruct fuel; reflexivity.
  - simpl length in Hf. destruct fuel as [|fuel]; [lia|]. inversion Hall; subst.
    cbn [flat_map chunks4]. destruct (le_bytes 4 x ++ flat_map (le_bytes 4) r) eqn:E.
    { assert (length (le_bytes 4 x ++ flat_map (le_bytes 4) r) = 0%nat) as Hl by (rewrite E; reflexivity).
      rewrite app_length, le_bytes_length in Hl. lia. }
    rewrite <- E. rewrite (firstn_app_exact (le_bytes 4 x)) by apply le_bytes_length.
    rewrite (skipn_app_exact (le_bytes 4 x)) by apply le_bytes_length.
    rewrite le_val_bytes by (simpl N.of_nat; change (256 ^ 4) with 4294967296; change (2^32) with 4294967296 in *; lia).
    f_equal. apply IH; [lia|assumption].
Qed.

Lemma flat_len fds : length (flat_map (le_bytes 4) fds) = (4 * length fds)%nat.
Proof. induction fds as [|x r IH]; [reflexivity|]. cbn [flat_map length]. rewrite app_length, le_bytes_length, IH. lia. Qed.

Definition wf_cred (c : ucred) : Prop := c_pid c < 2 ^ 32 /\ c_uid c < 2 ^ 32 /\ c_gid c < 2 ^ 32.

Lemma parse_nil f : parse_scm (S f) [] = Some [].
Proof. reflexivity. Qed.

Definition cred_data (c : ucred) : list N := le_bytes 4 (c_pid c) ++ le_bytes 4 (c_uid c) ++ le_bytes 4 (c_gid c).

Lemma cred_data_back c : wf_cred c ->
  length (cred_data c) = 12%nat /\
  {| c_pid := le_val (firstn 4 (cred_data c)); c_uid := le_val (firstn 4 (skipn 4 (cred_data c)));
     c_gid := le_val (firstn 4 (skipn 8 (cred_data c))) |} = c.
Proof.
  intros [H1 [H2 H3]]. unfold cred_data. split.
  - rewrite !app_length, !le_bytes_length. reflexivity.
  - assert (forall v b, skipn 4 (le_bytes 4 v ++ b) = b) as E4 by (intros; apply skipn_app_exact, le_bytes_length).
    assert (forall v b, firstn 4 (le_bytes 4 v ++ b) = le_bytes 4 v) as F4 by (intros; apply firstn_app_exact, le_bytes_length).
    change 8%nat with (4 + 4)%nat. rewrite skipn_add. rewrite !E4, !F4.
    rewrite <- (app_nil_r (le_bytes 4 (c_gid c))), F4.
    rewrite !le_val_bytes by (simpl N.of_nat; change (256 ^ 4) with 4294967296; change (2^32) with 4294967296 in *; lia).
    destruct c; reflexivity.
Qed.

Lemma rights_data_back fds : Forall (fun f => f < 2 ^ 32) fds ->
  Nat.eqb (Nat.modulo (length (flat_map (le_bytes 4) fds)) 4) 0 = true /\
  chunks4 (length (flat_map (le_bytes 4) fds)) (flat_map (le_bytes 4) fds) = fds.
Proof.
  intros H. rewrite flat_len. split.
  - rewrite Nat.mul_comm, Nat.mod_mul by discriminate. reflexivity.
  - apply chunks4_flat; [lia|exact H].
Qed.

(** what is attached by the sender is what the receiver parses: the same descriptors in the same
    order, the same credentials *)
Theorem oob_roundtrip fds cred :
  Forall (fun f => f < 2 ^ 32) fds -> N.of_nat (length fds) < 2 ^ 28 ->
  match cred with Some c => wf_cred c | None => True end ->
  decode_oob (encode_oob fds cred) = Some (fds, cred).
Proof.
  intros Hfds Hn Hc. unfold decode_oob, encode_oob.
  assert (N.of_nat (length (flat_map (le_bytes 4) fds)) < 2 ^ 32) as Hdl.
  { rewrite flat_len. change (2^32) with 4294967296. change (2^28) with 268435456 in Hn. lia. }
  destruct (rights_data_back fds Hfds) as [Hmod Hchunks].
  destruct fds as [|f0 fr]; destruct cred as [c|]; cbv iota.
  - (* credentials only *)
    destruct (cred_data_back c Hc) as [Hl Hback].
    unfold unix_credentials. fold (cred_data c). simpl app.
    rewrite <- (app_nil_r (cmsg SCM_CREDENTIALS (cred_data c))).
    assert (exists n, length (cmsg SCM_CREDENTIALS (cred_data c) ++ []) = S n) as [n ->].
    { rewrite app_nil_r. pose proof (cmsg_length SCM_CREDENTIALS (cred_data c)) as H. rewrite Hl in H.
      destruct (length (cmsg SCM_CREDENTIALS (cred_data c))); [vm_compute in H; discriminate|eauto]. }
    rewrite parse_one; [|vm_compute; reflexivity|rewrite Hl; vm_compute; reflexivity].
    rewrite parse_nil. cbn [parse_msg]. change (SOL_SOCKET =? SOL_SOCKET) with true. cbn [negb].
    change (SCM_CREDENTIALS =? SCM_CREDENTIALS) with true. cbv iota. rewrite Hl. cbn [Nat.eqb]. rewrite Hback. reflexivity.
  - (* nothing attached *)
    reflexivity.
  - (* descriptors and credentials *)
    destruct (cred_data_back c Hc) as [Hl Hback]. set (fds := f0 :: fr) in *.
    set (d1 := flat_map (le_bytes 4) fds) in *.
    change (unix_rights fds) with (cmsg SCM_RIGHTS d1).
    unfold unix_credentials. fold (cred_data c).
    rewrite <- (app_nil_r (cmsg SCM_CREDENTIALS (cred_data c))).
    assert (exists n, length (cmsg SCM_RIGHTS d1 ++ cmsg SCM_CREDENTIALS (cred_data c) ++ []) = S (S n)) as [n ->].
    { rewrite app_nil_r, app_length.
      pose proof (cmsg_length SCM_CREDENTIALS (cred_data c)) as H. rewrite Hl in H.
      pose proof (cmsg_length SCM_RIGHTS d1) as H'. pose proof (align8_ge (HDR + N.of_nat (length d1))) as [Ha _].
      destruct (length (cmsg SCM_CREDENTIALS (cred_data c))) as [|a]; [vm_compute in H; discriminate|].
      destruct (length (cmsg SCM_RIGHTS d1)) as [|b]; [unfold HDR in *; lia|]. exists (a + b)%nat. lia. }
    rewrite parse_one; [|vm_compute; reflexivity|exact Hdl].
    rewrite parse_one; [|vm_compute; reflexivity|rewrite Hl; vm_compute; reflexivity].
    rewrite parse_nil. cbn [parse_msg]. change (SOL_SOCKET =? SOL_SOCKET) with true. cbn [negb].
    change (SCM_RIGHTS =? SCM_CREDENTIALS) with false. change (SCM_RIGHTS =? SCM_RIGHTS) with true.
    change (SCM_CREDENTIALS =? SCM_CREDENTIALS) with true. cbv iota.
    rewrite Hmod, Hchunks, Hl. cbn [Nat.eqb]. rewrite Hback. reflexivity.
  - (* descriptors only *)
    set (fds := f0 :: fr) in *. set (d1 := flat_map (le_bytes 4) fds) in *.
    change (unix_rights fds) with (cmsg SCM_RIGHTS d1).
    assert (exists n, length (cmsg SCM_RIGHTS d1 ++ []) = S n) as [n ->].
    { rewrite app_nil_r. pose proof (cmsg_length SCM_RIGHTS d1) as H'. pose proof (align8_ge (HDR + N.of_nat (length d1))) as [Ha _].
      destruct (length (cmsg SCM_RIGHTS d1)) as [|b]; [unfold HDR in *; lia|eauto]. }
    rewrite parse_one; [|vm_compute; reflexivity|exact Hdl].
    rewrite parse_nil. cbn [parse_msg]. change (SOL_SOCKET =? SOL_SOCKET) with true. cbn [negb].
    change (SCM_RIGHTS =? SCM_CREDENTIALS) with false. change (SCM_RIGHTS =? SCM_RIGHTS) with true. cbv iota.
    rewrite Hmod, Hchunks. reflexivity.
Qed.

Example oob_example :
  decode_oob (encode_oob [3; 5; 260] (Some {| c_pid := 1234; c_uid := 0; c_gid := 1000 |}))
  = Some ([3; 5; 260], Some {| c_pid := 1234; c_uid := 0; c_gid := 1000 |}).
Proof. vm_compute. reflexivity. Qed.

(** unixsocket.SendMsg / RecvMsg over a SEQPACKET socket, and the gob-framed
    layer of the container protocol (one value per packet, 32 KiB cap checked by
    the sender).  The gob codec is abstracted to what matters for framing: a
    type's descriptor is transmitted with the first value of that type. *)
From Coq Require Export List Arith NArith Bool Lia.
From GS Require Export Socket.Oob.
Export ListNotations.

(** ** raw layer *)
Record packet := { p_data : list N; p_fds : list nat; p_cred : option ucred }.

(** what the kernel hands to a receiver with a data buffer of [B] bytes and
    room for [maxfds] descriptors in the control buffer (rule SK2: descriptors
    are installed even when data or control is truncated) *)
Record delivery := { d_data : list N; d_fds : list nat; d_cred : option ucred; d_trunc : bool; d_ctrunc : bool }.

Definition deliver (B maxfds : nat) (p : packet) : delivery :=
  {| d_data := firstn B (p_data p); d_fds := firstn maxfds (p_fds p); d_cred := p_cred p;
     d_trunc := Nat.ltb B (length (p_data p)); d_ctrunc := Nat.ltb maxfds (length (p_fds p)) |}.

Inductive rres :=
| ROk (data : list N) (fds : list nat) (cred : option ucred)
| RErr (closed : list nat) (still_open : list nat).   (* descriptors the kernel installed for the rejected message *)

(** RecvMsg.  [fixed]: the descriptors of a rejected message are closed
    (the pinned tree returned before looking at the control data). *)
Definition recv_msg (fixed : bool) (d : delivery) : rres :=
  if d_trunc d || d_ctrunc d then
    (if fixed then RErr (d_fds d) [] else RErr [] (d_fds d))
  else ROk (d_data d) (d_fds d) (d_cred d).

(** ** framed layer *)
Inductive item := Desc (t : nat) | Val (t v : nat).

Fixpoint tmem (t : nat) (l : list nat) : bool :=
  match l with [] => false | x :: r => Nat.eqb t x || tmem t r end.

(** Encoder.Encode into the (reset) send buffer *)
Definition encode (known : list nat) (t v : nat) : list nat * list item :=
  if tmem t known then (known, [Val t v]) else (t :: known, [Desc t; Val t v]).

Section Framed.
  Variable size : list item -> nat.     (* encoded size of a buffer *)
  Variable cap : nat.                   (* bufferSize *)

  (** SendMsg: None = "payload too large", nothing reaches the wire — but the
      encoder has already recorded the type as described *)
  Definition send (known : list nat) (t v : nat) : list nat * option (list item) :=
    let '(known', items) := encode known t v in
    if Nat.ltb cap (size items) then (known', None) else (known', Some items).

  (** Decoder.Decode of one packet *)
  Fixpoint decode (known : list nat) (items : list item) : list nat * option (nat * nat) :=
    match items with
    | [] => (known, None)
    | Desc t :: r => decode (t :: known) r
    | Val t v :: _ => if tmem t known then (known, Some (t, v)) else (known, None)
    end.

  (** the same with an explicit per-message flag "the packet did not reach the wire" (rejected for
      its size, or refused by sendmsg): used by the correspondence run *)
  Fixpoint run_lost (ek dk : list nat) (msgs : list (nat * nat * bool)) : list (option (nat * nat)) :=
    match msgs with
    | [] => []
    | (t, v, lost) :: r =>
        let '(ek', items) := encode ek t v in
        if lost then run_lost ek' dk r
        else let '(dk', got) := decode dk items in got :: run_lost ek' dk' r
    end.

  (** a history of sends; the receiver decodes every packet that reached the wire *)
  Fixpoint run (ek dk : list nat) (msgs : list (nat * nat)) : list (option (nat * nat)) :=
    match msgs with
    | [] => []
    | (t, v) :: r =>
        let '(ek', sent) := send ek t v in
        match sent with
        | None => run ek' dk r                                   (* rejected by the sender *)
        | Some items => let '(dk', got) := decode dk items in got :: run ek' dk' r
        end
    end.

  Definition fits (ek : list nat) (m : nat * nat) : bool :=
    negb (Nat.ltb cap (size (snd (encode ek (fst m) (snd m))))).

  (** every message of the history is within the cap when it is sent *)
  Fixpoint all_fit (ek : list nat) (l : list (nat * nat)) : Prop :=
    match l with
    | [] => True
    | m :: r => fits ek m = true /\ all_fit (fst (encode ek (fst m) (snd m))) r
    end.
End Framed.

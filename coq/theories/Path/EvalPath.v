(** Executable comparison for the correspondence run of C02. *)
From Coq Require Import List Bool Arith NArith ZArith.
From GS Require Import Path.Resolve Path.Handle.
Import ListNotations.

(** a finite forest; the root is a directory *)
Definition fs_of (entries : list (list nat * node)) : forest :=
  fun c => match c with
           | [] => Some Dir
           | _ => match find (fun e => lnat_eqb (fst e) c) entries with Some e => Some (snd e) | None => None end
           end.

(** what the program reported as the kernel's resolution: a path, an error, or a case the probe cannot decide *)
Inductive truth := TPath (c : list nat) | TErr | TSkip.

(** one consultation: base directory, absolute?, pathname, observed presented path, kernel's resolution following / not following *)
Definition chk := (list nat * bool * path * list nat * truth * truth)%type.

Definition kernel_ok (fs : forest) (follow : bool) (base : list nat) (a : bool) (p : path) (t : truth) : bool :=
  match t, kernel_resolution fs follow base a p with
  | TSkip, _ => true
  | TPath c, KOk c' => lnat_eqb c c'
  | TErr, KOk _ => false
  | TErr, _ => true
  | TPath _, _ => false
  end.

(** the entries whose target depends on the reader: (candidate, the tracee's entry) *)
Definition special_of (l : list (list nat * list nat)) : list nat -> option (list nat) :=
  fun c => match find (fun e => lnat_eqb (fst e) c) l with Some e => Some (snd e) | None => None end.

Definition chk_ok (fs : forest) (sp : list nat -> option (list nat)) (x : chk) : bool :=
  let '(base, a, p, obs, tf, tn) := x in
  lnat_eqb (presented_m fs sp base a p) obs && kernel_ok fs true base a p tf && kernel_ok fs false base a p tn.

(** which consultations of one forest disagree *)
Fixpoint indexed {A} (i : N) (l : list A) : list (N * A) :=
  match l with [] => [] | x :: r => (i, x) :: indexed (N.succ i) r end.
Definition failing {A} (ok : A -> bool) (l : list A) : list N :=
  flat_map (fun '(i, x) => if ok x then [] else [i]) (indexed 0%N l).
Definition forest_failing (x : list (list nat * node) * list (list nat * list nat) * list chk) : list N :=
  let '(ents, sp, chks) := x in
  let fs := fs_of ents in failing (chk_ok fs (special_of sp)) chks.

(** numeric form of the tables, compared with the driver's copy and with the classes observed *)
Definition cls_code (c : cls) : list N :=
  match c with CRead => [0] | CWrite => [1] | CStat => [2] | COpenFlags a => [3; N.of_nat a] | COpenHow a => [4; N.of_nat a] end%N.
Definition follow_code (f : follow_rule) : list N :=
  match f with Follows => [0] | Never => [1] | UnlessFlag a b => [2; N.of_nat a; b] | OnlyIfFlag a b => [3; N.of_nat a; b] | ByOpenHow => [4] end%N.
Definition check_code (c : check) : list N :=
  let '(d, p, k) := c in (match d with Some a => N.of_nat (S a) | None => 0%N end) :: N.of_nat p :: cls_code k.
Definition abi_code : list (list (list N)) := map (fun s => map (fun r => check_code (fst r) ++ follow_code (snd r)) (abi_table s)) all_sc.
Definition handle_code : list (list (list N)) := map (fun s => map check_code (handle_table s)) all_sc.

Definition acls_code (a : acls) : N := match a with ARead => 0 | AWrite => 1 | AStat => 2 end%N.
(** (index of the call in all_sc, flag word if readable, classes observed in order) *)
Definition classes_ok (x : nat * option N * list N) : bool :=
  let '(i, fl, obs) := x in
  match nth_error all_sc i with
  | Some s => let want := map (fun c => acls_code (class_of (snd c) fl)) (handle_table s) in
              (length want =? length obs) && forallb (fun '(a, b) => N.eqb a b) (combine want obs)
  | None => false
  end.

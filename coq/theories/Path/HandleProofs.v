From Coq Require Import List Bool Arith NArith ZArith Lia.
From GS Require Import Path.Handle.
Import ListNotations.

Theorem handle_table_abi : forall s, handle_table s = map fst (abi_table s).
Proof. destruct s; reflexivity. Qed.

Lemma land_bit_zero f k : N.land f (2 ^ k) = 0%N -> N.testbit f k = false.
Proof.
  intros H. assert (N.testbit (N.land f (2 ^ k)) k = false) as T by (rewrite H; apply N.bits_0).
  rewrite N.land_spec, N.pow2_bits_true, andb_true_r in T. exact T.
Qed.

Theorem open_class : forall f, can_modify f = true -> is_open_read_only f = false.
Proof.
  intros f H. unfold can_modify, is_open_read_only in *.
  destruct (N.eqb (N.land f 3) 0) eqn:E3; [|reflexivity]. simpl in *.
  destruct (N.eqb (N.land f 64) 0) eqn:E6; [|reflexivity].
  destruct (N.eqb (N.land f 512) 0) eqn:E9; [|rewrite andb_false_r; reflexivity].
  apply N.eqb_eq in E6, E9. change 64%N with (2 ^ 6)%N in E6. change 512%N with (2 ^ 9)%N in E9.
  rewrite (land_bit_zero f 6 E6), (land_bit_zero f 9 E9) in H. discriminate.
Qed.

Theorem open_how_unreadable : forall a, class_of (COpenHow a) None = AWrite.
Proof. reflexivity. Qed.

Theorem open_class_of : forall a f, can_modify f = true -> class_of (COpenFlags a) (Some f) = AWrite /\ class_of (COpenHow a) (Some f) = AWrite.
Proof. intros a f H. simpl. rewrite (open_class f H). split; reflexivity. Qed.

(** only the low half of the register counts *)
Theorem dirfd_upper_half_ignored : forall hi lo, (lo < 4294967296)%N -> dirfd_of (hi * 4294967296 + lo) = dirfd_of lo.
Proof.
  intros hi lo H. unfold dirfd_of, low32.
  assert ((hi * 4294967296 + lo) mod 4294967296 = lo mod 4294967296)%N as ->; [|reflexivity].
  rewrite N.add_comm, N.mod_add by discriminate. reflexivity.
Qed.

Theorem fdcwd_any_encoding : forall hi, base_of (hi * 4294967296 + 4294967196) = BCwd.
Proof.
  intros hi. unfold base_of. rewrite dirfd_upper_half_ignored by reflexivity. reflexivity.
Qed.

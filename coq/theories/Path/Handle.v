(** Per-syscall decoding of runner/ptrace/handle_linux.go (Handle), the ABI of the traced path syscalls
    written from their manual pages, the access class of an open, and the decoding of a dirfd register. *)
From Coq Require Import List Bool Arith NArith ZArith Lia.
Import ListNotations.

Inductive sc :=
| Open | Openat | Openat2 | Readlink | Readlinkat | Unlink | Unlinkat | Mkdirat | Mknodat | Symlinkat
| Fchmodat | Fchmodat2 | Linkat | Renameat | Renameat2 | Access | Faccessat | Faccessat2
| Stat | Stat64 | Lstat | Lstat64 | Statx | Fstatat | Fstatat64 | Newfstatat | Execve | Execveat | Chmod | Rename.

Definition all_sc : list sc :=
  [Open; Openat; Openat2; Readlink; Readlinkat; Unlink; Unlinkat; Mkdirat; Mknodat; Symlinkat;
   Fchmodat; Fchmodat2; Linkat; Renameat; Renameat2; Access; Faccessat; Faccessat2;
   Stat; Stat64; Lstat; Lstat64; Statx; Fstatat; Fstatat64; Newfstatat; Execve; Execveat; Chmod; Rename].

(** how the access class is chosen *)
Inductive cls := CRead | CWrite | CStat | COpenFlags (arg : nat) | COpenHow (arg : nat).

(** one consultation of the policy: (argument holding the dirfd, if any; argument holding the pathname; class) *)
Definition check := (option nat * nat * cls)%type.

(** the switch in Handle *)
Definition handle_table (s : sc) : list check :=
  match s with
  | Open => [(None, 0, COpenFlags 1)]
  | Openat => [(Some 0, 1, COpenFlags 2)]
  | Openat2 => [(Some 0, 1, COpenHow 2)]
  | Readlink => [(None, 0, CRead)]
  | Readlinkat => [(Some 0, 1, CRead)]
  | Unlink => [(None, 0, CWrite)]
  | Unlinkat => [(Some 0, 1, CWrite)]
  | Mkdirat | Mknodat | Fchmodat | Fchmodat2 => [(Some 0, 1, CWrite)]
  | Symlinkat => [(Some 1, 2, CWrite)]
  | Linkat | Renameat | Renameat2 => [(Some 0, 1, CWrite); (Some 2, 3, CWrite)]
  | Access => [(None, 0, CStat)]
  | Faccessat | Faccessat2 => [(Some 0, 1, CStat)]
  | Stat | Stat64 | Lstat | Lstat64 => [(None, 0, CStat)]
  | Statx | Fstatat | Fstatat64 | Newfstatat => [(Some 0, 1, CStat)]
  | Execve => [(None, 0, CRead)]
  | Execveat => [(Some 0, 1, CRead)]
  | Chmod => [(None, 0, CWrite)]
  | Rename => [(None, 0, CWrite); (None, 1, CWrite)]
  end.

(** when the last component is followed *)
Inductive follow_rule :=
| Follows                       (* always *)
| Never                         (* the call acts on the name itself *)
| UnlessFlag (arg : nat) (bit : N)   (* followed unless the bit is set in that argument (AT_SYMLINK_NOFOLLOW 0x100, O_NOFOLLOW 0x20000) *)
| OnlyIfFlag (arg : nat) (bit : N)   (* linkat: AT_SYMLINK_FOLLOW 0x400 *)
| ByOpenHow.

(** the ABI (man 2 of each call, x86-64 argument order): for every pathname the call takes *)
Definition abi_table (s : sc) : list (check * follow_rule) :=
  match s with
  | Open => [((None, 0, COpenFlags 1), UnlessFlag 1 131072)]
  | Openat => [((Some 0, 1, COpenFlags 2), UnlessFlag 2 131072)]
  | Openat2 => [((Some 0, 1, COpenHow 2), ByOpenHow)]
  | Readlink => [((None, 0, CRead), Never)]
  | Readlinkat => [((Some 0, 1, CRead), Never)]
  | Unlink => [((None, 0, CWrite), Never)]
  | Unlinkat => [((Some 0, 1, CWrite), Never)]
  | Mkdirat | Mknodat => [((Some 0, 1, CWrite), Never)]
  | Symlinkat => [((Some 1, 2, CWrite), Never)]
  | Fchmodat => [((Some 0, 1, CWrite), Follows)]
  | Fchmodat2 => [((Some 0, 1, CWrite), UnlessFlag 3 256)]
  | Linkat => [((Some 0, 1, CWrite), OnlyIfFlag 4 1024); ((Some 2, 3, CWrite), Never)]
  | Renameat | Renameat2 => [((Some 0, 1, CWrite), Never); ((Some 2, 3, CWrite), Never)]
  | Access => [((None, 0, CStat), Follows)]
  | Faccessat => [((Some 0, 1, CStat), Follows)]
  | Faccessat2 => [((Some 0, 1, CStat), UnlessFlag 3 256)]
  | Stat | Stat64 => [((None, 0, CStat), Follows)]
  | Lstat | Lstat64 => [((None, 0, CStat), Never)]
  | Statx => [((Some 0, 1, CStat), UnlessFlag 2 256)]
  | Fstatat | Fstatat64 | Newfstatat => [((Some 0, 1, CStat), UnlessFlag 3 256)]
  | Execve => [((None, 0, CRead), Follows)]
  | Execveat => [((Some 0, 1, CRead), UnlessFlag 4 256)]
  | Chmod => [((None, 0, CWrite), Follows)]
  | Rename => [((None, 0, CWrite), Never); ((None, 1, CWrite), Never)]
  end.

(** ** access class of an open *)
Definition is_open_read_only (f : N) : bool :=
  N.eqb (N.land f 3) 0 && N.eqb (N.land f 64) 0 && N.eqb (N.land f 128) 0 && N.eqb (N.land f 512) 0.

(** an open that can write (access mode not O_RDONLY), create (O_CREAT, bit 6) or truncate (O_TRUNC, bit 9) *)
Definition can_modify (f : N) : bool := negb (N.eqb (N.land f 3) 0) || N.testbit f 6 || N.testbit f 9.

Inductive acls := ARead | AWrite | AStat.
(** the class asked for: [flags] is the flag word when it could be read (None: open_how unreadable) *)
Definition class_of (c : cls) (flags : option N) : acls :=
  match c with
  | CRead => ARead | CWrite => AWrite | CStat => AStat
  | COpenFlags _ | COpenHow _ => match flags with Some f => if is_open_read_only f then ARead else AWrite | None => AWrite end
  end.

(** ** the dirfd register: the kernel reads an int, i.e. the low 32 bits, sign-extended *)
Definition low32 (r : N) : N := N.modulo r 4294967296.
Definition dirfd_of (r : N) : Z := let l := low32 r in if N.ltb l 2147483648 then Z.of_N l else (Z.of_N l - 4294967296)%Z.
Inductive base_sel := BCwd | BFd (n : N) | BInvalid.
Definition base_of (r : N) : base_sel :=
  let d := dirfd_of r in if Z.eqb d (-100) then BCwd else if Z.ltb d 0 then BInvalid else BFd (Z.to_N d).

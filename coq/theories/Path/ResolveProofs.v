From Coq Require Import List Bool Arith Lia.
From GS Require Import Path.Resolve.
Import ListNotations.

Definition chain (fs : forest) (c : list nat) : Prop := dir_chain fs [] c.

Lemma dir_chain_app fs : forall c pre n, dir_chain fs pre c -> fs (pre ++ c ++ [n]) = Some Dir -> dir_chain fs pre (c ++ [n]).
Proof.
  induction c as [|x r IH]; intros pre n Hc Hn; simpl in *.
  - split; [exact Hn|exact I].
  - destruct Hc as [Hx Hr]. split; [exact Hx|]. apply IH; [exact Hr|]. rewrite <- app_assoc. simpl. exact Hn.
Qed.

Lemma dir_chain_removelast fs : forall c pre, dir_chain fs pre c -> dir_chain fs pre (removelast c).
Proof.
  induction c as [|x r IH]; intros pre Hc; simpl in *; [exact I|].
  destruct r as [|y r']; [exact I|]. destruct Hc as [Hx Hr]. split; [exact Hx|]. apply IH. exact Hr.
Qed.

Lemma chain_parent fs c : chain fs c -> chain fs (parent c).
Proof. apply dir_chain_removelast. Qed.

Lemma chain_snoc fs c n : chain fs c -> fs (c ++ [n]) = Some Dir -> chain fs (c ++ [n]).
Proof. intros H1 H2. apply dir_chain_app; assumption. Qed.

(** walking the names of a chain of directories arrives in that directory *)
Lemma kwalk_prefix fs f : forall c pre rem, dir_chain fs pre c -> kwalk fs f pre (names c ++ rem) = kwalk fs f (pre ++ c) rem.
Proof.
  induction c as [|n r IH]; intros pre rem Hc; simpl in *.
  - rewrite app_nil_r. reflexivity.
  - destruct Hc as [Hn Hr]. rewrite Hn. fold (names r). rewrite IH by exact Hr. rewrite <- app_assoc. reflexivity.
Qed.

Lemma cwalk_prefix fs : forall c pre rem, dir_chain fs pre c -> cwalk fs pre (names c ++ rem) = cwalk fs (pre ++ c) rem.
Proof.
  induction c as [|n r IH]; intros pre rem Hc; simpl in *.
  - rewrite app_nil_r. reflexivity.
  - destruct Hc as [Hn Hr]. rewrite Hn. fold (names r). rewrite IH by exact Hr. rewrite <- app_assoc. reflexivity.
Qed.

Lemma clean_prefix : forall c pre rem, clean pre (names c ++ rem) = clean (pre ++ c) rem.
Proof.
  induction c as [|n r IH]; intros pre rem; simpl.
  - rewrite app_nil_r. reflexivity.
  - fold (names r). rewrite IH. rewrite <- app_assoc. reflexivity.
Qed.

(** one walk of the code follows the kernel's walk as long as the kernel does not fail *)
Lemma walk_sim fs : forall rem cur, chain fs cur ->
  match kwalk fs true cur rem with
  | Done c => cwalk fs cur rem = CDone c
  | Hit c a t r => cwalk fs cur rem = CHit ((if a then t else names c ++ t) ++ r) /\ chain fs c
  | Fail => True
  end.
Proof.
  induction rem as [|x r IH]; intros cur Hc; simpl.
  - reflexivity.
  - destruct x as [| |n].
    + apply IH. apply chain_parent. exact Hc.
    + apply IH. exact Hc.
    + destruct (fs (cur ++ [n])) as [[| |a t]|] eqn:E.
      * apply IH. apply chain_snoc; assumption.
      * destruct r; [reflexivity|exact I].
      * destruct r; (split; [reflexivity|exact Hc]).
      * destruct r; [reflexivity|exact I].
Qed.

Lemma clean_walk fs : forall rem cur c, kwalk fs true cur rem = Done c -> clean cur rem = c.
Proof.
  induction rem as [|x r IH]; intros cur c H; simpl in *.
  - congruence.
  - destruct x as [| |n]; try (apply IH; exact H).
    destruct (fs (cur ++ [n])) as [[| |a t]|] eqn:E.
    + apply IH. exact H.
    + destruct r; [simpl; congruence|discriminate].
    + destruct r; discriminate.
    + destruct r; [simpl; congruence|discriminate].
Qed.

(** the resolution of the code equals the kernel's, for the same number of link expansions *)
Theorem resolve_sound fs : forall n cur rem c, chain fs cur -> kres n fs true cur rem = KOk c -> cres n fs (names cur ++ rem) = c.
Proof.
  induction n as [|n IH]; intros cur rem c Hc H.
  - simpl in *. rewrite clean_prefix. simpl. destruct (kwalk fs true cur rem) eqn:E; try discriminate.
    injection H as <-. eapply clean_walk. exact E.
  - cbn [cres]. rewrite (cwalk_prefix fs cur [] rem Hc). simpl app.
    cbn [kres] in H. pose proof (walk_sim fs rem cur Hc) as S.
    destruct (kwalk fs true cur rem) as [c'|c' a t r|] eqn:E; try discriminate.
    + rewrite S. congruence.
    + destruct S as [S Hc']. rewrite S. destruct a.
      * apply (IH [] (t ++ r) c I H).
      * rewrite <- app_assoc. apply (IH c' (t ++ r) c Hc' H).
Qed.

(** calls that do not follow a link in the last component: the same, unless the object reached is a link *)
Lemma kwalk_nofollow fs : forall rem cur,
  match kwalk fs false cur rem with
  | Done c => (exists a t, fs c = Some (Link a t)) \/ kwalk fs true cur rem = Done c
  | w => kwalk fs true cur rem = w
  end.
Proof.
  induction rem as [|x r IH]; intros cur; simpl.
  - right. reflexivity.
  - destruct x as [| |n]; try apply IH.
    destruct (fs (cur ++ [n])) as [[| |a t]|] eqn:E.
    + apply IH.
    + destruct r; [right|]; reflexivity.
    + destruct r; [left; eauto|reflexivity].
    + destruct r; [right|]; reflexivity.
Qed.

Lemma kres_nofollow fs : forall n cur rem c, kres n fs false cur rem = KOk c -> (forall a t, fs c <> Some (Link a t)) -> kres n fs true cur rem = KOk c.
Proof.
  induction n as [|n IH]; intros cur rem c H Hn; cbn [kres] in *; pose proof (kwalk_nofollow fs rem cur) as K;
    destruct (kwalk fs false cur rem) as [c'|c' a t r|] eqn:E; try discriminate.
  - injection H as ->. destruct K as [[a [t Ht]]|K]; [exfalso; exact (Hn a t Ht)|]. rewrite K. reflexivity.
  - injection H as ->. destruct K as [[a [t Ht]]|K]; [exfalso; exact (Hn a t Ht)|]. rewrite K. reflexivity.
  - rewrite K. apply IH; assumption.
Qed.

Theorem presented_sound fs base is_abs p c : chain fs base ->
  kernel_resolution fs true base is_abs p = KOk c -> presented fs base is_abs p = c.
Proof.
  unfold kernel_resolution, presented. intros Hc H. destruct is_abs.
  - apply (resolve_sound fs 40 [] p c I). destruct p; exact H.
  - apply (resolve_sound fs 40 base p c Hc). destruct p; [discriminate|exact H].
Qed.

Theorem presented_sound_nofollow fs base is_abs p c : chain fs base ->
  kernel_resolution fs false base is_abs p = KOk c -> (forall a t, fs c <> Some (Link a t)) -> presented fs base is_abs p = c.
Proof.
  intros Hc H Hn. apply presented_sound; [exact Hc|]. unfold kernel_resolution in *.
  destruct is_abs; destruct p; try discriminate; apply kres_nofollow; assumption.
Qed.

(** the limit: a no-follow call on a link is presented with the link's target *)
Definition fs_link : forest := fun c => match c with [] => Some Dir | [1] => Some Dir | [1; 2] => Some (Link true [Name 3]) | [3] => Some File | _ => None end.
Lemma nofollow_refuted : exists fs base p c, chain fs base /\ kernel_resolution fs false base false p = KOk c /\ presented fs base false p <> c.
Proof. exists fs_link, [1], [Name 2], [1; 2]. split; [unfold chain; simpl; tauto|]. split; [reflexivity|]. vm_compute. intros H; discriminate H. Qed.

(** non-vacuity: a resolution through a relative link followed by ".." *)
Definition fs_dotdot : forest := fun c =>
  match c with [] => Some Dir | [1] => Some Dir | [1; 2] => Some Dir | [1; 2; 5] => Some File | [1; 5] => Some File
          | [1; 4] => Some (Link false [Name 2]) | _ => None end.
Example dotdot_after_link : chain fs_dotdot [1] /\ kernel_resolution fs_dotdot true [1] false [Name 4; Up; Name 5] = KOk [1; 5]
  /\ presented fs_dotdot [1] false [Name 4; Up; Name 5] = [1; 5]
  /\ kernel_resolution fs_dotdot true [1] false [Name 4; Name 5] = KOk [1; 2; 5].
Proof. split; [unfold chain; simpl; tauto|]. split; [reflexivity|]. split; reflexivity. Qed.

(** ** /proc/self and /proc/thread-self: the code substitutes the tracee's entries *)
Section Magic.
Variable fs : forest.
Variable special : list nat -> option (list nat).

(** what makes a replacement right: the entry is a link in the tracee's view, and the kernel walking its target
    arrives, without meeting further links, in the directory the code substitutes *)
Definition spec_ok : Prop :=
  forall c c', special c = Some c' ->
    exists a t, fs c = Some (Link a t) /\ chain fs c' /\
                forall f r, kwalk fs f (if a then [] else parent c) (t ++ r) = kwalk fs f c' r.

Hypothesis Hs : spec_ok.

Lemma parent_snoc (c : list nat) n : parent (c ++ [n]) = c.
Proof. unfold parent. apply removelast_last. Qed.

Lemma special_not_dir c c' : special c = Some c' -> fs c <> Some Dir.
Proof. intros H. destruct (Hs c c' H) as [a [t [E _]]]. congruence. Qed.

Lemma cwalk_m_prefix : forall c pre rem, dir_chain fs pre c -> cwalk_m fs special pre (names c ++ rem) = cwalk_m fs special (pre ++ c) rem.
Proof.
  induction c as [|n r IH]; intros pre rem Hc; simpl in *.
  - rewrite app_nil_r. reflexivity.
  - destruct Hc as [Hn Hr]. destruct (special (pre ++ [n])) as [c'|] eqn:Es; [exfalso; exact (special_not_dir _ _ Es Hn)|].
    rewrite Hn. fold (names r). rewrite IH by exact Hr. rewrite <- app_assoc. reflexivity.
Qed.

(** the code from a directory [cur] with [n'] rounds left *)
Definition run_code (n' : nat) (cur : list nat) (rem : path) : list nat :=
  match n' with
  | 0 => clean cur rem
  | S m => match cwalk_m fs special cur rem with CDone c => c | CHit p => cres_m m fs special p end
  end.

Lemma cres_run n' cur rem : chain fs cur -> cres_m n' fs special (names cur ++ rem) = run_code n' cur rem.
Proof.
  intros Hc. destruct n' as [|m]; simpl.
  - rewrite clean_prefix. reflexivity.
  - rewrite (cwalk_m_prefix cur [] rem Hc). reflexivity.
Qed.

Lemma kres_unfold n f cur rem : kres n fs f cur rem =
  match kwalk fs f cur rem with
  | Done c => KOk c | Fail => KErr
  | Hit c a t r => match n with 0 => KLoop | S l => kres l fs f (if a then [] else c) (t ++ r) end
  end.
Proof. destruct n; reflexivity. Qed.

Theorem resolve_sound_m : forall n rem cur c n', chain fs cur -> n <= n' ->
  kres n fs true cur rem = KOk c -> run_code n' cur rem = c.
Proof.
  induction n as [n IHn] using lt_wf_ind.
  induction rem as [|x r IHr]; intros cur c n' Hc Hle H.
  - rewrite kres_unfold in H. simpl in H. injection H as <-. destruct n'; reflexivity.
  - destruct x as [| |m].
    + (* .. *)
      assert (kres n fs true (parent cur) r = KOk c) as H' by (rewrite kres_unfold in *; exact H).
      pose proof (IHr (parent cur) c n' (chain_parent fs cur Hc) Hle H') as R. destruct n'; exact R.
    + assert (kres n fs true cur r = KOk c) as H' by (rewrite kres_unfold in *; exact H).
      pose proof (IHr cur c n' Hc Hle H') as R. destruct n'; exact R.
    + destruct (special (cur ++ [m])) as [c'|] eqn:Es.
      * (* /proc/self: a link for the kernel, a substitution for the code *)
        destruct (Hs _ _ Es) as [a [t [Ef [Hc' Hk]]]].
        rewrite kres_unfold in H. simpl in H. rewrite Ef in H.
        assert (exists l, n = S l /\ kres l fs true (if a then [] else cur) (t ++ r) = KOk c) as [l [-> Hl]].
        { destruct r; destruct n; try discriminate; eauto. }
        rewrite kres_unfold in Hl. specialize (Hk true r). rewrite parent_snoc in Hk. rewrite Hk in Hl. rewrite <- kres_unfold in Hl.
        destruct n' as [|m']; [lia|].
        assert (run_code (S m') cur (Name m :: r) = run_code (S m') c' r) as -> by (simpl; rewrite Es; reflexivity).
        apply (IHn l ltac:(lia) r c' c (S m') Hc' ltac:(lia) Hl).
      * rewrite kres_unfold in H. simpl in H.
        destruct (fs (cur ++ [m])) as [[| |a t]|] eqn:Ef.
        -- (* directory *)
           assert (kres n fs true (cur ++ [m]) r = KOk c) as H' by (rewrite kres_unfold; exact H).
           pose proof (IHr (cur ++ [m]) c n' (chain_snoc fs cur m Hc Ef) Hle H') as R.
           destruct n'; simpl in *; [exact R|rewrite Es, Ef; exact R].
        -- (* file *)
           destruct r; [|discriminate]. injection H as <-. destruct n'; simpl; [reflexivity|rewrite Es, Ef; reflexivity].
        -- (* link *)
           assert (exists l, n = S l /\ kres l fs true (if a then [] else cur) (t ++ r) = KOk c) as [l [-> Hl]].
           { destruct r; destruct n; try discriminate; eauto. }
           destruct n' as [|m']; [lia|]. simpl. rewrite Es, Ef.
           assert (chain fs (if a then [] else cur)) as Hcb by (destruct a; [exact I|exact Hc]).
           pose proof (IHn l ltac:(lia) (t ++ r) (if a then [] else cur) c m' Hcb ltac:(lia) Hl) as R.
           rewrite <- (cres_run m' _ _ Hcb) in R. destruct a; simpl in *; [exact R|rewrite <- app_assoc; exact R].
        -- (* missing *)
           destruct r; [|discriminate]. injection H as <-. destruct n'; simpl; [reflexivity|rewrite Es, Ef; reflexivity].
Qed.

Theorem presented_sound_m base is_abs p c : chain fs base ->
  kernel_resolution fs true base is_abs p = KOk c -> presented_m fs special base is_abs p = c.
Proof.
  unfold kernel_resolution, presented_m. intros Hc H. destruct is_abs.
  - pose proof (cres_run 40 [] p I) as E. simpl app in E. rewrite E. apply (resolve_sound_m 40 p [] c 40 I (le_n _)). destruct p; exact H.
  - rewrite (cres_run 40 base p Hc). apply (resolve_sound_m 40 p base c 40 Hc (le_n _)). destruct p; [discriminate|exact H].
Qed.
End Magic.

(** a replacement is right whenever the entry is a relative link made of plain names that lead through directories *)
Lemma spec_ok_names fs (special : list nat -> option (list nat)) :
  (forall c c', special c = Some c' -> exists d, fs c = Some (Link false (names d)) /\ c' = parent c ++ d /\ chain fs (parent c) /\ dir_chain fs (parent c) d) ->
  spec_ok fs special.
Proof.
  intros H c c' Hs. destruct (H c c' Hs) as [d [Ef [-> [Hp Hd]]]]. exists false, (names d). split; [exact Ef|]. split.
  - (* chain of parent ++ d *)
    unfold chain in *. clear Ef Hs H. revert Hp Hd. generalize (parent c). intros b Hb Hd.
    assert (forall pre x, dir_chain fs pre x -> forall y, dir_chain fs (pre ++ x) y -> dir_chain fs pre (x ++ y)) as G.
    { intros pre x. revert pre. induction x as [|n r IH]; intros pre Hx y Hy; simpl in *; [rewrite app_nil_r in Hy; exact Hy|].
      destruct Hx as [Hn Hr]. split; [exact Hn|]. apply IH; [exact Hr|]. rewrite <- app_assoc. exact Hy. }
    apply (G [] b Hb d). exact Hd.
  - intros f r. apply kwalk_prefix. exact Hd.
Qed.

Lemma lnat_eqb_true : forall a b, lnat_eqb a b = true -> a = b.
Proof.
  induction a as [|x a IH]; destruct b as [|y b]; simpl; intros H; try discriminate; [reflexivity|].
  apply andb_true_iff in H. destruct H as [H1 H2]. apply Nat.eqb_eq in H1. apply IH in H2. congruence.
Qed.

Theorem proc_special_ok fs pr self tself pid task :
  fs [pr] = Some Dir -> fs [pr; pid] = Some Dir -> fs [pr; pid; task] = Some Dir -> fs [pr; pid; task; pid] = Some Dir ->
  fs [pr; self] = Some (Link false [Name pid]) -> fs [pr; tself] = Some (Link false [Name pid; Name task; Name pid]) ->
  spec_ok fs (proc_special pr self tself pid task).
Proof.
  intros H1 H2 H3 H4 H5 H6. apply spec_ok_names. intros c c' Hs. unfold proc_special in Hs.
  destruct (lnat_eqb c [pr; self]) eqn:E1.
  - apply lnat_eqb_true in E1. subst c. injection Hs as <-. exists [pid]. simpl. repeat split; auto.
  - destruct (lnat_eqb c [pr; tself]) eqn:E2; [|discriminate].
    apply lnat_eqb_true in E2. subst c. injection Hs as <-. exists [pid; task; pid]. simpl. repeat split; auto.
Qed.

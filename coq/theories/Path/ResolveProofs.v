From Coq Require Import List Bool Arith Lia.
From GS Require Import Path.Resolve.
Import ListNotations.

Definition chain (fs : forest) (c : list nat) : Prop := dir_chain fs [] c.

Lemma dir_chain_app fs : forall c pre n, dir_chain fs pre c -> fs (pre ++ c ++ [n]) = Some Dir -> dir_chain fs pre (c ++ [n]).
Proof.
  induction c as [|x r IH]; intros pre n Hc Hn; simpl in *.
  - split; [exact Hn|exact I].
  - destruct Hc as [Hx Hr]. split; [exact Hx|]. apply IH; [exact Hr|]. rewrite <- app_assoc. simpl. exact Hn.
Qed.

Lemma dir_chain_removelast fs : forall c pre, dir_chain fs pre c -> dir_chain fs pre (removelast c).
Proof.
  induction c as [|x r IH]; intros pre Hc; simpl in *; [exact I|].
  destruct r as [|y r']; [exact I|]. destruct Hc as [Hx Hr]. split; [exact Hx|]. apply IH. exact Hr.
Qed.

Lemma chain_parent fs c : chain fs c -> chain fs (parent c).
Proof. apply dir_chain_removelast. Qed.

Lemma chain_snoc fs c n : chain fs c -> fs (c ++ [n]) = Some Dir -> chain fs (c ++ [n]).
Proof. intros H1 H2. apply dir_chain_app; assumption. Qed.

(** walking the names of a chain of directories arrives in that directory *)
Lemma kwalk_prefix fs f : forall c pre rem, dir_chain fs pre c -> kwalk fs f pre (names c ++ rem) = kwalk fs f (pre ++ c) rem.
Proof.
  induction c as [|n r IH]; intros pre rem Hc; simpl in *.
  - rewrite app_nil_r. reflexivity.
  - destruct Hc as [Hn Hr]. rewrite Hn. fold (names r). rewrite IH by exact Hr. rewrite <- app_assoc. reflexivity.
Qed.

Lemma cwalk_prefix fs : forall c pre rem, dir_chain fs pre c -> cwalk fs pre (names c ++ rem) = cwalk fs (pre ++ c) rem.
Proof.
  induction c as [|n r IH]; intros pre rem Hc; simpl in *.
  - rewrite app_nil_r. reflexivity.
  - destruct Hc as [Hn Hr]. rewrite Hn. fold (names r). rewrite IH by exact Hr. rewrite <- app_assoc. reflexivity.
Qed.

Lemma clean_prefix : forall c pre rem, clean pre (names c ++ rem) = clean (pre ++ c) rem.
Proof.
  induction c as [|n r IH]; intros pre rem; simpl.
  - rewrite app_nil_r. reflexivity.
  - fold (names r). rewrite IH. rewrite <- app_assoc. reflexivity.
Qed.

(** one walk of the code follows the kernel's walk as long as the kernel does not fail *)
Lemma walk_sim fs : forall rem cur, chain fs cur ->
  match kwalk fs true cur rem with
  | Done c => cwalk fs cur rem = CDone c
  | Hit c a t r => cwalk fs cur rem = CHit ((if a then t else names c ++ t) ++ r) /\ chain fs c
  | Fail => True
  end.
Proof.
  induction rem as [|x r IH]; intros cur Hc; simpl.
  - reflexivity.
  - destruct x as [| |n].
    + apply IH. apply chain_parent. exact Hc.
    + apply IH. exact Hc.
    + destruct (fs (cur ++ [n])) as [[| |a t]|] eqn:E.
      * apply IH. apply chain_snoc; assumption.
      * destruct r; [reflexivity|exact I].
      * destruct r; (split; [reflexivity|exact Hc]).
      * destruct r; [reflexivity|exact I].
Qed.

Lemma clean_walk fs : forall rem cur c, kwalk fs true cur rem = Done c -> clean cur rem = c.
Proof.
  induction rem as [|x r IH]; intros cur c H; simpl in *.
  - congruence.
  - destruct x as [| |n]; try (apply IH; exact H).
    destruct (fs (cur ++ [n])) as [[| |a t]|] eqn:E.
    + apply IH. exact H.
    + destruct r; [simpl; congruence|discriminate].
    + destruct r; discriminate.
    + destruct r; [simpl; congruence|discriminate].
Qed.

(** the resolution of the code equals the kernel's, for the same number of link expansions *)
Theorem resolve_sound fs : forall n cur rem c, chain fs cur -> kres n fs true cur rem = KOk c -> cres n fs (names cur ++ rem) = c.
Proof.
  induction n as [|n IH]; intros cur rem c Hc H.
  - simpl in *. rewrite clean_prefix. simpl. destruct (kwalk fs true cur rem) eqn:E; try discriminate.
    injection H as <-. eapply clean_walk. exact E.
  - cbn [cres]. rewrite (cwalk_prefix fs cur [] rem Hc). simpl app.
    cbn [kres] in H. pose proof (walk_sim fs rem cur Hc) as S.
    destruct (kwalk fs true cur rem) as [c'|c' a t r|] eqn:E; try discriminate.
    + rewrite S. congruence.
    + destruct S as [S Hc']. rewrite S. destruct a.
      * apply (IH [] (t ++ r) c I H).
      * rewrite <- app_assoc. apply (IH c' (t ++ r) c Hc' H).
Qed.

(** calls that do not follow a link in the last component: the same, unless the object reached is a link *)
Lemma kwalk_nofollow fs : forall rem cur,
  match kwalk fs false cur rem with
  | Done c => (exists a t, fs c = Some (Link a t)) \/ kwalk fs true cur rem = Done c
  | w => kwalk fs true cur rem = w
  end.
Proof.
  induction rem as [|x r IH]; intros cur; simpl.
  - right. reflexivity.
  - destruct x as [| |n]; try apply IH.
    destruct (fs (cur ++ [n])) as [[| |a t]|] eqn:E.
    + apply IH.
    + destruct r; [right|]; reflexivity.
    + destruct r; [left; eauto|reflexivity].
    + destruct r; [right|]; reflexivity.
Qed.

Lemma kres_nofollow fs : forall n cur rem c, kres n fs false cur rem = KOk c -> (forall a t, fs c <> Some (Link a t)) -> kres n fs true cur rem = KOk c.
Proof.
  induction n as [|n IH]; intros cur rem c H Hn; cbn [kres] in *; pose proof (kwalk_nofollow fs rem cur) as K;
    destruct (kwalk fs false cur rem) as [c'|c' a t r|] eqn:E; try discriminate.
  - injection H as ->. destruct K as [[a [t Ht]]|K]; [exfalso; exact (Hn a t Ht)|]. rewrite K. reflexivity.
  - injection H as ->. destruct K as [[a [t Ht]]|K]; [exfalso; exact (Hn a t Ht)|]. rewrite K. reflexivity.
  - rewrite K. apply IH; assumption.
Qed.

Theorem presented_sound fs base is_abs p c : chain fs base ->
  kernel_resolution fs true base is_abs p = KOk c -> presented fs base is_abs p = c.
Proof.
  unfold kernel_resolution, presented. intros Hc H. destruct is_abs.
  - apply (resolve_sound fs 40 [] p c I). destruct p; exact H.
  - apply (resolve_sound fs 40 base p c Hc). destruct p; [discriminate|exact H].
Qed.

Theorem presented_sound_nofollow fs base is_abs p c : chain fs base ->
  kernel_resolution fs false base is_abs p = KOk c -> (forall a t, fs c <> Some (Link a t)) -> presented fs base is_abs p = c.
Proof.
  intros Hc H Hn. apply presented_sound; [exact Hc|]. unfold kernel_resolution in *.
  destruct is_abs; destruct p; try discriminate; apply kres_nofollow; assumption.
Qed.

(** the limit: a no-follow call on a link is presented with the link's target *)
Definition fs_link : forest := fun c => match c with [] => Some Dir | [1] => Some Dir | [1; 2] => Some (Link true [Name 3]) | [3] => Some File | _ => None end.
Lemma nofollow_refuted : exists fs base p c, chain fs base /\ kernel_resolution fs false base false p = KOk c /\ presented fs base false p <> c.
Proof. exists fs_link, [1], [Name 2], [1; 2]. split; [unfold chain; simpl; tauto|]. split; [reflexivity|]. vm_compute. intros H; discriminate H. Qed.

(** non-vacuity: a resolution through a relative link followed by ".." *)
Definition fs_dotdot : forest := fun c =>
  match c with [] => Some Dir | [1] => Some Dir | [1; 2] => Some Dir | [1; 2; 5] => Some File | [1; 5] => Some File
          | [1; 4] => Some (Link false [Name 2]) | _ => None end.
Example dotdot_after_link : chain fs_dotdot [1] /\ kernel_resolution fs_dotdot true [1] false [Name 4; Up; Name 5] = KOk [1; 5]
  /\ presented fs_dotdot [1] false [Name 4; Up; Name 5] = [1; 5]
  /\ kernel_resolution fs_dotdot true [1] false [Name 4; Name 5] = KOk [1; 2; 5].
Proof. split; [unfold chain; simpl; tauto|]. split; [reflexivity|]. split; reflexivity. Qed.

(** Path resolution: the kernel's walk of a (directory, pathname) pair over a forest of directories,
    files and symbolic links, and the walk of runner/ptrace/handle_linux.go (resolveTraceePath /
    resolveTraceePathOnce), both on pathnames split into components. *)
From Coq Require Import List Bool Arith.
Import ListNotations.

(** a pathname split at '/': empty components are dropped except a trailing one, which is [Dot] *)
Inductive comp := Up | Dot | Name (n : nat).
Definition path := list comp.

Inductive node := Dir | File | Link (abs : bool) (target : path).

(** a forest: what is found at a canonical path (names from the root); the root itself is [[]] *)
Definition forest := list nat -> option node.

Definition parent (c : list nat) : list nat := removelast c.

(** one walk up to the first symbolic link *)
Inductive wres :=
| Done (c : list nat)                                      (* the canonical path the walk ends at *)
| Hit (c : list nat) (abs : bool) (tgt rest : path)        (* a link found in directory c: its target and what was left of the pathname *)
| Fail.

(** the kernel (path_lookupat): [follow] tells whether a link in the last component is followed;
    a missing last component resolves to parent/name (where a creating call would put it), a missing or
    non-directory intermediate component is an error *)
Fixpoint kwalk (fs : forest) (follow : bool) (cur : list nat) (rem : path) : wres :=
  match rem with
  | [] => Done cur
  | Up :: r => kwalk fs follow (parent cur) r
  | Dot :: r => kwalk fs follow cur r
  | Name n :: r =>
      match fs (cur ++ [n]) with
      | Some Dir => kwalk fs follow (cur ++ [n]) r
      | Some File => match r with [] => Done (cur ++ [n]) | _ => Fail end
      | Some (Link a t) => match r with
                           | [] => if follow then Hit cur a t [] else Done (cur ++ [n])
                           | _ => Hit cur a t r
                           end
      | None => match r with [] => Done (cur ++ [n]) | _ => Fail end
      end
  end.

Inductive kres_t := KOk (c : list nat) | KErr | KLoop.

(** at most [links] symbolic links are followed in one resolution (MAXSYMLINKS = 40) *)
Fixpoint kres (links : nat) (fs : forest) (follow : bool) (cur : list nat) (rem : path) : kres_t :=
  match kwalk fs follow cur rem with
  | Done c => KOk c
  | Fail => KErr
  | Hit c a t r =>
      match links with
      | 0 => KLoop
      | S l => kres l fs follow (if a then [] else c) (t ++ r)
      end
  end.

(** ** the code *)
Definition names (c : list nat) : path := map Name c.

(** resolveTraceePathOnce on an absolute pathname: [cur] is the clean, link-free path walked so far;
    whatever is not a link (including what does not exist) is appended; at the first link the pathname
    is rewritten textually with the link replaced by its target *)
Inductive cwres := CDone (c : list nat) | CHit (p : path).

Fixpoint cwalk (fs : forest) (cur : list nat) (rem : path) : cwres :=
  match rem with
  | [] => CDone cur
  | Up :: r => cwalk fs (parent cur) r
  | Dot :: r => cwalk fs cur r
  | Name n :: r =>
      match fs (cur ++ [n]) with
      | Some (Link a t) => CHit ((if a then t else names cur ++ t) ++ r)
      | _ => cwalk fs (cur ++ [n]) r
      end
  end.

(** ** /proc/self and /proc/thread-self
    These two entries are symbolic links whose target depends on who reads them; the tracer must not follow
    them as itself.  The code replaces a candidate path equal to one of them by the tracee's entry and goes on
    in the same round.  [special c = Some c'] : the candidate [c] is such an entry and [c'] the tracee's. *)
Fixpoint cwalk_m (fs : forest) (special : list nat -> option (list nat)) (cur : list nat) (rem : path) : cwres :=
  match rem with
  | [] => CDone cur
  | Up :: r => cwalk_m fs special (parent cur) r
  | Dot :: r => cwalk_m fs special cur r
  | Name n :: r =>
      match special (cur ++ [n]) with
      | Some c' => cwalk_m fs special c' r
      | None =>
          match fs (cur ++ [n]) with
          | Some (Link a t) => CHit ((if a then t else names cur ++ t) ++ r)
          | _ => cwalk_m fs special (cur ++ [n]) r
          end
      end
  end.

(** filepath.Clean of an absolute pathname *)
Fixpoint clean (cur : list nat) (rem : path) : list nat :=
  match rem with
  | [] => cur
  | Up :: r => clean (parent cur) r
  | Dot :: r => clean cur r
  | Name n :: r => clean (cur ++ [n]) r
  end.

(** resolveTraceePath: [rounds] walks (maxSymlinkDepth = 40), then a lexical clean *)
Fixpoint cres (rounds : nat) (fs : forest) (p : path) : list nat :=
  match rounds with
  | 0 => clean [] p
  | S n => match cwalk fs [] p with
           | CDone c => c
           | CHit p' => cres n fs p'
           end
  end.

Fixpoint cres_m (rounds : nat) (fs : forest) (special : list nat -> option (list nat)) (p : path) : list nat :=
  match rounds with
  | 0 => clean [] p
  | S n => match cwalk_m fs special [] p with
           | CDone c => c
           | CHit p' => cres_m n fs special p'
           end
  end.

Definition presented_m (fs : forest) (special : list nat -> option (list nat)) (base : list nat) (is_abs : bool) (p : path) : list nat :=
  cres_m 40 fs special (if is_abs then p else names base ++ p).

(** absPath / absPathAt: an absolute pathname is walked from the root; a relative one is appended to
    the path of the base directory (cwd or descriptor, as /proc reports it) *)
Definition presented (fs : forest) (base : list nat) (is_abs : bool) (p : path) : list nat :=
  cres 40 fs (if is_abs then p else names base ++ p).

Definition kernel_resolution (fs : forest) (follow : bool) (base : list nat) (is_abs : bool) (p : path) : kres_t :=
  match is_abs, p with
  | false, [] => KErr                       (* the empty pathname: ENOENT (AT_EMPTY_PATH aside) *)
  | _, _ => kres 40 fs follow (if is_abs then [] else base) p
  end.

(** every prefix of [c] is a directory of the forest *)
Fixpoint dir_chain (fs : forest) (pre c : list nat) : Prop :=
  match c with
  | [] => True
  | n :: r => fs (pre ++ [n]) = Some Dir /\ dir_chain fs (pre ++ [n]) r
  end.

Fixpoint lnat_eqb (a b : list nat) : bool :=
  match a, b with [], [] => true | x :: a', y :: b' => Nat.eqb x y && lnat_eqb a' b' | _, _ => false end.

(** /proc/self -> <pid> and /proc/thread-self -> <pid>/task/<pid> in the tracee's view *)
Definition proc_special (pr self tself pid task : nat) (c : list nat) : option (list nat) :=
  if lnat_eqb c [pr; self] then Some [pr; pid]
  else if lnat_eqb c [pr; tself] then Some [pr; pid; task; pid] else None.

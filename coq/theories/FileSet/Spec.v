(** Independent specification of "an entry covers a path". *)
From GS Require Export Base.Str FileSet.Model.

(** [e] covers [p]: the exact path; a tree entry "d/" covers d and everything
    beneath it; a children entry "d/*" covers the direct children of d only. *)
Definition covers (e p : str) : Prop :=
  e = p
  \/ (exists d, e = d ++ s "/" /\ (p = d \/ exists r, p = d ++ slash :: r))
  \/ (exists d c, e = d ++ s "/*" /\ p = d ++ slash :: c /\ ~ In slash c).

Definition Covered (fs : fileset) (p : str) : Prop :=
  (system_root fs = true /\ p = s "/") \/ exists e, In e (entries fs) /\ covers e p.

Definition abs_or_empty (p : str) : Prop := p = [] \/ exists r, p = slash :: r.

(** what the matcher additionally admits for relative, non-empty names *)
Definition relative_overadmit (fs : fileset) (p : str) : Prop :=
  p <> [] /\ (forall r, p <> slash :: r) /\
  (In (s "/") (entries fs) \/ (~ In slash p /\ In (s "/*") (entries fs))).

From GS Require Import Base.Str FileSet.Model FileSet.Spec.

(** * dirname *)

Lemma dirname_app_slash d r :
  dirname (d ++ slash :: r) = if has_byte slash r then d ++ slash :: dirname r else d.
Proof.
  induction d as [|x d IH]; simpl.
  - destruct (has_byte slash r); reflexivity.
  - assert (has_byte slash (d ++ slash :: r) = true) as ->.
    { apply has_byte_In. apply in_or_app. right. left. reflexivity. }
    rewrite IH. destruct (has_byte slash r); reflexivity.
Qed.

Lemma dirname_noslash p : has_byte slash p = false -> dirname p = [].
Proof.
  destruct p as [|x r]; simpl; [reflexivity|].
  intros H. apply orb_false_iff in H. destruct H as [_ H]. rewrite H. reflexivity.
Qed.

Lemma dirname_split p :
  has_byte slash p = true -> exists c, p = dirname p ++ slash :: c /\ ~ In slash c.
Proof.
  induction p as [|x r IH]; simpl; [discriminate|].
  intros H. destruct (has_byte slash r) eqn:E.
  - destruct (IH eq_refl) as [c [Hc Hn]]. exists c. split; [|exact Hn].
    simpl. f_equal. exact Hc.
  - rewrite orb_false_r in H. apply byte_eqb_eq in H. subst x.
    exists r. split; [reflexivity|]. apply has_byte_false. exact E.
Qed.

Lemma dirname_shorter p : p <> [] -> length (dirname p) < length p.
Proof.
  induction p as [|x r IH]; [congruence|]. intros _. simpl.
  destruct (has_byte slash r) eqn:E; simpl; [|lia].
  assert (r <> []) as Hr by (intros ->; discriminate). specialize (IH Hr). lia.
Qed.

(** the non-empty proper ancestors of [p] are the non-empty slash-prefixes *)
Lemma ancestors_step p d : d <> [] ->
  ((exists r, p = d ++ slash :: r) <-> (d = dirname p \/ exists r', dirname p = d ++ slash :: r')).
Proof.
  intros Hd. split.
  - intros [r ->]. rewrite dirname_app_slash. destruct (has_byte slash r).
    + right. exists (dirname r). reflexivity.
    + left. reflexivity.
  - intros H.
    assert (has_byte slash p = true) as Hs.
    { destruct (has_byte slash p) eqn:E; [reflexivity|]. apply dirname_noslash in E.
      destruct H as [H|[r' H]]; rewrite E in H; [congruence|].
      destruct d; discriminate. }
    destruct (dirname_split p Hs) as [c [Hc _]]. destruct H as [H|[r' H]].
    + exists c. rewrite H. exact Hc.
    + exists (r' ++ slash :: c). rewrite Hc at 1. rewrite H. rewrite <- app_assoc. reflexivity.
Qed.

(** * the loop *)

(** tree entries: "/" always (post-loop test), or "d/" for [name] itself or a
    non-empty slash-prefix d of it *)
Definition Tree (set : list str) (name : str) : Prop :=
  In (s "/") set \/
  exists d, d <> [] /\ (d = name \/ exists r, name = d ++ slash :: r) /\ In (d ++ s "/") set.

Lemma Tree_nil set : Tree set [] <-> In (s "/") set.
Proof.
  unfold Tree. split; [|auto]. intros [H|[d [Hd [[H|[r H]] _]]]]; [exact H|congruence|].
  destruct d; discriminate.
Qed.

Lemma Tree_step set name : name <> [] ->
  (Tree set name <-> In (name ++ s "/") set \/ Tree set (dirname name)).
Proof.
  intros Hn. unfold Tree. split.
  - intros [H|[d [Hd [[H|H] Hin]]]].
    + right. left. exact H.
    + subst d. left. exact Hin.
    + right. right. exists d. split; [exact Hd|]. split; [|exact Hin].
      apply (ancestors_step name d Hd) in H. destruct H as [H|H]; [left; exact H|right; exact H].
  - intros [H|[H|[d [Hd [H Hin]]]]].
    + right. exists name. auto.
    + left. exact H.
    + right. exists d. split; [exact Hd|]. split; [|exact Hin]. right.
      apply (ancestors_step name d Hd). destruct H as [H|H]; [left; exact H|right; exact H].
Qed.

Lemma smart_loop_ge2 set : forall fuel level name, length name <= fuel -> 2 <= level ->
  exists b, smart_loop fuel set level name = Some b /\ (b = true <-> Tree set name).
Proof.
  induction fuel as [|f IH]; intros level name Hl H2.
  - destruct name as [|x r]; [|simpl in Hl; lia]. simpl.
    assert (Nat.eqb level 1 = false) as -> by (apply Nat.eqb_neq; lia). simpl.
    eexists. split; [reflexivity|]. rewrite Tree_nil. apply smem_In.
  - destruct name as [|x r].
    + simpl. assert (Nat.eqb level 1 = false) as -> by (apply Nat.eqb_neq; lia). simpl.
      eexists. split; [reflexivity|]. rewrite Tree_nil. apply smem_In.
    + cbn [smart_loop].
      assert (Nat.eqb level 1 = false) as -> by (apply Nat.eqb_neq; lia). cbn [andb].
      destruct (smem ((x :: r) ++ s "/") set) eqn:E.
      * exists true. split; [reflexivity|]. split; [intros _|reflexivity].
        apply Tree_step; [discriminate|]. left. apply smem_In. exact E.
      * assert (length (dirname (x :: r)) <= f) as Hl'.
        { pose proof (dirname_shorter (x :: r)) as Hs. simpl length in *.
          assert (x :: r <> []) as Hne by discriminate. specialize (Hs Hne). lia. }
        destruct (IH (S level) (dirname (x :: r)) Hl' ltac:(lia)) as [b [Hb Hiff]].
        exists b. split; [exact Hb|]. rewrite Hiff. rewrite (Tree_step set (x :: r)) by discriminate.
        split; [auto|]. intros [H|H]; [|exact H]. apply smem_In in H. congruence.
Qed.

Lemma smart_loop_1 set fuel name : length name <= fuel ->
  exists b, smart_loop fuel set 1 name = Some b /\
            (b = true <-> In (name ++ s "/*") set \/ Tree set name).
Proof.
  intros Hl. destruct name as [|x r].
  - destruct fuel; simpl; (eexists; split; [reflexivity|]);
      rewrite orb_true_iff, !smem_In, Tree_nil; reflexivity.
  - destruct fuel as [|f]; [simpl in Hl; lia|]. cbn [smart_loop Nat.eqb andb].
    destruct (smem ((x :: r) ++ s "/*") set) eqn:E1.
    { exists true. split; [reflexivity|]. split; [intros _|reflexivity]. left. apply smem_In. exact E1. }
    destruct (smem ((x :: r) ++ s "/") set) eqn:E2.
    { exists true. split; [reflexivity|]. split; [intros _|reflexivity]. right.
      apply Tree_step; [discriminate|]. left. apply smem_In. exact E2. }
    assert (length (dirname (x :: r)) <= f) as Hl'.
    { pose proof (dirname_shorter (x :: r)) as Hs. simpl length in *.
      assert (x :: r <> []) as Hne by discriminate. specialize (Hs Hne). lia. }
    destruct (smart_loop_ge2 set f 2 (dirname (x :: r)) Hl' ltac:(lia)) as [b [Hb Hiff]].
    exists b. split; [exact Hb|]. rewrite Hiff. rewrite (Tree_step set (x :: r)) by discriminate.
    split; [auto|]. intros [H|[H|H]]; [| |exact H]; apply smem_In in H; congruence.
Qed.

Lemma smart_loop_0 set fuel name : S (length name) <= fuel ->
  exists b, smart_loop fuel set 0 name = Some b /\
            (b = true <-> (name <> [] /\ In (dirname name ++ s "/*") set) \/ Tree set name).
Proof.
  intros Hl. destruct fuel as [|f]; [lia|]. destruct name as [|x r].
  - simpl. eexists. split; [reflexivity|]. rewrite smem_In, Tree_nil.
    split; [auto|]. intros [[H _]|H]; [congruence|exact H].
  - cbn [smart_loop Nat.eqb andb].
    destruct (smem ((x :: r) ++ s "/") set) eqn:E2.
    { exists true. split; [reflexivity|]. split; [intros _|reflexivity]. right.
      apply Tree_step; [discriminate|]. left. apply smem_In. exact E2. }
    assert (length (dirname (x :: r)) <= f) as Hl'.
    { pose proof (dirname_shorter (x :: r)) as Hs. simpl length in *.
      assert (x :: r <> []) as Hne by discriminate. specialize (Hs Hne). lia. }
    destruct (smart_loop_1 set f (dirname (x :: r)) Hl') as [b [Hb Hiff]].
    exists b. split; [exact Hb|]. rewrite Hiff. rewrite (Tree_step set (x :: r)) by discriminate.
    split.
    + intros [H|H]; [left; split; [discriminate|exact H] | right; right; exact H].
    + intros [[_ H]|[H|H]]; [left; exact H | apply smem_In in H; congruence | right; exact H].
Qed.

(** the fuel given by [is_in_set_smart_opt] always suffices *)
Lemma smart_total fs name : exists b, is_in_set_smart_opt fs name = Some b.
Proof.
  unfold is_in_set_smart_opt.
  destruct (smem name (entries fs)); [eauto|].
  destruct (str_eqb name (s "/") && system_root fs); [eauto|].
  destruct (smart_loop_0 (entries fs) (S (length name)) name (le_n _)) as [b [Hb _]]. eauto.
Qed.

(** * characterisation of the matcher for every name *)
Lemma smart_char fs name :
  is_in_set_smart fs name = true <->
  In name (entries fs) \/ (name = s "/" /\ system_root fs = true) \/
  (name <> [] /\ In (dirname name ++ s "/*") (entries fs)) \/ Tree (entries fs) name.
Proof.
  unfold is_in_set_smart, is_in_set_smart_opt.
  destruct (smem name (entries fs)) eqn:E1.
  { split; [intros _; left; apply smem_In; exact E1 | reflexivity]. }
  destruct (str_eqb name (s "/") && system_root fs) eqn:E2.
  { apply andb_true_iff in E2. destruct E2 as [Ea Eb]. apply str_eqb_eq in Ea.
    split; [intros _; right; left; auto | reflexivity]. }
  destruct (smart_loop_0 (entries fs) (S (length name)) name (le_n _)) as [b [Hb Hiff]].
  rewrite Hb, Hiff. split.
  - intros [H|H]; auto.
  - intros [H|[[Ha Hb']|[H|H]]]; auto.
    + apply smem_In in H. congruence.
    + apply str_eqb_eq in Ha. rewrite Ha, Hb' in E2. discriminate.
Qed.

(** * from the characterisation to [Covered] *)

Lemma s_slash_app d : d ++ s "/" = d ++ [slash].
Proof. reflexivity. Qed.

Lemma app_inj_tail2 (a b : str) x y : a ++ [x] = b ++ [y] -> a = b /\ x = y.
Proof. apply app_inj_tail. Qed.

Lemma entry_tree_inj d d' : d ++ s "/" = d' ++ s "/" -> d = d'.
Proof. intros H. apply app_inj_tail in H. tauto. Qed.

Lemma entry_star_inj d d' : d ++ s "/*" = d' ++ s "/*" -> d = d'.
Proof.
  intros H. change (s "/*") with ([slash] ++ [star]) in H. rewrite !app_assoc in H.
  apply app_inj_tail in H. destruct H as [H _]. apply app_inj_tail in H. tauto.
Qed.

(** uniqueness of the last-slash decomposition *)
Lemma last_slash_unique d c p :
  p = d ++ slash :: c -> ~ In slash c -> d = dirname p.
Proof.
  intros -> Hc. rewrite dirname_app_slash.
  apply has_byte_false in Hc. rewrite Hc. reflexivity.
Qed.

Theorem smart_general fs p :
  is_in_set_smart fs p = true <-> Covered fs p \/ relative_overadmit fs p.
Proof.
  rewrite smart_char. unfold Covered, relative_overadmit, covers, Tree. split.
  - intros [H|[[Ha Hb]|[[Hne H]|[H|[d [Hd [Hp Hin]]]]]]].
    + left. right. exists p. auto.
    + left. left. auto.
    + (* children entry of dirname p *)
      destruct (has_byte slash p) eqn:Es.
      * destruct (dirname_split p Es) as [c [Hc Hn]]. left. right.
        exists (dirname p ++ s "/*"). split; [exact H|]. right. right.
        exists (dirname p), c. auto.
      * (* relative, no slash at all: dirname p = "" *)
        rewrite (dirname_noslash p Es) in H. right. split; [exact Hne|]. split.
        { intros r ->. simpl in Es. discriminate. }
        right. split; [apply has_byte_false; exact Es | exact H].
    + (* "/" entry *)
      destruct p as [|x r].
      * left. right. exists (s "/"). split; [exact H|]. right. left. exists []. auto.
      * destruct (Byte.eqb x slash) eqn:Ex.
        { apply byte_eqb_eq in Ex. subst x. left. right. exists (s "/"). split; [exact H|].
          right. left. exists []. split; [reflexivity|]. right. exists r. reflexivity. }
        { right. split; [discriminate|]. split.
          - intros r' Hr. inversion Hr; subst. rewrite byte_eqb_refl in Ex. discriminate.
          - left. exact H. }
    + left. right. exists (d ++ s "/"). split; [exact Hin|]. right. left. exists d.
      split; [reflexivity|]. destruct Hp as [Hp|Hp]; auto.
  - intros [[[Hr Hp]|[e [Hin [He|[[d [He Hp]]|[d [c [He [Hp Hc]]]]]]]]]|[Hne [Hrel Hx]]].
    + right. left. auto.
    + subst e. left. exact Hin.
    + subst e. destruct d as [|x d].
      * (* "/" *) right. right. right. left. exact Hin.
      * right. right. right. right. exists (x :: d). split; [discriminate|]. split; [|exact Hin].
        destruct Hp as [Hp|Hp]; auto.
    + subst e. right. right. left. split.
      * subst p. destruct d; discriminate.
      * rewrite <- (last_slash_unique d c p Hp Hc). exact Hin.
    + destruct Hx as [Hx|[Hns Hx]].
      * right. right. right. left. exact Hx.
      * right. right. left. split; [exact Hne|].
        apply has_byte_false in Hns. rewrite (dirname_noslash p Hns). exact Hx.
Qed.

Theorem smart_iff fs p : abs_or_empty p -> (is_in_set_smart fs p = true <-> Covered fs p).
Proof.
  intros Ha. rewrite smart_general. split; [|auto].
  intros [H|[Hne [Hrel _]]]; [exact H|]. exfalso.
  destruct Ha as [->|[r ->]]; [congruence|]. apply (Hrel r). reflexivity.
Qed.

(** the over-admission is real: a witness *)
Lemma relative_refuted :
  exists fs p, is_in_set_smart fs p = true /\ ~ Covered fs p.
Proof.
  exists {| entries := [s "/*"]; system_root := false |}, (s "foo").
  split; [vm_compute; reflexivity|].
  unfold Covered, covers. simpl.
  intros [[H _]|[e [[<-|[]] [H|[[d [He Hp]]|[d [c [He [Hp Hc]]]]]]]]].
  - discriminate.
  - discriminate.
  - destruct d as [|a [|b d]]; try discriminate. destruct d; discriminate.
  - change (s "/*") with ([] ++ s "/*") in He at 1. apply entry_star_inj in He. subst d.
    discriminate.
Qed.

(** non-vacuity: an absolute path admitted through each kind of entry *)
Example smart_examples :
  let fs := {| entries := [s "/usr/"; s "/etc/*"; s "/bin/sh"]; system_root := true |} in
  abs_or_empty (s "/usr/lib/x") /\
  is_in_set_smart fs (s "/usr/lib/x") = true /\ is_in_set_smart fs (s "/etc/passwd") = true /\
  is_in_set_smart fs (s "/etc/a/b") = false /\ is_in_set_smart fs (s "/bin/sh") = true /\
  is_in_set_smart fs (s "/") = true /\ is_in_set_smart fs [] = false.
Proof. cbv zeta. split; [right; eexists; reflexivity|]. vm_compute. repeat split. Qed.

(** * cascade and refusals *)
Section Cascade.
  Variable real_path : str -> str.

  Definition Admits (fs : fileset) (name : str) : Prop :=
    is_in_set_smart fs name = true \/ is_in_set_smart fs (real_path name) = true.

  Lemma in_raw_or_real_iff fs name : in_raw_or_real real_path fs name = true <-> Admits fs name.
  Proof. unfold in_raw_or_real, Admits. rewrite orb_true_iff. reflexivity. Qed.

  Theorem cascade ss name :
    (is_writable real_path ss name = true <-> Admits (writable ss) name) /\
    (is_readable real_path ss name = true <-> Admits (writable ss) name \/ Admits (readable ss) name) /\
    (is_statable real_path ss name = true <->
       Admits (writable ss) name \/ Admits (readable ss) name \/ Admits (statable ss) name) /\
    (is_writable real_path ss name = true -> is_readable real_path ss name = true) /\
    (is_readable real_path ss name = true -> is_statable real_path ss name = true).
  Proof.
    unfold is_statable, is_readable, is_writable.
    rewrite !orb_true_iff, !in_raw_or_real_iff. tauto.
  Qed.

  Theorem refusal ss name :
    (check_write real_path ss name = Allow <-> is_writable real_path ss name = true) /\
    (check_read real_path ss name = Allow <-> is_readable real_path ss name = true) /\
    (check_stat real_path ss name = Allow <-> is_statable real_path ss name = true) /\
    (forall chk, In chk [check_write; check_read; check_stat] ->
       chk real_path ss name <> Allow ->
       (chk real_path ss name = Ban <-> Admits (softban ss) name) /\
       (chk real_path ss name = Kill <-> ~ Admits (softban ss) name)).
  Proof.
    unfold check_write, check_read, check_stat, on_dgs, is_softban.
    repeat split.
    1-6: try (destruct (is_writable real_path ss name); destruct (in_raw_or_real real_path (softban ss) name); congruence);
         try (destruct (is_readable real_path ss name); destruct (in_raw_or_real real_path (softban ss) name); congruence);
         try (destruct (is_statable real_path ss name); destruct (in_raw_or_real real_path (softban ss) name); congruence).
    all: destruct H as [<-|[<-|[<-|[]]]]; revert H0; rewrite <- in_raw_or_real_iff;
      try destruct (is_writable real_path ss name); try destruct (is_readable real_path ss name);
      try destruct (is_statable real_path ss name);
      destruct (in_raw_or_real real_path (softban ss) name); congruence.
  Qed.
End Cascade.

(** Model of runner/ptrace/filehandler: FileSet.IsInSetSmart, FileSets cascade,
    Handler.Check*, SyscallCounter.Check.  Executable definitions only. *)
From GS Require Export Base.Str.

(** dirname: path[:strings.LastIndex(path, "/")] or "" when there is no slash *)
Fixpoint dirname (p : str) : str :=
  match p with
  | [] => []
  | c :: r => if has_byte slash r then c :: dirname r else []
  end.

(** A FileSet: the keys of Set whose value is true, and the SystemRoot flag. *)
Record fileset := { entries : list str; system_root : bool }.

(** The loop of IsInSetSmart.  [fuel] bounds the iterations; [None] = out of
    fuel (never happens with fuel = S (length name), proved). *)
Fixpoint smart_loop (fuel : nat) (set : list str) (level : nat) (name : str) : option bool :=
  match name with
  | [] =>
      Some ((Nat.eqb level 1 && smem (s "/*") set) || smem (s "/") set)
  | _ :: _ =>
      if Nat.eqb level 1 && smem (name ++ s "/*") set then Some true
      else if smem (name ++ s "/") set then Some true
      else match fuel with
           | O => None
           | S f => smart_loop f set (S level) (dirname name)
           end
  end.

Definition is_in_set_smart_opt (fs : fileset) (name : str) : option bool :=
  if smem name (entries fs) then Some true
  else if str_eqb name (s "/") && system_root fs then Some true
  else smart_loop (S (length name)) (entries fs) 0 name.

Definition is_in_set_smart (fs : fileset) (name : str) : bool :=
  match is_in_set_smart_opt fs name with Some b => b | None => false end.

(** FileSet.Add *)
Definition fs_add (fs : fileset) (name : str) : fileset :=
  if str_eqb name (s "/") then {| entries := entries fs; system_root := true |}
  else {| entries := name :: entries fs; system_root := system_root fs |}.

Record filesets := { writable : fileset; readable : fileset; statable : fileset; softban : fileset }.

Section WithRealPath.
  (** realPath (filepath.EvalSymlinks, "" on error) is an arbitrary function. *)
  Variable real_path : str -> str.

  Definition in_raw_or_real (fs : fileset) (name : str) : bool :=
    is_in_set_smart fs name || is_in_set_smart fs (real_path name).

  Definition is_writable (ss : filesets) name := in_raw_or_real (writable ss) name.
  Definition is_readable (ss : filesets) name := is_writable ss name || in_raw_or_real (readable ss) name.
  Definition is_statable (ss : filesets) name := is_readable ss name || in_raw_or_real (statable ss) name.
  Definition is_softban (ss : filesets) name := in_raw_or_real (softban ss) name.

  Inductive action := Allow | Ban | Kill.

  Definition on_dgs (ss : filesets) name : action := if is_softban ss name then Ban else Kill.
  Definition check_read ss name := if is_readable ss name then Allow else on_dgs ss name.
  Definition check_write ss name := if is_writable ss name then Allow else on_dgs ss name.
  Definition check_stat ss name := if is_statable ss name then Allow else on_dgs ss name.
End WithRealPath.

(** AddFilePermission: mode 1 write, 2 read, 3 stat, anything else: only the
    ancestors become statable. *)
Fixpoint add_ancestors (fuel : nat) (st : fileset) (name : str) : fileset :=
  match name with
  | [] => st
  | _ :: _ => match fuel with
              | O => st
              | S f => add_ancestors f (fs_add st name) (dirname name)
              end
  end.

Definition add_file_permission (ss : filesets) (name : str) (mode : Z) : filesets :=
  let ss1 :=
    if Z.eqb mode 1 then {| writable := fs_add (writable ss) name; readable := readable ss; statable := statable ss; softban := softban ss |}
    else if Z.eqb mode 2 then {| writable := writable ss; readable := fs_add (readable ss) name; statable := statable ss; softban := softban ss |}
    else if Z.eqb mode 3 then {| writable := writable ss; readable := readable ss; statable := fs_add (statable ss) name; softban := softban ss |}
    else ss in
  {| writable := writable ss1; readable := readable ss1;
     statable := add_ancestors (length name) (statable ss1) (dirname name);
     softban := softban ss1 |}.

(** SyscallCounter: a Go map[string]int (64-bit int, wrap-around explicit). *)
Definition wrap64 (z : Z) : Z := ((z + 2^63) mod 2^64) - 2^63.

Definition counter := list (str * Z).

Fixpoint ctr_get (c : counter) (name : str) : option Z :=
  match c with
  | [] => None
  | (k, v) :: r => if str_eqb k name then Some v else ctr_get r name
  end.

Fixpoint ctr_set (c : counter) (name : str) (v : Z) : counter :=
  match c with
  | [] => [(name, v)]
  | (k, w) :: r => if str_eqb k name then (k, v) :: r else (k, w) :: ctr_set r name v
  end.

(** Check returns (inside, allow) and the updated table. *)
Definition ctr_check (c : counter) (name : str) : counter * (bool * bool) :=
  match ctr_get c name with
  | Some n => (ctr_set c name (wrap64 (n - 1)), (true, negb (Z.leb n 1)))
  | None => (c, (false, true))
  end.

(** Handler.CheckSyscall *)
Definition check_syscall (c : counter) (name : str) : counter * action :=
  let '(c', (inside, allow)) := ctr_check c name in
  (c', if inside then (if allow then Allow else Kill) else Ban).

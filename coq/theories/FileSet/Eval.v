(** Executable comparison functions used by the correspondence run of C18:
    the harness supplies inputs and the outputs observed on the Go code. *)
From GS Require Import Base.Str FileSet.Model FileSet.CounterProofs.

Fixpoint indexed {A} (i : N) (l : list A) : list (N * A) :=
  match l with [] => [] | x :: r => (i, x) :: indexed (N.succ i) r end.

(** grid: every set x every path; row i is the bit mask of admitted paths *)
Definition grid_mismatch (sets : list fileset) (paths : list str) (rows : list N) : list (N * N) :=
  flat_map (fun '(i, (fs, row)) =>
    flat_map (fun '(j, p) =>
      if Bool.eqb (is_in_set_smart fs p) (N.testbit row j) then [] else [(i, j)])
      (indexed 0 paths))
    (indexed 0 (combine sets rows)).

Definition act_eqb (a b : action) : bool :=
  match a, b with Allow, Allow | Ban, Ban | Kill, Kill => true | _, _ => false end.

Record cascade_case := {
  cc_sets : filesets; cc_name : str; cc_real : str;
  cc_w : bool; cc_r : bool; cc_s : bool; cc_b : bool;
  cc_cw : action; cc_cr : action; cc_cs : action }.

Definition cascade_ok (c : cascade_case) : bool :=
  let rp := fun _ : str => cc_real c in
  Bool.eqb (is_writable rp (cc_sets c) (cc_name c)) (cc_w c) &&
  Bool.eqb (is_readable rp (cc_sets c) (cc_name c)) (cc_r c) &&
  Bool.eqb (is_statable rp (cc_sets c) (cc_name c)) (cc_s c) &&
  Bool.eqb (is_softban rp (cc_sets c) (cc_name c)) (cc_b c) &&
  act_eqb (check_write rp (cc_sets c) (cc_name c)) (cc_cw c) &&
  act_eqb (check_read rp (cc_sets c) (cc_name c)) (cc_cr c) &&
  act_eqb (check_stat rp (cc_sets c) (cc_name c)) (cc_cs c).

Inductive fsop :=
| OpAdd (which : N) (name : str)          (* 0 w, 1 r, 2 s, 3 b *)
| OpAddAbs (which : N) (names : list str) (* AddRange with absolute names only *)
| OpAddPerm (name : str) (mode : Z).

Definition upd (ss : filesets) (which : N) (f : fileset -> fileset) : filesets :=
  match which with
  | 0%N => {| writable := f (writable ss); readable := readable ss; statable := statable ss; softban := softban ss |}
  | 1%N => {| writable := writable ss; readable := f (readable ss); statable := statable ss; softban := softban ss |}
  | 2%N => {| writable := writable ss; readable := readable ss; statable := f (statable ss); softban := softban ss |}
  | _ => {| writable := writable ss; readable := readable ss; statable := statable ss; softban := f (softban ss) |}
  end.

Definition apply_op (ss : filesets) (o : fsop) : filesets :=
  match o with
  | OpAdd w n => upd ss w (fun fs => fs_add fs n)
  | OpAddAbs w ns => upd ss w (fun fs => fold_left fs_add ns fs)
  | OpAddPerm n m => add_file_permission ss n m
  end.

Definition empty_fs := {| entries := []; system_root := false |}.
Definition empty_sets := {| writable := empty_fs; readable := empty_fs; statable := empty_fs; softban := empty_fs |}.

Definition same_set (a b : fileset) : bool :=
  forallb (fun e => smem e (entries b)) (entries a) &&
  forallb (fun e => smem e (entries a)) (entries b) &&
  Bool.eqb (system_root a) (system_root b).

Definition ops_ok (ops : list fsop) (obs : filesets) : bool :=
  let m := fold_left apply_op ops empty_sets in
  same_set (writable m) (writable obs) && same_set (readable m) (readable obs) &&
  same_set (statable m) (statable obs) && same_set (softban m) (softban obs).

Fixpoint acts_eqb (a b : list action) : bool :=
  match a, b with
  | [], [] => true
  | x :: a', y :: b' => act_eqb x y && acts_eqb a' b'
  | _, _ => false
  end.

Definition ctr_same (a b : counter) : bool :=
  forallb (fun '(k, v) => match ctr_get b k with Some w => Z.eqb v w | None => false end) a &&
  forallb (fun '(k, v) => match ctr_get a k with Some w => Z.eqb v w | None => false end) b.

Definition counter_ok (c : counter) (h : list str) (acts : list action) (fin : counter) : bool :=
  acts_eqb (run_hist c h) acts && ctr_same (final_ctr c h) fin.

(** indices of the cases whose check is false *)
Definition failing {A} (ok : A -> bool) (l : list A) : list N :=
  flat_map (fun '(i, x) => if ok x then [] else [i]) (indexed 0 l).

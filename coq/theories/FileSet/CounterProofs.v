(** SyscallCounter: a counted syscall is allowed at most its configured number
    of times; once refused it stays refused (below the 2^63 wrap-around). *)
From GS Require Import Base.Str FileSet.Model.

Fixpoint run_hist (c : counter) (h : list str) : list action :=
  match h with
  | [] => []
  | x :: h' => let '(c', a) := check_syscall c x in a :: run_hist c' h'
  end.

Fixpoint final_ctr (c : counter) (h : list str) : counter :=
  match h with
  | [] => c
  | x :: h' => final_ctr (fst (check_syscall c x)) h'
  end.

(** how often [name] was allowed *)
Fixpoint allowed_count (name : str) (h : list str) (outs : list action) : nat :=
  match h, outs with
  | x :: h', a :: outs' =>
      (if str_eqb x name then match a with Allow => 1 | _ => 0 end else 0) + allowed_count name h' outs'
  | _, _ => 0
  end.

Lemma ctr_get_set_same c k v : ctr_get (ctr_set c k v) k = Some v.
Proof.
  induction c as [|[k' w] r IH]; simpl.
  - rewrite str_eqb_refl. reflexivity.
  - destruct (str_eqb k' k) eqn:E; simpl; rewrite E; [reflexivity|exact IH].
Qed.

Lemma ctr_get_set_other c k v k' : k <> k' -> ctr_get (ctr_set c k v) k' = ctr_get c k'.
Proof.
  intros Hne. induction c as [|[k0 w] r IH]; simpl.
  - assert (str_eqb k k' = false) as -> by (apply str_eqb_neq; exact Hne). reflexivity.
  - destruct (str_eqb k0 k) eqn:E; simpl.
    + apply str_eqb_eq in E. subst k0.
      assert (str_eqb k k' = false) as -> by (apply str_eqb_neq; exact Hne). reflexivity.
    + destruct (str_eqb k0 k'); [reflexivity|exact IH].
Qed.

Lemma wrap64_id z : (- 2^63 <= z < 2^63)%Z -> wrap64 z = z.
Proof. intros H. unfold wrap64. rewrite Z.mod_small; lia. Qed.

Lemma check_other c x name : x <> name ->
  ctr_get (fst (check_syscall c x)) name = ctr_get c name.
Proof.
  intros Hne. unfold check_syscall, ctr_check. destruct (ctr_get c x) as [n|]; simpl; [|reflexivity].
  apply ctr_get_set_other. exact Hne.
Qed.

Lemma check_same c name n : ctr_get c name = Some n -> (- 2^63 < n < 2^63)%Z ->
  ctr_get (fst (check_syscall c name)) name = Some (n - 1)%Z /\
  snd (check_syscall c name) = (if (n <=? 1)%Z then Kill else Allow).
Proof.
  intros Hg Hn. unfold check_syscall, ctr_check. rewrite Hg. simpl. split.
  - rewrite ctr_get_set_same. f_equal. apply wrap64_id. lia.
  - destruct (n <=? 1)%Z; reflexivity.
Qed.

Lemma run_hist_cons c x h :
  run_hist c (x :: h) = snd (check_syscall c x) :: run_hist (fst (check_syscall c x)) h.
Proof. simpl. destruct (check_syscall c x). reflexivity. Qed.

(** Budget: with configured value n, [name] is allowed at most max(0, n-1)
    times (UOJ semantics), in particular at most max(0, n) times.  The bound
    on the history length excludes the wrap-around of the 64-bit counter. *)
Theorem counter_budget name : forall h c n,
  ctr_get c name = Some n -> (n < 2^63)%Z -> (- 2^63 + Z.of_nat (length h) < n)%Z ->
  (Z.of_nat (allowed_count name h (run_hist c h)) <= Z.max 0 (n - 1))%Z.
Proof.
  induction h as [|x h IH]; intros c n Hg Hhi Hlo.
  - simpl. lia.
  - rewrite run_hist_cons. cbn [allowed_count]. simpl length in Hlo.
    destruct (str_eqb x name) eqn:E.
    + apply str_eqb_eq in E. subst x.
      destruct (check_same c name n Hg ltac:(lia)) as [Hg' Ha]. rewrite Ha.
      specialize (IH _ _ Hg' ltac:(lia) ltac:(lia)).
      destruct (n <=? 1)%Z eqn:En.
      * apply Z.leb_le in En. lia.
      * apply Z.leb_gt in En. lia.
    + apply str_eqb_neq in E. rewrite <- (check_other c x name E) in Hg.
      specialize (IH _ _ Hg Hhi ltac:(lia)). lia.
Qed.

(** once refused, refused for ever *)
Theorem counter_refused_stays name : forall h c n,
  ctr_get c name = Some n -> (n <= 1)%Z -> (- 2^63 + Z.of_nat (length h) < n)%Z ->
  Forall2 (fun x a => x = name -> a = Kill) h (run_hist c h).
Proof.
  induction h as [|x h IH]; intros c n Hg Hle Hlo.
  - constructor.
  - rewrite run_hist_cons. simpl length in Hlo. destruct (str_eqb x name) eqn:E.
    + apply str_eqb_eq in E. subst x.
      destruct (check_same c name n Hg ltac:(lia)) as [Hg' Ha]. constructor.
      * intros _. rewrite Ha. apply Z.leb_le in Hle. rewrite Hle. reflexivity.
      * apply (IH _ _ Hg'); lia.
    + apply str_eqb_neq in E. constructor; [intros H; contradiction|].
      rewrite <- (check_other c x name E) in Hg. apply (IH _ _ Hg); lia.
Qed.

(** a traced syscall without a counter is soft-banned and changes nothing *)
Theorem uncounted_banned c name : ctr_get c name = None -> check_syscall c name = (c, Ban).
Proof. intros H. unfold check_syscall, ctr_check. rewrite H. reflexivity. Qed.

(** and a counted one is never soft-banned *)
Theorem counted_not_banned c name n : ctr_get c name = Some n -> snd (check_syscall c name) <> Ban.
Proof.
  intros H. unfold check_syscall, ctr_check. rewrite H. simpl. destruct (n <=? 1)%Z; discriminate.
Qed.

(** the 64-bit wrap is real for a pathological budget: MinInt64 allows the second call *)
Lemma counter_wrap_refuted :
  exists c name n h, ctr_get c name = Some n /\
     (Z.of_nat (allowed_count name h (run_hist c h)) > Z.max 0 n)%Z.
Proof.
  exists [(s "x", (- 2^63)%Z)], (s "x"), (- 2^63)%Z, [s "x"; s "x"].
  split; [reflexivity|]. vm_compute. reflexivity.
Qed.

Example counter_nonvacuous :
  run_hist [(s "fork", 3%Z)] [s "fork"; s "fork"; s "fork"; s "execve"; s "fork"] = [Allow; Allow; Kill; Ban; Kill].
Proof. vm_compute. reflexivity. Qed.

(** Go strings as byte lists, with the handful of string functions the
    modelled code uses.  Definitions only compute; lemmas are below. *)
From Coq Require Export List Strings.Byte NArith ZArith Bool Lia.
From Coq Require Strings.String.
Export Coq.Strings.String.StringSyntax.
Export ListNotations.

Definition str := list byte.
Definition s (x : String.string) : str := String.list_byte_of_string x.
Arguments s x%string_scope.

Definition slash : byte := "/"%byte.
Definition star : byte := "*"%byte.

Fixpoint str_eqb (a b : str) : bool :=
  match a, b with
  | [], [] => true
  | x :: a', y :: b' => Byte.eqb x y && str_eqb a' b'
  | _, _ => false
  end.

Lemma byte_eqb_refl x : Byte.eqb x x = true.
Proof. apply byte_dec_lb. reflexivity. Qed.

Lemma byte_eqb_eq x y : Byte.eqb x y = true <-> x = y.
Proof. split; [apply byte_dec_bl | apply byte_dec_lb]. Qed.

Lemma byte_eqb_neq x y : Byte.eqb x y = false <-> x <> y.
Proof.
  split.
  - intros H E. apply byte_eqb_eq in E. congruence.
  - intros H. destruct (Byte.eqb x y) eqn:E; [|reflexivity].
    apply byte_eqb_eq in E. contradiction.
Qed.

Lemma str_eqb_eq a b : str_eqb a b = true <-> a = b.
Proof.
  revert b; induction a as [|x a IH]; intros [|y b]; simpl; split; intros H;
    try reflexivity; try discriminate.
  - apply andb_true_iff in H. destruct H as [H1 H2].
    apply byte_eqb_eq in H1. apply IH in H2. subst. reflexivity.
  - inversion H; subst. rewrite byte_eqb_refl. simpl. apply IH. reflexivity.
Qed.

Lemma str_eqb_refl a : str_eqb a a = true.
Proof. apply str_eqb_eq. reflexivity. Qed.

Lemma str_eqb_neq a b : str_eqb a b = false <-> a <> b.
Proof.
  split.
  - intros H E. apply str_eqb_eq in E. congruence.
  - intros H. destruct (str_eqb a b) eqn:E; [|reflexivity].
    apply str_eqb_eq in E. contradiction.
Qed.

Definition str_dec (a b : str) : {a = b} + {a <> b}.
Proof.
  destruct (str_eqb a b) eqn:E.
  - left. apply str_eqb_eq. exact E.
  - right. apply str_eqb_neq. exact E.
Defined.

(** membership in a list of strings (a Go map[string]bool used as a set) *)
Fixpoint smem (x : str) (l : list str) : bool :=
  match l with
  | [] => false
  | y :: l' => str_eqb x y || smem x l'
  end.

Lemma smem_In x l : smem x l = true <-> In x l.
Proof.
  induction l as [|y l IH]; simpl.
  - split; [discriminate | tauto].
  - rewrite orb_true_iff, IH, str_eqb_eq. split; intros [H|H]; auto.
Qed.

Fixpoint has_byte (c : byte) (p : str) : bool :=
  match p with
  | [] => false
  | x :: r => Byte.eqb x c || has_byte c r
  end.

Lemma has_byte_In c p : has_byte c p = true <-> In c p.
Proof.
  induction p as [|x r IH]; simpl.
  - split; [discriminate | tauto].
  - rewrite orb_true_iff, IH, byte_eqb_eq. tauto.
Qed.

Lemma has_byte_false c p : has_byte c p = false <-> ~ In c p.
Proof.
  rewrite <- has_byte_In. destruct (has_byte c p); split; intros; congruence.
Qed.

(** strings.HasPrefix *)
Fixpoint has_prefix (p pre : str) {struct pre} : bool :=
  match pre, p with
  | [], _ => true
  | x :: pre', y :: p' => Byte.eqb x y && has_prefix p' pre'
  | _ :: _, [] => false
  end.

Lemma has_prefix_spec p pre : has_prefix p pre = true <-> exists r, p = pre ++ r.
Proof.
  revert p; induction pre as [|x pre IH]; intros p; simpl.
  - split; [intros _; exists p; reflexivity | reflexivity].
  - destruct p as [|y p]; simpl.
    + split; [discriminate | intros [r H]; discriminate].
    + rewrite andb_true_iff, byte_eqb_eq, IH. split.
      * intros [-> [r ->]]. exists r. reflexivity.
      * intros [r H]. inversion H; subst. split; [reflexivity | exists r; reflexivity].
Qed.

(** Prefix-free binary codes for state types, and the injection of bit lists into
    [positive]: a cheap injective encoding of LTS states (keys of the visited set). *)
From Coq Require Import List Bool Arith PArith Lia.
Import ListNotations.

(** a code is prefix free when a codeword followed by anything can be told apart *)
Definition pf {A} (f : A -> list bool) : Prop :=
  forall a a' r r', f a ++ r = f a' ++ r' -> a = a' /\ r = r'.

Fixpoint c_nat (n : nat) : list bool := match n with O => [false] | S m => true :: c_nat m end.

Lemma pf_nat : pf c_nat.
Proof.
  intros a. induction a as [|a IH]; intros [|a'] r r' H; simpl in H; inversion H; subst; auto.
  destruct (IH _ _ _ H1) as [-> ->]. auto.
Qed.

Definition c_bool (b : bool) : list bool := [b].
Lemma pf_bool : pf c_bool.
Proof. intros a a' r r' H. inversion H. auto. Qed.

(** enumerations through an injective numbering *)
Definition c_enum {A} (num : A -> nat) (a : A) : list bool := c_nat (num a).
Lemma pf_enum {A} (num : A -> nat) : (forall a b, num a = num b -> a = b) -> pf (c_enum num).
Proof. intros Hinj a a' r r' H. destruct (pf_nat _ _ _ _ H) as [Hn ->]. split; [apply Hinj; exact Hn|reflexivity]. Qed.

Definition c_pair {A B} (f : A -> list bool) (g : B -> list bool) (p : A * B) : list bool := f (fst p) ++ g (snd p).
Lemma pf_pair {A B} (f : A -> list bool) (g : B -> list bool) : pf f -> pf g -> pf (c_pair f g).
Proof.
  intros Hf Hg [a b] [a' b'] r r' H. unfold c_pair in H. simpl in H. rewrite <- !app_assoc in H.
  destruct (Hf _ _ _ _ H) as [-> H']. destruct (Hg _ _ _ _ H') as [-> ->]. auto.
Qed.

Fixpoint c_list {A} (f : A -> list bool) (l : list A) : list bool :=
  match l with [] => [false] | x :: r => true :: f x ++ c_list f r end.
Lemma pf_list {A} (f : A -> list bool) : pf f -> pf (c_list f).
Proof.
  intros Hf l. induction l as [|x l IH]; intros [|x' l'] r r' H; simpl in H; inversion H; subst; auto.
  rewrite <- !app_assoc in H1. destruct (Hf _ _ _ _ H1) as [-> H2]. destruct (IH _ _ _ H2) as [-> ->]. auto.
Qed.

(** a code obtained by first mapping into a coded type *)
Lemma pf_map {A B} (h : A -> B) (g : B -> list bool) : (forall a b, h a = h b -> a = b) -> pf g -> pf (fun a => g (h a)).
Proof. intros Hh Hg a a' r r' H. destruct (Hg _ _ _ _ H) as [E ->]. split; [apply Hh; exact E|reflexivity]. Qed.

Lemma pf_inj {A} (f : A -> list bool) : pf f -> forall a b, f a = f b -> a = b.
Proof. intros H a b E. apply (H a b [] []). rewrite !app_nil_r. exact E. Qed.

(** bit lists into positive *)
Fixpoint bits_pos (l : list bool) : positive :=
  match l with [] => xH | true :: r => xI (bits_pos r) | false :: r => xO (bits_pos r) end.

Lemma bits_pos_inj a : forall b, bits_pos a = bits_pos b -> a = b.
Proof.
  induction a as [|x a IH]; intros [|y b] H.
  - reflexivity.
  - destruct y; discriminate.
  - destruct x; discriminate.
  - destruct x, y; simpl in H; inversion H; f_equal; apply IH; assumption.
Qed.

Theorem code_inj {A} (f : A -> list bool) : pf f -> forall a b, bits_pos (f a) = bits_pos (f b) -> a = b.
Proof. intros H a b E. apply (pf_inj f H). apply bits_pos_inj. exact E. Qed.

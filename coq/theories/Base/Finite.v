(** Lifting a computed sweep over an initial segment of N to a universally
    quantified statement (the domain is finite and stated in the lemma). *)
From Coq Require Import List NArith Bool Lia.
Import ListNotations.

Definition N_below (n : nat) : list N := map N.of_nat (seq 0 n).

Lemma N_below_In n c : (c < N.of_nat n)%N -> In c (N_below n).
Proof.
  intros H. unfold N_below. apply in_map_iff. exists (N.to_nat c). split.
  - apply N2Nat.id.
  - apply in_seq. lia.
Qed.

Lemma forall_below (P : N -> bool) n :
  forallb P (N_below n) = true -> forall c, (c < N.of_nat n)%N -> P c = true.
Proof.
  intros H c Hc. rewrite forallb_forall in H. apply H. apply N_below_In. exact Hc.
Qed.

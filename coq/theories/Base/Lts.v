(** Finite-state safety by reflection: an (untrusted) search computes a
    candidate set V of states; the checks [wf V], [closed V], [all_inv Inv V]
    are evaluated by the kernel; [closed_sound] lifts them to every reachable
    state, i.e. to executions of any length.  A second lemma bounds the length
    of paths through a set of "busy" states with a checked ranking function. *)
From Coq Require Import List Bool Arith PArith FMapPositive Lia.
Import ListNotations.

Section LTS.
  Variable st : Type.
  Variable enc : st -> positive.
  Hypothesis enc_inj : forall a b, enc a = enc b -> a = b.
  Variable init : st.
  Variable next : st -> list st.

  Inductive reach : st -> Prop :=
  | reach_init : reach init
  | reach_step s s' : reach s -> In s' (next s) -> reach s'.

  Definition vset := PositiveMap.t st.

  Definition mem (s : st) (V : vset) : bool :=
    match PositiveMap.find (enc s) V with Some _ => true | None => false end.

  (** every key is the encoding of its value *)
  Definition wf (V : vset) : bool :=
    forallb (fun kv => Pos.eqb (fst kv) (enc (snd kv))) (PositiveMap.elements V).

  Definition closed (V : vset) : bool :=
    mem init V &&
    forallb (fun kv => forallb (fun s' => mem s' V) (next (snd kv))) (PositiveMap.elements V).

  Definition all_inv (Inv : st -> bool) (V : vset) : bool :=
    forallb (fun kv => Inv (snd kv)) (PositiveMap.elements V).

  Lemma mem_elem s V : wf V = true -> mem s V = true -> In (enc s, s) (PositiveMap.elements V).
  Proof.
    unfold wf, mem. intros Hwf Hm.
    destruct (PositiveMap.find (enc s) V) as [s0|] eqn:E; [|discriminate].
    apply PositiveMap.find_2 in E. apply PositiveMap.elements_1 in E.
    apply SetoidList.InA_alt in E. destruct E as [[k v] [[Hk Hv] Hin]].
    cbv [PositiveMap.eq_key_elt PositiveMap.E.eq fst snd] in Hk, Hv; simpl in Hk, Hv. subst k v.
    rewrite forallb_forall in Hwf. pose proof (Hwf _ Hin) as Hw. simpl in Hw.
    apply Pos.eqb_eq in Hw. apply enc_inj in Hw. subst s0. exact Hin.
  Qed.

  Theorem reach_in V : wf V = true -> closed V = true -> forall s, reach s -> mem s V = true.
  Proof.
    intros Hwf Hc. unfold closed in Hc. apply andb_true_iff in Hc. destruct Hc as [H0 Hc].
    induction 1 as [|s s' Hr IH Hin]; [exact H0|].
    pose proof (mem_elem _ _ Hwf IH) as He.
    rewrite forallb_forall in Hc. specialize (Hc _ He). simpl in Hc.
    rewrite forallb_forall in Hc. apply Hc. exact Hin.
  Qed.

  Theorem closed_sound V Inv : wf V = true -> closed V = true -> all_inv Inv V = true ->
    forall s, reach s -> Inv s = true.
  Proof.
    intros Hwf Hc Hi s Hr. pose proof (mem_elem _ _ Hwf (reach_in V Hwf Hc s Hr)) as He.
    unfold all_inv in Hi. rewrite forallb_forall in Hi. apply (Hi _ He).
  Qed.

  (** ** bounded progress: from a busy state every path of [next'] steps leaves the busy
      set within [rank] steps.  [next'] is the step relation under consideration (for
      instance: the steps available once the transport is lost). *)
  Variable next' : st -> list st.
  Variable busy : st -> bool.
  Variable rank : st -> nat.

  Definition rank_ok (V : vset) : bool :=
    forallb (fun kv =>
      let s := snd kv in
      negb (busy s) ||
      (negb (match next' s with [] => true | _ => false end) &&
       forallb (fun s' => mem s' V && (negb (busy s') || Nat.ltb (rank s') (rank s))) (next' s)))
      (PositiveMap.elements V).

  (** a path of busy states *)
  Inductive busy_path : st -> list st -> Prop :=
  | bp_nil s : busy_path s []
  | bp_cons s s' p : busy s = true -> In s' (next' s) -> busy_path s' p -> busy_path s (s' :: p).

  (** along any busy path the rank strictly decreases, so its length is bounded; and a busy state always has a step *)
  Theorem rank_bound V : wf V = true -> rank_ok V = true ->
    forall p s, mem s V = true -> busy s = true -> busy_path s p ->
      Forall (fun t => busy t = true) p -> length p <= rank s.
  Proof.
    intros Hwf Hr. induction p as [|s1 p IH]; intros s Hm Hb Hp Hall; [simpl; lia|].
    inversion Hp as [|? ? ? _ Hin Hp']; subst. inversion Hall as [|? ? Hb1 Hall']; subst.
    pose proof (mem_elem _ _ Hwf Hm) as He.
    pose proof Hr as Hr0. unfold rank_ok in Hr0. rewrite forallb_forall in Hr0. specialize (Hr0 _ He). simpl in Hr0.
    rewrite Hb in Hr0. simpl in Hr0. apply andb_true_iff in Hr0. destruct Hr0 as [_ Hs].
    rewrite forallb_forall in Hs. specialize (Hs _ Hin). apply andb_true_iff in Hs. destruct Hs as [Hm1 Hlt].
    rewrite Hb1 in Hlt. simpl in Hlt. apply Nat.ltb_lt in Hlt.
    specialize (IH s1 Hm1 Hb1 Hp' Hall'). simpl. lia.
  Qed.
  Theorem busy_has_step V : wf V = true -> rank_ok V = true ->
    forall s, mem s V = true -> busy s = true -> next' s <> [].
  Proof.
    intros Hwf Hr s Hm Hb. pose proof (mem_elem _ _ Hwf Hm) as He.
    unfold rank_ok in Hr. rewrite forallb_forall in Hr. specialize (Hr _ He). simpl in Hr.
    rewrite Hb in Hr. simpl in Hr. apply andb_true_iff in Hr. destruct Hr as [Hne _].
    destruct (next' s); discriminate.
  Qed.

  (** ** witnesses: a concrete path from the initial state *)
  Definition step_ok (a b : st) : bool := existsb (fun x => Pos.eqb (enc x) (enc b)) (next a).

  Fixpoint path_ok (cur : st) (p : list st) : bool :=
    match p with [] => true | x :: r => step_ok cur x && path_ok x r end.

  Lemma step_ok_in a b : step_ok a b = true -> In b (next a).
  Proof.
    unfold step_ok. rewrite existsb_exists. intros [x [Hin He]]. apply Pos.eqb_eq in He.
    apply enc_inj in He. subst x. exact Hin.
  Qed.

  Definition path_end (cur : st) (p : list st) : st := fold_left (fun _ x => x) p cur.

  Theorem path_reach : forall p cur, reach cur -> path_ok cur p = true -> reach (path_end cur p).
  Proof.
    induction p as [|x r IH]; intros cur Hr Hp; [exact Hr|].
    simpl in Hp. apply andb_true_iff in Hp. destruct Hp as [H1 H2].
    assert (reach x) as Hx by (eapply reach_step; [exact Hr|apply step_ok_in; exact H1]).
    exact (IH x Hx H2).
  Qed.
End LTS.

(** a fuelled breadth-first search; its result is only a candidate: [closed] re-validates it *)
Section BFS.
  Variable st : Type.
  Variable enc : st -> positive.
  Variable next : st -> list st.

  Fixpoint bfs (fuel : nat) (frontier : list st) (V : PositiveMap.t st) : PositiveMap.t st :=
    match fuel with
    | O => V
    | S f =>
        match frontier with
        | [] => V
        | _ =>
            let '(V', nf) :=
              fold_left (fun '(V, nf) s =>
                fold_left (fun '(V, nf) s' =>
                  match PositiveMap.find (enc s') V with
                  | Some _ => (V, nf)
                  | None => (PositiveMap.add (enc s') s' V, s' :: nf)
                  end) (next s) (V, nf)) frontier (V, []) in
            bfs f nf V'
        end
    end.

  Definition explore (fuel : nat) (init : st) : PositiveMap.t st :=
    bfs fuel [init] (PositiveMap.add (enc init) init (PositiveMap.empty st)).

  (** search for a path (oldest first, without the initial state) to a state satisfying [goal];
      untrusted: [path_ok] re-validates it *)
  Fixpoint search (fuel : nat) (goal : st -> bool) (frontier : list (st * list st)) (seen : PositiveMap.t unit) : option (list st) :=
    match fuel with
    | O => None
    | S f =>
        match find (fun x => goal (fst x)) frontier with
        | Some (s, rp) => Some (rev rp)
        | None =>
            let '(seen', nf) :=
              fold_left (fun '(seen, nf) '(s, rp) =>
                fold_left (fun '(seen, nf) s' =>
                  match PositiveMap.find (enc s') seen with
                  | Some _ => (seen, nf)
                  | None => (PositiveMap.add (enc s') tt seen, (s', s' :: rp) :: nf)
                  end) (next s) (seen, nf)) frontier (seen, []) in
            match nf with [] => None | _ => search f goal nf seen' end
        end
    end.

  Definition find_path (fuel : nat) (goal : st -> bool) (init : st) : option (list st) :=
    search fuel goal [(init, [])] (PositiveMap.add (enc init) tt (PositiveMap.empty unit)).
End BFS.

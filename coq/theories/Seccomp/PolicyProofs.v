From GS Require Import Base.Str Seccomp.Check Seccomp.Asm.
Open Scope N_scope.

(** unset / unknown actions fail closed *)
Theorem action_failclosed a :
  N.land a 0xffff <> 1 -> N.land a 0xffff <> 2 -> N.land a 0xffff <> 3 -> action_ret a = RET_KILL_PROCESS.
Proof.
  intros H1 H2 H3. unfold action_ret.
  destruct (N.eqb_spec (N.land a 65535) 1); [contradiction|].
  destruct (N.eqb_spec (N.land a 65535) 2); [contradiction|].
  destruct (N.eqb_spec (N.land a 65535) 3); [contradiction|]. reflexivity.
Qed.

Theorem action_allow_only_if_asked a : action_ret a = RET_ALLOW -> N.land a 0xffff = 1.
Proof.
  unfold action_ret. destruct (N.eqb_spec (N.land a 65535) 1); [auto|].
  destruct (N.land a 65535 =? 2); [discriminate|]. destruct (N.land a 65535 =? 3); discriminate.
Qed.

(** a foreign ABI is never treated better than the default action *)
Theorem foreign_arch pol arch nr : arch <> AUDIT_ARCH_X86_64 -> verdict pol arch nr = p_default pol.
Proof.
  intros H. unfold verdict. destruct (N.eqb_spec arch AUDIT_ARCH_X86_64); [contradiction|reflexivity].
Qed.

Theorem x32_refused pol nr : X32_SYSCALL_BIT <= nr -> verdict pol AUDIT_ARCH_X86_64 nr = RET_ERRNO + ENOSYS.
Proof.
  intros H. unfold verdict. rewrite N.eqb_refl. simpl negb. cbv iota.
  apply N.leb_le in H. rewrite H. reflexivity.
Qed.

Theorem native_verdict pol nr : nr < X32_SYSCALL_BIT ->
  verdict pol AUDIT_ARCH_X86_64 nr =
    if nmem nr (p_allow pol) then RET_ALLOW else if nmem nr (p_trace pol) then RET_TRACE else p_default pol.
Proof.
  intros H. unfold verdict. rewrite N.eqb_refl. simpl negb. cbv iota.
  apply N.leb_gt in H. rewrite H. reflexivity.
Qed.

(** names that are unknown or repeated never yield a filter *)
Lemma nums_of_unknown tbl names acc n : In n names -> tbl_get tbl n = None -> nums_of tbl names acc = None.
Proof.
  revert acc. induction names as [|x r IH]; intros acc Hin Hn; [contradiction|]. simpl.
  destruct Hin as [->|Hin]; [rewrite Hn; reflexivity|].
  destruct (tbl_get tbl x) as [v|]; [|reflexivity]. destruct (nmem v acc); [reflexivity|].
  apply IH; assumption.
Qed.

Lemma nums_of_acc tbl names : forall acc l, nums_of tbl names acc = Some l -> exists t, l = acc ++ t.
Proof.
  induction names as [|x r IH]; intros acc l H; simpl in H.
  - inversion H. exists []. rewrite app_nil_r. reflexivity.
  - destruct (tbl_get tbl x) as [v|]; [|discriminate]. destruct (nmem v acc); [discriminate|].
    destruct (IH _ _ H) as [t Ht]. exists (v :: t). rewrite Ht, <- app_assoc. reflexivity.
Qed.

Lemma NoDup_snoc {A} (l : list A) v : NoDup l -> ~ In v l -> NoDup (l ++ [v]).
Proof.
  induction l as [|x l IH]; intros Hnd Hn; simpl.
  - constructor; [intros []|constructor].
  - inversion Hnd; subst. constructor.
    + intros Hin. apply in_app_or in Hin. destruct Hin as [Hin|[<-|[]]]; [contradiction|].
      apply Hn. left. reflexivity.
    + apply IH; [assumption|]. intros Hin. apply Hn. right. exact Hin.
Qed.

Lemma nums_of_nodup tbl names : forall acc l, NoDup acc -> nums_of tbl names acc = Some l -> NoDup l.
Proof.
  induction names as [|x r IH]; intros acc l Hnd H; simpl in H.
  - inversion H; subst. exact Hnd.
  - destruct (tbl_get tbl x) as [v|]; [|discriminate]. destruct (nmem v acc) eqn:E; [discriminate|].
    apply (IH (acc ++ [v])); [|exact H]. apply NoDup_snoc; [exact Hnd|].
    intros Hin. apply nmem_In in Hin. congruence.
Qed.

(** a name listed twice in a group (more precisely: two names with one number) never yields a filter *)
Theorem build_rejects_unknown tbl b n :
  (In n (b_allow b) \/ In n (b_trace b)) -> tbl_get tbl n = None -> build tbl b = None.
Proof.
  intros [H|H] Hn; unfold build.
  - rewrite (nums_of_unknown tbl _ [] n H Hn). reflexivity.
  - rewrite (nums_of_unknown tbl (b_trace b) [] n H Hn). destruct (nums_of tbl (b_allow b) []); reflexivity.
Qed.

Theorem build_lists_nodup tbl b pol : policy_of tbl b = Some pol -> NoDup (p_allow pol) /\ NoDup (p_trace pol).
Proof.
  unfold policy_of. destruct (nums_of tbl (b_allow b) []) as [a|] eqn:Ea; [|discriminate].
  destruct (nums_of tbl (b_trace b) []) as [t|] eqn:Et; [|discriminate].
  intros H; inversion H; subst; simpl. split.
  - apply (nums_of_nodup tbl (b_allow b) [] a); [constructor|exact Ea].
  - apply (nums_of_nodup tbl (b_trace b) [] t); [constructor|exact Et].
Qed.

(** ** cleanTrace *)
Lemma sdedup_In x l : In x (sdedup l) <-> In x l.
Proof.
  induction l as [|y r IH]; simpl; [tauto|]. destruct (smem y r) eqn:E.
  - rewrite IH. split; [auto|]. intros [<-|H]; [apply smem_In; exact E|exact H].
  - simpl. rewrite IH. tauto.
Qed.

Lemma sdedup_NoDup l : NoDup (sdedup l).
Proof.
  induction l as [|y r IH]; simpl; [constructor|]. destruct (smem y r) eqn:E; [exact IH|].
  constructor; [|exact IH]. rewrite sdedup_In. intros H. apply smem_In in H. congruence.
Qed.

Theorem clean_trace_spec allow trace :
  let '(a', t') := clean_trace allow trace in
  (forall x, In x t' <-> In x trace) /\
  (forall x, In x a' <-> In x allow /\ ~ In x trace) /\
  (forall x, In x a' -> ~ In x t') /\ NoDup a' /\ NoDup t'.
Proof.
  unfold clean_trace. split; [|split; [|split; [|split]]].
  - intros x. apply sdedup_In.
  - intros x. rewrite sdedup_In, filter_In, negb_true_iff. split; intros [H1 H2]; split; auto.
    + intros H. apply smem_In in H. congruence.
    + destruct (smem x trace) eqn:E; [|reflexivity]. apply smem_In in E. contradiction.
  - intros x. rewrite !sdedup_In, filter_In, negb_true_iff. intros [_ H] Hin.
    apply smem_In in Hin. congruence.
  - apply sdedup_NoDup.
  - apply sdedup_NoDup.
Qed.

From GS Require Import Seccomp.Check.
Open Scope N_scope.

(** two values are indistinguishable by comparisons with the constants of C *)
Definition same_sig (C : list N) (x y : N) : Prop := forall c, In c C -> (x ?= c) = (y ?= c).

Lemma same_sig_refl C x : same_sig C x x.
Proof. intros c _. reflexivity. Qed.

Lemma sig_eqb C x y c : same_sig C x y -> In c C -> (x =? c) = (y =? c).
Proof.
  intros H Hc. specialize (H c Hc).
  destruct (N.eqb_spec x c) as [->|Hx]; destruct (N.eqb_spec y c) as [->|Hy]; try reflexivity.
  - rewrite N.compare_refl in H. symmetry in H. apply N.compare_eq in H. contradiction.
  - rewrite N.compare_refl in H. apply N.compare_eq in H. contradiction.
Qed.

Lemma sig_ltb C x y c : same_sig C x y -> In c C -> (c <? x) = (c <? y).
Proof.
  intros H Hc. specialize (H c Hc). unfold N.ltb.
  rewrite (N.compare_antisym x c), (N.compare_antisym y c), H. reflexivity.
Qed.

Lemma sig_leb C x y c : same_sig C x y -> In c C -> (c <=? x) = (c <=? y).
Proof.
  intros H Hc. specialize (H c Hc). unfold N.leb.
  rewrite (N.compare_antisym x c), (N.compare_antisym y c), H. reflexivity.
Qed.

(** ** the program cannot tell two inputs with the same signatures apart *)
Lemma in_consts i p : In i p -> is_cond i = true -> In (k i) (consts p).
Proof.
  intros Hi Hc. unfold consts. apply in_flat_map. exists i. split; [exact Hi|].
  rewrite Hc. left. reflexivity.
Qed.

Lemma run_sig C d d' : same_sig C (sd_nr d) (sd_nr d') -> same_sig C (sd_arch d) (sd_arch d') ->
  forall p, forallb insn_ok p = true -> incl (consts p) C ->
  forall skip A A', same_sig C A A' -> run_l p skip A d = run_l p skip A' d'.
Proof.
  intros Hn Ha. induction p as [|i rest IH]; intros Hok Hc skip A A' HA; [reflexivity|].
  simpl in Hok. apply andb_true_iff in Hok. destruct Hok as [Hi Hrest].
  assert (incl (consts rest) C) as Hc'.
  { intros c Hin. apply Hc. unfold consts. simpl. apply in_or_app. right. exact Hin. }
  specialize (IH Hrest Hc').
  destruct skip as [|s]; cbn [run_l]; [|apply IH; exact HA].
  destruct (code i =? OP_LD_ABS) eqn:E1.
  { unfold insn_ok in Hi. rewrite E1 in Hi. unfold is_cond in Hi.
    apply N.eqb_eq in E1. rewrite E1 in Hi. cbn in Hi. rewrite orb_false_r in Hi.
    unfold load. destruct (k i =? 0) eqn:K0; [apply IH; exact Hn|].
    destruct (k i =? 4) eqn:K4; [apply IH; exact Ha|]. discriminate. }
  assert (is_cond i = true -> In (k i) C) as Hk.
  { intros Hcond. apply Hc. apply in_consts; [left; reflexivity|exact Hcond]. }
  destruct (code i =? OP_JEQ) eqn:E2.
  { rewrite (sig_eqb C A A' (k i) HA) by (apply Hk; unfold is_cond; rewrite E2; reflexivity).
    apply IH. exact HA. }
  destruct (code i =? OP_JGT) eqn:E3.
  { rewrite (sig_ltb C A A' (k i) HA) by (apply Hk; unfold is_cond; rewrite E3, orb_true_r; reflexivity).
    apply IH. exact HA. }
  destruct (code i =? OP_JGE) eqn:E4.
  { rewrite (sig_leb C A A' (k i) HA) by (apply Hk; unfold is_cond; rewrite E4, !orb_true_r; reflexivity).
    apply IH. exact HA. }
  destruct (code i =? OP_JA); [apply IH; exact HA|].
  reflexivity.
Qed.

(** ** the specification cannot tell them apart either *)
Lemma nmem_sig C x y l : same_sig C x y -> incl l C -> nmem x l = nmem y l.
Proof.
  intros H Hl. induction l as [|c l IH]; [reflexivity|]. simpl.
  rewrite (sig_eqb C x y c H) by (apply Hl; left; reflexivity).
  rewrite IH; [reflexivity|]. intros z Hz. apply Hl. right. exact Hz.
Qed.

Lemma verdict_sig C pol a a' n n' :
  In AUDIT_ARCH_X86_64 C -> In X32_SYSCALL_BIT C -> incl (p_allow pol) C -> incl (p_trace pol) C ->
  same_sig C a a' -> same_sig C n n' -> verdict pol a n = verdict pol a' n'.
Proof.
  intros H1 H2 H3 H4 Ha Hn. unfold verdict.
  rewrite (sig_eqb C a a' _ Ha H1), (sig_leb C n n' _ Hn H2),
          (nmem_sig C n n' _ Hn H3), (nmem_sig C n n' _ Hn H4). reflexivity.
Qed.

(** ** representatives *)
Fixpoint max_below (C : list N) (x : N) : option N :=
  match C with
  | [] => None
  | c :: r => match max_below r x with
              | Some m => Some (if (c <? x) && (m <? c) then c else m)
              | None => if c <? x then Some c else None
              end
  end.

Definition rep (C : list N) (x : N) : N :=
  if nmem x C then x else match max_below C x with Some m => N.succ m | None => 0 end.

Lemma max_below_none C x : max_below C x = None -> forall c, In c C -> x <= c.
Proof.
  induction C as [|c r IH]; simpl; [tauto|]. destruct (max_below r x) as [m|]; [discriminate|].
  destruct (c <? x) eqn:E; [discriminate|]. intros _ z [<-|Hz].
  - apply N.ltb_ge. exact E.
  - apply IH; [reflexivity|exact Hz].
Qed.

Lemma max_below_some C x m : max_below C x = Some m ->
  In m C /\ m < x /\ forall c, In c C -> c < x -> c <= m.
Proof.
  revert m. induction C as [|c r IH]; simpl; [discriminate|]. intros m.
  destruct (max_below r x) as [m0|] eqn:E.
  - destruct (IH m0 eq_refl) as [I1 [I2 I3]]. intros H. inversion H; subst m; clear H.
    destruct ((c <? x) && (m0 <? c)) eqn:Eb.
    + apply andb_true_iff in Eb. destruct Eb as [Eb1 Eb2]. apply N.ltb_lt in Eb1, Eb2.
      split; [left; reflexivity|]. split; [exact Eb1|]. intros z [<-|Hz] Hzx; [lia|].
      specialize (I3 z Hz Hzx). lia.
    + split; [right; exact I1|]. split; [exact I2|]. intros z [<-|Hz] Hzx; [|apply I3; assumption].
      apply andb_false_iff in Eb. destruct Eb as [Eb|Eb].
      * apply N.ltb_ge in Eb. lia.
      * apply N.ltb_ge in Eb. exact Eb.
  - destruct (c <? x) eqn:Ec; [|discriminate]. intros H. inversion H; subst m; clear H.
    apply N.ltb_lt in Ec. split; [left; reflexivity|]. split; [exact Ec|].
    intros z [<-|Hz] Hzx; [lia|]. pose proof (max_below_none r x E z Hz). lia.
Qed.

Lemma rep_sig C x : same_sig C x (rep C x).
Proof.
  unfold rep. destruct (nmem x C) eqn:Em; [apply same_sig_refl|].
  assert (~ In x C) as Hx by (intros H; apply nmem_In in H; congruence).
  intros c Hc. assert (c <> x) as Hne by (intros ->; contradiction).
  destruct (max_below C x) as [m|] eqn:E.
  - destruct (max_below_some C x m E) as [M1 [M2 M3]].
    destruct (N.lt_ge_cases c x) as [Hlt|Hge].
    + specialize (M3 c Hc Hlt). rewrite (proj2 (N.compare_gt_iff x c)) by lia.
      symmetry. apply N.compare_gt_iff. lia.
    + assert (x < c) as Hxc by lia. rewrite (proj2 (N.compare_lt_iff x c) Hxc).
      symmetry. apply N.compare_lt_iff.
      (* succ m <= x < c *) lia.
  - pose proof (max_below_none C x E c Hc) as Hle.
    assert (x < c) as Hxc by lia. rewrite (proj2 (N.compare_lt_iff x c) Hxc).
    symmetry. apply N.compare_lt_iff. lia.
Qed.

Lemma dedup_In x l : In x (dedup l) <-> In x l.
Proof.
  induction l as [|y r IH]; simpl; [tauto|]. destruct (nmem y r) eqn:E.
  - rewrite IH. split; [auto|]. intros [<-|H]; [apply nmem_In; exact E|exact H].
  - simpl. rewrite IH. tauto.
Qed.

Lemma rep_cand C x : In (rep C x) (cand C).
Proof.
  unfold cand. apply dedup_In. unfold rep. destruct (nmem x C) eqn:Em.
  - right. apply in_or_app. left. apply nmem_In. exact Em.
  - destruct (max_below C x) as [m|] eqn:E; [|left; reflexivity].
    right. apply in_or_app. right. apply in_map. apply (max_below_some C x m E).
Qed.

(** ** soundness of the validator *)
Theorem filter_sound p pol : check_filter p pol = true ->
  forall d, run p d = Some (verdict pol (sd_arch d) (sd_nr d)).
Proof.
  unfold check_filter. intros H d. apply andb_true_iff in H. destruct H as [Hok Hall].
  set (C := cset p pol) in *.
  set (a' := rep C (sd_arch d)). set (n' := rep C (sd_nr d)).
  rewrite forallb_forall in Hall. specialize (Hall a' (rep_cand C _)).
  rewrite forallb_forall in Hall. specialize (Hall n' (rep_cand C _)).
  unfold opt_eqb in Hall. destruct (run p (mk_data a' n')) as [v|] eqn:Er; [|discriminate].
  apply N.eqb_eq in Hall. subst v.
  assert (incl (consts p) C) as Hc.
  { intros c Hin. unfold C, cset. right. right. apply in_or_app. right. apply in_or_app. right. exact Hin. }
  unfold run in *.
  rewrite (run_sig C d (mk_data a' n') (rep_sig C _) (rep_sig C _) p Hok Hc 0%nat 0 0 (same_sig_refl C 0)).
  rewrite Er. f_equal. symmetry.
  apply (verdict_sig C); try apply rep_sig.
  - left. reflexivity.
  - right. left. reflexivity.
  - intros c Hin. unfold C, cset. right. right. apply in_or_app. left. exact Hin.
  - intros c Hin. unfold C, cset. right. right. apply in_or_app. right. apply in_or_app. left. exact Hin.
Qed.

(** non-vacuity: a hand-written filter for allow={read(0)}, trace={open(2)}, default kill *)
Example check_filter_example :
  let pol := {| p_allow := [0]; p_trace := [2]; p_default := RET_KILL_PROCESS |} in
  let mk c t f kk := {| code := c; jt := t; jf := f; k := kk |} in
  check_filter [ mk 0x20 0 0 4; mk 0x15 0 7 AUDIT_ARCH_X86_64; mk 0x20 0 0 0; mk 0x35 0 1 X32_SYSCALL_BIT;
                 mk 0x06 0 0 (RET_ERRNO + ENOSYS); mk 0x15 0 1 0; mk 0x06 0 0 RET_ALLOW;
                 mk 0x15 0 1 2; mk 0x06 0 0 RET_TRACE; mk 0x06 0 0 RET_KILL_PROCESS ] pol = true.
Proof. vm_compute. reflexivity. Qed.

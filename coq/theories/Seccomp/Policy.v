(** The declared policy and what the kernel must answer for it. *)
From GS Require Export Seccomp.Bpf.
Open Scope N_scope.

Definition AUDIT_ARCH_X86_64 := 0xC000003E.
Definition X32_SYSCALL_BIT := 0x40000000.

Definition RET_KILL_PROCESS := 0x80000000. Definition RET_KILL_THREAD := 0.
Definition RET_ERRNO := 0x00050000. Definition RET_TRACE := 0x7ff00000. Definition RET_ALLOW := 0x7fff0000.
Definition EPERM := 1. Definition ENOSYS := 38.

(** numbers of the allow- and trace-listed names, and the kernel word of the default action *)
Record policy := { p_allow : list N; p_trace : list N; p_default : N }.

Fixpoint nmem (x : N) (l : list N) : bool :=
  match l with [] => false | y :: r => (x =? y) || nmem x r end.

Lemma nmem_In x l : nmem x l = true <-> In x l.
Proof.
  induction l as [|y l IH]; simpl.
  - split; [discriminate|tauto].
  - rewrite orb_true_iff, IH, N.eqb_eq. split; intros [H|H]; auto.
Qed.

Definition verdict (pol : policy) (arch nr : N) : N :=
  if negb (arch =? AUDIT_ARCH_X86_64) then p_default pol
  else if X32_SYSCALL_BIT <=? nr then RET_ERRNO + ENOSYS
  else if nmem nr (p_allow pol) then RET_ALLOW
  else if nmem nr (p_trace pol) then RET_TRACE
  else p_default pol.

(** libseccomp.Action (uint32) -> kernel word, as ToSeccompAction followed by
    Program.Ret does it: allow, errno|EPERM, trace, and kill-process for
    every other value *)
Definition action_ret (a : N) : N :=
  let b := N.land a 0xffff in
  if b =? 1 then RET_ALLOW
  else if b =? 2 then RET_ERRNO + EPERM
  else if b =? 3 then RET_TRACE
  else RET_KILL_PROCESS.

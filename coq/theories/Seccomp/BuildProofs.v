(** Builder.Build is correct once and for all (not only per built filter) for every policy
    whose two lists hold at most 256 numbers each: the Gallina port of the group
    construction, of Program.Assemble and of the prologue yields a filter that answers
    the policy's verdict for every seccomp_data.  (Longer lists make Assemble insert early
    returns; those filters are covered by the validator of CheckProofs, per built filter.) *)
From Coq Require Import List Arith NArith Bool Lia.
From GS Require Import Base.Str Seccomp.Check Seccomp.Asm.
Import ListNotations.
Open Scope nat_scope.

(** * label maps *)
Lemma lab_get_set ls l v l' : lab_get (lab_set ls l v) l' = if Nat.eqb l' l then v else lab_get ls l'.
Proof.
  induction ls as [|[l0 w] r IH]; simpl.
  - reflexivity.
  - destruct (Nat.eqb_spec l l0) as [->|Hn]; simpl.
    + destruct (Nat.eqb_spec l' l0); reflexivity.
    + rewrite IH. destruct (Nat.eqb_spec l' l0) as [->|]; [|reflexivity].
      destruct (Nat.eqb_spec l0 l); [congruence|reflexivity].
Qed.

Lemma lab_set_same ls l : lab_get ls l <> [] -> lab_set ls l (lab_get ls l) = ls.
Proof.
  induction ls as [|[l0 w] r IH]; simpl; intros H.
  - contradiction.
  - destruct (Nat.eqb_spec l l0) as [->|Hn]; [reflexivity|]. rewrite IH; auto.
Qed.

(** * lists *)
Lemma set_nth_app {A} (pre : list A) x y rest : set_nth (length pre) x (pre ++ y :: rest) = pre ++ x :: rest.
Proof. induction pre as [|a pre IH]; simpl; [reflexivity|]. rewrite IH. reflexivity. Qed.

Lemma nth_error_mid {A} (pre : list A) y rest : nth_error (pre ++ y :: rest) (length pre) = Some y.
Proof. induction pre as [|a pre IH]; simpl; auto. Qed.

Lemma nth_error_set_nth {A} (l : list A) i x j :
  nth_error (set_nth i x l) j = if Nat.eqb i j then (match nth_error l j with Some _ => Some x | None => None end) else nth_error l j.
Proof.
  revert i j. induction l as [|a l IH]; intros i j; simpl.
  - destruct i, j; simpl; try reflexivity. destruct (Nat.eqb i j); reflexivity.
  - destruct i, j; simpl; try reflexivity. apply IH.
Qed.

(** * Program.Assemble when every label is set once, ahead, within 256 instructions *)
Definition tgt (L : list (nat * list nat)) (l : nat) : nat := hd 0 (lab_get L l).

Definition is_jeq (o : option pinsn) : bool := match o with Some (PJeq _ _ _) => true | _ => false end.

(* the nearest candidate of the label lies ahead, within reach of a conditional jump *)
Definition ok_side (L : list (nat * list nat)) (idx l : nat) : Prop :=
  lab_get L l <> [] /\ idx < tgt L l /\ tgt L l <= idx + 256.

Definition ok_jump (L : list (nat * list nat)) (ins : list pinsn) (j : jmp) : Prop :=
  is_jeq (nth_error ins (j_index j)) = true /\ ok_side L (j_index j) (j_true j) /\ ok_side L (j_index j) (j_false j) /\
  ~ (tgt L (j_true j) = S (j_index j) /\ tgt L (j_false j) = S (j_index j)).

Definition resolved (L : list (nat * list nat)) (j : jmp) (i : pinsn) : pinsn :=
  match i with
  | PJeq val _ _ => PJeq val (tgt L (j_true j) - j_index j - 1) (tgt L (j_false j) - j_index j - 1)
  | _ => i
  end.

Fixpoint apply_jumps (L : list (nat * list nat)) (js : list jmp) (ins : list pinsn) : list pinsn :=
  match js with
  | [] => ins
  | j :: r => apply_jumps L r (match nth_error ins (j_index j) with
                               | Some i => set_nth (j_index j) (resolved L j i) ins
                               | None => ins
                               end)
  end.

Lemma resolve_label_short p cur l : ok_side (pr_labels p) (j_index cur) l ->
  resolve_label p cur l = Some (p, tgt (pr_labels p) l - j_index cur - 1).
Proof.
  intros (Hg & Hlt & Hle). unfold resolve_label, tgt in *.
  destruct (lab_get (pr_labels p) l) as [|t rest] eqn:E; [contradiction|]. cbn [hd] in *. cbn [drop_behind].
  destruct (Nat.leb_spec t (j_index cur)) as [H|_]; [lia|].
  destruct (Nat.ltb_spec 255 (t - j_index cur - 1)) as [H|_]; [lia|].
  rewrite <- E. rewrite lab_set_same by (rewrite E; discriminate). destruct p; reflexivity.
Qed.

Lemma resolve_jump_short p pos cur : nth_error (pr_jumps p) pos = Some cur -> ok_jump (pr_labels p) (pr_ins p) cur ->
  exists i, nth_error (pr_ins p) (j_index cur) = Some i /\
  resolve_jump p pos = Some {| pr_ins := set_nth (j_index cur) (resolved (pr_labels p) cur i) (pr_ins p);
                               pr_jumps := pr_jumps p; pr_labels := pr_labels p; pr_next := pr_next p |}.
Proof.
  intros Hc (Hj & Ht & Hf & Hu). unfold resolve_jump. rewrite Hc.
  destruct (nth_error (pr_ins p) (j_index cur)) as [[val a b|v]|] eqn:E; try discriminate.
  exists (PJeq val a b). split; [reflexivity|].
  rewrite (resolve_label_short p cur _ Ht). rewrite (resolve_label_short p cur _ Hf).
  destruct Ht as (_ & Ht1 & _), Hf as (_ & Hf1 & _).
  destruct (Nat.eqb_spec (tgt (pr_labels p) (j_true cur) - j_index cur - 1) 0) as [E1|E1];
  destruct (Nat.eqb_spec (tgt (pr_labels p) (j_false cur) - j_index cur - 1) 0) as [E2|E2]; simpl; try reflexivity.
  exfalso. apply Hu. lia.
Qed.

Lemma ok_jump_set_nth L ins j i x : is_jeq (Some x) = true -> ok_jump L ins j -> ok_jump L (set_nth i x ins) j.
Proof.
  intros Hx (Hj & R). split; [|exact R]. rewrite nth_error_set_nth.
  destruct (Nat.eqb i (j_index j)); [|exact Hj].
  destruct (nth_error ins (j_index j)); [exact Hx|discriminate].
Qed.

Lemma resolved_is_jeq L j i : is_jeq (Some i) = true -> is_jeq (Some (resolved L j i)) = true.
Proof. destruct i; simpl; auto. Qed.

Lemma resolve_all_short : forall js p pos, skipn pos (pr_jumps p) = js -> Forall (ok_jump (pr_labels p) (pr_ins p)) js ->
  resolve_all (length js) p pos = Some {| pr_ins := apply_jumps (pr_labels p) js (pr_ins p);
                                          pr_jumps := pr_jumps p; pr_labels := pr_labels p; pr_next := pr_next p |}.
Proof.
  induction js as [|j r IH]; intros p pos Hs Hok.
  - simpl. destruct p; reflexivity.
  - simpl resolve_all.
    assert (Hc : nth_error (pr_jumps p) pos = Some j).
    { rewrite <- (firstn_skipn pos (pr_jumps p)) at 1. rewrite Hs.
      destruct (Nat.le_gt_cases (length (pr_jumps p)) pos) as [Hl|Hl].
      - rewrite skipn_all2 in Hs by exact Hl. discriminate.
      - rewrite nth_error_app2 by (rewrite firstn_length; lia).
        rewrite firstn_length, Nat.min_l by lia. rewrite Nat.sub_diag. reflexivity. }
    inversion Hok as [|? ? Hj Hr]; subst.
    destruct (resolve_jump_short p pos j Hc Hj) as (i & Ei & ->).
    assert (Hjq : is_jeq (Some i) = true) by (destruct Hj as (Hq & _); rewrite Ei in Hq; exact Hq).
    rewrite IH; simpl.
    + rewrite Ei. reflexivity.
    + clear - Hs Hc. revert pos Hs Hc. generalize (pr_jumps p). intros l. induction l as [|a l IHl]; intros pos Hs Hc.
      * destruct pos; discriminate.
      * destruct pos; simpl in *; [inversion Hs; reflexivity|]. apply IHl; assumption.
    + eapply Forall_impl; [|exact Hr]. intros a Ha. apply ok_jump_set_nth; [|exact Ha].
      apply resolved_is_jeq. exact Hjq.
Qed.

Lemma apply_jumps_app L a b ins : apply_jumps L (a ++ b) ins = apply_jumps L b (apply_jumps L a ins).
Proof. revert ins. induction a as [|j a IH]; intros ins; simpl; [reflexivity|]. apply IH. Qed.

(** * the program the two groups build, in closed form *)
Definition Jsrc (nums : list N) : list pinsn := map (fun n => PJeq n 0 0) nums.

Fixpoint gb_jumps (base nxt : nat) (nums : list N) (action nextg : nat) : list jmp :=
  match nums with
  | [] => []
  | [n] => [{| j_index := base; j_true := action; j_false := nextg |}]
  | n :: r => {| j_index := base; j_true := action; j_false := S nxt |} :: gb_jumps (S base) (S nxt) r action nextg
  end.

(** the resolved jumps of one group: equal -> the group's return, else the next comparison; the last one
    skips the return *)
Fixpoint gj (nums : list N) : list pinsn :=
  match nums with
  | [] => []
  | [n] => [PJeq n 0 1]
  | n :: r => PJeq n (length r) 0 :: gj r
  end.

Definition fresh (p : prog) : Prop := forall l, pr_next p < l -> lab_get (pr_labels p) l = [].

Lemma group_body_spec : forall nums p a g, nums <> [] -> fresh p ->
  pr_ins (group_body p nums a g) = pr_ins p ++ Jsrc nums /\
  pr_jumps (group_body p nums a g) = pr_jumps p ++ gb_jumps (length (pr_ins p)) (pr_next p) nums a g /\
  pr_next (group_body p nums a g) = pr_next p + (length nums - 1) /\
  (forall l, lab_get (pr_labels (group_body p nums a g)) l =
             if (pr_next p <? l) && (l <=? pr_next p + (length nums - 1))
             then [length (pr_ins p) + (l - pr_next p)] else lab_get (pr_labels p) l).
Proof.
  induction nums as [|n r IH]; intros p a g Hne Hf; [contradiction|].
  destruct r as [|m r'].
  - simpl. repeat split; try lia.
    intros l. destruct (Nat.ltb_spec (pr_next p) l); destruct (Nat.leb_spec l (pr_next p + 0)); simpl; try reflexivity. lia.
  - change (group_body p (n :: m :: r') a g) with (group_body (jmp_if_true p n a) (m :: r') a g).
    set (q := jmp_if_true p n a).
    assert (Hqi : pr_ins q = pr_ins p ++ [PJeq n 0 0]) by reflexivity.
    assert (Hqj : pr_jumps q = pr_jumps p ++ [{| j_index := length (pr_ins p); j_true := a; j_false := S (pr_next p) |}]) by reflexivity.
    assert (Hqn : pr_next q = S (pr_next p)) by reflexivity.
    assert (Hql : forall l, lab_get (pr_labels q) l = if Nat.eqb l (S (pr_next p)) then [length (pr_ins p) + 1] else lab_get (pr_labels p) l).
    { intros l. unfold q, jmp_if_true, new_label, set_label, jmp_if. cbn [pr_labels pr_ins pr_next].
      rewrite lab_get_set. rewrite (Hf (S (pr_next p))) by lia. rewrite app_length. reflexivity. }
    assert (Hqf : fresh q).
    { intros l Hl. rewrite Hql. rewrite Hqn in Hl. destruct (Nat.eqb_spec l (S (pr_next p))); [lia|]. apply Hf. lia. }
    destruct (IH q a g) as (Hi & Hj & Hn & Hl); [discriminate|exact Hqf|].
    rewrite Hi, Hj, Hn. rewrite Hqi, Hqj, Hqn. rewrite app_length. cbn [length].
    repeat split.
    + rewrite <- app_assoc. reflexivity.
    + rewrite <- app_assoc. cbn [app]. rewrite Nat.add_1_r. reflexivity.
    + cbn [length]. lia.
    + intros l. rewrite Hl, Hql, Hqi, Hqn, app_length. cbn [length].
      destruct (Nat.ltb_spec (S (pr_next p)) l); destruct (Nat.leb_spec l (S (pr_next p) + (S (length r') - 1)));
      destruct (Nat.ltb_spec (pr_next p) l); destruct (Nat.leb_spec l (pr_next p + (S (S (length r')) - 1)));
      destruct (Nat.eqb_spec l (S (pr_next p))); cbn [andb]; try lia; try reflexivity; f_equal; lia.
Qed.

Definition gsrc (nums : list N) (r : N) : list pinsn := match nums with [] => [] | _ => Jsrc nums ++ [PRet r] end.
Definition gjs (len next : nat) (nums : list N) : list jmp :=
  match nums with [] => [] | _ => gb_jumps len (next + 2) nums (next + 1) (next + 2) end.
Definition gcode (nums : list N) (r : N) : list pinsn := match nums with [] => [] | _ => gj nums ++ [PRet r] end.

(** what the labels of one group point at *)
Definition group_labels (L : list (nat * list nat)) (len next : nat) (nums : list N) : Prop :=
  lab_get L (next + 1) = [len + length nums] /\ lab_get L (next + 2) = [len + length nums + 1] /\
  (forall l, next + 2 < l -> l <= next + 2 + (length nums - 1) -> lab_get L l = [len + (l - (next + 2))]).

Lemma group_spec p nums r : fresh p ->
  pr_ins (group p nums r) = pr_ins p ++ gsrc nums r /\
  pr_jumps (group p nums r) = pr_jumps p ++ gjs (length (pr_ins p)) (pr_next p) nums /\
  fresh (group p nums r) /\ pr_next p <= pr_next (group p nums r) /\
  (forall l, l <= pr_next p -> lab_get (pr_labels (group p nums r)) l = lab_get (pr_labels p) l) /\
  (nums <> [] -> group_labels (pr_labels (group p nums r)) (length (pr_ins p)) (pr_next p) nums /\
                 pr_next (group p nums r) = pr_next p + 2 + (length nums - 1)).
Proof.
  intros Hf. destruct nums as [|n0 r0].
  - simpl. rewrite !app_nil_r. repeat split; auto; exfalso; congruence.
  - set (nums := n0 :: r0). assert (Hne : nums <> []) by discriminate.
    unfold group. fold nums. change (match nums with [] => p | _ :: _ => ?x end) with x.
    unfold new_label. cbn [pr_next pr_ins pr_jumps pr_labels].
    set (p2 := {| pr_ins := pr_ins p; pr_jumps := pr_jumps p; pr_labels := pr_labels p; pr_next := S (S (pr_next p)) |}).
    assert (Hf2 : fresh p2) by (intros l Hl; apply Hf; simpl in Hl; lia).
    destruct (group_body_spec nums p2 (S (pr_next p)) (S (S (pr_next p))) Hne Hf2) as (Hi & Hj & Hn & Hl).
    set (p3 := group_body p2 nums (S (pr_next p)) (S (S (pr_next p)))) in *.
    cbn [pr_ins pr_jumps pr_next pr_labels p2] in Hi, Hj, Hn, Hl.
    unfold set_label, ret. cbn [pr_ins pr_jumps pr_next pr_labels].
    assert (Hget : forall l, lab_get (lab_set (lab_set (pr_labels p3) (S (pr_next p)) (lab_get (pr_labels p3) (S (pr_next p)) ++ [length (pr_ins p3)]))
                                  (S (S (pr_next p)))
                                  (lab_get (lab_set (pr_labels p3) (S (pr_next p)) (lab_get (pr_labels p3) (S (pr_next p)) ++ [length (pr_ins p3)])) (S (S (pr_next p)))
                                   ++ [length (pr_ins p3 ++ [PRet r])])) l =
                     if Nat.eqb l (S (S (pr_next p))) then [length (pr_ins p) + length nums + 1]
                     else if Nat.eqb l (S (pr_next p)) then [length (pr_ins p) + length nums]
                     else if (S (S (pr_next p)) <? l) && (l <=? S (S (pr_next p)) + (length nums - 1))
                          then [length (pr_ins p) + (l - S (S (pr_next p)))] else lab_get (pr_labels p) l).
    { intros l. rewrite !lab_get_set. rewrite !Hl, !Hi, !app_length. unfold Jsrc. rewrite map_length. cbn [length].
      rewrite Nat.ltb_irrefl. cbn [andb].
      replace (S (S (pr_next p)) <? S (pr_next p)) with false by (symmetry; apply Nat.ltb_ge; lia). cbn [andb].
      rewrite (Hf (S (pr_next p))) by lia. rewrite (Hf (S (S (pr_next p)))) by lia.
      destruct (Nat.eqb_spec (S (S (pr_next p))) (S (pr_next p))); [lia|]. cbn [app].
      destruct (Nat.eqb_spec l (S (S (pr_next p)))); [f_equal; lia|].
      destruct (Nat.eqb_spec l (S (pr_next p))); reflexivity. }
    repeat split.
    + rewrite Hi. unfold gsrc. fold nums. change (match nums with [] => [] | _ :: _ => ?x end) with x. rewrite <- app_assoc. reflexivity.
    + rewrite Hj. unfold gjs. fold nums. change (match nums with [] => [] | _ :: _ => ?x end) with x.
      replace (pr_next p + 2) with (S (S (pr_next p))) by lia. replace (pr_next p + 1) with (S (pr_next p)) by lia. reflexivity.
    + intros l Hlt. cbn [pr_labels pr_next] in *. rewrite Hget. rewrite Hn in Hlt.
      destruct (Nat.eqb_spec l (S (S (pr_next p)))); [lia|]. destruct (Nat.eqb_spec l (S (pr_next p))); [lia|].
      destruct (Nat.leb_spec l (S (S (pr_next p)) + (length nums - 1))); [lia|]. rewrite andb_false_r. apply Hf. lia.
    + rewrite Hn. lia.
    + intros l Hle. rewrite Hget.
      destruct (Nat.eqb_spec l (S (S (pr_next p)))); [lia|]. destruct (Nat.eqb_spec l (S (pr_next p))); [lia|].
      destruct (Nat.ltb_spec (S (S (pr_next p))) l); [lia|]. reflexivity.
    + rewrite Hget. replace (pr_next p + 1) with (S (pr_next p)) by lia.
      destruct (Nat.eqb_spec (S (pr_next p)) (S (S (pr_next p)))); [lia|]. rewrite Nat.eqb_refl. reflexivity.
    + rewrite Hget. replace (pr_next p + 2) with (S (S (pr_next p))) by lia. rewrite Nat.eqb_refl. reflexivity.
    + intros l H1 H2. rewrite Hget. replace (pr_next p + 2) with (S (S (pr_next p))) in * by lia.
      destruct (Nat.eqb_spec l (S (S (pr_next p)))); [lia|]. destruct (Nat.eqb_spec l (S (pr_next p))); [lia|].
      destruct (Nat.ltb_spec (S (S (pr_next p))) l); [|lia]. destruct (Nat.leb_spec l (S (S (pr_next p)) + (length nums - 1))); [|lia].
      reflexivity.
    + rewrite Hn. lia.
Qed.

(** * resolving one group *)
Lemma gb_ok : forall nums pre post nx a g L, nums <> [] -> length nums <= 256 ->
  lab_get L a <> [] -> tgt L a = length pre + length nums -> lab_get L g = [length pre + length nums + 1] ->
  (forall l, nx < l -> l <= nx + (length nums - 1) -> lab_get L l = [length pre + (l - nx)]) ->
  Forall (ok_jump L (pre ++ Jsrc nums ++ post)) (gb_jumps (length pre) nx nums a g).
Proof.
  induction nums as [|n r IH]; intros pre post nx a g L Hne Hlen Hane Ha Hg Hl; [contradiction|].
  destruct r as [|m r'].
  - constructor; [|constructor]. cbn [length] in *. unfold ok_jump, ok_side. cbn [j_index j_true j_false].
    rewrite Ha. unfold tgt. rewrite Hg. cbn [hd]. simpl Jsrc. cbn [app]. rewrite nth_error_mid.
    repeat split; try lia; try assumption; try discriminate; try (intros [? ?]; lia).
  - change (gb_jumps (length pre) nx (n :: m :: r') a g) with
      ({| j_index := length pre; j_true := a; j_false := S nx |} :: gb_jumps (S (length pre)) (S nx) (m :: r') a g).
    constructor.
    + unfold ok_jump, ok_side. cbn [j_index j_true j_false]. rewrite Ha. unfold tgt. rewrite (Hl (S nx)) by (cbn [length]; lia).
      cbn [hd]. simpl Jsrc. cbn [app]. rewrite nth_error_mid. cbn [length] in *.
      repeat split; try lia; try assumption; try discriminate; try (intros [? ?]; lia).
    + replace (pre ++ Jsrc (n :: m :: r') ++ post) with ((pre ++ [PJeq n 0 0]) ++ Jsrc (m :: r') ++ post)
        by (rewrite <- app_assoc; reflexivity).
      replace (S (length pre)) with (length (pre ++ [PJeq n 0 0])) by (rewrite app_length; cbn [length]; lia).
      apply IH; try discriminate; try assumption.
      * cbn [length] in *. lia.
      * rewrite Ha. rewrite app_length. cbn [length]. lia.
      * rewrite Hg. rewrite app_length. cbn [length]. f_equal. lia.
      * intros l H1 H2. rewrite Hl by (cbn [length] in *; lia). rewrite app_length. cbn [length]. f_equal. lia.
Qed.

Lemma gb_apply : forall nums pre post nx a g L, nums <> [] ->
  tgt L a = length pre + length nums -> lab_get L g = [length pre + length nums + 1] ->
  (forall l, nx < l -> l <= nx + (length nums - 1) -> lab_get L l = [length pre + (l - nx)]) ->
  apply_jumps L (gb_jumps (length pre) nx nums a g) (pre ++ Jsrc nums ++ post) = pre ++ gj nums ++ post.
Proof.
  induction nums as [|n r IH]; intros pre post nx a g L Hne Ha Hg Hl; [contradiction|].
  destruct r as [|m r'].
  - cbn [gb_jumps apply_jumps j_index]. simpl Jsrc. cbn [app]. rewrite nth_error_mid, set_nth_app.
    unfold resolved. cbn [j_index j_true j_false]. rewrite Ha. unfold tgt. rewrite Hg. cbn [hd length gj app].
    replace (length pre + 1 - length pre - 1) with 0 by lia. replace (length pre + 1 + 1 - length pre - 1) with 1 by lia. reflexivity.
  - change (gb_jumps (length pre) nx (n :: m :: r') a g) with
      ({| j_index := length pre; j_true := a; j_false := S nx |} :: gb_jumps (S (length pre)) (S nx) (m :: r') a g).
    cbn [apply_jumps j_index]. change (Jsrc (n :: m :: r')) with (PJeq n 0 0 :: Jsrc (m :: r')).
    change ((PJeq n 0 0 :: Jsrc (m :: r')) ++ post) with (PJeq n 0 0 :: Jsrc (m :: r') ++ post).
    rewrite nth_error_mid, set_nth_app.
    unfold resolved. cbn [j_index j_true j_false]. rewrite Ha. unfold tgt. rewrite (Hl (S nx)) by (cbn [length]; lia). cbn [hd].
    replace (length pre + length (n :: m :: r') - length pre - 1) with (length (m :: r')) by (cbn [length]; lia).
    replace (length pre + (S nx - nx) - length pre - 1) with 0 by lia.
    change (gj (n :: m :: r')) with (PJeq n (length (m :: r')) 0 :: gj (m :: r')).
    set (x := PJeq n (length (m :: r')) 0).
    change (pre ++ x :: Jsrc (m :: r') ++ post) with (pre ++ [x] ++ Jsrc (m :: r') ++ post).
    rewrite (app_assoc pre [x]).
    replace (S (length pre)) with (length (pre ++ [x])) by (rewrite app_length; cbn [length]; lia).
    rewrite IH; try discriminate.
    + rewrite <- app_assoc. reflexivity.
    + rewrite Ha. rewrite app_length. cbn [length]. lia.
    + rewrite Hg. rewrite app_length. cbn [length]. f_equal. lia.
    + intros l H1 H2. rewrite Hl by (cbn [length] in *; lia). rewrite app_length. cbn [length]. f_equal. lia.
Qed.

Lemma gj_length : forall nums, length (gj nums) = length nums.
Proof.
  induction nums as [|n r IH]; [reflexivity|]. destruct r as [|m r']; [reflexivity|].
  change (gj (n :: m :: r')) with (PJeq n (length (m :: r')) 0 :: gj (m :: r')). cbn [length] in *. rewrite IH. reflexivity.
Qed.

Lemma gcode_length nums r : length (gcode nums r) = length (gsrc nums r).
Proof.
  destruct nums as [|n l]; [reflexivity|]. unfold gcode, gsrc. rewrite !app_length, gj_length. unfold Jsrc. rewrite map_length. reflexivity.
Qed.

Lemma group_resolve L pre post next nums r : (nums <> [] -> group_labels L (length pre) next nums) -> length nums <= 256 ->
  Forall (ok_jump L (pre ++ gsrc nums r ++ post)) (gjs (length pre) next nums) /\
  apply_jumps L (gjs (length pre) next nums) (pre ++ gsrc nums r ++ post) = pre ++ gcode nums r ++ post.
Proof.
  intros HL Hlen. destruct nums as [|n0 l0].
  - split; [constructor|reflexivity].
  - set (nums := n0 :: l0) in *. assert (Hne : nums <> []) by discriminate.
    destruct (HL Hne) as (Ha & Hg & Hl).
    unfold gjs, gsrc, gcode. fold nums. change (match nums with [] => [] | _ :: _ => ?x end) with x.
    rewrite <- !app_assoc.
    assert (Hl' : forall l, next + 2 < l -> l <= next + 2 + (length nums - 1) -> lab_get L l = [length pre + (l - (next + 2))]) by exact Hl.
    assert (Hta : tgt L (next + 1) = length pre + length nums) by (unfold tgt; rewrite Ha; reflexivity).
    split.
    + apply gb_ok; auto. rewrite Ha. discriminate.
    + apply gb_apply; auto.
Qed.

Definition src_prog (allow trace : list N) (d : N) : prog :=
  ret (group (group new_prog allow RET_ALLOW) trace RET_TRACE) d.

Lemma fresh_new : fresh new_prog.
Proof. intros l _. reflexivity. Qed.

(** Program.Assemble on the two groups: no early return is needed, every jump is resolved in place *)
Theorem assemble_short allow trace d : length allow <= 256 -> length trace <= 256 ->
  assemble_prog (src_prog allow trace d) = Some (gcode allow RET_ALLOW ++ gcode trace RET_TRACE ++ [PRet d]).
Proof.
  intros HlA HlT.
  destruct (group_spec new_prog allow RET_ALLOW fresh_new) as (HiA & HjA & HfA & HnA & HsA & HLA).
  set (pA := group new_prog allow RET_ALLOW) in *.
  destruct (group_spec pA trace RET_TRACE HfA) as (HiT & HjT & HfT & HnT & HsT & HLT).
  set (pT := group pA trace RET_TRACE) in *.
  cbn [new_prog pr_ins pr_jumps pr_next pr_labels app length] in HiA, HjA, HnA, HsA, HLA.
  assert (G1 : allow <> [] -> group_labels (pr_labels pT) (length (@nil pinsn)) 1 allow).
  { intros Hne. destruct (HLA Hne) as ((Ha & Hg & Hl) & Hn). cbn [length].
    repeat split.
    - rewrite HsT by lia. exact Ha.
    - rewrite HsT by lia. exact Hg.
    - intros l H1 H2. rewrite HsT by lia. apply Hl; assumption. }
  assert (G2 : trace <> [] -> group_labels (pr_labels pT) (length (gsrc allow RET_ALLOW)) (pr_next pA) trace).
  { intros Hne. destruct (HLT Hne) as (H & _). rewrite HiA in H. exact H. }
  destruct (group_resolve (pr_labels pT) [] (gsrc trace RET_TRACE ++ [PRet d]) 1 allow RET_ALLOW G1 HlA) as (F1 & A1).
  destruct (group_resolve (pr_labels pT) (gsrc allow RET_ALLOW) [PRet d] (pr_next pA) trace RET_TRACE G2 HlT) as (F2 & A2).
  assert (G2' : trace <> [] -> group_labels (pr_labels pT) (length (gcode allow RET_ALLOW)) (pr_next pA) trace)
    by (rewrite gcode_length; exact G2).
  destruct (group_resolve (pr_labels pT) (gcode allow RET_ALLOW) [PRet d] (pr_next pA) trace RET_TRACE G2' HlT) as (_ & A3).
  unfold assemble_prog, src_prog. fold pA. fold pT.
  assert (Hins : pr_ins (ret pT d) = gsrc allow RET_ALLOW ++ gsrc trace RET_TRACE ++ [PRet d]).
  { unfold ret. cbn [pr_ins]. rewrite HiT, HiA. rewrite <- app_assoc. reflexivity. }
  assert (Hjs : pr_jumps (ret pT d) = gjs 0 1 allow ++ gjs (length (gsrc allow RET_ALLOW)) (pr_next pA) trace).
  { unfold ret. cbn [pr_jumps]. rewrite HjT, HjA, HiA. reflexivity. }
  rewrite (resolve_all_short (pr_jumps (ret pT d)) (ret pT d) 0 eq_refl).
  - cbn [pr_ins pr_labels]. f_equal. change (pr_labels (ret pT d)) with (pr_labels pT).
    rewrite Hins, Hjs. rewrite apply_jumps_app.
    change (gjs 0 1 allow) with (gjs (length (@nil pinsn)) 1 allow).
    change (gsrc allow RET_ALLOW ++ gsrc trace RET_TRACE ++ [PRet d]) with ([] ++ gsrc allow RET_ALLOW ++ gsrc trace RET_TRACE ++ [PRet d]).
    rewrite A1. cbn [app]. rewrite <- gcode_length. rewrite A3. reflexivity.
  - change (pr_labels (ret pT d)) with (pr_labels pT). rewrite Hins, Hjs. apply Forall_app. split.
    + exact F1.
    + exact F2.
Qed.

(** * what the assembled filter answers *)
Open Scope N_scope.

Lemma run_skip : forall (l1 l2 : list insn) (s : nat) A d, run_l (l1 ++ l2) (length l1 + s)%nat A d = run_l l2 s A d.
Proof. induction l1 as [|i l1 IH]; intros l2 s A d; simpl; [reflexivity|]. apply IH. Qed.

Lemma run_jeq val st sf rest A d :
  run_l (export (PJeq val st sf) :: rest) 0 A d = run_l rest (if A =? val then st else sf) A d.
Proof. cbn [run_l export mk code jt jf k]. change (OP_JEQ =? OP_LD_ABS) with false. change (OP_JEQ =? OP_JEQ) with true. cbv iota.
  destruct (A =? val); rewrite Nat2N.id; reflexivity. Qed.

Lemma run_ret v rest A d : run_l (export (PRet v) :: rest) 0 A d = Some v.
Proof. reflexivity. Qed.

(** one group: a listed number returns the group's action, any other falls through to what follows *)
Lemma gcode_run : forall nums r rest A d, nums <> [] ->
  run_l (map export (gj nums) ++ export (PRet r) :: rest) 0 A d = if nmem A nums then Some r else run_l rest 0 A d.
Proof.
  induction nums as [|n l IH]; intros r rest A d Hne; [contradiction|].
  destruct l as [|m l'].
  - cbn [gj map app]. rewrite run_jeq. cbn [nmem]. destruct (A =? n); cbn [orb]; reflexivity.
  - change (gj (n :: m :: l')) with (PJeq n (length (m :: l')) 0 :: gj (m :: l')). cbn [map app]. rewrite run_jeq.
    change (nmem A (n :: m :: l')) with ((A =? n) || nmem A (m :: l')).
    destruct (A =? n); cbn [orb].
    + rewrite <- (gj_length (m :: l')), <- (map_length export), <- (Nat.add_0_r (length _)). rewrite run_skip. reflexivity.
    + apply IH. discriminate.
Qed.

Lemma body_run allow trace dflt A d :
  run_l (map export (gcode allow RET_ALLOW ++ gcode trace RET_TRACE ++ [PRet dflt])) 0 A d =
  Some (if nmem A allow then RET_ALLOW else if nmem A trace then RET_TRACE else dflt).
Proof.
  rewrite !map_app.
  assert (G : forall nums r rest, run_l (map export (gcode nums r) ++ rest) 0 A d = if nmem A nums then Some r else run_l rest 0 A d).
  { intros nums r rest. destruct nums as [|n l]; [reflexivity|]. unfold gcode. rewrite map_app, <- app_assoc. cbn [map app].
    apply gcode_run. discriminate. }
  rewrite G. destruct (nmem A allow); [reflexivity|]. rewrite G. destruct (nmem A trace); reflexivity.
Qed.

Lemma body_last (body : list insn) v s A d : length body = s -> run_l (body ++ [export (PRet v)]) s A d = Some v.
Proof. intros <-. rewrite <- (Nat.add_0_r (length body)). rewrite run_skip. reflexivity. Qed.

Lemma run_ld_nr rest A d : run_l (mk OP_LD_ABS 0 0 0 :: rest) 0 A d = run_l rest 0 (sd_nr d) d.
Proof. reflexivity. Qed.
Lemma run_ld_arch rest A d : run_l (mk OP_LD_ABS 0 0 4 :: rest) 0 A d = run_l rest 0 (sd_arch d) d.
Proof. reflexivity. Qed.
Lemma run_jge_raw t f kk rest A d : run_l (mk OP_JGE t f kk :: rest) 0 A d = run_l rest (N.to_nat (if kk <=? A then t else f)) A d.
Proof. reflexivity. Qed.
Lemma run_jeq_raw t f kk rest A d : run_l (mk OP_JEQ t f kk :: rest) 0 A d = run_l rest (N.to_nat (if A =? kk then t else f)) A d.
Proof. reflexivity. Qed.
Lemma run_ja_raw kk rest A d : run_l (mk OP_JA 0 0 kk :: rest) 0 A d = run_l rest (N.to_nat kk) A d.
Proof. reflexivity. Qed.
Lemma run_ret_raw v rest A d : run_l (mk OP_RET 0 0 v :: rest) 0 A d = Some v.
Proof. reflexivity. Qed.
Lemma run_S i rest s A d : run_l (i :: rest) (S s) A d = run_l rest s A d.
Proof. reflexivity. Qed.

Theorem filter_of_body_correct allow trace dflt d :
  let body := gcode allow RET_ALLOW ++ gcode trace RET_TRACE ++ [PRet dflt] in
  run (prologue (length body) ++ map export body) d =
  Some (verdict {| p_allow := allow; p_trace := trace; p_default := dflt |} (sd_arch d) (sd_nr d)).
Proof.
  intros body. unfold run, verdict. cbn [p_allow p_trace p_default].
  assert (Hlast : map export body = map export (gcode allow RET_ALLOW ++ gcode trace RET_TRACE) ++ [export (PRet dflt)]).
  { unfold body. rewrite app_assoc, map_app. reflexivity. }
  assert (Hlen : length body = S (length (map export (gcode allow RET_ALLOW ++ gcode trace RET_TRACE)))).
  { unfold body. rewrite app_assoc, app_length, map_length. cbn [length]. lia. }
  set (pre := map export (gcode allow RET_ALLOW ++ gcode trace RET_TRACE)) in *.
  set (tail3 := [mk OP_LD_ABS 0 0 0; mk OP_JGE 0 1 X32_SYSCALL_BIT; mk OP_RET 0 0 (RET_ERRNO + ENOSYS)]).
  assert (Hnative : forall A0, run_l (tail3 ++ map export body) 0 A0 d =
                    Some (if X32_SYSCALL_BIT <=? sd_nr d then RET_ERRNO + ENOSYS
                          else if nmem (sd_nr d) allow then RET_ALLOW else if nmem (sd_nr d) trace then RET_TRACE else dflt)).
  { intros A0. unfold tail3. cbn [app]. rewrite run_ld_nr, run_jge_raw.
    destruct (X32_SYSCALL_BIT <=? sd_nr d).
    - change (N.to_nat 0) with 0%nat. apply run_ret_raw.
    - change (N.to_nat 1) with 1%nat. rewrite run_S. apply body_run. }
  assert (Hforeign : forall A, run_l (tail3 ++ map export body) (2 + length body) A d = Some dflt).
  { intros A. rewrite Hlast, Hlen. unfold tail3. cbn [app plus]. rewrite !run_S. apply body_last. reflexivity. }
  unfold prologue. fold tail3. destruct (Nat.leb (2 + length body) 255).
  - cbn [app]. rewrite run_ld_arch, run_jeq_raw.
    destruct (sd_arch d =? AUDIT_ARCH_X86_64); cbn [negb].
    + change (N.to_nat 0) with 0%nat. apply Hnative.
    + rewrite Nat2N.id. apply Hforeign.
  - cbn [app]. rewrite run_ld_arch, run_jeq_raw.
    destruct (sd_arch d =? AUDIT_ARCH_X86_64); cbn [negb].
    + change (N.to_nat 1) with 1%nat. rewrite run_S. apply Hnative.
    + change (N.to_nat 0) with 0%nat. rewrite run_ja_raw. rewrite Nat2N.id. apply Hforeign.
Qed.

(** Builder.Build, for every policy with at most 256 numbers in each list: a filter is produced and it answers
    the policy's verdict on every seccomp_data *)
Theorem build_nums_correct allow trace dflt : (length allow <= 256)%nat -> (length trace <= 256)%nat ->
  exists f, build_nums allow trace dflt = Some f /\
            forall d, run f d = Some (verdict {| p_allow := allow; p_trace := trace; p_default := dflt |} (sd_arch d) (sd_nr d)).
Proof.
  intros HA HT. unfold build_nums. change (ret (group (group new_prog allow RET_ALLOW) trace RET_TRACE) dflt) with (src_prog allow trace dflt).
  rewrite (assemble_short allow trace dflt HA HT). eexists. split; [reflexivity|]. intros d. apply filter_of_body_correct.
Qed.

Theorem build_correct tbl b pol : policy_of tbl b = Some pol -> (length (p_allow pol) <= 256)%nat -> (length (p_trace pol) <= 256)%nat ->
  exists f, build tbl b = Some f /\ forall d, run f d = Some (verdict pol (sd_arch d) (sd_nr d)).
Proof.
  unfold policy_of, build. destruct (nums_of tbl (b_allow b) []) as [a|]; [|discriminate].
  destruct (nums_of tbl (b_trace b) []) as [t|]; [|discriminate]. intros H. inversion H; subst. cbn [p_allow p_trace].
  apply build_nums_correct.
Qed.

(** the premises are met by ordinary policies, and the closed form is what the port computes *)
Example build_small :
  build_nums [0; 1; 60; 231] [2; 257] RET_KILL_PROCESS =
  Some (prologue 9 ++ map export (gcode [0; 1; 60; 231] RET_ALLOW ++ gcode [2; 257] RET_TRACE ++ [PRet RET_KILL_PROCESS])).
Proof. vm_compute. reflexivity. Qed.

(** A verified validator: [check_filter p pol = true] implies that [p] answers
    the policy's verdict for EVERY seccomp_data (all numbers, all architecture
    words, arbitrary ip/argument words).  Definitions here, proofs in CheckProofs. *)
From GS Require Export Seccomp.Policy.
Open Scope N_scope.

Definition is_cond (i : insn) : bool :=
  (code i =? OP_JEQ) || (code i =? OP_JGT) || (code i =? OP_JGE).

(** the fragment: loads of nr / arch only, the three ordered comparisons with
    constants, ja, ret *)
Definition insn_ok (i : insn) : bool :=
  ((code i =? OP_LD_ABS) && ((k i =? 0) || (k i =? 4)))
  || is_cond i || (code i =? OP_JA) || (code i =? OP_RET).

Definition consts (p : list insn) : list N :=
  flat_map (fun i => if is_cond i then [k i] else []) p.

Fixpoint dedup (l : list N) : list N :=
  match l with
  | [] => []
  | x :: r => if nmem x r then dedup r else x :: dedup r
  end.

Definition cset (p : list insn) (pol : policy) : list N :=
  AUDIT_ARCH_X86_64 :: X32_SYSCALL_BIT :: p_allow pol ++ p_trace pol ++ consts p.

(** one representative per comparison pattern: 0, every constant, every successor *)
Definition cand (C : list N) : list N := dedup (0 :: C ++ map N.succ C).

Definition mk_data (arch nr : N) : sdata := {| sd_nr := nr; sd_arch := arch; sd_rest := fun _ => 0 |}.

Definition opt_eqb (a : option N) (b : N) : bool :=
  match a with Some x => x =? b | None => false end.

Definition check_filter (p : list insn) (pol : policy) : bool :=
  let cs := cand (cset p pol) in
  forallb insn_ok p &&
  forallb (fun a => forallb (fun n => opt_eqb (run p (mk_data a n)) (verdict pol a n)) cs) cs.

(** first candidate on which program and policy differ (for replays) *)
Definition find_cex (p : list insn) (pol : policy) : option (N * N * option N * N) :=
  let cs := cand (cset p pol) in
  let bad := flat_map (fun a => flat_map (fun n =>
      if opt_eqb (run p (mk_data a n)) (verdict pol a n) then []
      else [(a, n, run p (mk_data a n), verdict pol a n)]) cs) cs in
  match bad with x :: _ => Some x | [] => None end.

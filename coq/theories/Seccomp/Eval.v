(** Executable comparisons for the correspondence run of C01. *)
From GS Require Import Base.Str Seccomp.Check Seccomp.Asm.
Open Scope N_scope.

Definition insn_eqb (a b : insn) : bool :=
  (code a =? code b) && (jt a =? jt b) && (jf a =? jf b) && (k a =? k b).

Fixpoint insns_eqb (a b : list insn) : bool :=
  match a, b with
  | [], [] => true
  | x :: a', y :: b' => insn_eqb x y && insns_eqb a' b'
  | _, _ => false
  end.

Definition q (c t f kk : N) : insn := {| code := c; jt := t; jf := f; k := kk |}.

(** 0 ok; 1 model builds, code refused; 2 code builds, model refuses; 3 filters differ;
    4 the real filter does not implement the declared policy (check_filter false) *)
Definition case_code (tbl : list (str * N)) (b : builder) (obs : option (list insn)) : N :=
  match build tbl b, obs with
  | None, None => 0
  | Some _, None => 1
  | None, Some _ => 2
  | Some f, Some g =>
      if negb (insns_eqb f g) then 3
      else match policy_of tbl b with
           | Some pol => if check_filter g pol then 0 else 4
           | None => 2
           end
  end.

Fixpoint indexed {A} (i : N) (l : list A) : list (N * A) :=
  match l with [] => [] | x :: r => (i, x) :: indexed (N.succ i) r end.

Definition failing_cases (tbl : list (str * N)) (cs : list (builder * option (list insn))) : list (N * N) :=
  flat_map (fun '(i, (b, obs)) => let c := case_code tbl b obs in if c =? 0 then [] else [(i, c)]) (indexed 0 cs).

(** the real filter against an explicitly given policy (runprog: the declared
    lists with trace precedence) *)
Definition filter_vs_policy (g : list insn) (pol : policy) : bool := check_filter g pol.

Definition sset_eqb (a b : list str) : bool :=
  forallb (fun x => smem x b) a && forallb (fun x => smem x a) b.

Definition clean_trace_ok (x : list str * list str * (list str * list str)) : bool :=
  let '(allow, trace, (oa, ot)) := x in
  let '(ma, mt) := clean_trace allow trace in
  sset_eqb ma oa && sset_eqb mt ot && (Nat.eqb (length ma) (length oa)) && (Nat.eqb (length mt) (length ot)).

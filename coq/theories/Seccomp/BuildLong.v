(** Builder.Build for lists of any length: Program.Assemble's long-jump rewriting (an early
    return is inserted after the 255th comparison of a group whose action is out of reach,
    again and again) yields groups cut into chunks of 255 comparisons, each followed by a copy
    of the group's return.  The assembled instructions are given in closed form and the filter
    is shown to answer the policy's verdict on every seccomp_data. *)
From Coq Require Import List Arith NArith Bool Lia.
From GS Require Import Base.Str Seccomp.Check Seccomp.Asm Seccomp.BuildProofs.
Import ListNotations.
Open Scope nat_scope.

Definition set_ins (p : prog) (ins : list pinsn) : prog :=
  {| pr_ins := ins; pr_jumps := pr_jumps p; pr_labels := pr_labels p; pr_next := pr_next p |}.
Definition set_labels (p : prog) (L : list (nat * list nat)) : prog :=
  {| pr_ins := pr_ins p; pr_jumps := pr_jumps p; pr_labels := L; pr_next := pr_next p |}.

Lemma skipn_S_cons {A} (l : list A) pos x r : skipn pos l = x :: r -> skipn (S pos) l = r /\ nth_error l pos = Some x.
Proof.
  revert pos. induction l as [|a l IH]; intros pos H.
  - destruct pos; discriminate.
  - destruct pos; simpl in *; [inversion H; auto|]. apply IH. exact H.
Qed.

(** a run of jumps that need no rewriting is resolved in place, whatever follows *)
Lemma resolve_all_prefix : forall js1 p pos k js2, skipn pos (pr_jumps p) = js1 ++ js2 ->
  Forall (ok_jump (pr_labels p) (pr_ins p)) js1 ->
  resolve_all (length js1 + k) p pos = resolve_all k (set_ins p (apply_jumps (pr_labels p) js1 (pr_ins p))) (pos + length js1).
Proof.
  induction js1 as [|j r IH]; intros p pos k js2 Hs Hok.
  - simpl. rewrite Nat.add_0_r. destruct p; reflexivity.
  - cbn [length plus]. cbn [resolve_all].
    destruct (skipn_S_cons _ _ _ _ Hs) as (Hs' & Hc).
    inversion Hok as [|? ? Hj Hr]; subst.
    destruct (resolve_jump_short p pos j Hc Hj) as (i & Ei & ->).
    assert (Hjq : is_jeq (Some i) = true) by (destruct Hj as (Hq & _); rewrite Ei in Hq; exact Hq).
    rewrite (IH _ (S pos) k js2); cbn [pr_jumps pr_labels pr_ins].
    + cbn [apply_jumps]. rewrite Ei. replace (S pos + length r) with (pos + S (length r)) by lia. reflexivity.
    + exact Hs'.
    + eapply Forall_impl; [|exact Hr]. intros a Ha. apply ok_jump_set_nth; [|exact Ha]. apply resolved_is_jeq. exact Hjq.
Qed.

(** * candidates that lie behind the jump are dropped *)
Lemma drop_behind_olds olds t rest idx : Forall (fun x => x <= idx) olds -> idx < t -> drop_behind (olds ++ t :: rest) idx = t :: rest.
Proof.
  induction olds as [|o olds IH]; intros Ho Ht; simpl.
  - destruct (Nat.leb_spec t idx); [lia|reflexivity].
  - inversion Ho; subst. destruct (Nat.leb_spec o idx); [|lia]. apply IH; assumption.
Qed.

Lemma lab_set_idem L l v : v <> [] -> lab_set (lab_set L l v) l v = lab_set L l v.
Proof.
  intros Hv. assert (H : lab_get (lab_set L l v) l = v) by (rewrite lab_get_set, Nat.eqb_refl; reflexivity).
  rewrite <- H at 2. apply lab_set_same. rewrite H. exact Hv.
Qed.

Lemma resolve_label_trim p cur l olds t rest :
  lab_get (pr_labels p) l = olds ++ t :: rest -> Forall (fun x => x <= j_index cur) olds -> j_index cur < t ->
  resolve_label p cur l = resolve_label (set_labels p (lab_set (pr_labels p) l (t :: rest))) cur l.
Proof.
  intros Hg Ho Ht. unfold resolve_label. cbn [set_labels pr_labels pr_ins pr_jumps pr_next].
  rewrite Hg, lab_get_set, Nat.eqb_refl. rewrite (drop_behind_olds olds t rest _ Ho Ht).
  cbn [drop_behind]. destruct (Nat.leb_spec t (j_index cur)); [lia|].
  rewrite lab_set_idem by discriminate. reflexivity.
Qed.

Lemma resolve_jump_trim p pos cur olds t rest :
  nth_error (pr_jumps p) pos = Some cur ->
  lab_get (pr_labels p) (j_true cur) = olds ++ t :: rest -> Forall (fun x => x <= j_index cur) olds -> j_index cur < t ->
  resolve_jump p pos = resolve_jump (set_labels p (lab_set (pr_labels p) (j_true cur) (t :: rest))) pos.
Proof.
  intros Hc Hg Ho Ht. unfold resolve_jump. cbn [set_labels pr_jumps pr_ins]. rewrite Hc.
  destruct (nth_error (pr_ins p) (j_index cur)) as [[val a b|v]|]; try reflexivity.
  rewrite (resolve_label_trim p cur _ olds t rest Hg Ho Ht). reflexivity.
Qed.

(** * the insertion of an early return *)
Definition bumpj (at_ : nat) (j : jmp) : jmp := {| j_index := bump at_ (j_index j); j_true := j_true j; j_false := j_false j |}.
Definition bumpl (at_ : nat) (L : list (nat * list nat)) : list (nat * list nat) := map (fun '(lb, v) => (lb, map (bump at_) v)) L.

Definition ins_ret (p : prog) (l at_ : nat) (v : N) : prog :=
  {| pr_ins := insert_at at_ (PRet v) (pr_ins p);
     pr_jumps := map (bumpj at_) (pr_jumps p);
     pr_labels := lab_set (bumpl at_ (pr_labels p)) l (at_ :: map (bump at_) (lab_get (pr_labels p) l));
     pr_next := pr_next p |}.

Lemma lab_get_bumpl at_ L l : lab_get (bumpl at_ L) l = map (bump at_) (lab_get L l).
Proof. induction L as [|[l0 w] r IH]; simpl; [reflexivity|]. destruct (Nat.eqb l l0); [reflexivity|exact IH]. Qed.

Lemma resolve_label_long p cur l d0 rest v :
  lab_get (pr_labels p) l = d0 :: rest -> j_index cur < d0 -> 255 < d0 - j_index cur - 1 -> nth_error (pr_ins p) d0 = Some (PRet v) ->
  resolve_label p cur l = Some (ins_ret p l (S (j_index (find_insert_after (pr_jumps p) cur))) v,
                                S (j_index (find_insert_after (pr_jumps p) cur)) - j_index cur - 1).
Proof.
  intros Hg Hlt Hlong Hret. unfold resolve_label. rewrite Hg. cbn [drop_behind].
  destruct (Nat.leb_spec d0 (j_index cur)); [lia|].
  rewrite <- Hg. rewrite lab_set_same by (rewrite Hg; discriminate).
  cbn [pr_ins pr_jumps pr_labels pr_next]. rewrite Hg.
  destruct (Nat.ltb_spec 255 (d0 - j_index cur - 1)); [|lia].
  rewrite Hret. unfold ins_ret, bumpl, bumpj. rewrite Hg. reflexivity.
Qed.

Lemma nth_error_insert_before {A} (l : list A) at_ x i : i < at_ -> at_ <= length l -> nth_error (insert_at at_ x l) i = nth_error l i.
Proof.
  revert at_ i. induction l as [|a l IH]; intros at_ i H Hl.
  - simpl in Hl. lia.
  - destruct at_; [lia|]. destruct i; simpl; [reflexivity|]. apply IH; simpl in Hl; lia.
Qed.

(** a jump whose true side needs an early return behaves as it does in the program that already holds it *)
Lemma resolve_jump_insert p pos cur d0 rest v (at_ := S (j_index (find_insert_after (pr_jumps p) cur))) :
  nth_error (pr_jumps p) pos = Some cur ->
  lab_get (pr_labels p) (j_true cur) = d0 :: rest -> j_index cur < d0 -> 255 < d0 - j_index cur - 1 -> nth_error (pr_ins p) d0 = Some (PRet v) ->
  j_index cur < at_ -> at_ <= j_index cur + 256 -> at_ <= length (pr_ins p) ->
  resolve_jump p pos = resolve_jump (ins_ret p (j_true cur) at_ v) pos.
Proof.
  intros Hc Hg Hlt Hlong Hret Ha1 Ha2 Ha3. unfold resolve_jump.
  assert (Hc' : nth_error (pr_jumps (ins_ret p (j_true cur) at_ v)) pos = Some cur).
  { cbn [ins_ret pr_jumps]. rewrite nth_error_map, Hc. cbn [option_map]. unfold bumpj, bump.
    destruct (Nat.leb_spec at_ (j_index cur)); [lia|]. destruct cur; reflexivity. }
  rewrite Hc, Hc'. cbn [ins_ret pr_ins]. rewrite nth_error_insert_before by assumption.
  destruct (nth_error (pr_ins p) (j_index cur)) as [[val a b|v0]|]; try reflexivity.
  rewrite (resolve_label_long p cur _ d0 rest v Hg Hlt Hlong Hret). fold at_.
  rewrite (resolve_label_short (ins_ret p (j_true cur) at_ v) cur (j_true cur)).
  - unfold tgt. cbn [ins_ret pr_labels]. rewrite lab_get_set, Nat.eqb_refl. cbn [hd]. reflexivity.
  - unfold ok_side, tgt. cbn [ins_ret pr_labels]. rewrite lab_get_set, Nat.eqb_refl. cbn [hd]. repeat split; try lia. discriminate.
Qed.

(** * shapes *)
Lemma gb_split : forall c c2 b nx a g, c <> [] -> c2 <> [] ->
  gb_jumps b nx (c ++ c2) a g = gb_jumps b nx c a (nx + length c) ++ gb_jumps (b + length c) (nx + length c) c2 a g.
Proof.
  induction c as [|n c IH]; intros c2 b nx a g Hc Hc2; [contradiction|].
  destruct c as [|n' c'].
  - destruct c2 as [|m r']; [contradiction|]. cbn [app length gb_jumps]. rewrite !Nat.add_1_r. reflexivity.
  - change ((n :: n' :: c') ++ c2) with (n :: (n' :: c') ++ c2).
    change (gb_jumps b nx (n :: (n' :: c') ++ c2) a g) with
      ({| j_index := b; j_true := a; j_false := S nx |} :: gb_jumps (S b) (S nx) ((n' :: c') ++ c2) a g).
    rewrite IH by (try discriminate; assumption).
    change (gb_jumps b nx (n :: n' :: c') a (nx + length (n :: n' :: c'))) with
      ({| j_index := b; j_true := a; j_false := S nx |} :: gb_jumps (S b) (S nx) (n' :: c') a (nx + length (n :: n' :: c'))).
    cbn [length app]. replace (S nx + S (length c')) with (nx + S (S (length c'))) by lia.
    replace (S b + S (length c')) with (b + S (S (length c'))) by lia. reflexivity.
Qed.

Lemma gb_last : forall nums b nx a g, nums <> [] ->
  exists front, gb_jumps b nx nums a g = front ++ [{| j_index := b + (length nums - 1); j_true := a; j_false := g |}] /\
                Forall (fun j => j_index j < b + (length nums - 1)) front.
Proof.
  induction nums as [|n r IH]; intros b nx a g Hne; [contradiction|].
  destruct r as [|m r'].
  - exists []. cbn [gb_jumps length app]. rewrite Nat.sub_diag, Nat.add_0_r. split; [reflexivity|constructor].
  - destruct (IH (S b) (S nx) a g) as (front & E & F); [discriminate|].
    exists ({| j_index := b; j_true := a; j_false := S nx |} :: front).
    change (gb_jumps b nx (n :: m :: r') a g) with ({| j_index := b; j_true := a; j_false := S nx |} :: gb_jumps (S b) (S nx) (m :: r') a g).
    rewrite E. cbn [length] in *. split.
    + cbn [app]. replace (S b + (S (length r') - 1)) with (b + (S (S (length r')) - 1)) by lia. reflexivity.
    + constructor; [cbn [j_index]; lia|]. eapply Forall_impl; [|exact F]. cbn. intros j Hj. lia.
Qed.

Lemma gb_lower : forall nums b nx a g, Forall (fun j => b <= j_index j) (gb_jumps b nx nums a g).
Proof.
  induction nums as [|n r IH]; intros b nx a g; [constructor|].
  destruct r as [|m r'].
  - constructor; [cbn; lia|constructor].
  - change (gb_jumps b nx (n :: m :: r') a g) with ({| j_index := b; j_true := a; j_false := S nx |} :: gb_jumps (S b) (S nx) (m :: r') a g).
    constructor; [cbn; lia|]. eapply Forall_impl; [|apply IH]. cbn. intros j Hj. lia.
Qed.

Lemma gb_length : forall nums b nx a g, length (gb_jumps b nx nums a g) = length nums.
Proof.
  induction nums as [|n r IH]; intros b nx a g; [reflexivity|]. destruct r as [|m r']; [reflexivity|].
  change (gb_jumps b nx (n :: m :: r') a g) with ({| j_index := b; j_true := a; j_false := S nx |} :: gb_jumps (S b) (S nx) (m :: r') a g).
  cbn [length]. rewrite IH. reflexivity.
Qed.

Lemma gb_bump : forall nums b nx a g at_, at_ <= b -> map (bumpj at_) (gb_jumps b nx nums a g) = gb_jumps (S b) nx nums a g.
Proof.
  induction nums as [|n r IH]; intros b nx a g at_ H; [reflexivity|].
  assert (Hb : bump at_ b = S b) by (unfold bump; destruct (Nat.leb_spec at_ b); [reflexivity|lia]).
  destruct r as [|m r'].
  - cbn [gb_jumps map]. unfold bumpj. cbn [j_index j_true j_false]. rewrite Hb. reflexivity.
  - change (gb_jumps b nx (n :: m :: r') a g) with ({| j_index := b; j_true := a; j_false := S nx |} :: gb_jumps (S b) (S nx) (m :: r') a g).
    change (gb_jumps (S b) nx (n :: m :: r') a g) with ({| j_index := S b; j_true := a; j_false := S nx |} :: gb_jumps (S (S b)) (S nx) (m :: r') a g).
    cbn [map]. rewrite IH by lia. unfold bumpj at 1. cbn [j_index j_true j_false]. rewrite Hb. reflexivity.
Qed.

Lemma gb_nobump : forall nums b nx a g at_, b + length nums <= at_ -> map (bumpj at_) (gb_jumps b nx nums a g) = gb_jumps b nx nums a g.
Proof.
  induction nums as [|n r IH]; intros b nx a g at_ H; [reflexivity|].
  assert (Hb : bump at_ b = b) by (unfold bump; cbn [length] in H; destruct (Nat.leb_spec at_ b); [lia|reflexivity]).
  destruct r as [|m r'].
  - cbn [gb_jumps map]. unfold bumpj. cbn [j_index j_true j_false]. rewrite Hb. reflexivity.
  - change (gb_jumps b nx (n :: m :: r') a g) with ({| j_index := b; j_true := a; j_false := S nx |} :: gb_jumps (S b) (S nx) (m :: r') a g).
    cbn [map]. rewrite IH by (cbn [length] in *; lia). unfold bumpj at 1. cbn [j_index j_true j_false]. rewrite Hb. reflexivity.
Qed.

Lemma insert_at_app {A} (l1 l2 : list A) x : insert_at (length l1) x (l1 ++ l2) = l1 ++ x :: l2.
Proof. induction l1 as [|a l1 IH]; simpl; [destruct l2; reflexivity|]. rewrite IH. reflexivity. Qed.

Lemma fia_last l1 x l3 cur : j_index x < j_index cur + 255 -> Forall (fun j => j_index cur + 255 <= j_index j) l3 ->
  find_insert_after (l1 ++ x :: l3) cur = x.
Proof.
  intros Hx H3. unfold find_insert_after. rewrite fold_left_app. cbn [fold_left].
  destruct (Nat.ltb_spec (j_index x) (j_index cur + 255)); [|lia].
  clear - H3. induction l3 as [|y l3 IH]; [reflexivity|]. inversion H3; subst. cbn [fold_left].
  destruct (Nat.ltb_spec (j_index y) (j_index cur + 255)); [lia|]. apply IH. assumption.
Qed.

Lemma Jsrc_app a b : Jsrc (a ++ b) = Jsrc a ++ Jsrc b.
Proof. unfold Jsrc. apply map_app. Qed.
Lemma Jsrc_length a : length (Jsrc a) = length a.
Proof. unfold Jsrc. apply map_length. Qed.

(** * one group being resolved *)
Definition GState (p : prog) (pos : nat) (pre : list pinsn) (rem : list N) (r : N) (post : list pinsn) (nx a g : nat) (lj : list jmp) : Prop :=
  pr_ins p = pre ++ Jsrc rem ++ PRet r :: post /\
  skipn pos (pr_jumps p) = gb_jumps (length pre) nx rem a g ++ lj /\
  Forall (fun j => length pre + length rem < j_index j) lj /\
  (exists olds, lab_get (pr_labels p) a = olds ++ [length pre + length rem] /\ Forall (fun x => x <= length pre) olds) /\
  lab_get (pr_labels p) g = [length pre + length rem + 1] /\
  (forall l, nx < l -> l <= nx + (length rem - 1) -> lab_get (pr_labels p) l = [length pre + (l - nx)]) /\
  a < g /\ g <= nx.

Lemma resolve_all_first k p q pos : resolve_jump p pos = resolve_jump q pos -> resolve_all (S k) p pos = resolve_all (S k) q pos.
Proof. intros H. cbn [resolve_all]. rewrite H. reflexivity. Qed.

Lemma firstn_skipn_len {A} (l : list A) n : n <= length l -> length (firstn n l) = n /\ length (skipn n l) = length l - n.
Proof. intros H. rewrite firstn_length, skipn_length. lia. Qed.

(** the last chunk of a group (at most 256 comparisons): its return is in reach *)
Lemma final_chunk p pos pre rem r post nx a g lj : GState p pos pre rem r post nx a g lj -> rem <> [] -> length rem <= 256 ->
  exists p', (forall k, resolve_all (length rem + k) p pos = resolve_all k p' (pos + length rem)) /\
             pr_ins p' = pre ++ gj rem ++ PRet r :: post /\ pr_jumps p' = pr_jumps p /\
             (forall l, l <> a -> lab_get (pr_labels p') l = lab_get (pr_labels p) l).
Proof.
  intros (Hi & Hj & Hlj & (olds & Ha & Ho) & Hg & Hl & Hag & Hgn) Hne Hlen.
  destruct rem as [|n0 rest]; [contradiction|]. set (rem := n0 :: rest) in *.
  set (b := length pre) in *. set (n := length rem) in *.
  assert (Hn1 : 1 <= n) by (unfold n, rem; cbn [length]; lia).
  (* the first jump of the chunk *)
  assert (Hcur : exists cur js, gb_jumps b nx rem a g = cur :: js /\ j_index cur = b /\ j_true cur = a).
  { unfold rem. destruct rest as [|m r']; cbn [gb_jumps]; eexists; eexists; repeat split. }
  destruct Hcur as (cur & js & Ecur & Hci & Hct).
  assert (Hnth : nth_error (pr_jumps p) pos = Some cur).
  { rewrite Ecur in Hj. cbn [app] in Hj. apply (skipn_S_cons _ _ _ _ Hj). }
  set (pt := set_labels p (lab_set (pr_labels p) a [b + n])).
  assert (Hrj : resolve_jump p pos = resolve_jump pt pos).
  { unfold pt. rewrite <- Hct. apply (resolve_jump_trim p pos cur olds (b + n) []); try assumption.
    - rewrite Hct. exact Ha.
    - rewrite Hci. exact Ho.
    - rewrite Hci. lia. }
  assert (HLt : forall l, lab_get (pr_labels pt) l = if Nat.eqb l a then [b + n] else lab_get (pr_labels p) l).
  { intros l. unfold pt. cbn [set_labels pr_labels]. apply lab_get_set. }
  assert (Hok : Forall (ok_jump (pr_labels pt) (pr_ins pt)) (gb_jumps b nx rem a g)).
  { unfold pt at 2. cbn [set_labels pr_ins]. rewrite Hi. unfold b. apply gb_ok; try assumption.
    - rewrite HLt, Nat.eqb_refl. discriminate.
    - unfold tgt. rewrite HLt, Nat.eqb_refl. reflexivity.
    - rewrite HLt. destruct (Nat.eqb_spec g a); [lia|]. exact Hg.
    - intros l H1 H2. rewrite HLt. destruct (Nat.eqb_spec l a); [lia|]. apply Hl; assumption. }
  assert (Hap : apply_jumps (pr_labels pt) (gb_jumps b nx rem a g) (pr_ins pt) = pre ++ gj rem ++ PRet r :: post).
  { unfold pt at 2. cbn [set_labels pr_ins]. rewrite Hi. unfold b. apply gb_apply.
    - exact Hne.
    - unfold tgt. rewrite HLt, Nat.eqb_refl. reflexivity.
    - rewrite HLt. destruct (Nat.eqb_spec g a); [lia|]. exact Hg.
    - intros l H1 H2. rewrite HLt. destruct (Nat.eqb_spec l a); [lia|]. apply Hl; assumption. }
  exists (set_ins pt (pre ++ gj rem ++ PRet r :: post)). repeat split.
  - intros k. replace (n + k) with (S (n - 1 + k)) by lia.
    rewrite (resolve_all_first _ p pt pos Hrj).
    replace (S (n - 1 + k)) with (length (gb_jumps b nx rem a g) + k) by (rewrite gb_length; fold n; lia).
    rewrite (resolve_all_prefix (gb_jumps b nx rem a g) pt pos k lj Hj Hok). rewrite Hap, gb_length. reflexivity.
  - intros l Hla. cbn [set_ins pr_labels]. rewrite HLt. destruct (Nat.eqb_spec l a); [contradiction|reflexivity].
Qed.

Lemma skipn_add {A} (l : list A) a b : skipn (a + b) l = skipn b (skipn a l).
Proof. revert l. induction a as [|a IH]; intros l; [reflexivity|]. destruct l; [destruct b; reflexivity|]. apply IH. Qed.

Lemma bump_lt at_ x : x < at_ -> bump at_ x = x.
Proof. intros H. unfold bump. destruct (Nat.leb_spec at_ x); [lia|reflexivity]. Qed.
Lemma bump_ge at_ x : at_ <= x -> bump at_ x = S x.
Proof. intros H. unfold bump. destruct (Nat.leb_spec at_ x); [reflexivity|lia]. Qed.

(** a full chunk: 255 comparisons, then a copy of the group's return is inserted, and the group goes on behind it *)
Lemma chunk_step p pos pre rem r post nx a g lj : GState p pos pre rem r post nx a g lj -> 256 < length rem ->
  exists p', (forall k, resolve_all (255 + k) p pos = resolve_all k p' (pos + 255)) /\
             GState p' (pos + 255) (pre ++ gj (firstn 255 rem) ++ [PRet r]) (skipn 255 rem) r post (nx + 255) a g
                    (map (bumpj (length pre + 255)) lj) /\
             (forall l, l <> a -> lab_get (pr_labels p') l = map (bump (length pre + 255)) (lab_get (pr_labels p) l)).
Proof.
  intros (Hi & Hj & Hlj & (olds & Ha & Ho) & Hg & Hl & Hag & Hgn) Hlong.
  set (b := length pre) in *. set (n := length rem) in *.
  set (c := firstn 255 rem). set (c2 := skipn 255 rem).
  assert (Erem : rem = c ++ c2) by (symmetry; apply firstn_skipn).
  assert (Hc : length c = 255) by (unfold c; rewrite firstn_length; fold n; lia).
  assert (Hc2 : length c2 = n - 255) by (unfold c2; rewrite skipn_length; reflexivity).
  assert (Hcne : c <> []) by (intros E; rewrite E in Hc; discriminate).
  assert (Hc2ne : c2 <> []) by (intros E; rewrite E in Hc2; cbn in Hc2; lia).
  set (at_ := b + 255).
  (* the jumps of the group: the chunk, then the rest *)
  assert (Egb : gb_jumps b nx rem a g = gb_jumps b nx c a (nx + 255) ++ gb_jumps (b + 255) (nx + 255) c2 a g).
  { rewrite Erem at 1. rewrite gb_split by assumption. rewrite Hc. reflexivity. }
  destruct (gb_last c b nx a (nx + 255) Hcne) as (front & Efront & Ffront). rewrite Hc in Efront, Ffront.
  replace (b + (255 - 1)) with (b + 254) in * by lia.
  assert (Hcur : exists cur js, gb_jumps b nx c a (nx + 255) = cur :: js /\ j_index cur = b /\ j_true cur = a).
  { destruct c as [|m0 [|m1 c']]; [contradiction|cbn in Hc; lia|]. cbn [gb_jumps]. eexists; eexists; repeat split. }
  destruct Hcur as (cur & js & Ecur & Hci & Hct).
  assert (Hnth : nth_error (pr_jumps p) pos = Some cur).
  { rewrite Egb, Ecur in Hj. cbn [app] in Hj. apply (skipn_S_cons _ _ _ _ Hj). }
  (* 1. candidates behind the jump are dropped *)
  set (pt := set_labels p (lab_set (pr_labels p) a [b + n])).
  assert (Hrj : resolve_jump p pos = resolve_jump pt pos).
  { unfold pt. rewrite <- Hct. apply (resolve_jump_trim p pos cur olds (b + n) []); try assumption.
    - rewrite Hct. exact Ha.
    - rewrite Hci. exact Ho.
    - rewrite Hci. lia. }
  (* 2. the early return goes behind the last comparison within reach *)
  assert (Hfia : find_insert_after (pr_jumps pt) cur = {| j_index := b + 254; j_true := a; j_false := nx + 255 |}).
  { unfold pt. cbn [set_labels pr_jumps]. rewrite <- (firstn_skipn pos (pr_jumps p)). rewrite Hj, Egb, Efront.
    rewrite <- !app_assoc. cbn [app]. rewrite app_assoc. apply fia_last.
    - cbn [j_index]. rewrite Hci. lia.
    - apply Forall_app. split.
      + eapply Forall_impl; [|apply gb_lower]. cbn. intros j Hjj. rewrite Hci. lia.
      + eapply Forall_impl; [|exact Hlj]. cbn. intros j Hjj. rewrite Hci. lia. }
  assert (Hins_len : length (pr_ins p) = b + n + 1 + length post).
  { rewrite Hi, !app_length, Jsrc_length. cbn [length]. fold b n. lia. }
  assert (Hret : nth_error (pr_ins p) (b + n) = Some (PRet r)).
  { rewrite Hi, app_assoc. replace (b + n) with (length (pre ++ Jsrc rem)) by (rewrite app_length, Jsrc_length; reflexivity).
    apply nth_error_mid. }
  set (pi := ins_ret pt a at_ r).
  assert (Hri : resolve_jump pt pos = resolve_jump pi pos).
  { unfold pi. rewrite <- Hct.
    replace at_ with (S (j_index (find_insert_after (pr_jumps pt) cur))) by (rewrite Hfia; cbn [j_index]; unfold at_; lia).
    apply (resolve_jump_insert pt pos cur (b + n) [] r).
    - exact Hnth.
    - rewrite Hct. unfold pt. cbn [set_labels pr_labels]. rewrite lab_get_set, Nat.eqb_refl. reflexivity.
    - rewrite Hci. lia.
    - rewrite Hci. lia.
    - exact Hret.
    - rewrite Hfia, Hci. cbn [j_index]. lia.
    - rewrite Hfia, Hci. cbn [j_index]. lia.
    - rewrite Hfia. cbn [j_index]. unfold pt. cbn [set_labels pr_ins]. rewrite Hins_len. lia. }
  (* 3. what that program looks like *)
  assert (HiI : pr_ins pi = pre ++ Jsrc c ++ PRet r :: Jsrc c2 ++ PRet r :: post).
  { unfold pi, pt. cbn [ins_ret set_labels pr_ins]. rewrite Hi. rewrite Erem, Jsrc_app. rewrite <- app_assoc.
    rewrite (app_assoc pre (Jsrc c)). replace at_ with (length (pre ++ Jsrc c)) by (rewrite app_length, Jsrc_length, Hc; reflexivity).
    rewrite insert_at_app. rewrite <- app_assoc. reflexivity. }
  assert (HjI : skipn pos (pr_jumps pi) = gb_jumps b nx c a (nx + 255) ++ gb_jumps (b + 256) (nx + 255) c2 a g ++ map (bumpj at_) lj).
  { unfold pi, pt. cbn [ins_ret set_labels pr_jumps]. rewrite skipn_map, Hj, Egb. rewrite !map_app.
    rewrite gb_nobump by (rewrite Hc; unfold at_; lia). rewrite gb_bump by (unfold at_; lia).
    replace (S (b + 255)) with (b + 256) by lia. rewrite <- app_assoc. reflexivity. }
  assert (HLI : forall l, lab_get (pr_labels pi) l = if Nat.eqb l a then [at_; b + n + 1] else map (bump at_) (lab_get (pr_labels p) l)).
  { intros l. unfold pi, pt. cbn [ins_ret set_labels pr_labels]. rewrite lab_get_set.
    destruct (Nat.eqb_spec l a) as [->|Hla].
    - rewrite lab_get_set, Nat.eqb_refl. cbn [map]. rewrite bump_ge by (unfold at_; lia). f_equal. f_equal. lia.
    - rewrite lab_get_bumpl, lab_get_set. destruct (Nat.eqb_spec l a); [contradiction|reflexivity]. }
  assert (HLg' : lab_get (pr_labels pi) (nx + 255) = [b + 255 + 1]).
  { rewrite HLI. destruct (Nat.eqb_spec (nx + 255) a); [lia|]. rewrite Hl by (fold n; lia). cbn [map].
    rewrite bump_ge by (unfold at_; lia). f_equal. lia. }
  assert (HLn : forall l, nx < l -> l <= nx + (255 - 1) -> lab_get (pr_labels pi) l = [b + (l - nx)]).
  { intros l H1 H2. rewrite HLI. destruct (Nat.eqb_spec l a); [lia|]. rewrite Hl by (fold n; lia). cbn [map].
    rewrite bump_lt by (unfold at_; lia). reflexivity. }
  assert (Hok : Forall (ok_jump (pr_labels pi) (pr_ins pi)) (gb_jumps b nx c a (nx + 255))).
  { rewrite HiI. unfold b. apply gb_ok; try assumption.
    - rewrite Hc. lia.
    - rewrite HLI, Nat.eqb_refl. discriminate.
    - unfold tgt. rewrite HLI, Nat.eqb_refl. cbn [hd]. rewrite Hc. reflexivity.
    - rewrite Hc. exact HLg'.
    - rewrite Hc. exact HLn. }
  assert (Hap : apply_jumps (pr_labels pi) (gb_jumps b nx c a (nx + 255)) (pr_ins pi) = pre ++ gj c ++ PRet r :: Jsrc c2 ++ PRet r :: post).
  { rewrite HiI. unfold b. apply gb_apply; try assumption.
    - unfold tgt. rewrite HLI, Nat.eqb_refl. cbn [hd]. rewrite Hc. reflexivity.
    - rewrite Hc. exact HLg'.
    - rewrite Hc. exact HLn. }
  exists (set_ins pi (pre ++ gj c ++ PRet r :: Jsrc c2 ++ PRet r :: post)). split; [|split].
  - intros k. replace (255 + k) with (S (254 + k)) by lia.
    rewrite (resolve_all_first _ p pt pos Hrj). rewrite (resolve_all_first _ pt pi pos Hri).
    replace (S (254 + k)) with (length (gb_jumps b nx c a (nx + 255)) + k) by (rewrite gb_length, Hc; lia).
    rewrite (resolve_all_prefix _ pi pos k _ HjI Hok). rewrite Hap, gb_length, Hc. reflexivity.
  - assert (Hpl : length (pre ++ gj c ++ [PRet r]) = b + 256) by (rewrite !app_length, gj_length, Hc; cbn [length]; fold b; lia).
    unfold GState. cbn [set_ins pr_ins pr_jumps pr_labels]. rewrite Hpl, Hc2. repeat split.
    + rewrite <- !app_assoc. reflexivity.
    + rewrite skipn_add. rewrite HjI.
      replace 255 with (length (gb_jumps b nx c a (nx + 255)) + 0) at 1 by (rewrite gb_length, Hc; lia).
      rewrite skipn_app, gb_length, Hc. rewrite skipn_all2 by (rewrite gb_length, Hc; lia). cbn [app]. rewrite Nat.sub_diag. reflexivity.
    + rewrite Forall_map. eapply Forall_impl; [|exact Hlj]. cbn. intros j Hjj. unfold bumpj. cbn [j_index].
      rewrite bump_ge by (unfold at_; fold n in Hjj; lia). fold n in Hjj. lia.
    + exists [at_]. rewrite HLI, Nat.eqb_refl. split; [cbn [app]; f_equal; f_equal; lia|]. constructor; [unfold at_; lia|constructor].
    + rewrite HLI. destruct (Nat.eqb_spec g a); [lia|]. rewrite Hg. cbn [map]. rewrite bump_ge by (unfold at_; fold n; lia). f_equal. fold n. lia.
    + intros l H1 H2. rewrite HLI. destruct (Nat.eqb_spec l a); [lia|]. rewrite Hl by (fold n; lia). cbn [map].
      rewrite bump_ge by (unfold at_; lia). f_equal. lia.
    + exact Hag.
    + lia.
  - intros l Hla. cbn [set_ins pr_labels]. rewrite HLI. destruct (Nat.eqb_spec l a); [contradiction|reflexivity].
Qed.

(** * a whole group, of any length *)
Fixpoint gcodeL (fuel : nat) (nums : list N) (r : N) : list pinsn :=
  match fuel with
  | O => gj nums ++ [PRet r]
  | S f => if Nat.leb (length nums) 256 then gj nums ++ [PRet r]
           else gj (firstn 255 nums) ++ PRet r :: gcodeL f (skipn 255 nums) r
  end.

Definition addj (c : nat) (j : jmp) : jmp := {| j_index := j_index j + c; j_true := j_true j; j_false := j_false j |}.

Lemma map_add0 (v : list nat) : map (fun x => x + 0) v = v.
Proof. induction v as [|x v IH]; [reflexivity|]. cbn [map]. rewrite IH, Nat.add_0_r. reflexivity. Qed.
Lemma map_addj0 (l : list jmp) : map (addj 0) l = l.
Proof. induction l as [|j l IH]; [reflexivity|]. cbn [map]. rewrite IH. unfold addj. rewrite Nat.add_0_r. destruct j; reflexivity. Qed.

Lemma group_long : forall fuel p pos pre rem r post nx a g lj, length rem <= fuel -> rem <> [] ->
  GState p pos pre rem r post nx a g lj ->
  exists p' c, (forall k, resolve_all (length rem + k) p pos = resolve_all k p' (pos + length rem)) /\
    pr_ins p' = pre ++ gcodeL fuel rem r ++ post /\
    length (gcodeL fuel rem r) = length rem + 1 + c /\
    skipn (pos + length rem) (pr_jumps p') = map (addj c) lj /\
    (forall l, l <> a -> Forall (fun x => length pre + length rem < x) (lab_get (pr_labels p) l) ->
               lab_get (pr_labels p') l = map (fun x => x + c) (lab_get (pr_labels p) l)).
Proof.
  induction fuel as [|f IH]; intros p pos pre rem r post nx a g lj Hfuel Hne HG.
  - destruct rem; [contradiction|cbn in Hfuel; lia].
  - cbn [gcodeL]. destruct (Nat.leb_spec (length rem) 256) as [Hs|Hlong].
    + destruct (final_chunk p pos pre rem r post nx a g lj HG Hne Hs) as (p' & Hr & Hi & Hj & Hl).
      exists p', 0. repeat split.
      * exact Hr.
      * rewrite Hi, <- app_assoc. reflexivity.
      * rewrite app_length, gj_length. cbn [length]. lia.
      * destruct HG as (_ & HjG & _). rewrite Hj, skipn_add, HjG.
        replace (length rem) with (length (gb_jumps (length pre) nx rem a g) + 0) by (rewrite gb_length; lia).
        rewrite skipn_app, gb_length. rewrite skipn_all2 by (rewrite gb_length; lia). rewrite Nat.add_0_r, Nat.sub_diag. cbn [app skipn].
        symmetry. apply map_addj0.
      * intros l Hla _. rewrite Hl by exact Hla. symmetry. apply map_add0.
    + destruct (chunk_step p pos pre rem r post nx a g lj HG Hlong) as (p1 & Hr1 & HG1 & HL1).
      set (c := firstn 255 rem) in *. set (c2 := skipn 255 rem) in *.
      assert (Hc : length c = 255) by (unfold c; rewrite firstn_length; lia).
      assert (Hc2 : length c2 = length rem - 255) by (unfold c2; rewrite skipn_length; reflexivity).
      destruct (IH p1 (pos + 255) (pre ++ gj c ++ [PRet r]) c2 r post (nx + 255) a g (map (bumpj (length pre + 255)) lj)) as (p' & c' & Hr & Hi & Hlen & Hj & Hl).
      * rewrite Hc2. lia.
      * intros E. rewrite E in Hc2. cbn in Hc2. lia.
      * exact HG1.
      * assert (Hpl : length (pre ++ gj c ++ [PRet r]) = length pre + 256) by (rewrite !app_length, gj_length, Hc; cbn [length]; lia).
        destruct HG as (_ & _ & Hlj & _).
        exists p', (S c'). repeat split.
        -- intros k. replace (length rem + k) with (255 + (length c2 + k)) by lia. rewrite Hr1, Hr.
           replace (pos + 255 + length c2) with (pos + length rem) by lia. reflexivity.
        -- rewrite Hi, <- !app_assoc. reflexivity.
        -- rewrite app_length, gj_length, Hc. cbn [length]. rewrite Hlen. lia.
        -- replace (pos + length rem) with (pos + 255 + length c2) by lia. rewrite Hj, map_map. apply map_ext_in.
           intros j Hin. rewrite Forall_forall in Hlj. specialize (Hlj j Hin). unfold addj, bumpj. cbn [j_index j_true j_false].
           rewrite bump_ge by lia. f_equal. lia.
        -- intros l Hla Hpos. rewrite Hl.
           ++ rewrite HL1 by exact Hla. rewrite map_map. apply map_ext_in. intros x Hx. rewrite Forall_forall in Hpos. specialize (Hpos x Hx).
              rewrite bump_ge by lia. lia.
           ++ exact Hla.
           ++ rewrite HL1 by exact Hla. rewrite Forall_map. eapply Forall_impl; [|exact Hpos]. intros x Hx. cbv beta in *.
              rewrite bump_ge by lia. rewrite Hpl, Hc2. lia.
Qed.

(** * both groups *)
Definition gcodeLL (nums : list N) (r : N) : list pinsn := match nums with [] => [] | _ => gcodeL (length nums) nums r end.

Lemma gb_addj : forall nums b nx a g c, map (addj c) (gb_jumps b nx nums a g) = gb_jumps (b + c) nx nums a g.
Proof.
  induction nums as [|n r IH]; intros b nx a g c; [reflexivity|].
  destruct r as [|m r'].
  - reflexivity.
  - change (gb_jumps b nx (n :: m :: r') a g) with ({| j_index := b; j_true := a; j_false := S nx |} :: gb_jumps (S b) (S nx) (m :: r') a g).
    change (gb_jumps (b + c) nx (n :: m :: r') a g) with ({| j_index := b + c; j_true := a; j_false := S nx |} :: gb_jumps (S (b + c)) (S nx) (m :: r') a g).
    cbn [map]. rewrite IH. reflexivity.
Qed.

Lemma gjs_addj b nx nums c : map (addj c) (gjs b nx nums) = gjs (b + c) nx nums.
Proof. destruct nums as [|n l]; [reflexivity|]. unfold gjs. apply gb_addj. Qed.

Lemma gjs_length b nx nums : length (gjs b nx nums) = length nums.
Proof. destruct nums as [|n l]; [reflexivity|]. unfold gjs. apply gb_length. Qed.

Lemma stage p pos pre nums r post next lj :
  pr_ins p = pre ++ gsrc nums r ++ post ->
  skipn pos (pr_jumps p) = gjs (length pre) next nums ++ lj ->
  (nums <> [] -> Forall (fun j => length pre + length nums < j_index j) lj) ->
  (nums <> [] -> group_labels (pr_labels p) (length pre) next nums) ->
  exists p' c, (forall k, resolve_all (length nums + k) p pos = resolve_all k p' (pos + length nums)) /\
    pr_ins p' = pre ++ gcodeLL nums r ++ post /\
    length (gcodeLL nums r) = length (gsrc nums r) + c /\
    skipn (pos + length nums) (pr_jumps p') = map (addj c) lj /\
    (forall l, (nums <> [] -> l <> next + 1) -> Forall (fun x => length pre + length nums < x) (lab_get (pr_labels p) l) ->
               lab_get (pr_labels p') l = map (fun x => x + c) (lab_get (pr_labels p) l)).
Proof.
  intros Hi Hj Hlj HL. destruct nums as [|n0 l0].
  - exists p, 0. cbn [length gcodeLL gsrc gjs app] in *. repeat split.
    + intros k. rewrite Nat.add_0_r. reflexivity.
    + exact Hi.
    + rewrite Nat.add_0_r, Hj. symmetry. apply map_addj0.
    + intros l _ _. symmetry. apply map_add0.
  - set (nums := n0 :: l0) in *. assert (Hne : nums <> []) by discriminate.
    destruct (HL Hne) as (Ha & Hg & Hl).
    assert (HG : GState p pos pre nums r post (next + 2) (next + 1) (next + 2) lj).
    { unfold GState. repeat split.
      - rewrite Hi. unfold gsrc. fold nums. change (match nums with [] => [] | _ :: _ => ?x end) with x. rewrite <- app_assoc. reflexivity.
      - rewrite Hj. unfold gjs. fold nums. change (match nums with [] => [] | _ :: _ => ?x end) with x. reflexivity.
      - apply Hlj. exact Hne.
      - exists []. split; [exact Ha|constructor].
      - exact Hg.
      - exact Hl.
      - lia.
      - lia. }
    destruct (group_long (length nums) p pos pre nums r post (next + 2) (next + 1) (next + 2) lj (le_n _) Hne HG) as (p' & c & Hr & Hi' & Hlen & Hj' & Hl').
    exists p', c. unfold gcodeLL, gsrc. fold nums. change (match nums with [] => [] | _ :: _ => ?x end) with x. repeat split.
    + exact Hr.
    + exact Hi'.
    + rewrite Hlen, app_length, Jsrc_length. cbn [length]. lia.
    + exact Hj'.
    + intros l Hla Hpos. apply Hl'; [apply Hla; exact Hne|exact Hpos].
Qed.

Theorem assemble_any allow trace d :
  assemble_prog (src_prog allow trace d) = Some (gcodeLL allow RET_ALLOW ++ gcodeLL trace RET_TRACE ++ [PRet d]).
Proof.
  destruct (group_spec new_prog allow RET_ALLOW fresh_new) as (HiA & HjA & HfA & HnA & HsA & HLA).
  set (pA := group new_prog allow RET_ALLOW) in *.
  destruct (group_spec pA trace RET_TRACE HfA) as (HiT & HjT & HfT & HnT & HsT & HLT).
  set (pT := group pA trace RET_TRACE) in *.
  cbn [new_prog pr_ins pr_jumps pr_next pr_labels app length] in HiA, HjA, HnA, HsA, HLA.
  set (P := ret pT d).
  assert (Hins : pr_ins P = [] ++ gsrc allow RET_ALLOW ++ gsrc trace RET_TRACE ++ [PRet d]).
  { unfold P, ret. cbn [pr_ins app]. rewrite HiT, HiA. rewrite <- app_assoc. reflexivity. }
  assert (Hjs : pr_jumps P = gjs 0 1 allow ++ gjs (length (gsrc allow RET_ALLOW)) (pr_next pA) trace).
  { unfold P, ret. cbn [pr_jumps]. rewrite HjT, HjA, HiA. reflexivity. }
  assert (HLP : pr_labels P = pr_labels pT) by reflexivity.
  (* first group *)
  destruct (stage P 0 [] allow RET_ALLOW (gsrc trace RET_TRACE ++ [PRet d]) 1 (gjs (length (gsrc allow RET_ALLOW)) (pr_next pA) trace))
    as (p1 & c1 & Hr1 & Hi1 & Hlen1 & Hj1 & Hl1).
  - exact Hins.
  - rewrite Hjs. reflexivity.
  - intros Hne. cbn [length plus]. destruct trace as [|t0 tl]; [constructor|]. unfold gjs.
    eapply Forall_impl; [|apply gb_lower]. cbn beta. intros j Hj. destruct allow as [|a0 al]; [contradiction|].
    unfold gsrc in Hj. rewrite app_length, Jsrc_length in Hj. cbn [length] in *. lia.
  - intros Hne. rewrite HLP. destruct (HLA Hne) as ((Ha & Hg & Hl) & Hn). cbn [length]. repeat split.
    + rewrite HsT by lia. exact Ha.
    + rewrite HsT by lia. exact Hg.
    + intros l H1 H2. rewrite HsT by lia. apply Hl; assumption.
  - (* second group *)
    cbn [app length plus] in Hi1, Hr1, Hj1.
    destruct (stage p1 (length allow) (gcodeLL allow RET_ALLOW) trace RET_TRACE [PRet d] (pr_next pA) [])
      as (p2 & c2 & Hr2 & Hi2 & Hlen2 & Hj2 & Hl2).
    + exact Hi1.
    + rewrite Hj1, gjs_addj, app_nil_r. rewrite Hlen1. reflexivity.
    + intros _. constructor.
    + intros Hne. destruct (HLT Hne) as ((Ha & Hg & Hl) & Hn). rewrite HiA in Ha, Hg, Hl. cbn [app] in Ha, Hg, Hl.
      assert (Hnext : allow <> [] -> 3 <= pr_next pA) by (intros HA; destruct (HLA HA) as (_ & HnA'); lia).
      assert (Hpos : forall x, length (gsrc allow RET_ALLOW) <= x -> 1 <= x -> 0 + length allow < x).
      { intros x H1 H2. destruct allow as [|a0 al]; [cbn [length]; lia|]. unfold gsrc in H1. rewrite app_length, Jsrc_length in H1. cbn [length] in *. lia. }
      assert (Hsh : forall l v, lab_get (pr_labels pT) l = [v] -> (allow <> [] -> l <> 1 + 1) -> length (gsrc allow RET_ALLOW) <= v -> 1 <= v ->
                    lab_get (pr_labels p1) l = [v + c1]).
      { intros l v E Hla H1 H2. rewrite Hl1; [rewrite HLP, E; reflexivity|exact Hla|]. rewrite HLP, E. constructor; [|constructor]. cbn [length]. apply Hpos; assumption. }
      assert (Htl : 1 <= length trace) by (destruct trace; [contradiction|cbn [length]; lia]).
      rewrite Hlen1. repeat split.
      * rewrite (Hsh _ _ Ha); [f_equal; lia| |lia|lia]. intros HA. specialize (Hnext HA). lia.
      * rewrite (Hsh _ _ Hg); [f_equal; lia| |lia|lia]. intros HA. specialize (Hnext HA). lia.
      * intros l H1 H2. rewrite (Hsh _ _ (Hl l H1 H2)); [f_equal; lia| |lia|lia]. intros HA. specialize (Hnext HA). lia.
    + unfold assemble_prog. change (src_prog allow trace d) with P. rewrite Hjs, app_length, !gjs_length.
      replace (length allow + length trace) with (length allow + (length trace + 0)) by lia.
      rewrite Hr1, Hr2. cbn [resolve_all]. rewrite Hi2. reflexivity.
Qed.

(** * what the filter answers *)
Open Scope N_scope.

Lemma nmem_app A a b : nmem A (a ++ b) = nmem A a || nmem A b.
Proof. induction a as [|x a IH]; [reflexivity|]. cbn [app nmem]. rewrite IH, orb_assoc. reflexivity. Qed.

Lemma gcodeL_run : forall fuel nums r rest A d, nums <> [] ->
  run_l (map export (gcodeL fuel nums r) ++ rest) 0 A d = if nmem A nums then Some r else run_l rest 0 A d.
Proof.
  induction fuel as [|f IH]; intros nums r rest A d Hne.
  - cbn [gcodeL]. rewrite map_app, <- app_assoc. cbn [map app]. apply gcode_run. exact Hne.
  - cbn [gcodeL]. destruct (Nat.leb_spec (length nums) 256) as [Hs|Hlong].
    + rewrite map_app, <- app_assoc. cbn [map app]. apply gcode_run. exact Hne.
    + set (c := firstn 255 nums). set (c2 := skipn 255 nums).
      assert (Hc : length c = 255%nat) by (unfold c; rewrite firstn_length; lia).
      assert (Hc2 : length c2 = (length nums - 255)%nat) by (unfold c2; rewrite skipn_length; reflexivity).
      assert (Hcne : c <> []) by (intros E; rewrite E in Hc; discriminate).
      assert (Hc2ne : c2 <> []) by (intros E; rewrite E in Hc2; cbn in Hc2; lia).
      rewrite map_app, <- app_assoc. cbn [map app]. rewrite gcode_run by exact Hcne.
      assert (En : nmem A nums = nmem A c || nmem A c2) by (rewrite <- (firstn_skipn 255 nums) at 1; apply nmem_app).
      rewrite En.
      destruct (nmem A c); cbn [orb]; [reflexivity|]. apply IH. exact Hc2ne.
Qed.

Lemma body_run_any allow trace dflt A d :
  run_l (map export (gcodeLL allow RET_ALLOW ++ gcodeLL trace RET_TRACE ++ [PRet dflt])) 0 A d =
  Some (if nmem A allow then RET_ALLOW else if nmem A trace then RET_TRACE else dflt).
Proof.
  rewrite !map_app.
  assert (G : forall nums r rest, run_l (map export (gcodeLL nums r) ++ rest) 0 A d = if nmem A nums then Some r else run_l rest 0 A d).
  { intros nums r rest. destruct nums as [|n l]; [reflexivity|]. unfold gcodeLL. apply gcodeL_run. discriminate. }
  rewrite G. destruct (nmem A allow); [reflexivity|]. rewrite G. destruct (nmem A trace); reflexivity.
Qed.

(** the prologue in front of any body that ends with the default return *)
Lemma filter_correct_gen (front : list pinsn) allow trace dflt d :
  (forall A, run_l (map export (front ++ [PRet dflt])) 0 A d = Some (if nmem A allow then RET_ALLOW else if nmem A trace then RET_TRACE else dflt)) ->
  run (prologue (length (front ++ [PRet dflt])) ++ map export (front ++ [PRet dflt])) d =
  Some (verdict {| p_allow := allow; p_trace := trace; p_default := dflt |} (sd_arch d) (sd_nr d)).
Proof.
  intros Hbody. set (body := front ++ [PRet dflt]) in *. unfold run, verdict. cbn [p_allow p_trace p_default].
  assert (Hlast : map export body = map export front ++ [export (PRet dflt)]) by (unfold body; rewrite map_app; reflexivity).
  assert (Hlen : length body = S (length (map export front))) by (unfold body; rewrite app_length, map_length; cbn [length]; lia).
  set (tail3 := [mk OP_LD_ABS 0 0 0; mk OP_JGE 0 1 X32_SYSCALL_BIT; mk OP_RET 0 0 (RET_ERRNO + ENOSYS)]).
  assert (Hnative : forall A0, run_l (tail3 ++ map export body) 0 A0 d =
                    Some (if X32_SYSCALL_BIT <=? sd_nr d then RET_ERRNO + ENOSYS
                          else if nmem (sd_nr d) allow then RET_ALLOW else if nmem (sd_nr d) trace then RET_TRACE else dflt)).
  { intros A0. unfold tail3. cbn [app]. rewrite run_ld_nr, run_jge_raw.
    destruct (X32_SYSCALL_BIT <=? sd_nr d).
    - change (N.to_nat 0) with 0%nat. apply run_ret_raw.
    - change (N.to_nat 1) with 1%nat. rewrite run_S. apply Hbody. }
  assert (Hforeign : forall A, run_l (tail3 ++ map export body) (2 + length body) A d = Some dflt).
  { intros A. rewrite Hlast, Hlen. unfold tail3. cbn [app plus]. rewrite !run_S. apply body_last. reflexivity. }
  unfold prologue. fold tail3. destruct (Nat.leb (2 + length body) 255).
  - cbn [app]. rewrite run_ld_arch, run_jeq_raw.
    destruct (sd_arch d =? AUDIT_ARCH_X86_64); cbn [negb].
    + change (N.to_nat 0) with 0%nat. apply Hnative.
    + rewrite Nat2N.id. apply Hforeign.
  - cbn [app]. rewrite run_ld_arch, run_jeq_raw.
    destruct (sd_arch d =? AUDIT_ARCH_X86_64); cbn [negb].
    + change (N.to_nat 1) with 1%nat. rewrite run_S. apply Hnative.
    + change (N.to_nat 0) with 0%nat. rewrite run_ja_raw. rewrite Nat2N.id. apply Hforeign.
Qed.

(** Builder.Build for EVERY policy: a filter is produced and it answers the policy's verdict on every seccomp_data *)
Theorem build_nums_correct_any allow trace dflt :
  exists f, build_nums allow trace dflt = Some f /\
            forall d, run f d = Some (verdict {| p_allow := allow; p_trace := trace; p_default := dflt |} (sd_arch d) (sd_nr d)).
Proof.
  unfold build_nums. change (ret (group (group new_prog allow RET_ALLOW) trace RET_TRACE) dflt) with (src_prog allow trace dflt).
  rewrite (assemble_any allow trace dflt). eexists. split; [reflexivity|]. intros d.
  rewrite (app_assoc (gcodeLL allow RET_ALLOW)). apply filter_correct_gen. intros A. rewrite <- app_assoc. apply body_run_any.
Qed.

Theorem build_correct_any tbl b pol : policy_of tbl b = Some pol ->
  exists f, build tbl b = Some f /\ forall d, run f d = Some (verdict pol (sd_arch d) (sd_nr d)).
Proof.
  unfold policy_of, build. destruct (nums_of tbl (b_allow b) []) as [a|]; [|discriminate].
  destruct (nums_of tbl (b_trace b) []) as [t|]; [|discriminate]. intros H. inversion H; subst. cbn [p_allow p_trace].
  apply build_nums_correct_any.
Qed.

(** a list long enough for two early returns, computed by the port itself *)
Example build_600 :
  let nums := map N.of_nat (seq 0 600) in
  build_nums nums [1000; 1001] RET_KILL_PROCESS =
  Some (prologue 607 ++ map export (gcodeLL nums RET_ALLOW ++ gcodeLL [1000; 1001] RET_TRACE ++ [PRet RET_KILL_PROCESS])).
Proof. vm_compute. reflexivity. Qed.

(** Classic BPF as the seccomp verifier accepts it, restricted to the opcodes
    the filters of this project use; everything else makes [run] answer None
    (the kernel would refuse the program or the checker does not vouch for it).
    An instruction is the exported quadruple (syscall.SockFilter). *)
From Coq Require Export List NArith Bool Lia.
Export ListNotations.
Open Scope N_scope.

Record insn := { code : N; jt : N; jf : N; k : N }.

(** struct seccomp_data, little endian: nr at 0, arch at 4, then ip and the six
    arguments as 32-bit words at offsets 8..60 *)
Record sdata := { sd_nr : N; sd_arch : N; sd_rest : N -> N }.

Definition load (d : sdata) (off : N) : option N :=
  if off =? 0 then Some (sd_nr d)
  else if off =? 4 then Some (sd_arch d)
  else if (off <? 64) && (off mod 4 =? 0) then Some (sd_rest d off)
  else None.

Definition OP_LD_ABS := 0x20. Definition OP_JEQ := 0x15. Definition OP_JGT := 0x25.
Definition OP_JGE := 0x35.    Definition OP_JA := 0x05.  Definition OP_RET := 0x06.

(** Forward jumps only (cBPF): the program is consumed front to back; [skip]
    is the number of instructions still to be jumped over. *)
Fixpoint run_l (p : list insn) (skip : nat) (A : N) (d : sdata) : option N :=
  match p with
  | [] => None                                   (* fell off the end *)
  | i :: rest =>
      match skip with
      | S s => run_l rest s A d
      | O =>
          if code i =? OP_LD_ABS then
            match load d (k i) with Some v => run_l rest 0 v d | None => None end
          else if code i =? OP_JEQ then run_l rest (N.to_nat (if A =? k i then jt i else jf i)) A d
          else if code i =? OP_JGT then run_l rest (N.to_nat (if k i <? A then jt i else jf i)) A d
          else if code i =? OP_JGE then run_l rest (N.to_nat (if k i <=? A then jt i else jf i)) A d
          else if code i =? OP_JA then run_l rest (N.to_nat (k i)) A d
          else if code i =? OP_RET then Some (k i)
          else None
      end
  end.

Definition run (p : list insn) (d : sdata) : option N := run_l p 0 0 d.

(** A Gallina port of what libseccomp.Builder.Build executes: ToSeccompAction,
    the two syscall groups (allow, then trace) of go-seccomp-bpf's Policy,
    Program.Assemble with its long-jump rewriting (early returns), the arch /
    x32 prologue, bpf.Assemble and sockFilter.  The syscall table is data. *)
From GS Require Export Base.Str Seccomp.Policy.
Open Scope N_scope.

Inductive pinsn :=
| PJeq (val : N) (st sf : nat)     (* bpf.JumpIf{JumpEqual, val, SkipTrue, SkipFalse} *)
| PRet (val : N).                  (* bpf.RetConstant *)

Record jmp := { j_index : nat; j_true : nat; j_false : nat }.

Record prog := {
  pr_ins : list pinsn;
  pr_jumps : list jmp;
  pr_labels : list (nat * list nat);   (* label -> candidate indices, nearest first *)
  pr_next : nat }.

Definition new_prog : prog := {| pr_ins := []; pr_jumps := []; pr_labels := []; pr_next := 1%nat |}.

Fixpoint lab_get (ls : list (nat * list nat)) (l : nat) : list nat :=
  match ls with
  | [] => []
  | (l', v) :: r => if Nat.eqb l l' then v else lab_get r l
  end.

Fixpoint lab_set (ls : list (nat * list nat)) (l : nat) (v : list nat) : list (nat * list nat) :=
  match ls with
  | [] => [(l, v)]
  | (l', w) :: r => if Nat.eqb l l' then (l', v) :: r else (l', w) :: lab_set r l v
  end.

(** NewLabel: nextLabel++ ; return nextLabel *)
Definition new_label (p : prog) : prog * nat :=
  let n := S (pr_next p) in
  ({| pr_ins := pr_ins p; pr_jumps := pr_jumps p; pr_labels := pr_labels p; pr_next := n |}, n).

Definition set_label (p : prog) (l : nat) : prog :=
  {| pr_ins := pr_ins p; pr_jumps := pr_jumps p;
     pr_labels := lab_set (pr_labels p) l (lab_get (pr_labels p) l ++ [length (pr_ins p)]);
     pr_next := pr_next p |}.

Definition jmp_if (p : prog) (val : N) (lt lf : nat) : prog :=
  {| pr_ins := pr_ins p ++ [PJeq val 0 0];
     pr_jumps := pr_jumps p ++ [{| j_index := length (pr_ins p); j_true := lt; j_false := lf |}];
     pr_labels := pr_labels p; pr_next := pr_next p |}.

Definition jmp_if_true (p : prog) (val : N) (lt : nat) : prog :=
  let '(p1, nxt) := new_label p in
  set_label (jmp_if p1 val lt nxt) nxt.

Definition ret (p : prog) (v : N) : prog :=
  {| pr_ins := pr_ins p ++ [PRet v]; pr_jumps := pr_jumps p; pr_labels := pr_labels p; pr_next := pr_next p |}.

(** SyscallGroup.Assemble for unconditional numbers (non-empty list) *)
Fixpoint group_body (p : prog) (nums : list N) (action nextg : nat) : prog :=
  match nums with
  | [] => p
  | [n] => jmp_if p n action nextg
  | n :: r => group_body (jmp_if_true p n action) r action nextg
  end.

Definition group (p : prog) (nums : list N) (retv : N) : prog :=
  match nums with
  | [] => p
  | _ =>
      let '(p1, action) := new_label p in
      let '(p2, nextg) := new_label p1 in
      let p3 := group_body p2 nums action nextg in
      set_label (ret (set_label p3 action) retv) nextg
  end.

(** ** Program.Assemble *)
Definition bump (after : nat) (i : nat) : nat := if Nat.leb after i then S i else i.

Fixpoint insert_at {A} (n : nat) (x : A) (l : list A) : list A :=
  match n, l with
  | O, _ => x :: l
  | S m, y :: r => y :: insert_at m x r
  | S _, [] => [x]
  end.

Fixpoint drop_behind (dest : list nat) (idx : nat) : list nat :=
  match dest with
  | d :: r => if Nat.leb d idx then drop_behind r idx else dest
  | [] => []
  end.

(** findInsertAfter: the last jump of the list whose index is below index+255 *)
Definition find_insert_after (jumps : list jmp) (cur : jmp) : jmp :=
  fold_left (fun acc j => if Nat.ltb (j_index j) (j_index cur + 255)%nat then j else acc) jumps cur.

Fixpoint set_nth {A} (n : nat) (x : A) (l : list A) : list A :=
  match n, l with
  | O, _ :: r => x :: r
  | S m, y :: r => y :: set_nth m x r
  | _, [] => []
  end.

(** resolveLabel: Some (program', skip) or None for an error / unsupported shape *)
Definition resolve_label (p : prog) (cur : jmp) (l : nat) : option (prog * nat) :=
  let dest := drop_behind (lab_get (pr_labels p) l) (j_index cur) in
  match dest with
  | [] => None                                      (* backward jumps are not supported *)
  | d0 :: _ =>
      let p1 := {| pr_ins := pr_ins p; pr_jumps := pr_jumps p;
                   pr_labels := lab_set (pr_labels p) l dest; pr_next := pr_next p |} in
      let skip := (d0 - j_index cur - 1)%nat in
      if Nat.ltb 255 skip then
        match nth_error (pr_ins p1) d0 with
        | Some (PRet v) =>
            let ia := find_insert_after (pr_jumps p1) cur in
            let at_ := S (j_index ia) in
            let ins' := insert_at at_ (PRet v) (pr_ins p1) in
            let jumps' := map (fun j => {| j_index := bump at_ (j_index j); j_true := j_true j; j_false := j_false j |}) (pr_jumps p1) in
            let labels' := map (fun '(lb, v) => (lb, map (bump at_) v)) (pr_labels p1) in
            let dest' := map (bump at_) dest in
            Some ({| pr_ins := ins'; pr_jumps := jumps'; pr_labels := lab_set labels' l (at_ :: dest'); pr_next := pr_next p1 |},
                  (at_ - j_index cur - 1)%nat)
        | _ => None                                 (* long jump to a non-return: not produced by Builder *)
        end
      else Some (p1, skip)
  end.

Definition resolve_jump (p : prog) (pos : nat) : option prog :=
  match nth_error (pr_jumps p) pos with
  | None => None
  | Some cur =>
      match nth_error (pr_ins p) (j_index cur) with
      | Some (PJeq val _ _) =>
          match resolve_label p cur (j_true cur) with
          | None => None
          | Some (p1, st) =>
              match resolve_label p1 cur (j_false cur) with
              | None => None
              | Some (p2, sf) =>
                  if Nat.eqb st 0 && Nat.eqb sf 0 then None     (* useless jump found *)
                  else Some {| pr_ins := set_nth (j_index cur) (PJeq val st sf) (pr_ins p2);
                               pr_jumps := pr_jumps p2; pr_labels := pr_labels p2; pr_next := pr_next p2 |}
              end
          end
      | _ => None
      end
  end.

Fixpoint resolve_all (fuel : nat) (p : prog) (pos : nat) : option prog :=
  match fuel with
  | O => Some p
  | S f => match resolve_jump p pos with
           | Some p' => resolve_all f p' (S pos)
           | None => None
           end
  end.

Definition assemble_prog (p : prog) : option (list pinsn) :=
  match resolve_all (length (pr_jumps p)) p 0 with
  | Some p' => Some (pr_ins p')
  | None => None
  end.

(** ** names -> numbers (SyscallGroup.toSyscallsWithConditions for plain names) *)
Fixpoint tbl_get (tbl : list (str * N)) (name : str) : option N :=
  match tbl with
  | [] => None
  | (n, v) :: r => if str_eqb n name then Some v else tbl_get r name
  end.

Fixpoint nums_of (tbl : list (str * N)) (names : list str) (acc : list N) : option (list N) :=
  match names with
  | [] => Some acc
  | n :: r => match tbl_get tbl n with
              | None => None                                   (* unknown syscall *)
              | Some v => if nmem v acc then None               (* duplicate syscall *)
                          else nums_of tbl r (acc ++ [v])
              end
  end.

(** ** Policy.Assemble + ExportBPF *)
Definition mk (c t f kk : N) : insn := {| code := c; jt := t; jf := f; k := kk |}.

Definition export (i : pinsn) : insn :=
  match i with
  | PJeq v st sf => mk OP_JEQ (N.of_nat st) (N.of_nat sf) v
  | PRet v => mk OP_RET 0 0 v
  end.

Definition prologue (n_body : nat) : list insn :=
  let jumpN := (2 + n_body)%nat in
  [mk OP_LD_ABS 0 0 4] ++
  (if Nat.leb jumpN 255
   then [mk OP_JEQ 0 (N.of_nat jumpN) AUDIT_ARCH_X86_64]            (* JumpNotEqual = jeq with swapped offsets *)
   else [mk OP_JEQ 1 0 AUDIT_ARCH_X86_64; mk OP_JA 0 0 (N.of_nat jumpN)]) ++
  [mk OP_LD_ABS 0 0 0; mk OP_JGE 0 1 X32_SYSCALL_BIT; mk OP_RET 0 0 (RET_ERRNO + ENOSYS)].

Record builder := { b_allow : list str; b_trace : list str; b_default : N }.

Definition build_nums (allow trace : list N) (default_ret : N) : option (list insn) :=
  let p := ret (group (group new_prog allow RET_ALLOW) trace RET_TRACE) default_ret in
  match assemble_prog p with
  | Some body => Some (prologue (length body) ++ map export body)
  | None => None
  end.

Definition build (tbl : list (str * N)) (b : builder) : option (list insn) :=
  match nums_of tbl (b_allow b) [], nums_of tbl (b_trace b) [] with
  | Some a, Some t => build_nums a t (action_ret (b_default b))
  | _, _ => None
  end.

Definition policy_of (tbl : list (str * N)) (b : builder) : option policy :=
  match nums_of tbl (b_allow b) [], nums_of tbl (b_trace b) [] with
  | Some a, Some t => Some {| p_allow := a; p_trace := t; p_default := action_ret (b_default b) |}
  | _, _ => None
  end.

(** cleanTrace (cmd/runprog/config): trace keeps its names, allow loses those
    that are also traced; both without duplicates (the code goes through maps,
    so the order of the result is unspecified: compared as sets) *)
Fixpoint sdedup (l : list str) : list str :=
  match l with [] => [] | x :: r => if smem x r then sdedup r else x :: sdedup r end.
Definition clean_trace (allow trace : list str) : list str * list str :=
  (sdedup (filter (fun a => negb (smem a trace)) allow), sdedup trace).

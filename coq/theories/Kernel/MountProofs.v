From Coq Require Import List Bool Arith NArith Lia.
From GS Require Import Kernel.Mount.
Import ListNotations.

Lemma lnat_eqb_eq : forall a b, lnat_eqb a b = true <-> a = b.
Proof.
  induction a as [|x a IH]; destruct b as [|y b]; simpl; split; intros H; try discriminate; auto.
  - apply andb_true_iff in H. destruct H as [H1 H2]. apply Nat.eqb_eq in H1. apply IH in H2. congruence.
  - injection H as -> ->. rewrite Nat.eqb_refl. apply IH. reflexivity.
Qed.

Lemma has_pow2 f k : has f (2 ^ k) = N.testbit f k.
Proof.
  unfold has. destruct (N.testbit f k) eqn:T.
  - apply negb_true_iff. apply N.eqb_neq. intros H.
    assert (N.testbit (N.land f (2 ^ k)) k = false) as T' by (rewrite H; apply N.bits_0).
    rewrite N.land_spec, N.pow2_bits_true, andb_true_r in T'. congruence.
  - apply negb_false_iff. apply N.eqb_eq. apply N.bits_inj_iff. intros n. rewrite N.land_spec, N.bits_0, N.pow2_bits_eqb.
    destruct (N.eqb k n) eqn:E; [apply N.eqb_eq in E; subst; rewrite T; reflexivity|apply andb_false_r].
Qed.

Lemma bind_ro_bits f : has f MS_BIND = true -> has f MS_RDONLY = true -> is_bind_ro f = true.
Proof.
  change MS_BIND with (2 ^ 12)%N. change MS_RDONLY with (2 ^ 0)%N. rewrite !has_pow2. intros H12 H0.
  unfold is_bind_ro. apply N.eqb_eq. apply N.bits_inj_iff. intros n. rewrite N.land_spec.
  change bindRo with (N.lor (2 ^ 12) (2 ^ 0)). rewrite N.lor_spec, !N.pow2_bits_eqb.
  destruct (N.eqb 12 n) eqn:E1; [apply N.eqb_eq in E1; subst; rewrite H12; reflexivity|].
  destruct (N.eqb 0 n) eqn:E2; [apply N.eqb_eq in E2; subst; rewrite H0; reflexivity|]. apply andb_false_r.
Qed.

Lemma has_lor_remount f : has (N.lor f MS_REMOUNT) MS_RDONLY = has f MS_RDONLY.
Proof.
  change MS_RDONLY with (2 ^ 0)%N. rewrite !has_pow2, N.lor_spec. change MS_REMOUNT with (2 ^ 5)%N. rewrite N.pow2_bits_eqb. apply orb_false_r.
Qed.

Lemma do_remount_other at_ f t : (forall e, In e t -> e_at e <> at_) -> do_remount at_ f t = t.
Proof.
  intros H. unfold do_remount. induction t as [|e r IH]; simpl; [reflexivity|].
  rewrite IH by (intros x Hx; apply H; right; exact Hx).
  destruct (lnat_eqb (e_at e) at_) eqn:E; [|reflexivity]. apply lnat_eqb_eq in E. exfalso. apply (H e); [left; reflexivity|exact E].
Qed.

Lemma mount_one_at h d e : In e (mount_one h d) -> exists s, e_at e = d_target d ++ s.
Proof.
  unfold mount_one. intros H.
  assert (forall t, (forall x, In x t -> exists s, e_at x = d_target d ++ s) -> forall f a, forall x, In x (do_remount a f t) -> exists s, e_at x = d_target d ++ s) as R.
  { intros t Ht f a x Hx. unfold do_remount in Hx. apply in_map_iff in Hx. destruct Hx as [y [<- Hy]]. destruct (lnat_eqb (e_at y) a); simpl; apply Ht; exact Hy. }
  assert (forall x, In x (do_mount h d) -> exists s, e_at x = d_target d ++ s) as M.
  { intros x Hx. unfold do_mount in Hx. destruct (d_kind d).
    - destruct Hx as [<-|Hx]; [exists []; simpl; rewrite app_nil_r; reflexivity|].
      destruct (has (d_flags d) MS_REC); [|contradiction]. apply in_map_iff in Hx. destruct Hx as [s [<- _]]. exists (fst s). reflexivity.
    - destruct Hx as [<-|[]]. exists []. simpl. rewrite app_nil_r. reflexivity.
    - destruct Hx as [<-|[]]. exists []. simpl. rewrite app_nil_r. reflexivity.
    - destruct Hx as [<-|[]]. exists []. simpl. rewrite app_nil_r. reflexivity. }
  destruct (is_bind_ro (d_flags d)); [eapply R; eauto|apply M; exact H].
Qed.

(** the final table: the read-only root and exactly the mounts of the declared entries, in order; nothing
    of the table the process had before (the old root), whatever it was *)
Theorem table_exact h old ds : (forall d, In d ds -> d_target d <> []) ->
  build_table h old ds = root_entry true :: flat_map (mount_one h) ds.
Proof.
  intros Ht. unfold build_table. rewrite skipn_app, skipn_all, Nat.sub_diag. simpl.
  f_equal. apply do_remount_other. intros e He. apply in_flat_map in He. destruct He as [d [Hd He]].
  destruct (mount_one_at h d e He) as [s Hs]. rewrite Hs. intros E. apply app_eq_nil in E. destruct E as [E _]. exact (Ht d Hd E).
Qed.

(** every entry declared read-only is read-only at its mount point ... *)
Theorem readonly_top h d : (d_kind d = FBind -> has (d_flags d) MS_BIND = true) -> declared_ro d = true ->
  exists e, In e (mount_one h d) /\ e_at e = d_target d /\ e_ro e = true.
Proof.
  intros Hw Hro. unfold declared_ro in Hro. unfold mount_one, do_mount. destruct (d_kind d) eqn:K.
  - rewrite (bind_ro_bits _ (Hw eq_refl) Hro). simpl. rewrite (proj2 (lnat_eqb_eq _ _) eq_refl).
    eexists. split; [left; reflexivity|]. simpl. split; [reflexivity|]. rewrite has_lor_remount. exact Hro.
  - destruct (is_bind_ro (d_flags d)); simpl; [rewrite (proj2 (lnat_eqb_eq _ _) eq_refl)|];
      (eexists; split; [left; reflexivity|]; simpl; split; [reflexivity|]; rewrite ?has_lor_remount; exact Hro).
  - destruct (is_bind_ro (d_flags d)); simpl; [rewrite (proj2 (lnat_eqb_eq _ _) eq_refl)|];
      (eexists; split; [left; reflexivity|]; simpl; split; [reflexivity|]; rewrite ?has_lor_remount; exact Hro).
  - destruct (is_bind_ro (d_flags d)); simpl; [rewrite (proj2 (lnat_eqb_eq _ _) eq_refl)|];
      (eexists; split; [left; reflexivity|]; simpl; split; [reflexivity|]; rewrite ?has_lor_remount; exact Hro).
Qed.

(** ... and everywhere below it when the bind source holds no further mounts *)
Theorem readonly_all h d : (d_kind d = FBind -> has (d_flags d) MS_BIND = true) -> declared_ro d = true ->
  h (d_source d) = [] -> forall e, In e (mount_one h d) -> e_ro e = true.
Proof.
  intros Hw Hro Hh e He. unfold declared_ro in Hro. unfold mount_one, do_mount in He. rewrite Hh in He. destruct (d_kind d) eqn:K.
  - rewrite (bind_ro_bits _ (Hw eq_refl) Hro) in He. simpl in He. destruct (has (d_flags d) MS_REC); simpl in He;
      rewrite (proj2 (lnat_eqb_eq _ _) eq_refl) in He; destruct He as [<-|[]]; simpl; rewrite has_lor_remount; exact Hro.
  - destruct (is_bind_ro (d_flags d)); simpl in He; [rewrite (proj2 (lnat_eqb_eq _ _) eq_refl) in He|]; destruct He as [<-|[]]; simpl; rewrite ?has_lor_remount; exact Hro.
  - destruct (is_bind_ro (d_flags d)); simpl in He; [rewrite (proj2 (lnat_eqb_eq _ _) eq_refl) in He|]; destruct He as [<-|[]]; simpl; rewrite ?has_lor_remount; exact Hro.
  - destruct (is_bind_ro (d_flags d)); simpl in He; [rewrite (proj2 (lnat_eqb_eq _ _) eq_refl) in He|]; destruct He as [<-|[]]; simpl; rewrite ?has_lor_remount; exact Hro.
Qed.

(** the limit (known finding): a recursive read-only bind of a source that holds a writable mount *)
Definition host_sub : host := fun s => match s with 7 => [([3], false)] | _ => [] end.
Theorem readonly_refuted : exists h d e, declared_ro d = true /\ In e (mount_one h d) /\ e_ro e = false.
Proof. exists host_sub, (with_bind 7 [1] true). eexists. split; [reflexivity|]. split; [right; left; reflexivity|reflexivity]. Qed.

(** only mounts declared writable accept writes: a writable entry of the table comes from a declaration without
    MS_RDONLY, or from a mount below a bind source *)
Theorem writable_only_declared h d e : In e (mount_one h d) -> e_ro e = false ->
  declared_ro d = false \/ (d_kind d = FBind /\ e_sub e <> []) \/ (d_kind d = FBind /\ has (d_flags d) MS_BIND = false).
Proof.
  intros He Hr. destruct (declared_ro d) eqn:Hro; [|left; reflexivity]. right.
  destruct (d_kind d) eqn:K.
  - destruct (has (d_flags d) MS_BIND) eqn:Hb; [|right; auto]. left. split; [reflexivity|].
    unfold mount_one, do_mount in He. rewrite K, (bind_ro_bits _ Hb Hro) in He. simpl in He.
    rewrite (proj2 (lnat_eqb_eq _ _) eq_refl) in He. destruct He as [<-|He]; [simpl in Hr; rewrite has_lor_remount in Hr; unfold declared_ro in Hro; congruence|].
    unfold do_remount in He. apply in_map_iff in He. destruct He as [x [Hx Hin]].
    destruct (has (d_flags d) MS_REC); [|contradiction]. apply in_map_iff in Hin. destruct Hin as [s [<- Hs]]. simpl in Hx.
    destruct (lnat_eqb (d_target d ++ fst s) (d_target d)) eqn:E.
    + subst e. simpl in Hr. rewrite has_lor_remount in Hr. unfold declared_ro in Hro. congruence.
    + subst e. simpl. intros E2. rewrite E2, app_nil_r in E. rewrite (proj2 (lnat_eqb_eq _ _) eq_refl) in E. discriminate.
  - exfalso. unfold mount_one, do_mount in He. rewrite K in He. unfold declared_ro in Hro.
    destruct (is_bind_ro (d_flags d)); simpl in He; [rewrite (proj2 (lnat_eqb_eq _ _) eq_refl) in He|]; destruct He as [<-|[]]; simpl in Hr; rewrite ?has_lor_remount in Hr; congruence.
  - exfalso. unfold mount_one, do_mount in He. rewrite K in He. unfold declared_ro in Hro.
    destruct (is_bind_ro (d_flags d)); simpl in He; [rewrite (proj2 (lnat_eqb_eq _ _) eq_refl) in He|]; destruct He as [<-|[]]; simpl in Hr; rewrite ?has_lor_remount in Hr; congruence.
  - exfalso. unfold mount_one, do_mount in He. rewrite K in He. unfold declared_ro in Hro.
    destruct (is_bind_ro (d_flags d)); simpl in He; [rewrite (proj2 (lnat_eqb_eq _ _) eq_refl) in He|]; destruct He as [<-|[]]; simpl in Hr; rewrite ?has_lor_remount in Hr; congruence.
Qed.

(** the builder's flag sets *)
Theorem builder_flags : forall src tgt,
  declared_ro (with_bind src tgt true) = true /\ is_bind_ro (d_flags (with_bind src tgt true)) = true /\
  declared_ro (with_bind src tgt false) = false /\ has (d_flags (with_bind src tgt false)) MS_REC = true /\
  declared_ro (with_tmpfs tgt) = false /\ has (d_flags (with_tmpfs tgt)) MS_NOSUID = true /\
  declared_ro (with_proc tgt false) = true /\ declared_ro (with_proc tgt true) = false.
Proof. intros. repeat split; reflexivity. Qed.

(** masks are in place for everything that exists, provided the container has /dev/null ... *)
Theorem masks_applied : forall k, mask_one true k <> MExposed.
Proof. destruct k as [[|]|]; simpl; discriminate. Qed.
(** ... and every one of them is skipped when it has not (known finding) *)
Theorem masks_skipped_without_dev_null : forall k, mask_one false (Some k) = MExposed.
Proof. destruct k; reflexivity. Qed.

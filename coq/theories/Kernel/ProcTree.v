(** Process trees built by a sandboxed program, and the teardown of the ptrace
    and namespace runners (killAll(-pgid) followed by collectZombie).
    Kernel rules: PR1 (kill(-pgid) reaches exactly the live members of the
    group), PR5 (a dead task stays a zombie until its parent or tracer waits
    for it), PT2 (children of a tracee are attached automatically), PR3 (death
    of a pid-namespace init kills every task of the namespace). *)
From Coq Require Import List Bool Arith Lia.
Import ListNotations.

Inductive tstate := Alive | Zombie | Reaped.

Record task := {
  t_id : nat;
  t_in_group : bool;     (* still a member of the run's process group *)
  t_traced : bool;       (* a tracee of the runner (or, in the namespace runner, inside the new pid namespace) *)
  t_state : tstate }.

(** what a program can do, for as long as it lives: fork from any live task, let any task exit,
    detach a task from the group (setsid / setpgid) when the policy lets it *)
Inductive action := AFork (parent : nat) | AExit (tid : nat) | ADetach (tid : nat).

Definition live (t : task) : bool := match t_state t with Alive => true | _ => false end.

Definition find_task (ts : list task) (id : nat) : option task := find (fun t => Nat.eqb (t_id t) id) ts.

Section Run.
  Variable detach_allowed : bool.   (* false: the policy refuses setsid / setpgid (ptrace runner) *)

  Definition step (ts : list task) (a : action) : list task :=
    match a with
    | AFork p =>
        match find_task ts p with
        | Some t => if live t then ts ++ [{| t_id := length ts; t_in_group := t_in_group t; t_traced := t_traced t; t_state := Alive |}] else ts
        | None => ts
        end
    | AExit id => map (fun t => if Nat.eqb (t_id t) id && live t then {| t_id := t_id t; t_in_group := t_in_group t; t_traced := t_traced t; t_state := Zombie |} else t) ts
    | ADetach id =>
        if detach_allowed
        then map (fun t => if Nat.eqb (t_id t) id then {| t_id := t_id t; t_in_group := false; t_traced := t_traced t; t_state := t_state t |} else t) ts
        else ts
    end.

  Definition run (acts : list action) : list task :=
    fold_left step acts [{| t_id := 0; t_in_group := true; t_traced := true; t_state := Alive |}].
End Run.

(** killAll: SIGKILL to the group *)
Definition kill_group (ts : list task) : list task :=
  map (fun t => if t_in_group t && live t then {| t_id := t_id t; t_in_group := true; t_traced := t_traced t; t_state := Zombie |} else t) ts.

(** collectZombie: wait4(-pgid, __WALL) until ECHILD reaps every dead child / tracee of the group *)
Definition collect (ts : list task) : list task :=
  map (fun t => match t_state t with
                | Zombie => if t_in_group t && t_traced t then {| t_id := t_id t; t_in_group := true; t_traced := true; t_state := Reaped |} else t
                | _ => t end) ts.

Definition teardown (ts : list task) : list task := collect (kill_group ts).

(** namespace runners: the program is the init of its pid namespace; killing it kills the namespace *)
Definition kill_namespace (ts : list task) : list task :=
  map (fun t => if live t then {| t_id := t_id t; t_in_group := t_in_group t; t_traced := t_traced t; t_state := Zombie |} else t) ts.

(** Executable comparison for the correspondence run of C05: the mount table of the sandboxed process
    (/proc/<pid>/mountinfo) against [build_table]. *)
From Coq Require Import List Bool Arith NArith.
From GS Require Import Kernel.Mount.
Import ListNotations.

Definition host_of (l : list (nat * list (list nat * bool))) : host :=
  fun s => match find (fun e => Nat.eqb (fst e) s) l with Some e => snd e | None => [] end.

(** the table as (mount point, read-only) pairs *)
Definition proj (t : list ment) : list (list nat * bool) := map (fun e => (e_at e, e_ro e)) t.
Definition pair_eqb (a b : list nat * bool) : bool := lnat_eqb (fst a) (fst b) && Bool.eqb (snd a) (snd b).
Definition same_table (a b : list (list nat * bool)) : bool :=
  forallb (fun x => existsb (pair_eqb x) b) a && forallb (fun x => existsb (pair_eqb x) a) b.

(** (mounts below the bind sources on the host, declared mounts, extra mounts the configuration adds after the
    sequence (masks), observed table) *)
Definition table_ok (x : list (nat * list (list nat * bool)) * list decl * list (list nat * bool) * list (list nat * bool)) : bool :=
  let '(h, ds, extra, obs) := x in
  same_table (proj (build_table (host_of h) [] ds) ++ extra) obs.

Fixpoint indexed {A} (i : N) (l : list A) : list (N * A) :=
  match l with [] => [] | x :: r => (i, x) :: indexed (N.succ i) r end.
Definition failing {A} (ok : A -> bool) (l : list A) : list N :=
  flat_map (fun '(i, x) => if ok x then [] else [i]) (indexed 0%N l).

(** (the container has /dev/null, a masked file of /proc that exists could be read) *)
Definition mask_ok (x : bool * bool) : bool :=
  Bool.eqb (match mask_one (fst x) (Some PFile) with MExposed => true | _ => false end) (snd x).

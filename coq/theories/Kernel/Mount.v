(** C05: the mount table of the new mount namespace as built by the two mount sequences of the code
    (raw in the forkexec child, and in the container init), over the kernel's mount rules. *)
From Coq Require Import List Bool Arith NArith.
Import ListNotations.

Definition MS_RDONLY : N := 1.     Definition MS_NOSUID : N := 2.   Definition MS_NODEV : N := 4.
Definition MS_NOEXEC : N := 8.     Definition MS_REMOUNT : N := 32. Definition MS_NOATIME : N := 1024.
Definition MS_BIND : N := 4096.    Definition MS_REC : N := 16384.  Definition MS_PRIVATE : N := 262144.
Definition has (f bit : N) : bool := negb (N.eqb (N.land f bit) 0).

Inductive fskind := FBind | FTmpfs | FProc | FOther.

(** a declared mount (mount.Mount): kind by FsType / MS_BIND, source (an id of a host directory or file),
    target (path below the new root), flag word *)
Record decl := { d_kind : fskind; d_source : nat; d_target : list nat; d_flags : N }.

(** an entry of the mount table: where, what, read-only?, nosuid? *)
Record ment := { e_at : list nat; e_kind : fskind; e_source : nat; e_sub : list nat; e_ro : bool; e_nosuid : bool }.

(** the host: the mounts that lie below a bind source (relative path and whether that mount is read-only) *)
Definition host := nat -> list (list nat * bool).

(** mount(2) of one declared entry (rules MT1-MT3 of DESIGN.md): a bind ignores MS_RDONLY and, with MS_REC,
    brings every mount below the source along with the flags it has on the host; other file systems honour
    MS_RDONLY at once *)
Definition do_mount (h : host) (d : decl) : list ment :=
  match d_kind d with
  | FBind =>
      {| e_at := d_target d; e_kind := FBind; e_source := d_source d; e_sub := []; e_ro := false; e_nosuid := false |} ::
      (if has (d_flags d) MS_REC
       then map (fun s => {| e_at := d_target d ++ fst s; e_kind := FBind; e_source := d_source d; e_sub := fst s; e_ro := snd s; e_nosuid := false |}) (h (d_source d))
       else [])
  | k => [{| e_at := d_target d; e_kind := k; e_source := d_source d; e_sub := []; e_ro := has (d_flags d) MS_RDONLY; e_nosuid := has (d_flags d) MS_NOSUID |}]
  end.

(** mount(2) with MS_REMOUNT|MS_BIND: changes the flags of the one mount at the target; MS_REC has no effect *)
Fixpoint lnat_eqb (a b : list nat) : bool :=
  match a, b with [], [] => true | x :: a', y :: b' => Nat.eqb x y && lnat_eqb a' b' | _, _ => false end.
Definition do_remount (at_ : list nat) (f : N) (t : list ment) : list ment :=
  map (fun e => if lnat_eqb (e_at e) at_
                then {| e_at := e_at e; e_kind := e_kind e; e_source := e_source e; e_sub := e_sub e; e_ro := has f MS_RDONLY; e_nosuid := has f MS_NOSUID |}
                else e) t.

(** ** the code: one declared mount (both implementations: mount, then the read-only remount iff BIND|RDONLY) *)
Definition bindRo : N := 4097.
Definition is_bind_ro (f : N) : bool := N.eqb (N.land f bindRo) bindRo.

Definition mount_one (h : host) (d : decl) : list ment :=
  let t := do_mount h d in
  if is_bind_ro (d_flags d) then do_remount (d_target d) (N.lor (d_flags d) MS_REMOUNT) t else t.

(** the whole sequence: tmpfs root, the declared mounts in order, pivot_root + detach of the old root (its
    mounts leave the table), read-only remount of the root.  [old] is the table before. *)
Definition root_entry (ro : bool) : ment := {| e_at := []; e_kind := FTmpfs; e_source := 0; e_sub := []; e_ro := ro; e_nosuid := ro |}.
Definition build_table (h : host) (old : list ment) (ds : list decl) : list ment :=
  let during := old ++ [root_entry false] ++ flat_map (mount_one h) ds in      (* before the pivot *)
  let pivoted := skipn (length old) during in                                  (* old root detached *)
  do_remount [] (MS_BIND + MS_REMOUNT + MS_RDONLY + MS_NOATIME + MS_NOSUID) pivoted.

(** raw in-child sequence and container-init sequence issue the same kernel operations per entry *)
Definition child_table := build_table.
Definition init_table := build_table.

(** ** the builder's flag sets *)
Definition with_bind (src : nat) (tgt : list nat) (ro : bool) : decl :=
  {| d_kind := FBind; d_source := src; d_target := tgt; d_flags := MS_BIND + MS_NOSUID + MS_PRIVATE + MS_REC + (if ro then MS_RDONLY else 0) |}.
Definition with_tmpfs (tgt : list nat) : decl :=
  {| d_kind := FTmpfs; d_source := 0; d_target := tgt; d_flags := MS_NOSUID + MS_NOATIME + MS_NODEV |}.
Definition with_proc (tgt : list nat) (rw : bool) : decl :=
  {| d_kind := FProc; d_source := 0; d_target := tgt; d_flags := MS_NOSUID + MS_NODEV + MS_NOEXEC + (if rw then 0 else MS_RDONLY) |}.

Definition declared_ro (d : decl) : bool := has (d_flags d) MS_RDONLY.

(** ** masked paths (maskPath in container init, after pivot_root): bind /dev/null over a file, an empty
    read-only tmpfs over a directory; a path that does not exist needs no mask.  The bind is refused with
    ENOENT both when the path is missing and when the container has no /dev/null, and the code ignores ENOENT *)
Inductive pkind := PFile | PDir.
Inductive masked := MNotPresent | MNull | MTmpfs | MExposed.
Definition mask_one (has_dev_null : bool) (k : option pkind) : masked :=
  match k with
  | None => MNotPresent
  | Some PFile => if has_dev_null then MNull else MExposed
  | Some PDir => if has_dev_null then MTmpfs else MExposed      (* the source is looked up first: ENOENT comes before ENOTDIR *)
  end.

(** Executable comparison for masked directories (C05): maskPath covers an existing directory with an empty READ-ONLY tmpfs
    when the container has /dev/null, and does nothing when it has not (the known finding). *)
From Coq Require Import List Bool.
From GS Require Import Kernel.Mount.
Import ListNotations.

(** (the container has /dev/null, the masked directory is a mount point, that mount is a tmpfs, it is read-only) *)
Definition maskdir_ok (x : bool * bool * bool * bool) : bool :=
  let '(hd, mounted, is_tmpfs, ro) := x in
  match mask_one hd (Some PDir) with
  | MTmpfs => mounted && is_tmpfs && ro
  | MExposed => negb mounted
  | _ => false
  end.

From Coq Require Import List Bool Arith Lia.
From GS Require Import Kernel.ProcTree.
Import ListNotations.

(** while the policy refuses to leave the group, every task the program ever creates is a member
    of the group and a tracee *)
Lemma step_keeps_membership ts a :
  Forall (fun t => t_in_group t = true /\ t_traced t = true) ts ->
  Forall (fun t => t_in_group t = true /\ t_traced t = true) (step false ts a).
Proof.
  intros H. destruct a as [p|id|id]; simpl.
  - destruct (find_task ts p) as [t|] eqn:E; [|exact H]. destruct (live t); [|exact H].
    apply Forall_app. split; [exact H|]. constructor; [|constructor]. simpl.
    unfold find_task in E. apply find_some in E. destruct E as [Hin _].
    rewrite Forall_forall in H. exact (H t Hin).
  - rewrite Forall_forall in *. intros t Ht. apply in_map_iff in Ht. destruct Ht as [t0 [Heq Hin]].
    specialize (H t0 Hin). destruct (Nat.eqb (t_id t0) id && live t0); subst t; simpl; exact H.
  - exact H.
Qed.

Lemma run_membership acts : Forall (fun t => t_in_group t = true /\ t_traced t = true) (run false acts).
Proof.
  unfold run. set (init := [{| t_id := 0; t_in_group := true; t_traced := true; t_state := Alive |}]).
  assert (Forall (fun t => t_in_group t = true /\ t_traced t = true) init) as H0 by (repeat constructor).
  revert H0. generalize init. induction acts as [|a r IH]; intros ts H; simpl; [exact H|].
  apply IH. apply step_keeps_membership. exact H.
Qed.

(** ptrace runner: whatever tree the program built (any number of forks, at any depth, any of its
    tasks exiting at any time), after killAll + collectZombie no task is alive and none is left as
    a zombie *)
Theorem ptrace_teardown acts : Forall (fun t => t_state t = Reaped) (teardown (run false acts)).
Proof.
  pose proof (run_membership acts) as H. unfold teardown, collect, kill_group.
  rewrite Forall_forall in *. intros t Ht.
  apply in_map_iff in Ht. destruct Ht as [t1 [Heq Hin1]]. apply in_map_iff in Hin1. destruct Hin1 as [t0 [Heq0 Hin0]].
  destruct (H t0 Hin0) as [Hg Htr]. subst t1 t.
  unfold live. destruct t0 as [id g tr st]. simpl in Hg, Htr. subst g tr. destruct st; reflexivity.
Qed.

(** when the policy lets tasks leave the group, kill(-pgid) does not reach them *)
Lemma detached_survives_group_kill :
  exists acts t, In t (teardown (run true acts)) /\ t_state t = Alive.
Proof.
  exists [AFork 0; ADetach 1], {| t_id := 1; t_in_group := false; t_traced := true; t_state := Alive |}.
  split; [vm_compute; auto|reflexivity].
Qed.

(** namespace runners: the program is the init of a pid namespace, its death is the death of every
    task, detached or not *)
Theorem namespace_teardown detach acts : Forall (fun t => t_state t <> Alive) (kill_namespace (run detach acts)).
Proof.
  unfold kill_namespace. rewrite Forall_forall. intros t Ht. apply in_map_iff in Ht. destruct Ht as [t0 [Heq _]].
  subst t. unfold live. destruct (t_state t0) eqn:E; simpl; rewrite ?E; discriminate.
Qed.

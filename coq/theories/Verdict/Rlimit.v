(** pkg/rlimit.PrepareRLimit, the prlimit64 loop of the child, and the output
    collector of pkg/pipe.  Executable definitions. *)
From Coq Require Export List NArith ZArith Bool Lia.
Export ListNotations.
Open Scope N_scope.

Record rlimits := { rl_cpu : N; rl_cpu_hard : N; rl_data : N; rl_fsize : N; rl_stack : N; rl_as : N;
                    rl_nofile : N; rl_nocore : bool }.

Definition RLIMIT_CPU := 0. Definition RLIMIT_FSIZE := 1. Definition RLIMIT_DATA := 2. Definition RLIMIT_STACK := 3.
Definition RLIMIT_CORE := 4. Definition RLIMIT_NOFILE := 7. Definition RLIMIT_AS := 9.

Record rlimit := { res : N; cur : N; max : N }.

Definition opt (res v : N) : list rlimit := if 0 <? v then [{| res := res; cur := v; max := v |}] else [].

Definition prepare (r : rlimits) : list rlimit :=
  (if 0 <? rl_cpu r
   then [{| res := RLIMIT_CPU; cur := rl_cpu r; max := if rl_cpu_hard r <? rl_cpu r then rl_cpu r else rl_cpu_hard r |}]
   else []) ++
  opt RLIMIT_DATA (rl_data r) ++ opt RLIMIT_FSIZE (rl_fsize r) ++ opt RLIMIT_STACK (rl_stack r) ++
  opt RLIMIT_AS (rl_as r) ++ opt RLIMIT_NOFILE (rl_nofile r) ++
  (if rl_nocore r then [{| res := RLIMIT_CORE; cur := 0; max := 0 |}] else []).

(** the limits of a process: resource -> (soft, hard) *)
Definition limits := N -> N * N.

Definition set_limit (l : limits) (e : rlimit) : limits :=
  fun r => if r =? res e then (cur e, max e) else l r.

(** The child's loop: one prlimit64(0, res, &lim) per entry, in order; the
    kernel's answer is an oracle [accept] (old limits -> entry -> bool); on a
    refusal the child reports the index and never reaches exec. *)
Fixpoint apply_limits (accept : limits -> rlimit -> bool) (l : limits) (es : list rlimit) (i : nat) : limits + nat :=
  match es with
  | [] => inl l
  | e :: r => if accept l e then apply_limits accept (set_limit l e) r (S i) else inr i
  end.

(** an unprivileged caller's kernel rule: soft <= hard and the hard limit is not raised *)
Definition accept_unpriv (l : limits) (e : rlimit) : bool := (cur e <=? max e) && (max e <=? snd (l (res e))).

(** ** pkg/pipe: CopyN(writer, r, max+1) then drain until EOF.
    The stream is the concatenation of everything the program writes. *)
Definition wrap64 (z : Z) : Z := ((z + 2^63) mod 2^64 - 2^63)%Z.

Definition copy_budget (max : Z) : nat := Z.to_nat (wrap64 (max + 1)).   (* negative budget copies nothing *)

Definition retained {A} (max : Z) (stream : list A) : list A := firstn (copy_budget max) stream.

(** reader automaton over chunks: (budget left, retained so far, bytes consumed) *)
Record rd {A} := { rd_left : nat; rd_buf : list A; rd_consumed : nat }.
Arguments rd : clear implicits.

Definition rd_step {A} (s : rd A) (chunk : list A) : rd A :=
  {| rd_left := rd_left s - length chunk;
     rd_buf := rd_buf s ++ firstn (rd_left s) chunk;
     rd_consumed := rd_consumed s + length chunk |}.

Definition rd_run {A} (max : Z) (chunks : list (list A)) : rd A :=
  fold_left rd_step chunks {| rd_left := copy_budget max; rd_buf := []; rd_consumed := 0 |}.

(** closed form used by the correspondence run for large volumes *)
Definition retained_len (max : Z) (total : N) : N := N.min (Z.to_N (wrap64 (max + 1))) total.

(** Executable comparisons for the correspondence runs of C09 / C08. *)
From GS Require Import Verdict.Status.
Open Scope N_scope.

Fixpoint indexed {A} (i : N) (l : list A) : list (N * A) :=
  match l with [] => [] | x :: r => (i, x) :: indexed (N.succ i) r end.

Definition failing {A} (ok : A -> bool) (l : list A) : list N :=
  flat_map (fun '(i, x) => if ok x then [] else [i]) (indexed 0 l).

(** the harness packs a Result as status<<40 | uint32(exit)<<1 | (Error<>"") *)
Definition code_of (r : result) : N :=
  status_code (r_status r) * 2^40 + Z.to_N ((r_exit r) mod 2^32) * 2 + (if r_err r then 1 else 0).

(** every status word lo, lo+1, ... against the observed codes *)
Fixpoint convert_mismatch (w : N) (codes : list N) : list N :=
  match codes with
  | [] => []
  | c :: r => (if code_of (container_classify w) =? c then [] else [w]) ++ convert_mismatch (N.succ w) r
  end.

Definition convert1_ok (x : bool * bool * bool * N * N) : bool :=
  let '(wait_err, sock_err, no_reply, w, code) := x in
  code_of (convert_reply_result sock_err (if no_reply then None else Some (convert_reply wait_err w))) =? code.

Record handle_case := {
  hc_pgid : Z; hc_pid : Z; hc_execved : bool; hc_traced : list Z; hc_w : N;
  (* observed *)
  hc_code : N; hc_finished : bool; hc_execved' : bool; hc_traced' : list Z }.

Definition zset_eqb (a b : list Z) : bool :=
  forallb (fun x => zmem x b) a && forallb (fun x => zmem x a) b.

(** the pid handed to handle is not a tracee: both fallible interactions fail *)
Definition handle_ok (c : handle_case) : bool :=
  let o := handle {| h_execved := hc_execved c; h_traced := hc_traced c |} (hc_pgid c) (hc_pid c) (hc_w c) SoGone TrGone in
  (code_of {| r_status := o_status o; r_exit := o_exit o; r_err := o_err o |} =? hc_code c) &&
  Bool.eqb (o_finished o) (hc_finished c) && Bool.eqb (h_execved (o_state o)) (hc_execved' c) &&
  zset_eqb (h_traced (o_state o)) (hc_traced' c).

(** checkUsage: (sec, usec, maxrss KiB, time limit ns, memory limit bytes) -> (time, mem, status) *)
Definition usage_ok (x : Z * Z * N * Z * N * (Z * N * N)) : bool :=
  let '(sec, usec, maxrss, tl, ml, (otime, omem, ost)) := x in
  let time := (sec * 1000000000 + usec * 1000)%Z in
  let mem := (maxrss * 1024) mod 2^64 in
  Z.eqb time otime && (mem =? omem) && (status_code (usage_status time tl mem ml) =? ost).

(** real runs: runner (0 ptrace, 1 namespace, 2 container), what the program
    did (exit code / fatal signal; [via_stop]: the signal reaches a traced task
    through a signal-delivery stop, i.e. anything but SIGKILL), observed code.
    The runs stay within the usage limits. *)
Definition traced_main := {| h_execved := true; h_traced := [1%Z] |}.

Definition ptrace_run (is_exit via_stop : bool) (v : N) (core : bool) : option result :=
  let death := if is_exit then ws_of_exit v else ws_of_signal v core in
  let die st := match fst (trace_step st 1%Z 1%Z death 0%Z 1%Z 0 1 SoOk TrOk) with
                | inl r => Some r | inr _ => None end in
  if negb is_exit && via_stop then
    match trace_step traced_main 1%Z 1%Z (0x7F + N.shiftl v 8) 0%Z 1%Z 0 1 SoOk TrOk with
    | (inl r, _) => Some r
    | (inr st, [ReqCont s]) => if Z.eqb s (Z.of_N v) then die st else None   (* not delivered: the program goes on *)
    | _ => None
    end
  else die traced_main.

Definition run_model (runner : N) (is_exit via_stop : bool) (v : N) (core : bool) : option result :=
  let w := if is_exit then ws_of_exit v else ws_of_signal v core in
  match runner with
  | 0 => ptrace_run is_exit via_stop v core
  | 1 => unshare_step 0%Z 1%Z 0 1 w
  | _ => Some (container_classify w)
  end.

Definition run_ok (x : N * bool * bool * N * N) : bool :=
  let '(runner, is_exit, via_stop, v, code) := x in
  forallb (fun core => match run_model runner is_exit via_stop v core with
                       | Some r => code_of r =? code | None => false end) [false; true].

From GS Require Import Verdict.Rlimit Verdict.Status.
Open Scope N_scope.

(** ** PrepareRLimit *)
Definition entry_for (r : rlimits) (x : N) : option (N * N) :=
  if x =? RLIMIT_CPU then (if 0 <? rl_cpu r then Some (rl_cpu r, N.max (rl_cpu_hard r) (rl_cpu r)) else None)
  else if x =? RLIMIT_DATA then (if 0 <? rl_data r then Some (rl_data r, rl_data r) else None)
  else if x =? RLIMIT_FSIZE then (if 0 <? rl_fsize r then Some (rl_fsize r, rl_fsize r) else None)
  else if x =? RLIMIT_STACK then (if 0 <? rl_stack r then Some (rl_stack r, rl_stack r) else None)
  else if x =? RLIMIT_AS then (if 0 <? rl_as r then Some (rl_as r, rl_as r) else None)
  else if x =? RLIMIT_NOFILE then (if 0 <? rl_nofile r then Some (rl_nofile r, rl_nofile r) else None)
  else if x =? RLIMIT_CORE then (if rl_nocore r then Some (0, 0) else None)
  else None.

Lemma max_ite a b : (if a <? b then b else a) = N.max a b.
Proof. destruct (N.ltb_spec a b); lia. Qed.

Lemma in_ite (b : bool) (x e : rlimit) : In e (if b then [x] else []) <-> b = true /\ e = x.
Proof. destruct b; simpl; split; intros H; try tauto; try (destruct H; discriminate).
  - destruct H as [<-|[]]. auto.
  - destruct H as [_ ->]. auto.
Qed.

(** every configured resource appears exactly once with the configured values,
    nothing else appears *)
Theorem prepare_spec r e :
  In e (prepare r) <-> entry_for r (res e) = Some (cur e, max e).
Proof.
  unfold prepare, opt. rewrite max_ite. repeat rewrite in_app_iff. repeat rewrite in_ite.
  destruct e as [x c m]. cbn [res cur max]. split.
  - intros H. unfold entry_for.
    repeat (destruct H as [H|H]); destruct H as [Hb He]; inversion He; subst; cbn; rewrite Hb; reflexivity.
  - unfold entry_for. intros H.
    destruct (N.eqb_spec x RLIMIT_CPU) as [->|_].
    { destruct (0 <? rl_cpu r); inversion H; subst. left. auto. }
    destruct (N.eqb_spec x RLIMIT_DATA) as [->|_].
    { destruct (0 <? rl_data r); inversion H; subst. right. left. auto. }
    destruct (N.eqb_spec x RLIMIT_FSIZE) as [->|_].
    { destruct (0 <? rl_fsize r); inversion H; subst. right. right. left. auto. }
    destruct (N.eqb_spec x RLIMIT_STACK) as [->|_].
    { destruct (0 <? rl_stack r); inversion H; subst. do 3 right. left. auto. }
    destruct (N.eqb_spec x RLIMIT_AS) as [->|_].
    { destruct (0 <? rl_as r); inversion H; subst. do 4 right. left. auto. }
    destruct (N.eqb_spec x RLIMIT_NOFILE) as [->|_].
    { destruct (0 <? rl_nofile r); inversion H; subst. do 5 right. left. auto. }
    destruct (N.eqb_spec x RLIMIT_CORE) as [->|_].
    { destruct (rl_nocore r); inversion H; subst. do 6 right. auto. }
    discriminate.
Qed.

Theorem prepare_nodup r : NoDup (map res (prepare r)).
Proof.
  unfold prepare, opt.
  destruct (0 <? rl_cpu r); destruct (0 <? rl_data r); destruct (0 <? rl_fsize r); destruct (0 <? rl_stack r);
  destruct (0 <? rl_as r); destruct (0 <? rl_nofile r); destruct (rl_nocore r); simpl;
  repeat constructor; simpl; intuition discriminate.
Qed.

Theorem prepare_cpu_hard_ge_soft r e : In e (prepare r) -> cur e <= max e.
Proof.
  intros H. apply prepare_spec in H. unfold entry_for in H.
  repeat match type of H with
         | (if ?b then _ else _) = _ => destruct b; try discriminate
         end; inversion H; lia.
Qed.

(** ** the loop in the child *)
Lemma apply_ok accept : forall es l i l', apply_limits accept l es i = inl l' ->
  NoDup (map res es) ->
  forall x, l' x = match find (fun e => res e =? x) es with Some e => (cur e, max e) | None => l x end.
Proof.
  induction es as [|e r IH]; intros l i l' H Hnd x; simpl in *.
  - inversion H; reflexivity.
  - destruct (accept l e); [|discriminate]. inversion Hnd; subst.
    rewrite (IH _ _ _ H H3 x). destruct (res e =? x) eqn:E.
    + apply N.eqb_eq in E. subst x.
      destruct (find (fun e0 => res e0 =? res e) r) as [e0|] eqn:F.
      * apply find_some in F. destruct F as [F1 F2]. apply N.eqb_eq in F2.
        exfalso. apply H2. rewrite <- F2. apply in_map. exact F1.
      * unfold set_limit. rewrite N.eqb_refl. reflexivity.
    + destruct (find (fun e0 => res e0 =? x) r); [reflexivity|].
      unfold set_limit. rewrite N.eqb_sym, E. reflexivity.
Qed.

(** limits in force at exec: configured ones exactly as configured, the others inherited *)
Theorem limits_in_force accept r l l' :
  apply_limits accept l (prepare r) 0 = inl l' ->
  forall x, l' x = match entry_for r x with Some cm => cm | None => l x end.
Proof.
  intros H x. rewrite (apply_ok accept _ _ _ _ H (prepare_nodup r) x).
  destruct (find (fun e => res e =? x) (prepare r)) as [e|] eqn:F.
  - apply find_some in F. destruct F as [F1 F2]. apply N.eqb_eq in F2. subst x.
    apply prepare_spec in F1. rewrite F1. reflexivity.
  - destruct (entry_for r x) as [[c m]|] eqn:E; [|reflexivity].
    exfalso. pose proof (find_none _ _ F {| res := x; cur := c; max := m |}) as Hn.
    simpl in Hn. rewrite N.eqb_refl in Hn. assert (true = false); [|discriminate]. apply Hn.
    apply prepare_spec. exact E.
Qed.

(** a refused entry is reported with its index and everything before it was applied *)
Theorem limits_refusal accept : forall es l i k, apply_limits accept l es i = inr k ->
  exists j e, nth_error es j = Some e /\ k = (i + j)%nat /\
              accept (fold_left set_limit (firstn j es) l) e = false.
Proof.
  induction es as [|e r IH]; intros l i k H; simpl in H; [discriminate|].
  destruct (accept l e) eqn:E.
  - destruct (IH _ _ _ H) as [j [e' [H1 [H2 H3]]]]. exists (S j), e'. simpl. repeat split; auto; lia.
  - inversion H; subst. exists 0%nat, e. simpl. repeat split; auto; lia.
Qed.

(** ** usage verdicts (shared definition with C09) *)
Theorem usage_verdict time tl mem ml :
  (ml < mem -> usage_status time tl mem ml = MemoryLimit) /\
  (mem <= ml -> (tl < time)%Z -> usage_status time tl mem ml = TimeLimit) /\
  (mem <= ml -> (time <= tl)%Z -> usage_status time tl mem ml = Normal).
Proof.
  unfold usage_status. repeat split; intros.
  - assert (ml <? mem = true) as -> by (apply N.ltb_lt; assumption). reflexivity.
  - assert (ml <? mem = false) as -> by (apply N.ltb_ge; assumption).
    assert ((tl <? time)%Z = true) as -> by (apply Z.ltb_lt; assumption). reflexivity.
  - assert (ml <? mem = false) as -> by (apply N.ltb_ge; assumption).
    assert ((tl <? time)%Z = false) as -> by (apply Z.ltb_ge; assumption). reflexivity.
Qed.

(** a run whose main task exceeded a bound is reported with that verdict whatever else happened *)
Theorem usage_overrides_ptrace st pgid w time tl mem ml so tr :
  usage_status time tl mem ml <> Normal ->
  fst (trace_step st pgid pgid w time tl mem ml so tr) =
    inl {| r_status := usage_status time tl mem ml; r_exit := 0%Z; r_err := false |}.
Proof.
  intros H. unfold trace_step. rewrite Z.eqb_refl.
  destruct (usage_status time tl mem ml); try reflexivity. contradiction.
Qed.

Theorem usage_overrides_unshare w time tl mem ml :
  usage_status time tl mem ml <> Normal ->
  unshare_step time tl mem ml w = Some {| r_status := usage_status time tl mem ml; r_exit := 0%Z; r_err := false |}.
Proof.
  intros H. unfold unshare_step. destruct (usage_status time tl mem ml); try reflexivity. contradiction.
Qed.

(** ** the output collector *)
Lemma rd_run_spec {A} (chunks : list (list A)) : forall s,
  let s' := fold_left rd_step chunks s in
  rd_buf s' = rd_buf s ++ firstn (rd_left s) (concat chunks) /\
  rd_consumed s' = (rd_consumed s + length (concat chunks))%nat /\
  rd_left s' = (rd_left s - length (concat chunks))%nat.
Proof.
  induction chunks as [|c r IH]; intros s; simpl.
  - rewrite firstn_nil, app_nil_r. repeat split; lia.
  - destruct (IH (rd_step s c)) as [H1 [H2 H3]]. rewrite H1, H2, H3. simpl.
    rewrite app_length. repeat split; try lia.
    rewrite <- app_assoc. f_equal. rewrite firstn_app. reflexivity.
Qed.

(** never more than max+1 bytes are retained, and they are the first bytes written *)
Theorem pipe_cap {A} max (chunks : list (list A)) : (0 <= max < 2^63 - 1)%Z ->
  rd_buf (rd_run max chunks) = retained max (concat chunks) /\
  (Z.of_nat (length (rd_buf (rd_run max chunks))) <= max + 1)%Z.
Proof.
  intros Hm. unfold rd_run. destruct (rd_run_spec chunks {| rd_left := copy_budget max; rd_buf := []; rd_consumed := 0 |}) as [H1 _].
  simpl in H1. rewrite H1. split; [reflexivity|].
  rewrite firstn_length. unfold copy_budget, wrap64.
  rewrite Z.mod_small by lia. lia.
Qed.

(** the collector consumes every byte the program writes, so the program never
    blocks on a full pipe and never sees EPIPE while the collector lives *)
Theorem pipe_drains {A} max (chunks : list (list A)) :
  rd_consumed (rd_run max chunks) = length (concat chunks).
Proof.
  unfold rd_run. destruct (rd_run_spec chunks {| rd_left := copy_budget max; rd_buf := []; rd_consumed := 0 |}) as [_ [H2 _]].
  simpl in H2. exact H2.
Qed.

(** max = MaxInt64: max+1 wraps to a negative budget and nothing is retained (still within the bound) *)
Theorem pipe_cap_wrap {A} (chunks : list (list A)) :
  rd_buf (rd_run (2^63 - 1) chunks) = [].
Proof.
  assert (copy_budget (2^63 - 1) = 0%nat) as Hb by (vm_compute; reflexivity).
  unfold rd_run. rewrite Hb.
  destruct (rd_run_spec chunks {| rd_left := 0; rd_buf := []; rd_consumed := 0 |}) as [H1 _].
  cbn [rd_buf rd_left] in H1. rewrite H1. reflexivity.
Qed.

Example prepare_example :
  prepare {| rl_cpu := 2; rl_cpu_hard := 1; rl_data := 0; rl_fsize := 2^33; rl_stack := 0; rl_as := 0; rl_nofile := 256; rl_nocore := true |}
  = [ {| res := 0; cur := 2; max := 2 |}; {| res := 1; cur := 2^33; max := 2^33 |};
      {| res := 7; cur := 256; max := 256 |}; {| res := 4; cur := 0; max := 0 |} ].
Proof. vm_compute. reflexivity. Qed.

Lemma retained_len_spec {A} max (s : list A) :
  length (retained max s) = N.to_nat (retained_len max (N.of_nat (length s))).
Proof.
  unfold retained, retained_len, copy_budget. rewrite firstn_length.
  rewrite N2Nat.inj_min, Nat2N.id, Z_N_nat. reflexivity.
Qed.

(** ** kernel-enforced limits: the signals that report them *)
From GS Require Import Verdict.StatusProofs.

Theorem limit_signals_container core :
  r_status (container_classify (ws_of_signal 24 core)) = TimeLimit /\
  r_status (container_classify (ws_of_signal 9 core)) = TimeLimit /\
  r_status (container_classify (ws_of_signal 25 core)) = OutputLimit.
Proof. rewrite !container_table_signal by lia. repeat split. Qed.

Theorem limit_signals_unshare core time tl mem ml : within time tl mem ml ->
  unshare_step time tl mem ml (ws_of_signal 24 core) = Some (table_signal 24) /\
  unshare_step time tl mem ml (ws_of_signal 9 core) = Some (table_signal 9) /\
  unshare_step time tl mem ml (ws_of_signal 25 core) = Some (table_signal 25).
Proof.
  intros Hw. repeat split.
  - exact (unshare_table_signal 24 core time tl mem ml ltac:(lia) ltac:(lia) Hw).
  - exact (unshare_table_signal 9 core time tl mem ml ltac:(lia) ltac:(lia) Hw).
  - exact (unshare_table_signal 25 core time tl mem ml ltac:(lia) ltac:(lia) Hw).
Qed.

Theorem limit_signals_ptrace st pgid pid : h_execved st = true -> zmem pid (h_traced st) = true ->
  o_status (handle st pgid pid (ws_of_stop 24 0) SoOk TrOk) = TimeLimit /\
  o_status (handle st pgid pid (ws_of_stop 25 0) SoOk TrOk) = OutputLimit.
Proof.
  intros He Ht. split.
  - destruct (ptrace_signal_delivery st pgid pid 24 ltac:(lia) ltac:(lia) He Ht) as [[_ H]|[[H _]|[H _]]];
      [exact H | discriminate | ].
    exfalso. revert H. unfold handle. vm_compute (ws_of_stop 24 0). cbn. rewrite Ht. cbn. discriminate.
  - destruct (ptrace_signal_delivery st pgid pid 25 ltac:(lia) ltac:(lia) He Ht) as [[H _]|[[_ H]|[H _]]];
      [discriminate | exact H | ].
    exfalso. revert H. unfold handle. vm_compute (ws_of_stop 25 0). cbn. rewrite Ht. cbn. discriminate.
Qed.

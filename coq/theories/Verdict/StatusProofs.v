From GS Require Import Base.Finite Verdict.Status.
Open Scope N_scope.

Definition status_eqb (a b : status) : bool := status_code a =? status_code b.
Lemma status_eqb_eq a b : status_eqb a b = true -> a = b.
Proof. destruct a, b; simpl; intros H; try reflexivity; discriminate. Qed.

Definition result_eqb (a b : result) : bool :=
  status_eqb (r_status a) (r_status b) && Z.eqb (r_exit a) (r_exit b) && Bool.eqb (r_err a) (r_err b).
Lemma result_eqb_eq a b : result_eqb a b = true -> a = b.
Proof.
  destruct a, b. unfold result_eqb. simpl. intros H.
  apply andb_true_iff in H. destruct H as [H H3]. apply andb_true_iff in H. destruct H as [H1 H2].
  apply status_eqb_eq in H1. apply Z.eqb_eq in H2. apply eqb_prop in H3. subst. reflexivity.
Qed.

(** ** decoding of the kernel's status words (finite sweeps, bounds in the statements) *)
Lemma decode_exit c : c < 256 ->
  ws_exited (ws_of_exit c) = true /\ ws_exit_status (ws_of_exit c) = Z.of_N c.
Proof.
  intros H.
  assert (forallb (fun c => ws_exited (ws_of_exit c) && Z.eqb (ws_exit_status (ws_of_exit c)) (Z.of_N c))
            (N_below 256) = true) as Hs by (vm_compute; reflexivity).
  pose proof (forall_below _ 256 Hs c H) as Hc. simpl in Hc.
  apply andb_true_iff in Hc. destruct Hc as [H1 H2]. apply Z.eqb_eq in H2. auto.
Qed.

Lemma decode_signal s core : 1 <= s -> s < 127 ->
  ws_exited (ws_of_signal s core) = false /\ ws_signaled (ws_of_signal s core) = true /\
  ws_signal (ws_of_signal s core) = Z.of_N s.
Proof.
  intros H1 H.
  assert (forallb (fun s => (s =? 0) || (forallb (fun core =>
             negb (ws_exited (ws_of_signal s core)) && ws_signaled (ws_of_signal s core) &&
             Z.eqb (ws_signal (ws_of_signal s core)) (Z.of_N s)) [false; true]))
            (N_below 127) = true) as Hs by (vm_compute; reflexivity).
  pose proof (forall_below _ 127 Hs s H) as Hc. cbv beta in Hc.
  apply orb_true_iff in Hc. destruct Hc as [Hc|Hc]; [apply N.eqb_eq in Hc; lia|].
  rewrite forallb_forall in Hc. specialize (Hc core ltac:(destruct core; simpl; auto)).
  apply andb_true_iff in Hc. destruct Hc as [Hc H4]. apply andb_true_iff in Hc. destruct Hc as [H2 H3].
  apply Z.eqb_eq in H4. apply negb_true_iff in H2. auto.
Qed.

(** ** the three classifiers agree with the table *)
Theorem container_table_exit c : c < 256 -> container_classify (ws_of_exit c) = table_exit (Z.of_N c).
Proof.
  intros H. destruct (decode_exit c H) as [H1 H2].
  unfold container_classify, convert_reply, convert_reply_result, table_exit. simpl.
  rewrite H1, H2. reflexivity.
Qed.

Theorem container_table_signal s core : 1 <= s -> s < 127 ->
  container_classify (ws_of_signal s core) = table_signal (Z.of_N s).
Proof.
  intros H0 H. destruct (decode_signal s core H0 H) as [H1 [H2 H3]].
  unfold container_classify, convert_reply, convert_reply_result, table_signal. simpl.
  rewrite H1, H2, H3. reflexivity.
Qed.

Definition within (time tlimit : Z) (mem mlimit : N) : Prop := (time <= tlimit)%Z /\ mem <= mlimit.

Lemma usage_within time tl mem ml : within time tl mem ml -> usage_status time tl mem ml = Normal.
Proof.
  intros [Ht Hm]. unfold usage_status.
  assert (ml <? mem = false) as -> by (apply N.ltb_ge; exact Hm).
  assert ((tl <? time)%Z = false) as -> by (apply Z.ltb_ge; exact Ht). reflexivity.
Qed.

Theorem unshare_table_exit c time tl mem ml : c < 256 -> within time tl mem ml ->
  unshare_step time tl mem ml (ws_of_exit c) = Some (table_exit (Z.of_N c)).
Proof.
  intros H Hw. destruct (decode_exit c H) as [H1 H2].
  unfold unshare_step. rewrite (usage_within _ _ _ _ Hw), H1, H2. reflexivity.
Qed.

Theorem unshare_table_signal s core time tl mem ml : 1 <= s -> s < 127 -> within time tl mem ml ->
  unshare_step time tl mem ml (ws_of_signal s core) = Some (table_signal (Z.of_N s)).
Proof.
  intros H0 H Hw. destruct (decode_signal s core H0 H) as [H1 [H2 H3]].
  unfold unshare_step. rewrite (usage_within _ _ _ _ Hw), H1, H2, H3. reflexivity.
Qed.

Theorem ptrace_table_exit st pgid c time tl mem ml so tr : c < 256 -> within time tl mem ml ->
  h_execved st = true ->
  fst (trace_step st pgid pgid (ws_of_exit c) time tl mem ml so tr) = inl (table_exit (Z.of_N c)).
Proof.
  intros H Hw He. destruct (decode_exit c H) as [H1 H2].
  unfold trace_step, handle. rewrite Z.eqb_refl, (usage_within _ _ _ _ Hw), H1, He, H2.
  unfold table_exit. simpl. destruct (Z.of_N c =? 0)%Z; reflexivity.
Qed.

Theorem ptrace_table_signal st pgid s core time tl mem ml so tr : 1 <= s -> s < 127 ->
  within time tl mem ml ->
  fst (trace_step st pgid pgid (ws_of_signal s core) time tl mem ml so tr) = inl (table_signal (Z.of_N s)).
Proof.
  intros H0 H Hw. destruct (decode_signal s core H0 H) as [H1 [H2 H3]].
  unfold trace_step, handle. rewrite Z.eqb_refl, (usage_within _ _ _ _ Hw), H1, H2, H3.
  unfold table_signal, sig_status. simpl.
  destruct ((Z.of_N s =? SIGXCPU)%Z || (Z.of_N s =? SIGKILL)%Z); [reflexivity|].
  destruct (Z.of_N s =? SIGXFSZ)%Z; [reflexivity|].
  destruct (Z.of_N s =? SIGSYS)%Z; reflexivity.
Qed.

(** exits and deaths of secondary tasks never end the run *)
Theorem ptrace_children_irrelevant st pgid pid w time tl mem ml so tr :
  pid <> pgid -> ws_exited w = true \/ ws_signaled w = true ->
  exists st', fst (trace_step st pgid pid w time tl mem ml so tr) = inr st' /\
              h_execved st' = h_execved st.
Proof.
  intros Hne Hw. unfold trace_step, handle.
  assert ((pid =? pgid)%Z = false) as -> by (apply Z.eqb_neq; exact Hne).
  destruct (ws_exited w) eqn:E1.
  - simpl. eexists. split; reflexivity.
  - destruct Hw as [Hw|Hw]; [discriminate|]. rewrite Hw. simpl. eexists. split; reflexivity.
Qed.

(** Runner Error always carries an explanation *)
Lemma sig_status_not_error s : sig_status s <> RunnerError.
Proof.
  unfold sig_status. destruct ((s =? SIGXCPU)%Z || (s =? SIGKILL)%Z); [discriminate|].
  destruct (s =? SIGXFSZ)%Z; [discriminate|]. destruct (s =? SIGSYS)%Z; discriminate.
Qed.

Theorem runner_error_explained_container (sock_err wait_err : bool) (w : N) (no_reply : bool) :
  let r := convert_reply_result sock_err (if no_reply then None else Some (convert_reply wait_err w)) in
  r_status r = RunnerError -> r_err r = true.
Proof.
  cbv zeta. unfold convert_reply_result, convert_reply.
  destruct sock_err; [reflexivity|]. destruct no_reply; [reflexivity|].
  destruct wait_err; [reflexivity|].
  destruct (ws_exited w).
  - simpl. destruct (ws_exit_status w =? 0)%Z; discriminate.
  - destruct (ws_signaled w); [|reflexivity]. simpl. intros H. apply sig_status_not_error in H. contradiction.
Qed.

Theorem runner_error_explained_unshare time tl mem ml w r :
  unshare_step time tl mem ml w = Some r -> r_status r = RunnerError -> r_err r = true.
Proof.
  unfold unshare_step, usage_status.
  destruct (ml <? mem); [intros H; inversion H; subst; discriminate|].
  destruct (tl <? time)%Z; [intros H; inversion H; subst; discriminate|].
  destruct (ws_exited w).
  - intros H; inversion H; subst; simpl. destruct (ws_exit_status w =? 0)%Z; discriminate.
  - destruct (ws_signaled w); [|discriminate]. intros H; inversion H; subst; simpl.
    intros H'. apply sig_status_not_error in H'. contradiction.
Qed.

Theorem runner_error_explained_ptrace st pgid pid w time tl mem ml so tr r :
  fst (trace_step st pgid pid w time tl mem ml so tr) = inl r -> r_status r = RunnerError -> r_err r = true.
Proof.
  unfold trace_step, handle, usage_status. destruct so, tr;
  repeat match goal with
         | |- context [if ?b then _ else _] => destruct b; simpl
         end;
  intros H; inversion H; subst; simpl; try reflexivity; try discriminate;
  intros H'; try (apply sig_status_not_error in H'; contradiction).
Qed.

(** ** signal-delivery stops of the ptrace runner: a fatal signal sent to the
    program is handed back to it (so the program dies of it and the death is
    classified by the table), except for the two limit signals, which end the
    run at once with the table's verdict. *)
Definition ws_of_stop (sig cause : N) : N := 0x7F + N.shiftl sig 8 + N.shiftl cause 16.

Lemma decode_stop sig cause : sig < 128 -> cause < 256 ->
  ws_exited (ws_of_stop sig cause) = false /\ ws_signaled (ws_of_stop sig cause) = false /\
  ws_stopped (ws_of_stop sig cause) = true /\ ws_stop_signal (ws_of_stop sig cause) = Z.of_N sig /\
  (sig = 5 -> ws_trap_cause (ws_of_stop sig cause) = Z.of_N cause).
Proof.
  intros H1 H2.
  assert (forallb (fun sig => forallb (fun cause =>
            negb (ws_exited (ws_of_stop sig cause)) && negb (ws_signaled (ws_of_stop sig cause)) &&
            ws_stopped (ws_of_stop sig cause) && Z.eqb (ws_stop_signal (ws_of_stop sig cause)) (Z.of_N sig) &&
            (negb (sig =? 5) || Z.eqb (ws_trap_cause (ws_of_stop sig cause)) (Z.of_N cause)))
            (N_below 256)) (N_below 128) = true) as Hs by (vm_compute; reflexivity).
  pose proof (forall_below _ 128 Hs sig H1) as Hc. cbv beta in Hc.
  pose proof (forall_below _ 256 Hc cause H2) as Hd. cbv beta in Hd.
  repeat (apply andb_true_iff in Hd; destruct Hd as [Hd ?]).
  apply negb_true_iff in Hd. repeat split; auto.
  - apply negb_true_iff; assumption.
  - apply Z.eqb_eq; assumption.
  - intros ->. simpl in H. apply Z.eqb_eq. exact H.
Qed.

Theorem ptrace_signal_delivery st pgid pid sig :
  1 <= sig -> sig < 128 -> h_execved st = true -> zmem pid (h_traced st) = true ->
  let o := handle st pgid pid (ws_of_stop sig 0) SoOk TrOk in
  (sig = 24 /\ o_status o = TimeLimit) \/ (sig = 25 /\ o_status o = OutputLimit) \/
  (o_status o = Normal /\ o_finished o = false /\ o_reqs o = [ReqCont (Z.of_N sig)] /\ o_state o = st).
Proof.
  intros H1 H2 He Ht. cbv zeta.
  destruct (decode_stop sig 0 H2 ltac:(lia)) as [E1 [E2 [E3 [E4 E5]]]].
  unfold handle. rewrite E1, E2, E3, Ht, E4. simpl.
  destruct (Z.of_N sig =? SIGTRAP)%Z eqn:Et.
  { apply Z.eqb_eq in Et. unfold SIGTRAP in Et. assert (sig = 5) as Hs by lia.
    rewrite (E5 Hs). simpl. rewrite He. simpl. right. right. subst sig. destruct st; auto. }
  destruct (Z.of_N sig =? SIGXCPU)%Z eqn:Ea.
  { left. apply Z.eqb_eq in Ea. unfold SIGXCPU in Ea. split; [lia|reflexivity]. }
  destruct (Z.of_N sig =? SIGXFSZ)%Z eqn:Eb.
  { right. left. apply Z.eqb_eq in Eb. unfold SIGXFSZ in Eb. split; [lia|reflexivity]. }
  right. right. destruct st; auto.
Qed.

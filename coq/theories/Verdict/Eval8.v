(** Executable comparisons for the correspondence run of C08. *)
From GS Require Import Verdict.Status Verdict.Rlimit Verdict.Eval.
Open Scope N_scope.

Definition rlimit_eqb (a b : rlimit) : bool := (res a =? res b) && (cur a =? cur b) && (max a =? max b).
Fixpoint rlimits_eqb (a b : list rlimit) : bool :=
  match a, b with
  | [], [] => true
  | x :: a', y :: b' => rlimit_eqb x y && rlimits_eqb a' b'
  | _, _ => false
  end.

Definition mkr (a b c : N) : rlimit := {| res := a; cur := b; max := c |}.

Definition prepare_ok (x : rlimits * list rlimit) : bool := rlimits_eqb (prepare (fst x)) (snd x).

Fixpoint assoc (l : list (N * (N * N))) (x : N) : N * N :=
  match l with
  | [] => (0, 0)
  | (k, v) :: r => if k =? x then v else assoc r x
  end.

Definition pair_eqb (a b : N * N) : bool := (fst a =? fst b) && (snd a =? snd b).

(** a launch under limits: [privileged] = the child may raise hard limits.
    observed: None = the launch failed at the rlimit step; Some l = the program's own getrlimit report *)
Definition limits_ok (x : rlimits * bool * list (N * (N * N)) * option (list (N * (N * N)))) : bool :=
  let '(r, privileged, inherited, obs) := x in
  let acc := if privileged then (fun _ _ => true) else accept_unpriv in
  match apply_limits acc (assoc inherited) (prepare r) 0, obs with
  | inl l', Some o => forallb (fun '(k, v) => pair_eqb (l' k) v) o && forallb (fun '(k, _) => pair_eqb (l' k) (assoc o k)) inherited
  | inr _, None => true
  | _, _ => false
  end.

Definition pipe_ok (x : Z * N * N) : bool := let '(max, total, obs) := x in retained_len max total =? obs.

(** a run that ended because a bound of the runner was exceeded: (time, tl, mem, ml, observed status code) *)
Definition usage_run_ok (x : Z * Z * N * N * N) : bool :=
  let '(time, tl, mem, ml, st) := x in status_code (usage_status time tl mem ml) =? st.

(** Wait-status decoding (Go's syscall.WaitStatus on Linux), the documented
    result table, and the three classifiers: container (convertReply followed by
    convertReplyResult), namespace runner (the loop body of unshare.Run) and the
    ptrace runner (Tracer.trace loop body with ptraceHandle.handle). *)
From Coq Require Export List NArith ZArith Bool Lia.
Export ListNotations.
Open Scope N_scope.

Inductive status :=
| Invalid | Normal | TimeLimit | MemoryLimit | OutputLimit | Disallowed | Signalled | NonzeroExit | RunnerError.

Definition status_code (s : status) : N :=
  match s with
  | Invalid => 0 | Normal => 1 | TimeLimit => 2 | MemoryLimit => 3 | OutputLimit => 4
  | Disallowed => 5 | Signalled => 6 | NonzeroExit => 7 | RunnerError => 8
  end.

(** runner.Result projected on what the property speaks about: status, exit
    value, and whether the Error string is non-empty *)
Record result := { r_status : status; r_exit : Z; r_err : bool }.

(** ** syscall.WaitStatus *)
Definition ws_exited (w : N) : bool := N.land w 0x7F =? 0.
Definition ws_signaled (w : N) : bool := negb (N.land w 0x7F =? 0x7F) && negb (N.land w 0x7F =? 0).
Definition ws_stopped (w : N) : bool := N.land w 0xFF =? 0x7F.
Definition ws_exit_status (w : N) : Z := if ws_exited w then Z.of_N (N.land (N.shiftr w 8) 0xFF) else (-1)%Z.
Definition ws_signal (w : N) : Z := if ws_signaled w then Z.of_N (N.land w 0x7F) else (-1)%Z.
Definition ws_stop_signal (w : N) : Z := if ws_stopped w then Z.of_N (N.land (N.shiftr w 8) 0xFF) else (-1)%Z.
Definition SIGTRAP : Z := 5. Definition SIGKILL : Z := 9. Definition SIGSTOP : Z := 19.
Definition SIGXCPU : Z := 24. Definition SIGXFSZ : Z := 25. Definition SIGSYS : Z := 31.
Definition ws_trap_cause (w : N) : Z :=
  if Z.eqb (ws_stop_signal w) SIGTRAP then Z.of_N (N.shiftr (N.shiftr w 8) 8) else (-1)%Z.

(** ** the documented table (README "Result Status") *)
Definition sig_status (sig : Z) : status :=
  if Z.eqb sig SIGXCPU || Z.eqb sig SIGKILL then TimeLimit
  else if Z.eqb sig SIGXFSZ then OutputLimit
  else if Z.eqb sig SIGSYS then Disallowed
  else Signalled.

Definition table_exit (code : Z) : result :=
  {| r_status := if Z.eqb code 0 then Normal else NonzeroExit; r_exit := code; r_err := false |}.
Definition table_signal (sig : Z) : result :=
  {| r_status := sig_status sig; r_exit := sig; r_err := false |}.

(** what the kernel reports for exit(code) and for death by signal (with or
    without the core-dump bit) *)
Definition ws_of_exit (code : N) : N := N.shiftl code 8.
Definition ws_of_signal (sig : N) (core : bool) : N := sig + (if core then 0x80 else 0).

(** ** container: convertReply then convertReplyResult *)
Inductive creply :=
| CErr                                  (* reply.Error: message always non-empty by construction *)
| CExec (st : status) (exit : Z).

Definition convert_reply (wait_err : bool) (w : N) : creply :=
  if wait_err then CErr
  else if ws_exited w then
    let e := ws_exit_status w in CExec (if Z.eqb e 0 then Normal else NonzeroExit) e
  else if ws_signaled w then CExec (sig_status (ws_signal w)) (ws_signal w)
  else CErr.

(** [sock_err]: the receive/send error of the call; [None] of ExecReply and
    Error cannot arise from convert_reply and is the third branch *)
Definition convert_reply_result (sock_err : bool) (r : option creply) : result :=
  if sock_err then {| r_status := RunnerError; r_exit := 0; r_err := true |}
  else match r with
       | Some CErr => {| r_status := RunnerError; r_exit := 0; r_err := true |}
       | None => {| r_status := RunnerError; r_exit := 0; r_err := true |}
       | Some (CExec st e) => {| r_status := st; r_exit := e; r_err := false |}
       end.

Definition container_classify (w : N) : result :=
  convert_reply_result false (Some (convert_reply false w)).

(** ** usage check shared by the ptrace and namespace runners
    (time in ns as int64, memory in bytes as uint64: compared as given) *)
Definition usage_status (time tlimit : Z) (mem mlimit : N) : status :=
  if N.ltb mlimit mem then MemoryLimit
  else if Z.ltb tlimit time then TimeLimit
  else Normal.

(** ** namespace runner: one iteration of the wait loop; None = wait again *)
Definition unshare_step (time tlimit : Z) (mem mlimit : N) (w : N) : option result :=
  match usage_status time tlimit mem mlimit with
  | Normal =>
      if ws_exited w then
        let e := ws_exit_status w in
        Some {| r_status := if Z.eqb e 0 then Normal else NonzeroExit; r_exit := e; r_err := false |}
      else if ws_signaled w then
        Some {| r_status := sig_status (ws_signal w); r_exit := ws_signal w; r_err := false |}
      else None
  | st => Some {| r_status := st; r_exit := 0; r_err := false |}
  end.

(** ** ptrace runner *)
Inductive preq :=
| ReqSetOptions        (* PTRACE_SETOPTIONS with the full flag set *)
| ReqCont (sig : Z)    (* PTRACE_CONT delivering sig (0 = none) *)
| ReqHandleTrap.       (* handleTrap: GETREGSET, Handler.Handle, possibly SETREGSET *)

Record hstate := { h_execved : bool; h_traced : list Z }.

Fixpoint zmem (x : Z) (l : list Z) : bool :=
  match l with [] => false | y :: r => Z.eqb x y || zmem x r end.
Fixpoint zdel (x : Z) (l : list Z) : list Z :=
  match l with [] => [] | y :: r => if Z.eqb x y then zdel x r else y :: zdel x r end.

Record hout := { o_status : status; o_exit : Z; o_err : bool; o_finished : bool;
                 o_state : hstate; o_reqs : list preq }.

Definition PTRACE_EVENT_FORK : Z := 1.  Definition PTRACE_EVENT_VFORK : Z := 2.
Definition PTRACE_EVENT_CLONE : Z := 3. Definition PTRACE_EVENT_EXEC : Z := 4.
Definition PTRACE_EVENT_SECCOMP : Z := 7.

(** outcomes of the two fallible ptrace interactions: PTRACE_SETOPTIONS on a new
    task, and handleTrap (GETREGSET, Handler.Handle, SETREGS for a ban).  Once
    the tracee was killed every request answers ESRCH ("gone"). *)
Inductive sres := SoOk | SoGone | SoErr.
Inductive tres := TrOk      (* allowed, or banned and the registers were rewritten (or the tracee is gone by then) *)
                | TrGone    (* GETREGSET answered ESRCH *)
                | TrKill    (* the handler's verdict is kill *)
                | TrErr.    (* any other failure *)

Definition handle (st : hstate) (pgid pid : Z) (w : N) (so : sres) (tr : tres) : hout :=
  let out s e er f st' rq := {| o_status := s; o_exit := e; o_err := er; o_finished := f; o_state := st'; o_reqs := rq |} in
  if ws_exited w then
    let st' := {| h_execved := h_execved st; h_traced := zdel pid (h_traced st) |} in
    if Z.eqb pid pgid then
      if h_execved st then
        let e := ws_exit_status w in
        out (if Z.eqb e 0 then Normal else NonzeroExit) e false true st' []
      else out RunnerError 0%Z true true st' []
    else out Normal 0%Z false false st' []
  else if ws_signaled w then
    let sig := ws_signal w in
    if Z.eqb pid pgid then
      out (sig_status sig) sig false false
          {| h_execved := h_execved st; h_traced := zdel pid (h_traced st) |} []
    else out Normal 0%Z false false st [ReqCont sig]
  else if ws_stopped w then
    let fresh := negb (zmem pid (h_traced st)) in
    let st1 := if fresh then {| h_execved := h_execved st; h_traced := pid :: h_traced st |} else st in
    let r1 := if fresh then [ReqSetOptions] else [] in
    if fresh && match so with SoGone => true | _ => false end then
      (* the new task is already gone: forget it, its death is reported by wait4 *)
      out Normal 0%Z false false {| h_execved := h_execved st; h_traced := zdel pid (h_traced st) |} r1
    else if fresh && match so with SoErr => true | _ => false end then out RunnerError 0%Z true false st1 r1
    else
      let ss := ws_stop_signal w in
      if Z.eqb ss SIGTRAP then
        let cause := ws_trap_cause w in
        if Z.eqb cause PTRACE_EVENT_SECCOMP then
          if h_execved st1 then
            match tr with
            | TrOk | TrGone => out Normal 0%Z false false st1 (r1 ++ [ReqHandleTrap; ReqCont 0%Z])
            | TrKill | TrErr => out Disallowed 0%Z true false st1 (r1 ++ [ReqHandleTrap])
            end
          else out Normal 0%Z false false st1 (r1 ++ [ReqCont 0%Z])
        else if Z.eqb cause PTRACE_EVENT_EXEC then
          out Normal 0%Z false false {| h_execved := true; h_traced := h_traced st1 |} (r1 ++ [ReqCont 0%Z])
        else if Z.eqb cause 0 && h_execved st1 then
          (* a SIGTRAP of the program's own (no ptrace event): delivered *)
          out Normal 0%Z false false st1 (r1 ++ [ReqCont ss])
        else out Normal 0%Z false false st1 (r1 ++ [ReqCont 0%Z])
      else if Z.eqb ss SIGXCPU then out TimeLimit 0%Z false false st1 r1
      else if Z.eqb ss SIGXFSZ then out OutputLimit 0%Z false false st1 r1
      else out Normal 0%Z false false st1 (r1 ++ [ReqCont ss])
  else out Normal 0%Z false false st [].

(** one iteration of Tracer.trace after wait4 returned (pid, w, rusage):
    [inl r] = the run returns r; [inr st'] = loop again *)
Definition trace_step (st : hstate) (pgid pid : Z) (w : N) (time tlimit : Z) (mem mlimit : N)
           (so : sres) (tr : tres) : (result + hstate) * list preq :=
  let us := if Z.eqb pid pgid then usage_status time tlimit mem mlimit else Normal in
  match us with
  | Normal =>
      let o := handle st pgid pid w so tr in
      if o_finished o || negb (N.eqb (status_code (o_status o)) 1)
      then (inl {| r_status := o_status o; r_exit := o_exit o; r_err := o_err o |}, o_reqs o)
      else (inr (o_state o), o_reqs o)
  | s => (inl {| r_status := s; r_exit := 0%Z; r_err := false |}, [])
  end.

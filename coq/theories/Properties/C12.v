(** C12 — no residue: no processes, zombies, descriptors or goroutines left behind. *)
From Coq Require Import List.
From GS Require Import Kernel.ProcTree Kernel.ProcTreeProofs Container.Batch Container.BatchProofs Container.Proto Container.ProtoProofs.
Import ListNotations.

(** ptrace runner: for EVERY process tree a program can build (any sequence of forks from any live
    task and exits of any task; the policy refuses to leave the process group), killAll followed by
    collectZombie leaves no task alive and none unreaped *)
Theorem C12_ptrace_teardown : forall acts, Forall (fun t => t_state t = Reaped) (teardown (run false acts)).
Proof. exact ptrace_teardown. Qed.
Print Assumptions C12_ptrace_teardown.

(** the hypothesis matters: a task that was allowed to leave the group is not reached *)
Theorem C12_detached_survives_group_kill : exists acts t, In t (teardown (run true acts)) /\ t_state t = Alive.
Proof. exact detached_survives_group_kill. Qed.
Print Assumptions C12_detached_survives_group_kill.

(** pid-namespace runners (namespace runner, container): the death of the namespace's init leaves
    no task alive, whatever the tree did (setsid, setpgid, double fork, ignored signals) *)
Theorem C12_namespace_teardown : forall detach acts, Forall (fun t => t_state t <> Alive) (kill_namespace (run detach acts)).
Proof. exact namespace_teardown. Qed.
Print Assumptions C12_namespace_teardown.

(** descriptors of an Open reply: on an inconsistent reply every descriptor taken so far is closed *)
Theorem C12_open_reply_descriptors_closed : forall errs fds acc, length fds < successes errs ->
  exists closed, host_walk errs fds acc = HError closed /\ (forall f, In f closed <-> In (RFile f) acc \/ In f fds).
Proof. exact open_too_few_fds. Qed.
Print Assumptions C12_open_reply_descriptors_closed.

(** at every return of an environment call nothing is in flight that a later call could inherit
    (no reply, at most the one kill the container consumes before serving again) *)
Theorem C12_nothing_in_flight_at_return : forall s, R s -> s_host s = HIdle -> s_env_lost s = false ->
  s_ch s = [] /\
  ((s_cont s = CServe /\ s_hc s = []) \/ (s_cont s = CWaitKill /\ s_hc s = [(KKill, s_tag s)])) /\
  s_last s <> RTransport.
Proof. exact quiescent_at_return. Qed.
Print Assumptions C12_nothing_in_flight_at_return.

(** C01 — the compiled seccomp filter implements the declared policy exactly. *)
From GS Require Import Base.Str Seccomp.Check Seccomp.CheckProofs Seccomp.Asm Seccomp.PolicyProofs Seccomp.BuildProofs Seccomp.BuildLong.
Open Scope N_scope.

(** A filter accepted by the validator answers the policy's verdict for every
    seccomp_data: all syscall numbers, all architecture words, arbitrary
    instruction pointer and argument words.  The check evaluates this validator
    inside Coq on every filter Builder.Build really produces. *)
Theorem C01_filter_sound : forall p pol, check_filter p pol = true ->
  forall d, run p d = Some (verdict pol (sd_arch d) (sd_nr d)).
Proof. exact filter_sound. Qed.
Print Assumptions C01_filter_sound.

(** Builder.Build (group construction, Program.Assemble with its long-jump rewriting, prologue, export) is
    correct once and for all: for EVERY policy (any list lengths) it produces a filter, and the filter
    answers the policy's verdict on every seccomp_data. *)
Theorem C01_build_correct : forall tbl b pol, policy_of tbl b = Some pol ->
  exists f, build tbl b = Some f /\ forall d, run f d = Some (verdict pol (sd_arch d) (sd_nr d)).
Proof. exact build_correct_any. Qed.
Print Assumptions C01_build_correct.

(** the instructions Program.Assemble yields, in closed form: each group is cut into chunks of 255
    comparisons, every chunk followed by a copy of the group's return (the last chunk has up to 256) *)
Theorem C01_assemble_closed_form : forall allow trace d,
  assemble_prog (src_prog allow trace d) = Some (gcodeLL allow RET_ALLOW ++ gcodeLL trace RET_TRACE ++ [PRet d]).
Proof. exact assemble_any. Qed.
Print Assumptions C01_assemble_closed_form.

(** what the verdict says, spelled out *)
Theorem C01_native_verdict : forall pol nr, nr < X32_SYSCALL_BIT ->
  verdict pol AUDIT_ARCH_X86_64 nr =
    if nmem nr (p_allow pol) then RET_ALLOW else if nmem nr (p_trace pol) then RET_TRACE else p_default pol.
Proof. exact native_verdict. Qed.
Print Assumptions C01_native_verdict.

Theorem C01_foreign_arch : forall pol arch nr, arch <> AUDIT_ARCH_X86_64 -> verdict pol arch nr = p_default pol.
Proof. exact foreign_arch. Qed.
Print Assumptions C01_foreign_arch.

Theorem C01_x32_refused : forall pol nr, X32_SYSCALL_BIT <= nr ->
  verdict pol AUDIT_ARCH_X86_64 nr = RET_ERRNO + ENOSYS.
Proof. exact x32_refused. Qed.
Print Assumptions C01_x32_refused.

(** actions: every value other than allow / errno / trace is kill-process *)
Theorem C01_action_failclosed : forall a,
  N.land a 0xffff <> 1 -> N.land a 0xffff <> 2 -> N.land a 0xffff <> 3 -> action_ret a = RET_KILL_PROCESS.
Proof. exact action_failclosed. Qed.
Print Assumptions C01_action_failclosed.

Theorem C01_action_allow_only_if_asked : forall a, action_ret a = RET_ALLOW -> N.land a 0xffff = 1.
Proof. exact action_allow_only_if_asked. Qed.
Print Assumptions C01_action_allow_only_if_asked.

(** unknown names never yield a filter; the lists of a built policy have no repeated numbers *)
Theorem C01_build_rejects_unknown : forall tbl b n,
  (In n (b_allow b) \/ In n (b_trace b)) -> tbl_get tbl n = None -> build tbl b = None.
Proof. exact build_rejects_unknown. Qed.
Print Assumptions C01_build_rejects_unknown.

Theorem C01_build_lists_nodup : forall tbl b pol, policy_of tbl b = Some pol -> NoDup (p_allow pol) /\ NoDup (p_trace pol).
Proof. exact build_lists_nodup. Qed.
Print Assumptions C01_build_lists_nodup.

(** cleanTrace: trace keeps everything, allow loses what is traced; disjoint, duplicate free *)
Theorem C01_cleantrace : forall allow trace,
  let '(a', t') := clean_trace allow trace in
  (forall x, In x t' <-> In x trace) /\
  (forall x, In x a' <-> In x allow /\ ~ In x trace) /\
  (forall x, In x a' -> ~ In x t') /\ NoDup a' /\ NoDup t'.
Proof. exact clean_trace_spec. Qed.
Print Assumptions C01_cleantrace.

(** C16 — if the controlling process dies, the sandbox dies with it. *)
From Coq Require Import List Arith.
From GS Require Import Base.Lts Verdict.Status Tracer.VerdictProofs Tracer.LaunchDeath Container.Proto Container.ProtoProofs.
Import ListNotations.

(** socket EOF: from EVERY reachable state of the RPC (idle, any point of any operation), once the
    container has noticed that the socket is gone its own steps bring the init to its exit within
    eof_bound (= 4) steps: the init never waits on anything that is not guarded by [done].  The death
    of the init is the death of its pid namespace (kernel rule PR3). *)
Theorem C16_socket_eof_ends_init : forall s, R s -> s_cdone s = true -> s_cont s <> CDead ->
  cont_steps true s <> [] /\
  forall p, busy_path state (cont_steps true) eof_busy s p -> Forall (fun t => eof_busy t = true) p -> (length p <= eof_bound)%nat.
Proof. exact socket_eof_ends_init. Qed.
Print Assumptions C16_socket_eof_ends_init.

(** tracer: no task runs program code without PTRACE_O_EXITKILL: a stop is answered with
    PTRACE_CONT only for a task in the traced set, and a task enters that set only together with a
    successful PTRACE_SETOPTIONS (auto-attached children inherit the options: rule PT2) *)
Theorem C16_resumed_implies_options_set : forall st pgid pid w so tr,
  ws_exited w = false -> ws_signaled w = false -> ws_stopped w = true ->
  let o := handle st pgid pid w so tr in
  has_cont (o_reqs o) = true -> zmem pid (h_traced (o_state o)) = true /\
  (zmem pid (h_traced st) = false -> so = SoOk /\ In ReqSetOptions (o_reqs o)).
Proof. exact resumed_implies_options_set. Qed.
Print Assumptions C16_resumed_implies_options_set.

(** the launch of a traced program (child || tracer || the kernel's rules for a tracee whose tracer dies),
    the tracer being killed at ANY moment: the program's code never runs with the tracer dead, nothing is
    left behind stopped, and a child that was cloned but has not yet asked for the parent-death signal
    (it asks after its ids were changed) notices that its launcher is gone and exits *)
Theorem C16_traced_launch_dies_with_tracer : forall s, lreach ArmLate s ->
  (l_c s = LaunchDeath.CProgram -> l_t s <> LaunchDeath.TDead) /\
  (l_t s = LaunchDeath.TDead -> l_c s = LaunchDeath.CDead \/ l_c s = LaunchDeath.CInit \/
     (l_c s = LaunchDeath.CCred /\ child_steps ArmLate s = [w_c s LaunchDeath.CDead])) /\
  l_c s <> LaunchDeath.CParked.
Proof. exact armed_supervised. Qed.
Print Assumptions C16_traced_launch_dies_with_tracer.

(** the sequence of the pinned tree (no parent-death signal; repaired in /repo): the same model exhibits the
    program running unsupervised (tracer killed between its first wait4 and PTRACE_SETOPTIONS) and the
    child left behind stopped (tracer killed before the first wait4) *)
Theorem C16_without_pdeathsig_refuted :
  (exists s, lreach Unarmed s /\ l_t s = LaunchDeath.TDead /\ l_c s = LaunchDeath.CProgram) /\
  (exists s, lreach Unarmed s /\ l_t s = LaunchDeath.TDead /\ l_c s = LaunchDeath.CParked).
Proof. exact unarmed_refuted. Qed.
Print Assumptions C16_without_pdeathsig_refuted.

(** asking for the signal before the ids are changed would not do: the kernel clears the request when the ids change *)
Theorem C16_pdeathsig_before_setuid_refuted :
  exists s, lreach ArmEarly s /\ l_t s = LaunchDeath.TDead /\ l_c s = LaunchDeath.CProgram.
Proof. exact arm_early_refuted. Qed.
Print Assumptions C16_pdeathsig_before_setuid_refuted.

(** the classic orphan test "getppid() == 1" in place of the comparison with the launcher's pid: under a child subreaper a
    launcher killed during the child's set-up goes unnoticed and the child is left stopped for ever *)
Theorem C16_orphan_idiom_refuted : exists s, lreach ArmLateOrphanIdiom s /\ l_t s = LaunchDeath.TDead /\ l_c s = LaunchDeath.CParked.
Proof. exact orphan_idiom_refuted. Qed.
Print Assumptions C16_orphan_idiom_refuted.

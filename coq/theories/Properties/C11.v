(** C11 — Cancel / Destroy at any moment end the run promptly with a truthful verdict. *)
From Coq Require Import List Arith.
From GS Require Import Base.Lts Launch.CancelLts Launch.CancelProofs Container.Proto Container.ProtoProofs.
Import ListNotations.

(** ptrace and namespace runners: CR = every reachable state of child || context || canceller || wait
    loop; the cancellation may arrive at any moment of the child's life (before its setsid, before or
    after exec, after its own end) *)
Theorem C11_cancel_not_lost : forall s, CR s -> c_fired s = true -> alive (c_child s) = false.
Proof. exact cancel_not_lost. Qed.
Print Assumptions C11_cancel_not_lost.

Theorem C11_cancel_truthful : forall s, CR s ->
  match c_ret s with
  | VNone => True
  | VGenuine => c_child s = ChEnded
  | VTimeLimit => c_child s = ChKilled /\ c_ctx s = true
  | VRunnerError => False
  end.
Proof. exact cancel_truthful. Qed.
Print Assumptions C11_cancel_truthful.

Theorem C11_cancel_returns : forall s, CR s -> c_ctx s = true -> c_ret s = VNone ->
  cnext_sys true s <> [] /\
  forall p, busy_path cstate (cnext_sys true) cbusy s p -> Forall (fun t => cbusy t = true) p -> length p <= 5.
Proof. exact cancel_returns. Qed.
Print Assumptions C11_cancel_returns.

(** the pinned tree lost a cancellation that arrived before the child's setsid (repaired by a fix: commit) *)
Theorem C11_pinned_cancel_lost :
  exists s, reach cstate cinit (cnext false) s /\ c_fired s = true /\ c_ctx s = true /\ c_ret s = VGenuine.
Proof. exact pinned_cancel_lost. Qed.
Print Assumptions C11_pinned_cancel_lost.

(** container: a cancelled Execve comes back within cancel_bound (= 4) steps of host and container,
    in every reachable state of the RPC and whatever the program does *)
Theorem C11_cancel_returns_container : forall s, R s -> s_host s = HECancelWait -> s_lost s = false ->
  sys_steps s <> [] /\
  forall p, busy_path state sys_steps cancel_busy s p -> Forall (fun t => cancel_busy t = true) p -> length p <= cancel_bound.
Proof. exact cancel_returns_container. Qed.
Print Assumptions C11_cancel_returns_container.

(** Destroy closes the socket first: the call in flight returns within three host steps (error), see C10 *)
Theorem C11_destroy_in_flight : forall s, R s -> s_hdone s = true -> s_host s <> HIdle ->
  host_steps s <> [] /\
  forall p, busy_path state host_steps busy s p -> Forall (fun t => busy t = true) p -> length p <= 3.
Proof. exact transport_loss_fails_fast. Qed.
Print Assumptions C11_destroy_in_flight.

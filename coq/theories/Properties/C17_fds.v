(** C17 (second part) - the launcher's own descriptors: concurrent starts never close or use each other's numbers. *)
From Coq Require Import List Bool Arith.
From GS Require Import Launch.ParentFds Launch.ParentFdsProofs.
Import ListNotations.

(** the launching side of forkexec.Runner.Start as descriptor events (socketpair, the three id-map files, p[0], p[1]):
    for EVERY configuration (user namespace, callback, early return) and EVERY outcome (clone fails, any map file fails
    at open or at write, error record at the sync point, refusing callback, late error) a start creates under fresh
    names, uses and closes only what it holds, and ends holding nothing (the helper goroutine of the early-return path
    included) *)
Theorem C17_start_keeps_descriptor_discipline : forall c o, disc [] (start_events c o) = Some [].
Proof. exact start_keeps_discipline. Qed.
Print Assumptions C17_start_keeps_descriptor_discipline.

(** the launching thread by itself leaves p[0] open exactly when it returned early (what the traced thread shows) *)
Theorem C17_launching_thread_leaves : forall c o,
  disc [] (parent_events c o) = Some (if reaches_early c o then [P0] else []).
Proof. exact parent_thread_leaves. Qed.
Print Assumptions C17_launching_thread_leaves.

(** ANY number of starts that keep the discipline, over one table of descriptor numbers that holds anything else
    besides, stepping in ANY interleaving, with ANY allocation of free numbers: no use and no close ever hits a number
    that is not the acting start's own at that moment *)
Theorem C17_disciplined_starts_never_hit_foreign_numbers : forall alloc, (forall l, ~ In (alloc l) l) ->
  forall t0 progs, (forall i, disc [] (progs i) <> None) -> forall sched, bad (run alloc (init t0 progs) sched) = false.
Proof. exact no_foreign_close. Qed.
Print Assumptions C17_disciplined_starts_never_hit_foreign_numbers.

(** ... in particular the starts of the code under the kernel's lowest-free-number rule *)
Theorem C17_go_starts_never_hit_foreign_numbers : forall t0 (cfgs : nat -> cfg) (outs : nat -> outcome) sched,
  bad (run lowest (init t0 (fun i => start_events (cfgs i) (outs i))) sched) = false.
Proof. exact go_starts_never_hit_foreign_numbers. Qed.
Print Assumptions C17_go_starts_never_hit_foreign_numbers.

(** what the theorems exclude: with the two failure labels merged, a start whose child fails late closes p[0] twice,
    and there is a schedule of two starts in which the second close destroys the other start's descriptor *)
Theorem C17_merged_labels_break_discipline : forall c o, early c = false -> clone_err o = false ->
  (syncf c = true -> child_bad o = false /\ refuse o = false) -> late_err o = true ->
  disc [] (start_events_merged c o) = None.
Proof. exact merged_breaks_discipline. Qed.
Print Assumptions C17_merged_labels_break_discipline.
Theorem C17_merged_labels_refuted : exists sched,
  bad (run lowest (init [(0,9);(1,9);(2,9)] (fun i => start_events_merged c0 (if i =? 0 then o_late else o_fine))) sched) = true.
Proof. exact merged_labels_refuted. Qed.
Print Assumptions C17_merged_labels_refuted.

(** C20 — cgroup handles control exactly their own group; usage in documented units. *)
From Coq Require Import List Bool NArith ZArith.
From GS Require Import Cgroup.Tree Cgroup.TreeProofs.
Import ListNotations.

(** for EVERY history of New / Random / OpenExisting / AddProc / Destroy on any tree of groups (any initial
    directories): a directory is removed only by the Destroy of the handle whose own mkdir created it *)
Theorem C20_destroy_only_own : forall dirs m ops x, In x (w_removed (run (init dirs m) ops)) -> In x (w_created (run (init dirs m) ops)).
Proof. exact destroy_only_own. Qed.
Print Assumptions C20_destroy_only_own.

(** ... and what a handle records as created did not exist before: a pre-existing group is never removed *)
Theorem C20_created_was_absent : forall p cs dirs dirs' all' ex', create p cs dirs [] false = (dirs', all', ex') ->
  forall c, In c all' -> has_dir (c, p) dirs = false.
Proof. exact created_was_absent. Qed.
Print Assumptions C20_created_was_absent.

(** concurrent creators of one fresh group, any number of them, every interleaving of their per-controller
    mkdirs: never two owners; as soon as anybody got past the first controller there is exactly that one owner *)
Theorem C20_unique_owner : forall cs c0, nth_error cs 0 = Some c0 -> forall sched, let w := crun cs sched in
  (forall i j, 0 < cr_pc (c_cr w i) -> 0 < cr_pc (c_cr w j) -> cr_existing (c_cr w i) = false -> cr_existing (c_cr w j) = false -> i = j) /\
  (forall i, 0 < cr_pc (c_cr w i) -> exists k, c_owner w c0 = Some k /\ cr_existing (c_cr w k) = false /\ 0 < cr_pc (c_cr w k)).
Proof. exact unique_owner. Qed.
Print Assumptions C20_unique_owner.

(** AddProc moves that process, and only it, into the group in every controller of the handle - also for a
    handle of a group that existed before *)
Theorem C20_addproc_moves : forall w h hd pid, nth_error (w_handles w) h = Some hd ->
  let w' := step w (OAddProc h pid) in
  (forall c, In c (h_ctrls hd) -> w_member w' pid c = h_path hd) /\
  (forall q c, q <> pid -> w_member w' q c = w_member w q c) /\
  (forall c, ~ In c (h_ctrls hd) -> w_member w' pid c = w_member w pid c) /\
  w_dirs w' = w_dirs w.
Proof. exact addproc_moves. Qed.
Print Assumptions C20_addproc_moves.

(** units: CPU time of the v2 hierarchy is usage_usec * 1000 (nanoseconds) wherever the line stands and whatever
    other lines and fields there are, exactly, as long as it fits 64 bits; a missing line is an error; the
    single-number files are returned as they are (bytes, count, nanoseconds of cpuacct.usage); anything else is an error *)
Theorem C20_cpu_usage_units : forall pre v rest,
  (forall l, In l pre -> match l with [TWord k; _] => k <> USAGE_USEC | _ => True end) ->
  (0 <= v)%Z -> (v * 1000 < two64)%Z ->
  cpu_usage (pre ++ [TWord USAGE_USEC; TNum v] :: rest) = ROk (v * 1000)%Z.
Proof. exact cpu_usage_units. Qed.
Print Assumptions C20_cpu_usage_units.
Theorem C20_cpu_usage_missing : forall lines,
  (forall l, In l lines -> match l with [TWord k; _] => k <> USAGE_USEC | _ => True end) -> cpu_usage lines = RNotExist.
Proof. exact cpu_usage_missing. Qed.
Print Assumptions C20_cpu_usage_missing.
Theorem C20_read_uint_units : forall v, (0 <= v < two64)%Z -> read_uint [TNum v] = ROk v.
Proof. exact read_uint_units. Qed.
Print Assumptions C20_read_uint_units.
Theorem C20_read_uint_garbage : forall c, (forall v, c <> [TNum v]) -> read_uint c = RErr.
Proof. exact read_uint_garbage. Qed.
Print Assumptions C20_read_uint_garbage.

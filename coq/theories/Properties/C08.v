(** C08 — configured limits are in force; exhausting them yields the matching verdict. *)
From GS Require Import Base.Finite Verdict.Status Verdict.StatusProofs Verdict.Rlimit Verdict.RlimitProofs.
Open Scope N_scope.

(** PrepareRLimit: an entry appears iff its resource is configured, with soft = the configured value
    and hard = the configured value (CPU: max of CPUHard and CPU); all 64 bits are kept *)
Theorem C08_rlimit_values : forall r e, In e (prepare r) <-> entry_for r (res e) = Some (cur e, max e).
Proof. exact prepare_spec. Qed.
Print Assumptions C08_rlimit_values.

Theorem C08_rlimit_once : forall r, NoDup (map res (prepare r)).
Proof. exact prepare_nodup. Qed.
Print Assumptions C08_rlimit_once.

Theorem C08_rlimit_soft_le_hard : forall r e, In e (prepare r) -> cur e <= max e.
Proof. exact prepare_cpu_hard_ge_soft. Qed.
Print Assumptions C08_rlimit_soft_le_hard.

(** the loop in the child: when every prlimit64 is accepted, the limits at exec are the configured
    ones for configured resources and the inherited ones for all others *)
Theorem C08_limits_in_force : forall accept r l l',
  apply_limits accept l (prepare r) 0 = inl l' ->
  forall x, l' x = match entry_for r x with Some cm => cm | None => l x end.
Proof. exact limits_in_force. Qed.
Print Assumptions C08_limits_in_force.

(** ... and a refused entry stops the launch with its index (the program never runs with other limits) *)
Theorem C08_limits_refusal : forall accept es l i k, apply_limits accept l es i = inr k ->
  exists j e, nth_error es j = Some e /\ k = (i + j)%nat /\
              accept (fold_left set_limit (firstn j es) l) e = false.
Proof. exact limits_refusal. Qed.
Print Assumptions C08_limits_refusal.

(** usage above the runner's bounds: Memory wins over Time; reported whatever the wait status says *)
Theorem C08_usage_verdict : forall time tl mem ml,
  (ml < mem -> usage_status time tl mem ml = MemoryLimit) /\
  (mem <= ml -> (tl < time)%Z -> usage_status time tl mem ml = TimeLimit) /\
  (mem <= ml -> (time <= tl)%Z -> usage_status time tl mem ml = Normal).
Proof. exact usage_verdict. Qed.
Print Assumptions C08_usage_verdict.

Theorem C08_usage_overrides_ptrace : forall st pgid w time tl mem ml so tr,
  usage_status time tl mem ml <> Normal ->
  fst (trace_step st pgid pgid w time tl mem ml so tr) =
    inl {| r_status := usage_status time tl mem ml; r_exit := 0%Z; r_err := false |}.
Proof. exact usage_overrides_ptrace. Qed.
Print Assumptions C08_usage_overrides_ptrace.

Theorem C08_usage_overrides_unshare : forall w time tl mem ml,
  usage_status time tl mem ml <> Normal ->
  unshare_step time tl mem ml w = Some {| r_status := usage_status time tl mem ml; r_exit := 0%Z; r_err := false |}.
Proof. exact usage_overrides_unshare. Qed.
Print Assumptions C08_usage_overrides_unshare.

(** kernel-enforced limits: death by SIGXCPU / SIGKILL is Time Limit Exceeded, by SIGXFSZ Output Limit
    Exceeded, in every runner (instances of the C09 table theorems), and at the signal-delivery stop
    of the ptrace runner *)
Theorem C08_limit_signals_container : forall core,
  r_status (container_classify (ws_of_signal 24 core)) = TimeLimit /\
  r_status (container_classify (ws_of_signal 9 core)) = TimeLimit /\
  r_status (container_classify (ws_of_signal 25 core)) = OutputLimit.
Proof. exact limit_signals_container. Qed.
Print Assumptions C08_limit_signals_container.

Theorem C08_limit_signals_unshare : forall core time tl mem ml, within time tl mem ml ->
  unshare_step time tl mem ml (ws_of_signal 24 core) = Some (table_signal 24) /\
  unshare_step time tl mem ml (ws_of_signal 9 core) = Some (table_signal 9) /\
  unshare_step time tl mem ml (ws_of_signal 25 core) = Some (table_signal 25).
Proof. exact limit_signals_unshare. Qed.
Print Assumptions C08_limit_signals_unshare.

Theorem C08_limit_signals_ptrace : forall st pgid pid, h_execved st = true -> zmem pid (h_traced st) = true ->
  o_status (handle st pgid pid (ws_of_stop 24 0) SoOk TrOk) = TimeLimit /\
  o_status (handle st pgid pid (ws_of_stop 25 0) SoOk TrOk) = OutputLimit.
Proof. exact limit_signals_ptrace. Qed.
Print Assumptions C08_limit_signals_ptrace.

(** the output collector: never more than max+1 bytes, always the first ones, and every byte the
    program writes is consumed (no blocking, no EPIPE while the collector lives) *)
Theorem C08_pipe_cap : forall (A : Type) max (chunks : list (list A)), (0 <= max < 2^63 - 1)%Z ->
  rd_buf (rd_run max chunks) = retained max (concat chunks) /\
  (Z.of_nat (length (rd_buf (rd_run max chunks))) <= max + 1)%Z.
Proof. intros A. exact (@pipe_cap A). Qed.
Print Assumptions C08_pipe_cap.

Theorem C08_pipe_drains : forall (A : Type) max (chunks : list (list A)),
  rd_consumed (rd_run max chunks) = length (concat chunks).
Proof. intros A. exact (@pipe_drains A). Qed.
Print Assumptions C08_pipe_drains.

Theorem C08_pipe_cap_wrap : forall (A : Type) (chunks : list (list A)), rd_buf (rd_run (2^63 - 1) chunks) = [].
Proof. intros A. exact (@pipe_cap_wrap A). Qed.
Print Assumptions C08_pipe_cap_wrap.

(** C18 — path-set policy admits only covered paths; counters never exceed
    their budget.  Only statements, closed by [exact], with Print Assumptions. *)
From GS Require Import Base.Str FileSet.Model FileSet.Spec FileSet.Proofs FileSet.CounterProofs.

(** The matcher admits an absolute (or empty) path iff an entry covers it. *)
Theorem C18_smart_iff : forall fs p, abs_or_empty p ->
  (is_in_set_smart fs p = true <-> Covered fs p).
Proof. exact smart_iff. Qed.
Print Assumptions C18_smart_iff.

(** For every path whatsoever: covered, or the relative-name over-admission. *)
Theorem C18_smart_general : forall fs p,
  is_in_set_smart fs p = true <-> Covered fs p \/ relative_overadmit fs p.
Proof. exact smart_general. Qed.
Print Assumptions C18_smart_general.

(** The loop never runs out of fuel: the model's [None] is unreachable. *)
Theorem C18_smart_total : forall fs p, exists b, is_in_set_smart_opt fs p = Some b.
Proof. exact smart_total. Qed.
Print Assumptions C18_smart_total.

(** The full statement without the absolute-path hypothesis is false. *)
Theorem C18_relative_refuted : exists fs p, is_in_set_smart fs p = true /\ ~ Covered fs p.
Proof. exact relative_refuted. Qed.
Print Assumptions C18_relative_refuted.

(** writable => readable => statable; each is the disjunction over raw and real path. *)
Theorem C18_cascade : forall (real_path : str -> str) ss name,
  (is_writable real_path ss name = true <-> Admits real_path (writable ss) name) /\
  (is_readable real_path ss name = true <-> Admits real_path (writable ss) name \/ Admits real_path (readable ss) name) /\
  (is_statable real_path ss name = true <->
     Admits real_path (writable ss) name \/ Admits real_path (readable ss) name \/ Admits real_path (statable ss) name) /\
  (is_writable real_path ss name = true -> is_readable real_path ss name = true) /\
  (is_readable real_path ss name = true -> is_statable real_path ss name = true).
Proof. exact cascade. Qed.
Print Assumptions C18_cascade.

(** a refusal is a soft ban exactly when the soft-ban set admits the path, else a kill *)
Theorem C18_refusal : forall (real_path : str -> str) ss name,
  (check_write real_path ss name = Allow <-> is_writable real_path ss name = true) /\
  (check_read real_path ss name = Allow <-> is_readable real_path ss name = true) /\
  (check_stat real_path ss name = Allow <-> is_statable real_path ss name = true) /\
  (forall chk, In chk [check_write; check_read; check_stat] ->
     chk real_path ss name <> Allow ->
     (chk real_path ss name = Ban <-> Admits real_path (softban ss) name) /\
     (chk real_path ss name = Kill <-> ~ Admits real_path (softban ss) name)).
Proof. exact refusal. Qed.
Print Assumptions C18_refusal.

(** counters: at most max(0, n-1) <= max(0, n) allowed calls for every history
    shorter than the distance to the 64-bit wrap *)
Theorem C18_counter : forall name h c n,
  ctr_get c name = Some n -> (n < 2^63)%Z -> (- 2^63 + Z.of_nat (length h) < n)%Z ->
  (Z.of_nat (allowed_count name h (run_hist c h)) <= Z.max 0 (n - 1))%Z.
Proof. exact counter_budget. Qed.
Print Assumptions C18_counter.

Theorem C18_counter_refused_stays : forall name h c n,
  ctr_get c name = Some n -> (n <= 1)%Z -> (- 2^63 + Z.of_nat (length h) < n)%Z ->
  Forall2 (fun x a => x = name -> a = Kill) h (run_hist c h).
Proof. exact counter_refused_stays. Qed.
Print Assumptions C18_counter_refused_stays.

Theorem C18_uncounted_banned : forall c name, ctr_get c name = None -> check_syscall c name = (c, Ban).
Proof. exact uncounted_banned. Qed.
Print Assumptions C18_uncounted_banned.

(** the budget theorem needs its wrap hypothesis: MinInt64 as a budget allows the second call *)
Theorem C18_counter_wrap_refuted : exists c name n h, ctr_get c name = Some n /\
  (Z.of_nat (allowed_count name h (run_hist c h)) > Z.max 0 n)%Z.
Proof. exact counter_wrap_refuted. Qed.
Print Assumptions C18_counter_wrap_refuted.

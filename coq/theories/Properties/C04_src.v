(** C04 — from the calls the source issues to the state the program starts in.
    coq/srcthm/ChildSrcThm.v (re-proved on every run against the translation of /repo/pkg/forkexec) shows that the source
    issues the calls of the specification ChildSeq.child_calls; here: that specification, read as security steps, IS the
    step sequence of SecState (for every option combination and all values), and therefore leads to the requested state. *)
From Coq Require Import List Bool ZArith NArith.
From GS Require Import Launch.SecState Launch.SecStateProofs Launch.ChildSeq Launch.ChildSeqSec.
Import ListNotations.

(** for EVERY combination of the 21 options and all ids / names: the specified call sequence, each call read as the
    security step it performs, is the step sequence of the state model (minus its place holders for calls not made) *)
Theorem C04_spec_projects_to_model : forall f v,
  sec_view f v (child_calls f) = clean (child_steps (cfg_of f v)).
Proof. exact spec_projects_to_child_steps. Qed.
Print Assumptions C04_spec_projects_to_model.

(** hence the specified calls, when the kernel lets each of them succeed, put the program into exactly the requested
    state (capabilities, securebits, no_new_privs, filter count, ids, groups, session, cwd, names, cgroup namespace, tracing) *)
Theorem C04_specified_calls_reach_requested_state : forall f v uid gid groups cwd host dom,
  let s0 := start uid gid groups cwd host dom in
  exists s, run_steps s0 (sec_view f v (child_calls f)) = Some s /\ spec_state (cfg_of f v) s0 s.
Proof. exact specified_calls_reach_requested_state. Qed.
Print Assumptions C04_specified_calls_reach_requested_state.

(** non-vacuity: a configuration with a credential, a filter, a tracer and a sync callback has 17 security steps *)
Example spec_projection_example :
  let f := {| x_newuser := true; x_newpid := false; x_newns := true; x_cred := true; x_gidmap := false; x_gidsetgroups := false;
              x_nogroups := false; x_nosetgroups := false; x_dropcaps := true; x_nnp := true; x_seccomp := true; x_ptrace := true;
              x_stop := false; x_sync := true; x_ucas := true; x_ctty := false; x_pivot := true; x_host := true; x_domain := false;
              x_workdir := true; x_execfile := false |} in
  length (sec_view f {| vl_uid := 1000; vl_gid := 1000; vl_g := 4; vl_gs := []; vl_work := 1; vl_host := 2; vl_dom := 3 |} (child_calls f)) = 17%nat.
Proof. vm_compute. reflexivity. Qed.

(** C06 — the program's descriptor table is exactly the caller's list, nothing more. *)
From GS Require Import Launch.FdShuffle Launch.FdShuffleProofs.
Open Scope Z_scope.

(** For every descriptor list (any length, order, repeats, the close marker, values above or below
    the list length), every placement of the sync socket and of the exec descriptor: the shuffle
    succeeds; at exec slot k holds the k-th listed open file (or is closed for the marker); no
    descriptor at or above the list length survives exec; the sync socket and the exec descriptor
    still refer to their open files. *)
Theorem C06_shuffle : forall T files pipe exec, pre T files pipe exec ->
  exists T' p' e', shuffle true T files pipe exec = Ok (T', p', e') /\ post T files pipe exec T' p' e'.
Proof. exact shuffle_correct. Qed.
Print Assumptions C06_shuffle.

Theorem C06_table_at_exec : forall T files pipe exec T' p' e',
  pre T files pipe exec -> shuffle true T files pipe exec = Ok (T', p', e') ->
  forall x, at_exec T' x <> None -> 0 <= x < Z.of_nat (length files) \/ x < 0.
Proof. exact table_at_exec. Qed.
Print Assumptions C06_table_at_exec.

(** the pinned tree moved the sync socket onto the exec descriptor (repaired by a fix: commit) *)
Theorem C06_pipe_clobbers_exec_on_pinned :
  let T := tab_of [(0, 100%nat); (1, 101%nat); (2, 102%nat); (23, 123%nat); (24, 124%nat); (25, 125%nat); (26, 126%nat); (27, 127%nat)] in
  pre T [0; 1; 2; 25; 26] 24 27 /\
  exists T' p' e', shuffle false T [0; 1; 2; 25; 26] 24 27 = Ok (T', p', e') /\
                   ofd (T' e') = Some 124%nat /\ ofd (T 27) = Some 127%nat.
Proof. exact pipe_clobbers_exec_on_pinned. Qed.
Print Assumptions C06_pipe_clobbers_exec_on_pinned.

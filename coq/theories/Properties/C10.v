(** C10 — the container RPC never desynchronises; program-caused failures keep it usable. *)
From Coq Require Import List Arith.
From GS Require Import Base.Lts Container.Proto Container.ProtoProofs.
Import ListNotations.

(** R: every state reachable in the joint system of host, container, the two queues and the
    environment — any sequence of calls, each Execve failing in any of the modelled ways or running,
    any interleaving of program exit, cancellation and replies, loss of the transport at any moment. *)

(** no reply is ever consumed by another call or in a state that does not expect it, no command is
    ever interpreted in the wrong state *)
Theorem C10_no_desync : forall s, R s -> s_bad s = false.
Proof. exact no_desync. Qed.
Print Assumptions C10_no_desync.

(** the container ends only when the environment took the transport away *)
Theorem C10_container_survives : forall s, R s -> s_cont s = CDead -> s_env_lost s = true.
Proof. exact container_survives. Qed.
Print Assumptions C10_container_survives.

(** at every return (transport not taken away): one answer was consumed and none is left over, the
    container serves — or will, after taking the one kill the host owed it —, and the call did not
    fail for transport reasons, whatever way the request or the program failed *)
Theorem C10_quiescent_at_return : forall s, R s -> s_host s = HIdle -> s_env_lost s = false ->
  s_ch s = [] /\
  ((s_cont s = CServe /\ s_hc s = []) \/ (s_cont s = CWaitKill /\ s_hc s = [(KKill, s_tag s)])) /\
  s_last s <> RTransport.
Proof. exact quiescent_at_return. Qed.
Print Assumptions C10_quiescent_at_return.

(** once the host has noticed the loss of the transport the call in flight returns within three of
    the host's own steps, whatever the container does; a later call fails at once *)
Theorem C10_transport_loss_fails_fast : forall s, R s -> s_hdone s = true -> s_host s <> HIdle ->
  host_steps s <> [] /\
  forall p, busy_path state host_steps busy s p -> Forall (fun t => busy t = true) p -> length p <= 3.
Proof. exact transport_loss_fails_fast. Qed.
Print Assumptions C10_transport_loss_fails_fast.

Theorem C10_new_call_on_lost_transport : forall s, s_host s = HIdle -> s_hdone s = true ->
  host_steps s = [ret_to (set_tag s ((S (s_tag s)) mod 3)) RTransport].
Proof. exact new_call_on_lost_transport. Qed.
Print Assumptions C10_new_call_on_lost_transport.

(** the pinned tree: an exec that fails after the acknowledged sync, and an empty argument list, end
    the container although the transport is intact (both repaired by fix: commits) *)
Theorem C10_pinned_execfail_kills_container :
  exists s, Rp s /\ s_cont s = CDead /\ s_env_lost s = false /\ s_bad s = true.
Proof. exact pinned_execfail_kills_container. Qed.
Print Assumptions C10_pinned_execfail_kills_container.

Theorem C10_pinned_emptyargv_kills_container : exists s, Rp s /\ s_cont s = CDead /\ s_env_lost s = false.
Proof. exact pinned_emptyargv_kills_container. Qed.
Print Assumptions C10_pinned_emptyargv_kills_container.

(** C03 — handler verdicts are enforced: banned and killed syscalls never take effect. *)
From Coq Require Import List NArith ZArith.
From GS Require Import Verdict.Status Verdict.StatusProofs Tracer.Enforce Tracer.EnforceProofs.
Import ListNotations.

(** for EVERY program (any stream of traced syscalls, forks, vforks, clones, exits and arriving signals of any
    number of tasks; a CPU- or file-size-limit signal ends the run with that verdict), every schedule of the tracer's waits among them and every decision function of the handler:
    a traced syscall executes only if the decision was allow; what the program sees of one that did not
    execute is -BanRet and the decision was ban; an allowed one has executed by the time the tracer goes
    back to wait; a banned one never executes; a kill decision ends the run as Disallowed Syscall with the
    syscall not executed and every task gone; every task ever created carries the ptrace options. *)
Theorem C03_enforced : forall decide pgid evs, let w := run decide pgid (init pgid) evs in
  (forall p i, In (p, i) (w_exec w) -> decide p i = Allow) /\
  (forall p i r, In (p, i, r) (w_ret w) -> decide p i = Ban /\ r = (- BanRet)%Z) /\
  (forall p i, In (p, i, Allow) (w_dec w) -> In (p, i) (w_exec w)) /\
  (forall p i, In (p, i, Ban) (w_dec w) -> In (p, i, (- BanRet)%Z) (w_ret w) /\ ~ In (p, i) (w_exec w)) /\
  (forall p i, In (p, i, Kill) (w_dec w) -> w_done w = Some Disallowed /\ ~ In (p, i) (w_exec w) /\ forall t, In t (w_tasks w) -> t_st t = Gone) /\
  (forall t, In t (w_tasks w) -> t_opts t = true).
Proof. exact enforced. Qed.
Print Assumptions C03_enforced.

(** a syscall the filter itself kills (SIGSYS death of the program) ends the run as Disallowed Syscall *)
Theorem C03_filter_kill : forall st pgid core time tl mem ml so tr, within time tl mem ml ->
  fst (trace_step st pgid pgid (ws_of_signal 31 core) time tl mem ml so tr) = inl {| r_status := Disallowed; r_exit := 31; r_err := false |}.
Proof. intros. apply (ptrace_table_signal st pgid 31 core time tl mem ml so tr); [discriminate|reflexivity|assumption]. Qed.
Print Assumptions C03_filter_kill.

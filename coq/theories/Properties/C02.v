(** C02 — the file-access policy is consulted about the object the kernel will really touch. *)
From Coq Require Import List NArith ZArith.
From GS Require Import Path.Resolve Path.ResolveProofs Path.Handle Path.HandleProofs.
Import ListNotations.

(** for EVERY forest of directories, files and symbolic links, every base directory and every pathname
    (absolute or relative; ".", "..", repeated and trailing slashes; relative and absolute links in any
    component; up to the kernel's limit of 40 links): when the kernel's resolution following the last
    component succeeds, the path presented to the policy is exactly the object it reaches *)
Theorem C02_presented_path : forall fs base is_abs p c, chain fs base ->
  kernel_resolution fs true base is_abs p = KOk c -> presented fs base is_abs p = c.
Proof. exact presented_sound. Qed.
Print Assumptions C02_presented_path.

(** the same with /proc/self and /proc/thread-self, whose targets depend on who reads them: the code substitutes
    the tracee's entries; for every forest in which these are the links the tracee sees (any pid) *)
Theorem C02_presented_path_proc : forall fs special, spec_ok fs special -> forall base is_abs p c, chain fs base ->
  kernel_resolution fs true base is_abs p = KOk c -> presented_m fs special base is_abs p = c.
Proof. exact presented_sound_m. Qed.
Print Assumptions C02_presented_path_proc.

Theorem C02_proc_special_ok : forall fs pr self tself pid task,
  fs [pr] = Some Dir -> fs [pr; pid] = Some Dir -> fs [pr; pid; task] = Some Dir -> fs [pr; pid; task; pid] = Some Dir ->
  fs [pr; self] = Some (Link false [Name pid]) -> fs [pr; tself] = Some (Link false [Name pid; Name task; Name pid]) ->
  spec_ok fs (proc_special pr self tself pid task).
Proof. exact proc_special_ok. Qed.
Print Assumptions C02_proc_special_ok.

(** calls that do not follow a final link: the same as long as the object reached is not itself a link *)
Theorem C02_presented_path_nofollow_partial : forall fs base is_abs p c, chain fs base ->
  kernel_resolution fs false base is_abs p = KOk c -> (forall a t, fs c <> Some (Link a t)) -> presented fs base is_abs p = c.
Proof. exact presented_sound_nofollow. Qed.
Print Assumptions C02_presented_path_nofollow_partial.

(** ... and refuted when it is (known finding): lstat / readlink / unlink / rename / ... of a link are
    presented with the link's target *)
Theorem C02_nofollow_refuted : exists fs base p c, chain fs base /\ kernel_resolution fs false base false p = KOk c /\ presented fs base false p <> c.
Proof. exact nofollow_refuted. Qed.
Print Assumptions C02_nofollow_refuted.

(** the argument positions and classes of Handle are those of the ABI, for every traced call *)
Theorem C02_handle_table_abi : forall s, handle_table s = map fst (abi_table s).
Proof. exact handle_table_abi. Qed.
Print Assumptions C02_handle_table_abi.

(** any open that can create, truncate or write is asked as a write, for all 2^64 (indeed all) flag words,
    and an openat2 whose open_how cannot be read is a write *)
Theorem C02_open_class : forall a f, can_modify f = true -> class_of (COpenFlags a) (Some f) = AWrite /\ class_of (COpenHow a) (Some f) = AWrite.
Proof. exact open_class_of. Qed.
Print Assumptions C02_open_class.
Theorem C02_openat2_failclosed : forall a, class_of (COpenHow a) None = AWrite.
Proof. exact open_how_unreadable. Qed.
Print Assumptions C02_openat2_failclosed.

(** AT_FDCWD in any register encoding (sign-extended, zero-extended, garbage in the upper half) *)
Theorem C02_fdcwd_any_encoding : forall hi, base_of (hi * 4294967296 + 4294967196) = BCwd.
Proof. exact fdcwd_any_encoding. Qed.
Print Assumptions C02_fdcwd_any_encoding.
Theorem C02_dirfd_upper_half_ignored : forall hi lo, (lo < 4294967296)%N -> dirfd_of (hi * 4294967296 + lo) = dirfd_of lo.
Proof. exact dirfd_upper_half_ignored. Qed.
Print Assumptions C02_dirfd_upper_half_ignored.

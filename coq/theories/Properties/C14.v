(** C14 — host file operations are index-aligned and safe against planted objects. *)
From GS Require Import Container.Batch Container.BatchProofs.

(** for every batch and every success/failure pattern, the k-th result is the k-th item's *)
Theorem C14_alignment : forall items,
  let '(errs, fds) := cont_open items 0 in
  host_open (length items) errs fds = HOk (expected_from items 0).
Proof. exact open_alignment. Qed.
Print Assumptions C14_alignment.

Theorem C14_result_at : forall items k e, nth_error items k = Some e ->
  nth_error (expected_from items 0) k = Some (expected k e).
Proof. exact open_result_at. Qed.
Print Assumptions C14_result_at.

(** a descriptor is returned only for a path that was absent or a regular file at the check,
    and it is the descriptor opened for that very item *)
Theorem C14_only_regular : forall k e fd, expected k e = RFile fd ->
  fd = k /\ (ie_lstat e = Absent \/ ie_lstat e = Regular) /\ ie_open_ok e = true /\
  (ie_mkdirall e = true -> ie_mkdir_ok e = true).
Proof. exact only_regular. Qed.
Print Assumptions C14_only_regular.

(** inconsistent replies are errors and the descriptors taken so far are closed *)
Theorem C14_length_mismatch : forall n errs fds, length errs <> n -> host_open n errs fds = HError fds.
Proof. exact open_length_mismatch. Qed.
Print Assumptions C14_length_mismatch.

Theorem C14_too_few_fds : forall errs fds acc, length fds < successes errs ->
  exists closed, host_walk errs fds acc = HError closed /\
    (forall f, In f closed <-> In (RFile f) acc \/ In f fds).
Proof. exact open_too_few_fds. Qed.
Print Assumptions C14_too_few_fds.

Theorem C14_symlink_alignment : forall oks,
  host_symlink (length oks) (cont_symlink oks) = Some (map (fun b : bool => if b then None else Some tt) oks).
Proof. exact symlink_alignment. Qed.
Print Assumptions C14_symlink_alignment.

(** C05 — FS confinement: only the configured mounts are visible; read-only means read-only. *)
From Coq Require Import List Bool NArith.
From GS Require Import Kernel.Mount Kernel.MountProofs.
Import ListNotations.

(** for EVERY list of declared mounts and whatever mount table the process had before: the table of the new
    root is the read-only root followed by exactly the mounts of the declared entries, in order; nothing of
    the old root is left (both implementations of the sequence: child_table and init_table are this function) *)
Theorem C05_table : forall h old ds, (forall d, In d ds -> d_target d <> []) ->
  child_table h old ds = root_entry true :: flat_map (mount_one h) ds /\
  init_table h old ds = root_entry true :: flat_map (mount_one h) ds.
Proof. intros. split; apply table_exact; assumption. Qed.
Print Assumptions C05_table.

(** every entry declared read-only is read-only at its mount point, for every flag word *)
Theorem C05_readonly_top : forall h d, (d_kind d = FBind -> has (d_flags d) MS_BIND = true) -> declared_ro d = true ->
  exists e, In e (mount_one h d) /\ e_at e = d_target d /\ e_ro e = true.
Proof. exact readonly_top. Qed.
Print Assumptions C05_readonly_top.

(** and everywhere below it, when the bind source holds no further mounts *)
Theorem C05_readonly_partial : forall h d, (d_kind d = FBind -> has (d_flags d) MS_BIND = true) -> declared_ro d = true ->
  h (d_source d) = [] -> forall e, In e (mount_one h d) -> e_ro e = true.
Proof. exact readonly_all. Qed.
Print Assumptions C05_readonly_partial.

(** refuted without that hypothesis (known finding): the remount reaches only the top mount *)
Theorem C05_readonly_refuted : exists h d e, declared_ro d = true /\ In e (mount_one h d) /\ e_ro e = false.
Proof. exact readonly_refuted. Qed.
Print Assumptions C05_readonly_refuted.

(** only mounts declared writable accept writes (up to that finding) *)
Theorem C05_writable_only_declared : forall h d e, In e (mount_one h d) -> e_ro e = false ->
  declared_ro d = false \/ (d_kind d = FBind /\ e_sub e <> []) \/ (d_kind d = FBind /\ has (d_flags d) MS_BIND = false).
Proof. exact writable_only_declared. Qed.
Print Assumptions C05_writable_only_declared.

Theorem C05_builder_flags : forall src tgt,
  declared_ro (with_bind src tgt true) = true /\ is_bind_ro (d_flags (with_bind src tgt true)) = true /\
  declared_ro (with_bind src tgt false) = false /\ has (d_flags (with_bind src tgt false)) MS_REC = true /\
  declared_ro (with_tmpfs tgt) = false /\ has (d_flags (with_tmpfs tgt)) MS_NOSUID = true /\
  declared_ro (with_proc tgt false) = true /\ declared_ro (with_proc tgt true) = false.
Proof. exact builder_flags. Qed.
Print Assumptions C05_builder_flags.

(** masked paths reveal nothing when the container has /dev/null; without it every mask is silently skipped (known finding) *)
Theorem C05_masks_applied : forall k, mask_one true k <> MExposed.
Proof. exact masks_applied. Qed.
Print Assumptions C05_masks_applied.
Theorem C05_masks_skipped_without_dev_null : forall k, mask_one false (Some k) = MExposed.
Proof. exact masks_skipped_without_dev_null. Qed.
Print Assumptions C05_masks_skipped_without_dev_null.

(** C04 — the program starts in exactly the requested security state, for every option set. *)
From Coq Require Import List Bool NArith.
From GS Require Import Launch.SecState Launch.SecStateProofs.
Import ListNotations.

(** for EVERY combination of {credential (any ids, any group list, NoSetGroups), gid-map setgroups policy,
    drop-caps, no-new-privs, seccomp, ptrace, stop-before-seccomp, sync callback, unshare-cgroup-after-sync,
    work dir, host name, domain name} and every identity of the caller: the launch sequence runs through and
    at the target's first instruction all capability sets are empty and NOROOT is locked whenever a credential
    or cap dropping was requested; no_new_privs is set iff requested or a filter is given; exactly one filter
    is installed iff one was given; uid, gid and groups are the requested ones; the process leads its own
    session; cwd, host and domain name are the requested ones; the cgroup namespace is new iff requested *)
Theorem C04_state_at_exec : forall c uid gid groups cwd host dom,
  let s0 := start uid gid groups cwd host dom in
  exists s, state_at_exec c s0 = Some s /\ spec_state c s0 s.
Proof. exact state_at_exec_spec. Qed.
Print Assumptions C04_state_at_exec.

(** no combination silently skips or doubles a step: each security step occurs exactly once when requested,
    never otherwise, and the exec is the last step *)
Theorem C04_no_step_lost : forall c,
  count 16 (child_steps c) = b2n (f_seccomp c) /\
  count 10 (child_steps c) = b2n (wants_drop c) /\
  count 9 (child_steps c) = b2n (wants_drop c) /\
  count 8 (child_steps c) = b2n (f_nnp c || f_seccomp c) /\
  count 13 (child_steps c) = b2n (f_ucas c) /\
  count 14 (child_steps c) = b2n (f_ptrace c) /\
  count 11 (child_steps c) = b2n (f_sync c) /\
  count 0 (child_steps c) = 1 /\
  count 17 (child_steps c) = 1 /\ last (child_steps c) SSetsid = SExec.
Proof. exact no_step_lost. Qed.
Print Assumptions C04_no_step_lost.

(** C19 — the control socket delivers messages, descriptors and credentials intact or not at all. *)
From GS Require Import Socket.Oob Socket.OobProofs Socket.Frame Socket.FrameProofs.

(** control data: what the sender attaches is what the receiver parses — same descriptors, same
    order, same credentials — for every descriptor list and every credential *)
Theorem C19_oob_roundtrip : forall fds cred,
  Forall (fun f => (f < 2 ^ 32)%N) fds -> (N.of_nat (length fds) < 2 ^ 28)%N ->
  match cred with Some c => wf_cred c | None => True end ->
  decode_oob (encode_oob fds cred) = Some (fds, cred).
Proof. exact oob_roundtrip. Qed.
Print Assumptions C19_oob_roundtrip.

(** a received message equals the sent one or the call fails: never a truncated payload or a partial list *)
Theorem C19_whole_or_error : forall fixed B maxfds p data fds cred,
  recv_msg fixed (deliver B maxfds p) = ROk data fds cred ->
  data = p_data p /\ fds = p_fds p /\ cred = p_cred p.
Proof. exact whole_or_error. Qed.
Print Assumptions C19_whole_or_error.

(** descriptors that arrive with a rejected message are closed *)
Theorem C19_rejected_not_leaked : forall B maxfds p closed still,
  recv_msg true (deliver B maxfds p) = RErr closed still ->
  still = [] /\ closed = d_fds (deliver B maxfds p).
Proof. exact rejected_not_leaked. Qed.
Print Assumptions C19_rejected_not_leaked.

Theorem C19_rejected_leaked_on_pinned :
  exists B maxfds p still, recv_msg false (deliver B maxfds p) = RErr [] still /\ still <> [].
Proof. exact rejected_leaked_on_pinned. Qed.
Print Assumptions C19_rejected_leaked_on_pinned.

(** framed layer: while no send is rejected, the receiver decodes exactly the messages sent, in order *)
Theorem C19_framed_delivery : forall size cap msgs known, all_fit size cap known msgs ->
  run size cap known known msgs = map Some msgs.
Proof. exact framed_delivery. Qed.
Print Assumptions C19_framed_delivery.

Theorem C19_oversize_rejected_by_sender : forall size cap known t v,
  (cap < size (snd (encode known t v)))%nat -> snd (send size cap known t v) = None.
Proof. exact oversize_rejected_by_sender. Qed.
Print Assumptions C19_oversize_rejected_by_sender.

(** but an encode that was not sent leaves the stream unable to carry the next value of that type *)
Theorem C19_oversize_poisons_stream : exists size cap msgs, run size cap [] [] msgs = [None].
Proof. exact oversize_poisons_stream. Qed.
Print Assumptions C19_oversize_poisons_stream.

(** C07 — sync gate: no target code before approval; failed launches never run and leave no child. *)
From Coq Require Import List.
From GS Require Import Base.Lts Launch.SyncLts Launch.SyncProofs.
Import ListNotations.

(** SR u s e: every reachable state of parent || child || socketpair for the configuration
    (user namespace, callback configured, early return), with a failure possible at every step:
    clone, id-map write, any phase before the sync point, the callback, the exec itself *)

Theorem C07_callback_before_exec : forall u s e x, SR u s e x -> y_par x = PCallback -> y_kid x = KSyncWait /\ y_ran x = false.
Proof. exact callback_before_exec. Qed.
Print Assumptions C07_callback_before_exec.

Theorem C07_exec_needs_approval : forall u s e x, SR u s e x -> y_ran x = true -> y_acked x = true.
Proof. exact exec_needs_approval. Qed.
Print Assumptions C07_exec_needs_approval.

(** an error return: the target never ran, the child is reaped, the error names the failing step *)
Theorem C07_failed_never_runs : forall u s e x l, SR u s e x -> y_par x = PDoneErr l ->
  y_ran x = false /\ (y_kid x = KNone \/ y_kid x = KReaped) /\
  (l = LClone \/ l = LCallback \/ (l = y_kloc x /\ l <> LNone)).
Proof. exact failed_never_runs. Qed.
Print Assumptions C07_failed_never_runs.

Theorem C07_success_means_execed : forall u s e x, SR u s e x -> y_early x = false -> y_par x = PDoneOk -> y_ran x = true.
Proof. exact success_means_execed. Qed.
Print Assumptions C07_success_means_execed.

Theorem C07_no_deadlock : forall u s e x, SR u s e x -> sbusy x = true -> snext x <> [].
Proof. exact no_deadlock. Qed.
Print Assumptions C07_no_deadlock.

(** the early-return configurations (stop before seccomp; seccomp together with ptrace) hand the
    pid back before exec: a later failing step is not reported by Start (known finding) *)
Theorem C07_early_return_swallows_failure :
  exists x, SR false false true x /\ y_par x = PDoneOk /\ y_kid x = KFailed /\ y_kloc x = LExec.
Proof. exact early_return_swallows_failure. Qed.
Print Assumptions C07_early_return_swallows_failure.

(** the launching process itself dies at any moment after the clone (nobody is left to kill or reap the
    child): the target is still never exec'ed unless the approval had been sent, and a child blocked on
    the socket is woken by the end of file instead of waiting for ever *)
Theorem C07_launcher_death : forall u s e x, SR u s e x -> y_par x = PCrashed ->
  (y_acked x = false -> y_ran x = false) /\
  (y_kid x = KUserWait \/ y_kid x = KSyncWait -> kid_steps x <> []).
Proof. exact launcher_death. Qed.
Print Assumptions C07_launcher_death.

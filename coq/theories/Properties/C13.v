(** C13 — pooled containers carry no state between runs; sealed executables are immutable. *)
From Coq Require Import List NArith.
From GS Require Import Container.Reset Container.ResetProofs.
Import ListNotations.

(** removeContents empties a directory whatever it holds (any names, types, depths, permission bits) *)
Theorem C13_remove_contents_empty : forall t, remove_contents t = [].
Proof. exact remove_contents_empty. Qed.
Print Assumptions C13_remove_contents_empty.

(** after Reset every tmpfs mount is empty, for every history of creations by earlier programs in every mount *)
Theorem C13_reset_empties : forall ms ops_per_mount,
  let dirty := map (fun '(m, ops) => {| m_tmpfs := m_tmpfs m; m_tree := populate ops (m_tree m) |}) (combine ms ops_per_mount) in
  Forall (fun m => m_tmpfs m = true -> m_tree m = []) (reset dirty).
Proof. exact reset_empties. Qed.
Print Assumptions C13_reset_empties.

(** the limit of the mechanism: a writable mount that is not a tmpfs is left as it is (known finding) *)
Theorem C13_rw_bind_not_reset : exists ms, ~ Forall (fun m => m_tree m = []) (reset ms).
Proof. exact rw_bind_not_reset. Qed.
Print Assumptions C13_rw_bind_not_reset.

(** the sealed file holds exactly the supplied bytes (including bytes returned together with EOF, and
    whatever the chunking), is positioned at 0 and sealed; a failing reader yields no file *)
Theorem C13_memfd_content : forall r,
  (fails r = false -> exists f, dup_to_memfd r = Some f /\ f_content f = supplied r /\ f_pos f = 0 /\ f_sealed f = true) /\
  (fails r = true -> dup_to_memfd r = None).
Proof. exact memfd_content. Qed.
Print Assumptions C13_memfd_content.

(** no sequence of writes, truncations, growths, seal changes, shared writable mappings or re-opens
    by any holder changes it (kernel rule MF1 for the seal set the code applies) *)
Theorem C13_memfd_immutable : forall r f, dup_to_memfd r = Some f -> forall ops, mrun f ops = f.
Proof. exact memfd_immutable. Qed.
Print Assumptions C13_memfd_immutable.

Theorem C13_memfd_attempts_refused : forall r f o, dup_to_memfd r = Some f -> snd (mstep f o) = false.
Proof. exact memfd_attempts_refused. Qed.
Print Assumptions C13_memfd_attempts_refused.

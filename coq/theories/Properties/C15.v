(** C15 — a sandboxed program cannot make the runner itself fail. *)
From GS Require Import Verdict.Status Tracer.Mem Tracer.MemProofs Tracer.VerdictProofs.
Open Scope N_scope.

(** Reading a path argument never panics, whatever the program's memory holds and whatever
    address it passes (unterminated or PATH_MAX-sized strings, unmapped pages, odd pointers) ... *)
Theorem C15_getstring_total : forall m addr, get_string true m addr <> GsPanic.
Proof. exact getstring_total. Qed.
Print Assumptions C15_getstring_total.

(** ... and returns exactly the bytes before the first NUL among the readable bytes, at most PATH_MAX *)
Theorem C15_getstring_spec : forall m addr, get_string true m addr = GsStr (spec_string m addr).
Proof. exact getstring_spec. Qed.
Print Assumptions C15_getstring_spec.

(** the pinned tree panicked on 4096 readable non-NUL bytes (repaired by a fix: commit) *)
Theorem C15_getstring_panics_on_pinned :
  get_string false {| mapped := fun _ => true; byte_at := fun _ => 65 |} 4096 = GsPanic.
Proof. exact getstring_panics_on_pinned. Qed.
Print Assumptions C15_getstring_panics_on_pinned.

(** With ptrace requests that succeed or find the tracee gone (the outcomes a program can provoke),
    Runner Error is reported only when the main task exits before the target image was exec'ed. *)
Theorem C15_verdict_about_program : forall st pgid pid w time tl mem ml so tr r,
  so <> SoErr -> tr <> TrErr ->
  fst (trace_step st pgid pid w time tl mem ml so tr) = inl r -> r_status r = RunnerError ->
  pid = pgid /\ ws_exited w = true /\ h_execved st = false.
Proof. exact verdict_about_program. Qed.
Print Assumptions C15_verdict_about_program.

(** every stop is answered by the end of the run, by exactly one resume, or the task is already gone *)
Theorem C15_progress : forall st pgid pid w time tl mem ml so tr,
  ws_exited w = false -> ws_signaled w = false -> ws_stopped w = true ->
  let '(res, reqs) := trace_step st pgid pid w time tl mem ml so tr in
  (exists r, res = inl r) \/ (exists s, last_req reqs = Some (ReqCont s)) \/
  (so = SoGone /\ zmem pid (h_traced st) = false).
Proof. exact progress. Qed.
Print Assumptions C15_progress.

(** C09 — every way a program can end is classified per the documented table. *)
From GS Require Import Base.Finite Verdict.Status Verdict.StatusProofs.
Open Scope N_scope.

(** container: convertReply in init followed by convertReplyResult on the host *)
Theorem C09_container_table_exit : forall c, c < 256 ->
  container_classify (ws_of_exit c) = table_exit (Z.of_N c).
Proof. exact container_table_exit. Qed.
Print Assumptions C09_container_table_exit.

Theorem C09_container_table_signal : forall s core, 1 <= s -> s < 127 ->
  container_classify (ws_of_signal s core) = table_signal (Z.of_N s).
Proof. exact container_table_signal. Qed.
Print Assumptions C09_container_table_signal.

(** namespace runner *)
Theorem C09_unshare_table_exit : forall c time tl mem ml, c < 256 -> within time tl mem ml ->
  unshare_step time tl mem ml (ws_of_exit c) = Some (table_exit (Z.of_N c)).
Proof. exact unshare_table_exit. Qed.
Print Assumptions C09_unshare_table_exit.

Theorem C09_unshare_table_signal : forall s core time tl mem ml, 1 <= s -> s < 127 -> within time tl mem ml ->
  unshare_step time tl mem ml (ws_of_signal s core) = Some (table_signal (Z.of_N s)).
Proof. exact unshare_table_signal. Qed.
Print Assumptions C09_unshare_table_signal.

(** ptrace runner: death of the main task, whatever the tracer's bookkeeping *)
Theorem C09_ptrace_table_exit : forall st pgid c time tl mem ml so tr, c < 256 -> within time tl mem ml ->
  h_execved st = true ->
  fst (trace_step st pgid pgid (ws_of_exit c) time tl mem ml so tr) = inl (table_exit (Z.of_N c)).
Proof. exact ptrace_table_exit. Qed.
Print Assumptions C09_ptrace_table_exit.

Theorem C09_ptrace_table_signal : forall st pgid s core time tl mem ml so tr, 1 <= s -> s < 127 ->
  within time tl mem ml ->
  fst (trace_step st pgid pgid (ws_of_signal s core) time tl mem ml so tr) = inl (table_signal (Z.of_N s)).
Proof. exact ptrace_table_signal. Qed.
Print Assumptions C09_ptrace_table_signal.

(** ... and a fatal signal sent to a traced task is handed back to it, so that it
    does die of it (the two limit signals end the run at once with the table's verdict) *)
Theorem C09_ptrace_signal_delivery : forall st pgid pid sig,
  1 <= sig -> sig < 128 -> h_execved st = true -> zmem pid (h_traced st) = true ->
  let o := handle st pgid pid (ws_of_stop sig 0) SoOk TrOk in
  (sig = 24 /\ o_status o = TimeLimit) \/ (sig = 25 /\ o_status o = OutputLimit) \/
  (o_status o = Normal /\ o_finished o = false /\ o_reqs o = [ReqCont (Z.of_N sig)] /\ o_state o = st).
Proof. exact ptrace_signal_delivery. Qed.
Print Assumptions C09_ptrace_signal_delivery.

(** what secondary tasks do never ends the run *)
Theorem C09_children_irrelevant : forall st pgid pid w time tl mem ml so tr,
  pid <> pgid -> ws_exited w = true \/ ws_signaled w = true ->
  exists st', fst (trace_step st pgid pid w time tl mem ml so tr) = inr st' /\ h_execved st' = h_execved st.
Proof. exact ptrace_children_irrelevant. Qed.
Print Assumptions C09_children_irrelevant.

(** Runner Error always carries an explanation *)
Theorem C09_runner_error_explained_container : forall (sock_err wait_err : bool) (w : N) (no_reply : bool),
  let r := convert_reply_result sock_err (if no_reply then None else Some (convert_reply wait_err w)) in
  r_status r = RunnerError -> r_err r = true.
Proof. exact runner_error_explained_container. Qed.
Print Assumptions C09_runner_error_explained_container.

Theorem C09_runner_error_explained_unshare : forall time tl mem ml w r,
  unshare_step time tl mem ml w = Some r -> r_status r = RunnerError -> r_err r = true.
Proof. exact runner_error_explained_unshare. Qed.
Print Assumptions C09_runner_error_explained_unshare.

Theorem C09_runner_error_explained_ptrace : forall st pgid pid w time tl mem ml so tr r,
  fst (trace_step st pgid pid w time tl mem ml so tr) = inl r -> r_status r = RunnerError -> r_err r = true.
Proof. exact runner_error_explained_ptrace. Qed.
Print Assumptions C09_runner_error_explained_ptrace.

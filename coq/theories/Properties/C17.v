(** C17 — concurrent sandboxes in one process are independent. *)
From Coq Require Import List Bool Arith.
From GS Require Import Launch.Concurrent Launch.ConcurrentProofs.
Import ListNotations.

(** for ANY set of goroutines of the host process - any number of launchers (clone under ForkLock held for writing),
    of goroutines that create an inheritable descriptor under ForkLock.RLock and mark it close-on-exec before
    releasing, and of goroutines whose descriptors are close-on-exec from birth - and EVERY interleaving of their
    steps: the table a launched program inherits holds no descriptor created by another goroutine *)
Theorem C17_fd_noninterference : forall roles sched i k s, (forall j, fresh (roles j)) ->
  actor (hrun (hinit roles) sched) i = Launcher (S (S k)) s -> inherited s = [].
Proof. exact fd_noninterference. Qed.
Print Assumptions C17_fd_noninterference.

Theorem C17_no_reader_while_cloning : forall roles sched i s, (forall j, fresh (roles j)) ->
  actor (hrun (hinit roles) sched) i = Launcher 1 s -> readers (hrun (hinit roles) sched) = [].
Proof. exact no_reader_while_cloning. Qed.
Print Assumptions C17_no_reader_while_cloning.

(** a wait on a process group never returns a task of another run *)
Theorem C17_wait_disjoint : forall ts pg t, In t (waitable pg ts) -> t_pgid t = pg.
Proof. exact wait_disjoint. Qed.
Print Assumptions C17_wait_disjoint.

(** any number of goroutines calling one environment, every interleaving: at most one is inside the protocol, and
    the sequence of protocol steps on the socket is a sequence of whole calls (a history of the C10 LTS) *)
Theorem C17_env_mutual_exclusion : forall len sched i j k m,
  call (erun len sched) i = CInside k -> call (erun len sched) j = CInside m -> i = j.
Proof. exact env_mutual_exclusion. Qed.
Print Assumptions C17_env_mutual_exclusion.
Theorem C17_env_serialised : forall len sched, serial len (log (erun len sched)).
Proof. exact env_serialised. Qed.
Print Assumptions C17_env_serialised.

(** C16 — on the specification the translated source is proved to follow (coq/srcthm, C16_source_issues_specified_calls):
    where the request to die with the launcher stands in the child's call sequence. *)
From Coq Require Import List Bool ZArith.
From GS Require Import Launch.ChildSeq Launch.ChildSeqDeath.
Import ListNotations.

(** for EVERY combination of the 21 options with a tracer: the sequence is [before ++ PR_SET_PDEATHSIG(SIGKILL) ++ after], nothing
    before the request waits for the launcher or the tracer or runs the program (no sync read or write, no PTRACE_TRACEME, no
    stop, no exec), nothing after it changes the ids of the process (the kernel clears the request when they change), and the
    request is made exactly once: the order [ArmLate] of Tracer/LaunchDeath.v, for which C16_traced_launch_dies_with_tracer holds *)
Theorem C16_spec_arms_after_ids_before_gate : forall f, x_ptrace f = true ->
  child_calls f = before_arm f ++ [((NR_prctl, [XInt 1; XInt 9]), Some LocPtraceMe)] ++ after_arm f /\
  all_not waits_or_runs (before_arm f) = true /\
  all_not changes_ids (after_arm f) = true /\
  List.length (filter is_pdeathsig (child_calls f)) = 1%nat.
Proof.
  intros f H. repeat split;
    [exact (split_at_arm f H) | exact (before_arm_waits_for_nobody f) | exact (after_arm_keeps_ids f) | exact (one_pdeathsig f H)].
Qed.
Print Assumptions C16_spec_arms_after_ids_before_gate.

(** non-vacuity: a traced launch with a credential and a sync callback has the request at position 7 *)
Example arm_position :
  let f := {| x_newuser := false; x_newpid := false; x_newns := false; x_cred := true; x_gidmap := false; x_gidsetgroups := false;
              x_nogroups := false; x_nosetgroups := false; x_dropcaps := false; x_nnp := false; x_seccomp := true; x_ptrace := true;
              x_stop := false; x_sync := true; x_ucas := false; x_ctty := false; x_pivot := false; x_host := false; x_domain := false;
              x_workdir := false; x_execfile := false |} in
  index_of is_pdeathsig (child_calls f) = Some (List.length (before_arm f)).
Proof. vm_compute. reflexivity. Qed.

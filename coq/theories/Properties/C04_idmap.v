(** C04 (second part) - the id mappings of a new user namespace: what the launcher writes denotes exactly what was configured. *)
From Coq Require Import List NArith String.
From GS Require Import Launch.IdMap Launch.IdMapProofs.
Import ListNotations.

(** for EVERY list of mappings (any length, any numbers): the text formatIDMappings produces, read as lines of three decimal
    fields, is exactly the configured list, with nothing left over and whatever text follows it *)
Theorem C04_idmap_text_reads_back : forall l rest, parse_n (List.length l) (format l ++ rest)%string = Some (l, rest).
Proof. exact parse_format. Qed.
Print Assumptions C04_idmap_text_reads_back.

Theorem C04_idmap_written_reads_back : forall l eid, parse_n (List.length l) (written (Some l) eid) = Some (l, EmptyString).
Proof. exact written_reads_back. Qed.
Print Assumptions C04_idmap_written_reads_back.

(** two configurations of the same length with the same text are the same configuration *)
Theorem C04_idmap_text_injective : forall l1 l2, List.length l1 = List.length l2 -> format l1 = format l2 -> l1 = l2.
Proof. exact format_injective. Qed.
Print Assumptions C04_idmap_text_injective.

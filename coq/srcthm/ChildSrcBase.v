(** The translated source of the child side of a launch (Gen.ChildSrcGen, regenerated from
    /repo/pkg/forkexec on every run by tools/goxlate) against the specification Launch/ChildSeq.v:
    environments, kernel oracles, observation, and the boolean checks the theorems evaluate. *)
From Coq Require Import List ZArith NArith Bool String.
From GS Require Import Launch.ChildIR Launch.ChildSeq.
From GS Require Launch.FdShuffle.
From Gen Require Import ChildSrcGen.
Import ListNotations.
Open Scope Z_scope.
Open Scope string_scope.

Definition FUEL : nat := 4000.

Definition clone_word (f : flags) : Z :=
  (if x_newuser f then 268435456 else 0) + (if x_newpid f then 536870912 else 0) + (if x_newns f then 131072 else 0).

(** the caller's Runner as the child's variables *)
Definition env_of (f : flags) : state :=
  init_state
    ([(v_r_CloneFlags, clone_word f); (v_r_ExecFile, if x_execfile f then fd_exec else 0);
      (v_r_SyncFunc, b2z (x_sync f)); (v_r_StopBeforeSeccomp, b2z (x_stop f)); (v_r_Seccomp, b2z (x_seccomp f));
      (v_r_Ptrace, b2z (x_ptrace f)); (v_r_CgroupFd, 0); (v_r_Credential, b2z (x_cred f));
      (v_r_UnshareCgroupAfterSync, b2z (x_ucas f)); (v_r_GIDMappings, b2z (x_gidmap f));
      (v_r_GIDMappingsEnableSetgroups, b2z (x_gidsetgroups f)); (v_cred_NoSetGroups, b2z (x_nosetgroups f));
      (v_cred_Gid, 1234); (v_cred_Uid, 2345); (v_r_CTTY, b2z (x_ctty f)); (v_pivotRoot, b2z (x_pivot f));
      (v_hostname, b2z (x_host f)); (v_domainname, b2z (x_domain f)); (v_workdir, b2z (x_workdir f));
      (v_r_NoNewPrivs, b2z (x_nnp f)); (v_r_DropCaps, b2z (x_dropcaps f))] ++ global_ints)
    [(v_p, [fd_parent_end; fd_sync]); (v_r_Files, []); (v_cred_Groups, if x_nogroups f then [] else [5]);
     (v_r_HostName, [1; 1; 1; 1]); (v_r_DomainName, [1; 1; 1])]
    [(v_r_Mounts, []); (v_r_RLimits, [])].

(** fields of the caller's structures that the specification does not know of (none on the pinned tree): a launch must
    not depend on them; the checks on call sequences are evaluated a second time with all of them set *)
Definition dotted (s : string) : bool :=
  (fix go (s : string) : bool := match s with EmptyString => false | String c r => Ascii.eqb c (Ascii.ascii_of_nat 46) || go r end) s.
Definition known_fields : list N :=
  [v_r_CloneFlags; v_r_ExecFile; v_r_SyncFunc; v_r_StopBeforeSeccomp; v_r_Seccomp; v_r_Ptrace; v_r_CgroupFd; v_r_Credential;
   v_r_UnshareCgroupAfterSync; v_r_GIDMappings; v_r_GIDMappingsEnableSetgroups; v_cred_NoSetGroups; v_cred_Gid; v_cred_Uid; v_cred_Groups;
   v_r_CTTY; v_r_NoNewPrivs; v_r_DropCaps; v_r_Files; v_r_HostName; v_r_DomainName; v_r_Mounts; v_r_RLimits;
   v_m_Prefixes; v_m_MakeNod; v_m_Flags; v_s_Flags; v_rlim_Res].
Definition unknown_fields : list (N * Z) :=
  flat_map (fun p => if dotted (snd p) && negb (existsb (N.eqb (fst p)) known_fields) then [(fst p, 1)] else []) var_names.
Definition adversarial (s : state) : state :=
  {| vars := vars s ++ unknown_fields; arrs := arrs s; sarrs := sarrs s; ncalls := ncalls s; trace := trace s |}.

(** ** the kernel *)
Definition the_ppid := 999.
Definition ok_orc : oracle := fun n nr args =>
  if Z.eqb nr NR_getpid then (if Nat.eqb n 0 then the_ppid else the_pid, 0, [])
  else if Z.eqb nr NR_getppid then (the_ppid, 0, [])
  else if Z.eqb nr NR_read then (8, 0, [(v_err2, 0)])
  else if Z.eqb nr NR_write then (8, 0, [])
  else if Z.eqb nr NR_execve || Z.eqb nr NR_execveat then (0, -1, [])     (* the program runs *)
  else (0, 0, []).

Definition EIO := 5.
Definition ESRCH := 3.
Definition EPERM := 1.
Definition EEXIST := 17.
Definition ETXTBSY := 26.
(** the errno the k-th call fails with: the three are used in turn, so that every step meets each of them in some configuration *)
Definition errno_at (k : nat) : Z := nth (Nat.modulo k 3) [EIO; EPERM; EEXIST] EIO.
(** the k-th call fails (for getppid: the launcher is gone, another parent is reported) *)
Definition fail_at (k : nat) : oracle := fun n nr args =>
  if Nat.eqb n k then (if Z.eqb nr NR_getppid then (1, 0, []) else (-1, errno_at k, [])) else ok_orc n nr args.
(** the k-th call answers (r, errno) and writes [w] *)
Definition answer_at (k : nat) (r e : Z) (w : list (N * Z)) : oracle := fun n nr args =>
  if Nat.eqb n k then (r, e, w) else ok_orc n nr args.

(** ** observation *)
Definition name_of (tbl : list (N * string)) (n : N) : string := match assoc n tbl with Some s => s | None => "?" end.
Definition selectors : list string := ["cred.Gid"; "cred.Uid"; "rlim.Res"; "m.Flags"].
Definition xint (z : Z) : xarg := if Z.leb ptr_base z then XPtr (name_of ptr_names (Z.to_N (z - ptr_base))) else XInt z.
Definition xarg_of (t : targ) : xarg :=
  match t with
  | TInt z => xint z
  | TPtr p => XPtr (name_of ptr_names p)
  | TVar v z => let n := name_of var_names v in if existsb (String.eqb n) selectors then XSel n else xint z
  | TIdx _ z => xint z
  | TLen a _ => XLen (name_of var_names a)
  end.

Inductive obs := OCall (c : xcall) | OExit (pipe loc : Z) (idx : option Z) (err : Z).

Definition obs_of (e : event) : list obs :=
  match e with
  | EvSys nr args => [OCall (nr, map xarg_of args)]
  | EvExit p l i e => [OExit p l i e]
  | _ => []
  end.

Definition ocalls (l : list obs) : list xcall := flat_map (fun o => match o with OCall c => [c] | _ => [] end) l.

(** the events after the child starts to run (runtime.afterForkInChild), and those before *)
Fixpoint split_at_child (l : list event) (acc : list event) : list event * list event :=
  match l with
  | [] => (rev acc, [])
  | EvMark p :: r => if N.eqb p p_runtime_afterForkInChild then (rev acc, r) else split_at_child r (EvMark p :: acc)
  | e :: r => split_at_child r (e :: acc)
  end.

Definition run_src (orc : oracle) (s : state) : sig * list obs * list obs :=
  let '(sg, tr) := run orc prepareFds_info FUEL s src_forkAndExecInChild in
  let '(pre, post) := split_at_child tr [] in
  (sg, flat_map obs_of pre, flat_map obs_of post).

(** ** decidable equality of observations *)
Definition xarg_eqb (a b : xarg) : bool :=
  match a, b with
  | XInt x, XInt y => Z.eqb x y
  | XPtr x, XPtr y | XSel x, XSel y | XLen x, XLen y => String.eqb x y
  | _, _ => false
  end.
Fixpoint list_eqb {A} (eq : A -> A -> bool) (a b : list A) : bool :=
  match a, b with
  | [], [] => true
  | x :: r, y :: s => eq x y && list_eqb eq r s
  | _, _ => false
  end.
Definition xcall_eqb (a b : xcall) : bool := Z.eqb (fst a) (fst b) && list_eqb xarg_eqb (snd a) (snd b).
Definition optz_eqb (a b : option Z) : bool :=
  match a, b with Some x, Some y => Z.eqb x y | None, None => true | _, _ => false end.
Definition obs_eqb (a b : obs) : bool :=
  match a, b with
  | OCall x, OCall y => xcall_eqb x y
  | OExit p l i e, OExit p' l' i' e' => Z.eqb p p' && Z.eqb l l' && optz_eqb i i' && Z.eqb e e'
  | _, _ => false
  end.
Definition is_exited (s : sig) : bool := match s with Exited => true | _ => false end.

(** ** the checks *)

(** the clone: the namespaces asked for, SIGCHLD, and memory shared with the launcher (CLONE_VM | CLONE_VFORK)
    only when nothing has to happen in the launcher before the exec *)
Definition clone_flags_spec (f : flags) : Z :=
  clone_word f
  + (if negb (x_sync f) && negb (x_stop f || (x_seccomp f && x_ptrace f)) && negb (x_newuser f) then 16640 else 0)
  + 17.
Definition pre_spec (f : flags) : list obs := [OCall (NR_getpid, []); OCall (NR_clone, [XInt (clone_flags_spec f)])].
Definition n_pre : nat := 2.

(** T1: with a kernel that refuses nothing the child issues exactly the specified calls and the program runs *)
Definition check_calls (f : flags) : bool :=
  let '(sg, pre, post) := run_src ok_orc (env_of f) in
  is_exited sg && list_eqb obs_eqb pre (pre_spec f) && list_eqb obs_eqb post (map OCall (calls_of f)).

(** the calls that belong to each property's part of the sequence *)
Definition arg0_in (c : xcall) (l : list Z) : bool := match snd c with XInt a :: _ => existsb (Z.eqb a) l | _ => false end.
Definition arg0_ptr (c : xcall) (p : string) : bool := match snd c with XPtr a :: _ => String.eqb a p | _ => false end.
Definition nr_in (c : xcall) (l : list Z) : bool := existsb (Z.eqb (fst c)) l.
(** C04: identity, privileges, filter, session, names, working directory, cgroup namespace, tracing, the clone flags *)
Definition k04 (c : xcall) : bool :=
  (Z.eqb (fst c) NR_prctl && arg0_in c [28; 38]) ||
  nr_in c [NR_setgroups; NR_setgid; NR_setuid; NR_setsid; NR_sethostname; NR_setdomainname; NR_capset; NR_seccomp; NR_unshare;
           NR_ptrace; NR_kill; NR_ioctl; NR_clone; NR_clone3] ||
  (Z.eqb (fst c) NR_chdir && arg0_ptr c "workdir").
(** C16: the request to die with the launcher *)
Definition k16 (c : xcall) : bool := (Z.eqb (fst c) NR_prctl && arg0_in c [1]) || nr_in c [NR_getppid].
(** C05: the file system the program gets *)
Definition k05 (c : xcall) : bool :=
  nr_in c [NR_mount; NR_mkdirat; NR_mknodat; NR_pivot_root; NR_umount2; NR_unlinkat; NR_statfs] || (Z.eqb (fst c) NR_chdir && arg0_ptr c "pivotRoot").
(** C07: the rest: the start of the child, the exchange over the sync socket, the exec *)
Definition k07 (c : xcall) : bool := negb (k04 c || k16 c || k05 c).

(** one run (and one with the adversarial environment) serves all four parts *)
Definition calls_seen (s : state) : bool * list xcall :=
  let '(sg, pre, post) := run_src ok_orc s in (is_exited sg, (ocalls pre ++ ocalls post)%list).
Definition check_calls_with (keep : xcall -> bool) (f : flags) (r : bool * list xcall) : bool :=
  fst r && list_eqb xcall_eqb (filter keep (snd r)) (filter keep (ocalls (pre_spec f) ++ calls_of f)).
Definition check_calls_on (keep : xcall -> bool) (f : flags) : bool :=
  check_calls_with keep f (calls_seen (env_of f)) && check_calls_with keep f (calls_seen (adversarial (env_of f))).
Definition parts : list (xcall -> bool) := [k04; k05; k16; k07].
Definition check_calls_all_r (f : flags) (r1 r2 : bool * list xcall) : bool :=
  forallb (fun keep => check_calls_with keep f r1 && check_calls_with keep f r2) parts.
Lemma check_calls_all_r_spec f r1 r2 : check_calls_all_r f r1 r2 = true ->
  forall keep, In keep parts -> check_calls_with keep f r1 && check_calls_with keep f r2 = true.
Proof. intros H. exact (proj1 (forallb_forall _ _) H). Qed.
Definition check_calls_all (f : flags) : bool :=
  check_calls_all_r f (calls_seen (env_of f)) (calls_seen (adversarial (env_of f))).
(* conversion must unfold the two wrappers and never start to evaluate a run on an unknown configuration *)
Strategy expand [check_calls_all check_calls_on].
Strategy opaque [calls_seen check_calls_all_r check_calls_with].
Lemma check_calls_all_spec f : check_calls_all f = true -> forall keep, In keep parts -> check_calls_on keep f = true.
Proof.
  intros H keep Hk.
  exact (check_calls_all_r_spec f (calls_seen (env_of f)) (calls_seen (adversarial (env_of f))) H keep Hk).
Qed.
Strategy transparent [calls_seen check_calls_all_r check_calls_with check_calls_all check_calls_on].

(** T2: the k-th call of the child fails.  Either its result is not looked at (only where that is harmless) and the
    launch goes on as before, or the failure is reported over the sync socket with the location of the step, nothing
    else is done and the program never runs. *)
Definition ignorable (c : xcall) : bool := nr_in c [NR_sethostname; NR_setdomainname; NR_unshare; NR_nanosleep].
Definition loc_ok (prev : option xcall) (c : xcall) (loc : Z) : bool :=
  let n := fst c in
  let one (l : Z) := Z.eqb loc l in
  if Z.eqb n NR_close then one LocCloseWrite
  else if Z.eqb n NR_read then
    match prev with Some p => if Z.eqb (fst p) NR_write then one LocSyncRead else one LocUnshareUserRead | None => one LocUnshareUserRead end
  else if Z.eqb n NR_write then one LocSyncWrite
  else if Z.eqb n NR_getpid then one LocGetPid
  else if Z.eqb n NR_prctl then
    (if arg0_in c [38] then one LocSetNoNewPrivs else if arg0_in c [1] then one LocPtraceMe
     else match snd c with
          | [XInt 28; XInt b] => if Z.eqb b keep_bits then one LocKeepCapability else one LocDropCapability || one LocKeepCapability
          | _ => false
          end)
  else if Z.eqb n NR_getppid then one LocPtraceMe
  else if Z.eqb n NR_setgroups then one LocSetGroups
  else if Z.eqb n NR_setgid then one LocSetGid
  else if Z.eqb n NR_setuid then one LocSetUid
  else if Z.eqb n NR_setsid then one LocSetSid
  else if Z.eqb n NR_ioctl then one LocIoctl
  else if Z.eqb n NR_mount then one LocMountRoot || one LocMountTmpfs || one LocPivotRoot || one LocMount
  else if Z.eqb n NR_chdir then (if arg0_ptr c "workdir" then one LocChdir else one LocMountChdir)
  else if Z.eqb n NR_mkdirat then one LocPivotRoot || one LocMountMkdir
  else if nr_in c [NR_pivot_root; NR_umount2; NR_unlinkat] then one LocPivotRoot
  else if Z.eqb n NR_capset then one LocSetCap
  else if Z.eqb n NR_ptrace then one LocPtraceMe
  else if Z.eqb n NR_kill then one LocStop
  else if Z.eqb n NR_seccomp then one LocSeccomp
  else if is_exec c then one LocExecve
  else false.

Definition check_fate (f : flags) (ok_post : list obs) (cs : list xcall) (k : nat) (prev : option xcall) (c : xcall) : bool :=
  let '(sg, _, post) := run_src (fail_at (n_pre + k)) (env_of f) in
  if ignorable c then is_exited sg && list_eqb obs_eqb post ok_post
  else
    is_exited sg &&
    match rev post with
    | OExit p loc None e :: r =>
        Z.eqb p fd_sync && loc_ok prev c loc && Z.eqb e (if Z.eqb (fst c) NR_getppid then ESRCH else errno_at (n_pre + k)) &&
        list_eqb obs_eqb (rev r) (map OCall (firstn (S k) cs))
    | _ => false
    end.
Fixpoint check_fates_from (f : flags) (ok_post : list obs) (cs : list xcall) (k : nat) (prev : option xcall) (l : list xcall) : bool :=
  match l with [] => true | c :: r => check_fate f ok_post cs k prev c && check_fates_from f ok_post cs (S k) (Some c) r end.
Definition check_fates (f : flags) : bool :=
  let '(sg, _, post) := run_src ok_orc (env_of f) in
  let cs := ocalls post in
  is_exited sg && Nat.eqb (List.length cs) (List.length post) && check_fates_from f post cs 0 None cs.

(** T3: the launcher's refusal.  The launcher closes its end (the sync read returns 0 bytes) or the sync write
    reaches nobody: the child reports and exits, no exec is issued.  The id-map read at the start: a short
    answer or an error code from the launcher ends the child as well. *)
Definition no_exec (l : list obs) : bool := forallb (fun o => match o with OCall c => negb (is_exec c) | _ => true end) l.
Definition ends_with (l : list obs) (o : obs) : bool := match rev l with x :: _ => obs_eqb x o | [] => false end.
Definition is_sync_io (nr : Z) (c : xcall) : bool :=
  Z.eqb (fst c) nr && match snd c with [XInt fd; XPtr p; XInt 8] => Z.eqb fd fd_sync && String.eqb p "&err2" | _ => false end.
Definition check_refusal (f : flags) : bool :=
  let '(_, _, okp) := run_src ok_orc (env_of f) in
  let cs := ocalls okp in
  (match index_of (is_sync_io NR_write) cs with
   | Some w =>
       x_sync f &&
       (let '(sg, _, post) := run_src (answer_at (n_pre + S w) 0 0 []) (env_of f) in
        is_exited sg && no_exec post && ends_with post (OExit fd_sync LocSyncRead None 0) && Nat.eqb (List.length post) (S (S (S w)))) &&
       (let '(sg, _, post) := run_src (answer_at (n_pre + w) 0 0 []) (env_of f) in
        is_exited sg && no_exec post && ends_with post (OExit fd_sync LocSyncWrite None 0) && Nat.eqb (List.length post) (S (S w)))
   | None => negb (x_sync f)
   end) &&
  (if x_newuser f then
     (let '(sg, _, post) := run_src (answer_at (n_pre + 1) 8 0 [(v_err2, 13)]) (env_of f) in
      is_exited sg && no_exec post && ends_with post (OExit fd_sync LocUnshareUserRead None 13) && Nat.eqb (List.length post) 3) &&
     (let '(sg, _, post) := run_src (answer_at (n_pre + 1) 4 0 []) (env_of f) in
      is_exited sg && no_exec post && ends_with post (OExit fd_sync LocUnshareUserRead None 22) && Nat.eqb (List.length post) 3)
   else true).

(** T4, on the calls the source issues: when a sync callback is configured, the write that announces the child and
    the read that waits for the launcher's approval happen once each, in this order, before the exec, and what
    is done between the approval and the exec is only what has to wait for it (cgroup namespace, dropping the
    last privileges, the filter, attaching to the tracer); there is exactly one exec and it is the last call *)
Definition after_ok (c : xcall) : bool :=
  let n := fst c in
  Z.eqb n NR_unshare || Z.eqb n NR_prctl || Z.eqb n NR_capset || Z.eqb n NR_seccomp || Z.eqb n NR_ptrace || Z.eqb n NR_kill.
Definition check_gate (f : flags) : bool :=
  let '(sg, _, post) := run_src ok_orc (env_of f) in
  let cs := ocalls post in
  (* one exec, last *)
  Nat.eqb (List.length (filter is_exec cs)) 1 && match rev cs with c :: _ => is_exec c | [] => false end &&
  (if x_sync f then
     (* skip the id-map read at the start: the sync read is the read that follows the sync write *)
     match index_of (is_sync_io NR_write) cs with
     | Some w =>
         match skipn (S w) cs with
         | rd :: rest => is_sync_io NR_read rd && forallb after_ok (removelast rest) &&
                         Nat.eqb (List.length (filter (is_sync_io NR_write) cs)) 1
         | [] => false
         end
     | None => false
     end
   else negb (existsb (is_sync_io NR_write) cs)).

(** ** the domains the checks are evaluated on *)
Definition mk (a b : list bool) : option flags :=
  match a, b with
  | [d; e; f; g; h; i; j; k; l; m; n; o], [nu; np; nn; ct; pv; ho; dm; wd; ex] =>
      Some {| x_newuser := nu; x_newpid := np; x_newns := nn; x_cred := d; x_gidmap := e; x_gidsetgroups := f; x_nogroups := g;
              x_nosetgroups := h; x_dropcaps := i; x_nnp := j; x_seccomp := k; x_ptrace := l; x_stop := m; x_sync := n; x_ucas := o;
              x_ctty := ct; x_pivot := pv; x_host := ho; x_domain := dm; x_workdir := wd; x_execfile := ex |}
  | _, _ => None
  end.
Definition on_opt (c : flags -> bool) (o : option flags) : bool := match o with Some f => c f | None => false end.

(** the nine options that do not interact with the others: all off, all on, exactly one on, exactly one off *)
Definition one_hot (n i : nat) (v : bool) : list bool := map (fun j => if Nat.eqb i j then v else negb v) (seq 0 n).
Definition cover_B : list (list bool) :=
  [repeat false 9; repeat true 9] ++ map (fun i => one_hot 9 i true) (seq 0 9) ++ map (fun i => one_hot 9 i false) (seq 0 9).
Definition ends_B : list (list bool) := [repeat false 9; repeat true 9].

(** shard [pre] (the first four of the twelve interacting options) of a domain A x B *)
Definition shard_ok (c : flags -> bool) (B : list (list bool)) (pre : list bool) : bool :=
  forallb (fun rest => forallb (fun b => on_opt c (mk (pre ++ rest) b)) B) (all_bits 8).

(** ** the loops over the caller's mounts and resource limits *)
Record mshape := { ms_prefixes : nat; ms_makenod : bool; ms_flags : Z; ms_statfs : Z }.
Definition elem_of_mount (m : mshape) : elem :=
  Elem [(v_m_MakeNod, b2z (ms_makenod m)); (v_m_Flags, ms_flags m)] [(v_m_Prefixes, repeat 1 (ms_prefixes m))] [].
Definition env_loops_adv (adv : bool) (f : flags) (ms : list mshape) (nrl : nat) : state :=
  let s := if adv then adversarial (env_of f) else env_of f in
  {| vars := vars s; arrs := arrs s;
     sarrs := [(v_r_Mounts, map elem_of_mount ms); (v_r_RLimits, map (fun i => Elem [(v_rlim_Res, Z.of_nat i)] [] []) (seq 0 nrl))];
     ncalls := 0; trace := [] |}.
(** statfs reports the flags of the mount being looked at: the oracle hands out the words in the order of the calls *)
Fixpoint statfs_words (ms : list mshape) : list Z :=
  match ms with [] => [] | m :: r => (if Z.eqb (Z.land (ms_flags m) bind_ro) bind_ro then [ms_statfs m] else []) ++ statfs_words r end.
Definition loops_expected (f : flags) (ms : list mshape) (nrl : nat) : list (xcall * option (Z * Z)) * list (xcall * option (Z * Z)) :=
  (List.concat (map (fun im => mount_calls (Z.of_nat (fst im)) (ms_prefixes (snd im)) (ms_makenod (snd im)) (ms_flags (snd im)) (ms_statfs (snd im)))
               (combine (seq 0 (List.length ms)) ms)),
   rlimit_calls nrl).
(** the kernel for the loops: statfs answers in order; [bad]: the call with that number fails with [errno] *)
Definition loop_orc (words : list Z) (bad : option (nat * Z)) : oracle := fun n nr args =>
  match bad with
  | Some (k, e) => if Nat.eqb n k then (-1, e, []) else ok_orc n nr args
  | None => ok_orc n nr args
  end.
(** statfs results are threaded through a counter kept in the variable it writes: the n-th statfs gets the n-th word *)
Definition nth_word (l : list Z) (i : nat) : Z := nth i l 0.
Definition loop_orc_st (ms : list mshape) (bad : option (nat * Z)) (stat_index : nat -> nat) : oracle := fun n nr args =>
  let '(r, e, w) := loop_orc (statfs_words ms) bad n nr args in
  if Z.eqb nr NR_statfs && Z.eqb e 0 then (r, e, [(v_s_Flags, nth_word (statfs_words ms) (stat_index n))]) else (r, e, w).

(** position of the call with number n among the statfs calls of the expected sequence *)
Fixpoint count_statfs_before (l : list xcall) (n : nat) : nat :=
  match n, l with
  | O, _ | _, [] => O
  | S k, c :: r => (if Z.eqb (fst c) NR_statfs then 1 else 0)%nat + count_statfs_before r k
  end.

Definition check_loops_env (adv : bool) (f : flags) (ms : list mshape) (nrl : nat) : bool :=
  let env_loops := env_loops_adv adv in
  let '(me, re) := loops_expected f ms nrl in
  let expected := child_calls_loops f (map fst me) (map fst re) in
  let sidx := fun n => count_statfs_before expected (n - n_pre) in
  let '(sg, _, post) := run_src (loop_orc_st ms None sidx) (env_loops f ms nrl) in
  is_exited sg && list_eqb obs_eqb post (map OCall expected) &&
  (* every call of the two loops failed in turn: reported with the location of the step and the index of the entry *)
  let n_before := List.length (seg_start f ++ seg_ids f ++ seg_session f ++ seg_fs_before f) in
  let n_mid := List.length (seg_fs_after f ++ seg_names f) in
  let fails (offset : nat) (l : list (xcall * option (Z * Z))) :=
    forallb (fun ic =>
      let '(i, c) := ic in
      match snd c with
      | Some (loc, idx) =>
          let k := (offset + i)%nat in
          forallb (fun e =>
            let '(sg', _, post') := run_src (loop_orc_st ms (Some ((n_pre + k)%nat, e)) sidx) (env_loops f ms nrl) in
            is_exited sg' && list_eqb obs_eqb post' (map OCall (firstn (S k) expected) ++ [OExit fd_sync loc (Some idx) e]))
            [EIO; EPERM; ETXTBSY; 2; 16; 22] &&
          (* an existing directory or node is not an error *)
          (if nr_in (fst c) [NR_mkdirat; NR_mknodat] then
             let '(sg2, _, post2) := run_src (loop_orc_st ms (Some ((n_pre + k)%nat, EEXIST)) sidx) (env_loops f ms nrl) in
             is_exited sg2 && list_eqb obs_eqb post2 (map OCall expected)
           else
             let '(sg2, _, post2) := run_src (loop_orc_st ms (Some ((n_pre + k)%nat, EEXIST)) sidx) (env_loops f ms nrl) in
             is_exited sg2 && list_eqb obs_eqb post2 (map OCall (firstn (S k) expected) ++ [OExit fd_sync loc (Some idx) EEXIST]))
      | None => true
      end) (combine (seq 0 (List.length l)) l) in
  fails n_before me && fails (n_before + List.length me + n_mid)%nat re.

Definition check_loops (f : flags) (ms : list mshape) (nrl : nat) : bool :=
  check_loops_env false f ms nrl && check_loops_env true f ms nrl.

Definition mount_shapes : list mshape :=
  flat_map (fun np => flat_map (fun mk => flat_map (fun fl => map (fun sf =>
    {| ms_prefixes := np; ms_makenod := mk; ms_flags := fl; ms_statfs := sf |}) [0; 6; 1025; 2100239])
    [4097; 4096; 0; 4099; 20481]) [false; true]) [0; 1; 3]%nat.
Definition loop_cases : list (list mshape * nat) :=
  map (fun m => ([m], 1%nat)) mount_shapes ++
  [([], 0%nat); ([], 3%nat)] ++
  map (fun i => ([nth i mount_shapes (nth 0 mount_shapes {| ms_prefixes := 0; ms_makenod := false; ms_flags := 0; ms_statfs := 0 |});
                  nth (i * 7 + 3) mount_shapes (nth 0 mount_shapes {| ms_prefixes := 0; ms_makenod := false; ms_flags := 0; ms_statfs := 0 |});
                  nth (i * 11 + 5) mount_shapes (nth 0 mount_shapes {| ms_prefixes := 0; ms_makenod := false; ms_flags := 0; ms_statfs := 0 |});
                  nth (i * 13 + 1) mount_shapes (nth 0 mount_shapes {| ms_prefixes := 0; ms_makenod := false; ms_flags := 0; ms_statfs := 0 |})], 2%nat))
      (seq 0 8).
Definition flags_plain : flags :=
  {| x_newuser := false; x_newpid := false; x_newns := false; x_cred := false; x_gidmap := false; x_gidsetgroups := false;
     x_nogroups := false; x_nosetgroups := false; x_dropcaps := false; x_nnp := false; x_seccomp := false; x_ptrace := false;
     x_stop := false; x_sync := false; x_ucas := false; x_ctty := false; x_pivot := false; x_host := false; x_domain := false;
     x_workdir := false; x_execfile := false |}.
(** a new mount namespace with a pivoted root and a working directory *)
Definition flags_rooted : flags :=
  {| x_newuser := false; x_newpid := false; x_newns := true; x_cred := false; x_gidmap := false; x_gidsetgroups := false;
     x_nogroups := false; x_nosetgroups := false; x_dropcaps := false; x_nnp := false; x_seccomp := false; x_ptrace := false;
     x_stop := false; x_sync := false; x_ucas := false; x_ctty := false; x_pivot := true; x_host := false; x_domain := false;
     x_workdir := true; x_execfile := false |}.
Definition check_loops_list (f : flags) (l : list (list mshape * nat)) : bool := forallb (fun c => check_loops f (fst c) (snd c)) l.

Lemma check_loops_list_spec f l : check_loops_list f l = true -> forall c, In c l -> check_loops f (fst c) (snd c) = true.
Proof. intros H. exact (proj1 (forallb_forall _ _) H). Qed.

Definition is_sync_any (nr : Z) (c : xcall) : bool :=
  Z.eqb (fst c) nr && match snd c with [XInt _; XPtr p; XInt 8] => String.eqb p "&err2" | _ => false end.
Definition list_prod_map (a b : list Z) : list (list Z) := flat_map (fun x => map (fun y => [x; y]) b) a.

(** ** the descriptor shuffle: the calls the source issues for a list of descriptors, replayed on the kernel's descriptor
    table of Launch/FdShuffle.v, against [FdShuffle.shuffle] (about which C06_shuffle is proved for every list) *)
Module FS := GS.Launch.FdShuffle.
Record fdcase := { fc_files : list Z; fc_pipe : Z; fc_exec : Z; fc_closed : list Z }.   (* fc_closed: listed numbers that are not open *)
Definition fd_flags (exec : Z) : flags :=
  {| x_newuser := false; x_newpid := false; x_newns := false; x_cred := false; x_gidmap := false; x_gidsetgroups := false;
     x_nogroups := false; x_nosetgroups := false; x_dropcaps := false; x_nnp := false; x_seccomp := false; x_ptrace := false;
     x_stop := false; x_sync := true; x_ucas := false; x_ctty := false; x_pivot := false; x_host := false; x_domain := false;
     x_workdir := false; x_execfile := Z.ltb 0 exec |}.
Definition env_fd (c : fdcase) : state :=
  let s := env_of (fd_flags (fc_exec c)) in
  {| vars := (v_r_ExecFile, fc_exec c) :: vars s;
     arrs := (v_p, [fd_parent_end + 100; fc_pipe c]) :: (v_r_Files, fc_files c) :: arrs s;
     sarrs := sarrs s; ncalls := 0; trace := [] |}.
(** the table before the shuffle: every listed number that is not in [fc_closed], the sync socket and the exec descriptor
    (both close-on-exec), and the descriptors 0..2 of the launcher *)
Definition table0 (c : fdcase) : FS.ftab :=
  fun fd =>
    if Z.eqb fd (fc_pipe c) then Some (1000%nat, true)
    else if Z.ltb 0 (fc_exec c) && Z.eqb fd (fc_exec c) then Some (1001%nat, true)
    else if existsb (Z.eqb fd) (fc_closed c) then None
    else if (existsb (Z.eqb fd) (fc_files c) || (Z.leb 0 fd && Z.leb fd 2)) && Z.leb 0 fd then Some (Z.to_nat fd, false)
    else None.
(** the calls of the source between the ids and the session, applied to the table; stops at the first call the kernel refuses *)
Fixpoint replay (T : FS.ftab) (l : list xcall) : FS.res FS.ftab :=
  match l with
  | [] => FS.Ok T
  | (nr, args) :: r =>
      if Z.eqb nr NR_dup3 then
        match args with
        | [XInt o; XInt n; XInt fl] => if Z.eqb fl 524288 then match FS.dup3 T o n true with FS.Ok T' => replay T' r | FS.Err e => FS.Err e end else FS.Err (-1)
        | [XInt o; XInt n] => match FS.dup3 T o n false with FS.Ok T' => replay T' r | FS.Err e => FS.Err e end
        | _ => FS.Err (-1)
        end
      else if Z.eqb nr NR_fcntl then
        match args with
        | [XInt fd; XInt 2] => match FS.set_cloexec T fd false with FS.Ok T' => replay T' r | FS.Err e => FS.Err e end
        | _ => FS.Err (-1)
        end
      else if Z.eqb nr NR_close then
        match args with [XInt fd] => replay (FS.close T fd) r | _ => FS.Err (-1) end
      else replay T r
  end.
Definition fd_calls (cs : list xcall) : list xcall :=
  (* everything after the first call (close of the launcher's end) that touches the table, up to setsid *)
  let after := match cs with _ :: r => r | [] => [] end in
  (fix take (l : list xcall) : list xcall :=
     match l with [] => [] | c :: r => if Z.eqb (fst c) NR_setsid then [] else (if nr_in c [NR_dup3; NR_fcntl; NR_close] then c :: take r else take r) end) after.
Definition view (T : FS.ftab) : list (option nat) := map (fun i => FS.at_exec T (Z.of_nat i)) (seq 0 48).
Definition optn_eqb (a b : option nat) : bool := match a, b with Some x, Some y => Nat.eqb x y | None, None => true | _, _ => false end.
Definition check_fd (c : fdcase) : bool :=
  let '(sg, _, post) := run_src ok_orc (env_fd c) in
  let cs := ocalls post in
  (* where the source believes the sync socket and the exec descriptor are afterwards: the descriptors it uses *)
  let pipe_used := match find (is_sync_any NR_write) cs with Some (_, XInt fd :: _) => fd | _ => -1 end in
  let exec_used := match find is_exec cs with Some (_, XInt fd :: _) => fd | _ => 0 end in
  match FS.shuffle true (table0 c) (fc_files c) (fc_pipe c) (fc_exec c), replay (table0 c) (fd_calls cs) with
  | FS.Ok (T, p, e), FS.Ok T' =>
      is_exited sg && list_eqb optn_eqb (view T) (view T') && Z.eqb p pipe_used && Z.eqb e exec_used &&
      (* and the two are still open, close-on-exec, on the descriptions they had *)
      match T' pipe_used with Some (o, true) => Nat.eqb o 1000 | _ => false end &&
      (if Z.ltb 0 (fc_exec c) then match T' exec_used with Some (o, true) => Nat.eqb o 1001 | _ => false end else true)
  | FS.Err _, FS.Err _ => true
  | _, _ => false
  end.
Definition small_lists : list (list Z) :=
  let al := [-1; 0; 1; 2; 3; 5; 12] in
  [[]] ++ map (fun a => [a]) al ++ list_prod_map al al ++ flat_map (fun a => map (cons a) (list_prod_map al al)) al.
Definition fd_cases : list fdcase :=
  flat_map (fun fl => flat_map (fun pe =>
    [{| fc_files := fl; fc_pipe := fst pe; fc_exec := snd pe; fc_closed := [] |}])
    [(21, 0); (21, 7); (4, 0); (4, 7); (6, 7); (21, 3); (21, 13); (14, 13); (4, 14); (13, 14)]) small_lists ++
  (* listed numbers that are not open *)
  map (fun fl => {| fc_files := fl; fc_pipe := 21; fc_exec := 0; fc_closed := [5] |}) small_lists ++
  (* longer lists *)
  [{| fc_files := [5; 4; 3; 2; 1; 0]; fc_pipe := 21; fc_exec := 7; fc_closed := [] |};
   {| fc_files := [1; 0; 1; 0; 9; 9; 3; -1; 2]; fc_pipe := 8; fc_exec := 10; fc_closed := [] |};
   {| fc_files := [12; 11; 10; 9; 8; 7; 6; 5; 4; 3; 2; 1; 0]; fc_pipe := 14; fc_exec := 15; fc_closed := [] |};
   {| fc_files := [0; 1; 2; 25; 26]; fc_pipe := 24; fc_exec := 27; fc_closed := [] |}].
Definition check_fd_list (l : list fdcase) : bool := forallb check_fd l.
Lemma check_fd_list_spec l : check_fd_list l = true -> forall c, In c l -> check_fd c = true.
Proof. intros H. exact (proj1 (forallb_forall _ _) H). Qed.

(** the cross domain: the nine independent options exhaustively, with the twelve others all off and all on *)
Definition ends_A : list (list bool) := [repeat false 12; repeat true 12].
Definition cross_ok (c : flags -> bool) : bool := forallb (fun a => forallb (fun b => on_opt c (mk a b)) (all_bits 9)) ends_A.
Lemma cross_ok_spec c : cross_ok c = true -> forall a b, In a ends_A -> In b (all_bits 9) -> on_opt c (mk a b) = true.
Proof. intros H a b Ha Hb. exact (proj1 (forallb_forall _ _) (proj1 (forallb_forall _ _) H a Ha) b Hb). Qed.

Lemma shard_ok_spec c B pre : shard_ok c B pre = true ->
  forall rest b, In rest (all_bits 8) -> In b B -> on_opt c (mk (pre ++ rest) b) = true.
Proof.
  intros H rest b Hr Hb.
  exact (proj1 (forallb_forall _ _) (proj1 (forallb_forall _ _) H rest Hr) b Hb).
Qed.

Lemma combine16 c B :
  (forall pre, In pre (all_bits 4) -> shard_ok c B pre = true) ->
  forall a b, In a (all_bits 12) -> In b B -> on_opt c (mk a b) = true.
Proof.
  intros H a b Ha Hb.
  destruct (all_bits_split 4 8 a Ha) as [p [r [-> [Hp Hr]]]].
  exact (shard_ok_spec c B p (H p Hp) r b Hr Hb).
Qed.

(** first configuration of a domain on which a check fails, fewest options first (diagnosis only) *)
Definition first_bad (c : flags -> bool) (B : list (list bool)) : option (list bool * list bool) :=
  find (fun ab => negb (on_opt c (mk (fst ab) (snd ab)))) (rev (list_prod (all_bits 12) B)).
Definition first_bad_cross (c : flags -> bool) : option (list bool * list bool) :=
  find (fun ab => negb (on_opt c (mk (fst ab) (snd ab)))) (rev (list_prod ends_A (all_bits 9))).
(** where the calls of the source and of the specification part (diagnosis only) *)
Fixpoint first_diff (i : nat) (a b : list xcall) : option (nat * option xcall * option xcall) :=
  match a, b with
  | [], [] => None
  | x :: r, y :: s => if xcall_eqb x y then first_diff (S i) r s else Some (i, Some x, Some y)
  | x :: _, [] => Some (i, Some x, None)
  | [], y :: _ => Some (i, None, Some y)
  end.
Definition show_bad (keep : xcall -> bool) (ab : option (list bool * list bool)) :=
  match ab with
  | Some (a, b) =>
      match mk a b with
      | Some f => let '(sg, pre, post) := run_src ok_orc (env_of f) in
                  Some (sg, first_diff 0 (filter keep (ocalls pre ++ ocalls post)) (filter keep (ocalls (pre_spec f) ++ calls_of f)),
                        ocalls post)
      | None => None
      end
  | None => None
  end.

(** Theorems about the translated source of the child side of a launch (regenerated from /repo on every run).
    Each is proved by evaluating its check on every combination of the twelve interacting options
    (Credential, GIDMappings, GIDMappingsEnableSetgroups, empty Groups, NoSetGroups, DropCaps, NoNewPrivs, Seccomp,
    Ptrace, StopBeforeSeccomp, SyncFunc, UnshareCgroupAfterSync) and every setting of the nine others
    (CLONE_NEWUSER, CLONE_NEWPID, CLONE_NEWNS, CTTY, PivotRoot, HostName, DomainName, WorkDir, ExecFile) listed in
    the tier's domain (Tier.v), in sixteen shards (Sh0..Sh15) combined here, and on the cross domain (the nine others exhaustively, the
    twelve all off and all on); for the failing steps the
    shards listed in PRE_fates (the first four of the twelve: Credential, GIDMappings, GIDMappingsEnableSetgroups, empty Groups). *)
From Coq Require Import List Bool ZArith.
Import ListNotations.
From GS Require Import Launch.ChildIR Launch.ChildSeq.
From Gen Require Import ChildSrcGen ChildSrcBase Tier.
From Gen Require PF_fd PL_loops PX_sh_calls PX_sh_c07_refusal PX_sh_c07_gate.
From Gen Require Sh0 Sh1 Sh2 Sh3 Sh4 Sh5 Sh6 Sh7 Sh8 Sh9 Sh10 Sh11 Sh12 Sh13 Sh14 Sh15.

(* "@SHARDS:lemma@" is replaced by lib/srcthm.py with one  destruct H as [<-|H]; [exact Sh<k>.lemma |]  per shard of the tier, in the
   order of the list of prefixes *)

(** one evaluation per configuration serves the four parts of the sequence *)
Lemma all_calls : forall a b, (In a (all_bits 12) /\ In b DB_calls) \/ (In a ends_A /\ In b (all_bits 9)) -> on_opt check_calls_all (mk a b) = true.
Proof. intros a b [[Ha Hb]|[Ha Hb]]; [| exact (cross_ok_spec _ PX_sh_calls.sh_calls a b Ha Hb)]. revert a b Ha Hb. apply combine16. intros pre H; cbv [all_bits map app In] in H. @SHARDS:sh_calls@ destruct H. Qed.
Lemma calls_part keep a b : In keep parts -> on_opt check_calls_all (mk a b) = true -> on_opt (check_calls_on keep) (mk a b) = true.
Proof. destruct (mk a b) as [f|]; cbn [on_opt]; [intros Hk H; exact (check_calls_all_spec f H keep Hk) | intros _ H; exact H]. Qed.

(** C04: the calls that set up identity, privileges, filter, session, names, working directory, cgroup namespace and
    tracing, and the clone flags, are those of the specification [child_calls], in its order *)
Theorem C04_source_issues_specified_calls :
  forall a b, (In a (all_bits 12) /\ In b DB_calls) \/ (In a ends_A /\ In b (all_bits 9)) -> on_opt (check_calls_on k04) (mk a b) = true.
Proof. intros a b H. apply (calls_part k04); [cbv [parts In]; tauto | exact (all_calls a b H)]. Qed.
Print Assumptions C04_source_issues_specified_calls.

(** C05: the mounts around the caller's list (private root, tmpfs root, pivot, read-only root) *)
Theorem C05_source_issues_specified_calls :
  forall a b, (In a (all_bits 12) /\ In b DB_calls) \/ (In a ends_A /\ In b (all_bits 9)) -> on_opt (check_calls_on k05) (mk a b) = true.
Proof. intros a b H. apply (calls_part k05); [cbv [parts In]; tauto | exact (all_calls a b H)]. Qed.
Print Assumptions C05_source_issues_specified_calls.

(** C16: a traced child asks to die with its launcher and looks for it, before it syncs or stops *)
Theorem C16_source_issues_specified_calls :
  forall a b, (In a (all_bits 12) /\ In b DB_calls) \/ (In a ends_A /\ In b (all_bits 9)) -> on_opt (check_calls_on k16) (mk a b) = true.
Proof. intros a b H. apply (calls_part k16); [cbv [parts In]; tauto | exact (all_calls a b H)]. Qed.
Print Assumptions C16_source_issues_specified_calls.

(** C07: the start of the child, the exchange over the sync socket and the exec *)
Theorem C07_source_issues_specified_calls :
  forall a b, (In a (all_bits 12) /\ In b DB_calls) \/ (In a ends_A /\ In b (all_bits 9)) -> on_opt (check_calls_on k07) (mk a b) = true.
Proof. intros a b H. apply (calls_part k07); [cbv [parts In]; tauto | exact (all_calls a b H)]. Qed.
Print Assumptions C07_source_issues_specified_calls.

(** C07: whichever call of the child fails, the failure is reported with its location and the program never runs
    (or the result is one of the four that may be ignored and nothing changes) *)
Theorem C07_source_failed_step_never_runs :
  forall pre rest b, In pre PRE_fates -> In rest (all_bits 8) -> In b DB_fates -> on_opt check_fates (mk (pre ++ rest) b) = true.
Proof.
  intros pre rest b Hp Hr Hb. refine (shard_ok_spec check_fates DB_fates pre _ rest b Hr Hb).
  revert pre Hp. cbv [PRE_fates all_bits map app In]. intros pre H. @SHARDS:sh_c07_fates@ destruct H.
Qed.
Print Assumptions C07_source_failed_step_never_runs.

(** C07: a launcher that does not approve (end of file on the sync socket, or an error code for the id maps) *)
Theorem C07_source_refusal_never_runs :
  forall a b, (In a (all_bits 12) /\ In b DB_calls) \/ (In a ends_A /\ In b (all_bits 9)) -> on_opt check_refusal (mk a b) = true.
Proof. intros a b [[Ha Hb]|[Ha Hb]]; [| exact (cross_ok_spec _ PX_sh_c07_refusal.sh_c07_refusal a b Ha Hb)]. revert a b Ha Hb. apply combine16. intros pre H; cbv [all_bits map app In] in H. @SHARDS:sh_c07_refusal@ destruct H. Qed.
Print Assumptions C07_source_refusal_never_runs.

(** C07: one sync write, then the read that waits for the approval, then only what must wait for it, then the one exec *)
Theorem C07_source_gate_before_exec :
  forall a b, (In a (all_bits 12) /\ In b DB_calls) \/ (In a ends_A /\ In b (all_bits 9)) -> on_opt check_gate (mk a b) = true.
Proof. intros a b [[Ha Hb]|[Ha Hb]]; [| exact (cross_ok_spec _ PX_sh_c07_gate.sh_c07_gate a b Ha Hb)]. revert a b Ha Hb. apply combine16. intros pre H; cbv [all_bits map app In] in H. @SHARDS:sh_c07_gate@ destruct H. Qed.
Print Assumptions C07_source_gate_before_exec.

(** C05 / C07 / C08: the loops over the caller's mounts and resource limits.  For each of the 130 lists of [loop_cases]
    (every mount shape alone: 0 / 1 / 3 path components to create, directory or node as mount point, five flag words among
    them read-only binds, four statfs answers; lists of four mounts; 0 to 3 limits), without and with a pivoted root:
    the calls are those of [mount_calls] / [rlimit_calls] at their place in the sequence (the remount of a read-only bind
    keeps what statfs reports of nosuid / nodev / noexec / noatime / nodiratime / relatime and nothing else); each of
    them failing is reported with its location and the index of the entry, nothing else is done and the program never
    runs; an existing mount point is not an error *)
Theorem SRC_loops_as_specified :
  forall c, In c loop_cases -> check_loops flags_plain (fst c) (snd c) = true /\ check_loops flags_rooted (fst c) (snd c) = true.
Proof.
  intros c Hc. pose proof PL_loops.loops_ok as H. apply andb_prop in H. destruct H as [H1 H2].
  split; [exact (check_loops_list_spec _ _ H1 c Hc) | exact (check_loops_list_spec _ _ H2 c Hc)].
Qed.
Print Assumptions SRC_loops_as_specified.

(** C06: the descriptor shuffle.  For each of the 4404 cases of [fd_cases] (every list of at most three entries over
    {-1, 0, 1, 2, 3, 5, 12} x ten placements of the sync socket and the exec descriptor below / inside / above the scratch
    area and next to each other; the same lists with a listed number that is not open; four longer lists): the dup3 / fcntl /
    close calls the source issues, replayed on the kernel's descriptor table, leave exactly the table [FdShuffle.shuffle]
    computes (for which C06_shuffle is proved for every list), the sync socket and the exec descriptor are where the source
    goes on using them, still open and close-on-exec; where the kernel refuses a call of the one it refuses one of the other *)
Theorem C06_source_shuffle_is_model : forall c, In c fd_cases -> check_fd c = true.
Proof. exact (check_fd_list_spec _ PF_fd.fd_ok). Qed.
Print Assumptions C06_source_shuffle_is_model.

(** non-vacuity: the domain is not empty and the options of one member are what they say *)
Example domain_member : In (repeat true 12) (all_bits 12) /\ In (repeat true 9) DB_calls /\ In (repeat true 9) DB_fates /\ In (repeat true 4) PRE_fates
  /\ option_map x_sync (mk (repeat true 12) (repeat true 9)) = Some true.
Proof. repeat split; try (apply (all_bits_complete (repeat true 12))); vm_compute; auto 30. Qed.

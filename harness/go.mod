module verifh

go 1.25.0

require github.com/criyle/go-sandbox v0.0.0

require golang.org/x/sys v0.43.0 // indirect

replace github.com/criyle/go-sandbox => /repo

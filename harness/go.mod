module verifh

go 1.25.0

require github.com/criyle/go-sandbox v0.0.0

require (
	github.com/elastic/go-seccomp-bpf v1.6.0
	golang.org/x/net v0.53.0 // indirect
	golang.org/x/sys v0.43.0
)

replace github.com/criyle/go-sandbox => /repo

// h_c04: launches the state probe under every combination of the launch options and reports the probe's
// self-report together with the harness's own namespaces.
package main

import (
	"context"
	"encoding/json"
	"errors"
	"fmt"
	"io"
	"os"
	"path/filepath"
	"runtime"
	"strconv"
	"strings"
	"sync"
	"syscall"
	"time"

	"golang.org/x/sys/unix"

	"verifh/lib/hx"

	"github.com/criyle/go-sandbox/container"
	"github.com/criyle/go-sandbox/pkg/forkexec"
	"github.com/criyle/go-sandbox/pkg/pipe"
)

func nsOf(pid string) map[string]string {
	r := map[string]string{}
	for _, n := range []string{"user", "pid", "mnt", "uts", "ipc", "net", "cgroup"} {
		l, _ := os.Readlink("/proc/" + pid + "/ns/" + n)
		r[n] = l
	}
	return r
}

var nsFlag = map[string]uintptr{"user": unix.CLONE_NEWUSER, "pid": unix.CLONE_NEWPID, "mnt": unix.CLONE_NEWNS, "uts": unix.CLONE_NEWUTS,
	"ipc": unix.CLONE_NEWIPC, "net": unix.CLONE_NEWNET, "cgroup": unix.CLONE_NEWCGROUP}

type fixedCred struct{ uid, gid uint32 }

func (f fixedCred) Get() syscall.Credential { return syscall.Credential{Uid: f.uid, Gid: f.gid} }

func main() {
	hx.Init()
	runtime.LockOSThread()
	// the launcher itself carries supplementary groups: a launch that must end with other (or no) groups has to set them
	if err := syscall.Setgroups([]int{4242, 4243}); err != nil {
		panic(err)
	}
	scratch := os.Getenv("VERIF_SCRATCH")
	filter := hx.AllowAll().SockFprog()
	var cenv container.Environment
	defer func() {
		if cenv != nil {
			cenv.Destroy()
		}
	}()
	hx.Cases(func(c map[string]any) map[string]any {
		if c["mode"] == "container_ids" {
			// a container whose program runs under a generated credential: the ids inside are the configured ones, each defaulting on its own
			e2, err := hx.NewEnvWith(scratch, nil, func(b *container.Builder) {
				b.CredGenerator = fixedCred{uint32(hx.Int(c["host_uid"])), uint32(hx.Int(c["host_gid"]))}
				b.ContainerUID, b.ContainerGID = int(hx.Int(c["cuid"])), int(hx.Int(c["cgid"]))
			})
			if err != nil {
				return map[string]any{"harness_err": err.Error()}
			}
			defer e2.Destroy()
			buf, _ := pipe.NewBuffer(1 << 16)
			null, _ := os.Open("/dev/null")
			ctx, cancel := context.WithTimeout(context.Background(), 10*time.Second)
			res := e2.Execve(ctx, container.ExecveParam{Args: []string{"/vb/probe_target", "secstate", "/nonexistent/out"}, Env: []string{}, Files: []uintptr{null.Fd(), buf.W.Fd(), buf.W.Fd()}})
			cancel()
			null.Close()
			buf.W.Close()
			<-buf.Done
			var st map[string]any
			json.Unmarshal(buf.Buffer.Bytes(), &st)
			return map[string]any{"status": int(res.Status), "error": res.Error, "state": st}
		}
		if c["mode"] == "concurrent_idmaps" {
			// launches with different explicit id mappings at the same time, from several goroutines: each program reports the maps it is under
			workers, rounds := int(hx.Int(c["workers"])), int(hx.Int(c["rounds"]))
			type bad struct {
				Worker, Round int
				Got, Err      string
			}
			var mu sync.Mutex
			wrong, total := []bad{}, 0
			var wg sync.WaitGroup
			for w := 0; w < workers; w++ {
				wg.Add(1)
				go func(w int) {
					defer wg.Done()
					for k := 0; k < rounds; k++ {
						rp, wp, _ := os.Pipe()
						null, _ := os.Open("/dev/null")
						r := &forkexec.Runner{Args: []string{"/bin/cat", "/proc/self/uid_map", "/proc/self/gid_map"}, Env: []string{},
							Files: []uintptr{null.Fd(), wp.Fd(), wp.Fd()}, CloneFlags: unix.CLONE_NEWUSER,
							UIDMappings: []syscall.SysProcIDMap{{ContainerID: 0, HostID: 1000 + w, Size: 1 + w}},
							GIDMappings: []syscall.SysProcIDMap{{ContainerID: 0, HostID: 3000 + w, Size: 1 + w}}}
						pid, err := r.Start()
						wp.Close()
						null.Close()
						got := ""
						if err == nil {
							b, _ := io.ReadAll(rp)
							got = strings.Join(strings.Fields(string(b)), " ")
							var ws syscall.WaitStatus
							syscall.Wait4(pid, &ws, 0, nil)
						}
						rp.Close()
						want := fmt.Sprintf("0 %d %d 0 %d %d", 1000+w, 1+w, 3000+w, 1+w)
						mu.Lock()
						total++
						if err != nil || got != want {
							e := ""
							if err != nil {
								e = err.Error()
							}
							if len(wrong) < 20 {
								wrong = append(wrong, bad{w, k, got, e})
							}
						}
						mu.Unlock()
					}
				}(w)
			}
			wg.Wait()
			return map[string]any{"launches": total, "wrong": wrong}
		}
		if c["mode"] == "container" {
			// one pooled container, a history of launches with different parameters: each launch starts in the state of ITS parameters
			if cenv == nil {
				var err error
				if cenv, err = hx.NewEnv(scratch, nil); err != nil {
					return map[string]any{"harness_err": err.Error()}
				}
			}
			states := []any{}
			for _, oo := range c["launches"].([]any) {
				l := oo.(map[string]any)
				buf, _ := pipe.NewBuffer(1 << 16)
				null, _ := os.Open("/dev/null")
				p := container.ExecveParam{Args: []string{"/vb/probe_target", "secstate", "/nonexistent/out"}, Env: []string{}, Files: []uintptr{null.Fd(), buf.W.Fd(), buf.W.Fd()},
					SyncAfterExec: l["sync_after"] == true}
				if l["seccomp"] == true {
					p.Seccomp = hx.AllowAll()
				}
				if l["sync"] == true {
					p.SyncFunc = func(int) error { return nil }
				}
				ctx, cancel := context.WithTimeout(context.Background(), 10*time.Second)
				res := cenv.Execve(ctx, p)
				cancel()
				null.Close()
				buf.W.Close()
				<-buf.Done
				var st map[string]any
				json.Unmarshal(buf.Buffer.Bytes(), &st)
				states = append(states, map[string]any{"status": int(res.Status), "error": res.Error, "state": st})
			}
			return map[string]any{"states": states}
		}
		outp := filepath.Join(scratch, fmt.Sprintf("state%d.json", hx.Int(c["id"])))
		os.Remove(outp)
		r := &forkexec.Runner{Args: []string{hx.Target(), "secstate", outp}, Env: []string{}}
		userns := false
		for _, n := range c["ns"].([]any) {
			r.CloneFlags |= nsFlag[n.(string)]
			if n == "user" {
				userns = true
			}
		}
		if userns {
			m := []syscall.SysProcIDMap{{ContainerID: 0, HostID: 0, Size: 70000}}
			if c["badmap"] == true {
				m = []syscall.SysProcIDMap{{ContainerID: 0, HostID: 0, Size: 10}, {ContainerID: 5, HostID: 100, Size: 10}} // overlapping: the kernel refuses
			}
			r.UIDMappings, r.GIDMappings = m, []syscall.SysProcIDMap{{ContainerID: 0, HostID: 0, Size: 70000}}
			if c["badmap"] == "gid" {
				r.UIDMappings = []syscall.SysProcIDMap{{ContainerID: 0, HostID: 0, Size: 70000}}
				r.GIDMappings = []syscall.SysProcIDMap{{ContainerID: 0, HostID: 0, Size: 10}, {ContainerID: 5, HostID: 100, Size: 10}}
			}
			r.GIDMappingsEnableSetgroups = c["gidmap_setgroups"] == true
		}
		if cr, ok := c["cred"].(map[string]any); ok {
			k := &syscall.Credential{Uid: uint32(hx.Int(cr["uid"])), Gid: uint32(hx.Int(cr["gid"])), NoSetGroups: cr["nosetgroups"] == true}
			for _, g := range cr["groups"].([]any) {
				k.Groups = append(k.Groups, uint32(hx.Int(g)))
			}
			r.Credential = k
		}
		r.DropCaps, r.NoNewPrivs = c["dropcaps"] == true, c["nnp"] == true
		r.Ptrace, r.StopBeforeSeccomp, r.UnshareCgroupAfterSync = c["ptrace"] == true, c["stop"] == true, c["ucas"] == true
		if c["seccomp"] == true {
			r.Seccomp = filter
		}
		if s, ok := c["workdir"].(string); ok {
			r.WorkDir = s
		}
		if s, ok := c["host"].(string); ok {
			r.HostName = s
		}
		if s, ok := c["domain"].(string); ok {
			r.DomainName = s
		}
		called := false
		if c["sync"] == true {
			r.SyncFunc = func(pid int) error { called = true; return nil }
		}
		owd, _ := os.Getwd()
		out := map[string]any{"own_ns": nsOf("self"), "own_cwd": owd}
		// StopBeforeSeccomp without a tracer: the child stops itself before the launcher hears from it; somebody has to continue it
		stopCont := make(chan struct{})
		if r.StopBeforeSeccomp && !(r.Ptrace && r.Seccomp != nil) {
			go func() {
				for {
					select {
					case <-stopCont:
						return
					case <-time.After(2 * time.Millisecond):
					}
					tasks, _ := os.ReadDir("/proc/self/task")
					for _, t := range tasks {
						b, _ := os.ReadFile("/proc/self/task/" + t.Name() + "/children")
						for _, ch := range strings.Fields(string(b)) {
							st, _ := os.ReadFile("/proc/" + ch + "/stat")
							if i := strings.LastIndexByte(string(st), ')'); i > 0 && len(st) > i+2 && st[i+2] == 'T' {
								if p, e := strconv.Atoi(ch); e == nil {
									syscall.Kill(p, syscall.SIGCONT)
								}
							}
						}
					}
				}
			}()
		}
		var pid int
		var err error
		if c["split_ids"] == true {
			// the launching thread has real ids 1000 and effective / saved ids 0 (a set-uid-root launcher): the program must
			// end up with every id it was asked to have, not only the real ones
			done := make(chan struct{})
			go func() {
				runtime.LockOSThread() // never unlocked: the thread ends with this goroutine
				if _, _, e := syscall.RawSyscall(syscall.SYS_SETRESGID, 1000, 0, 0); e != 0 {
					out["harness_err"] = "setresgid: " + e.Error()
				} else if _, _, e := syscall.RawSyscall(syscall.SYS_SETRESUID, 1000, 0, 0); e != 0 {
					out["harness_err"] = "setresuid: " + e.Error()
				} else {
					pid, err = r.Start()
				}
				close(done)
			}()
			<-done
		} else if c["nosetpcap"] == true {
			// the launching thread is root with every capability but CAP_SETPCAP: locking the secure bits is refused in the child
			done := make(chan struct{})
			go func() {
				runtime.LockOSThread() // never unlocked: the thread ends with this goroutine
				hdr := unix.CapUserHeader{Version: unix.LINUX_CAPABILITY_VERSION_3}
				var data [2]unix.CapUserData
				if e := unix.Capget(&hdr, &data[0]); e != nil {
					err = e
				} else {
					data[0].Effective &^= 1 << 8
					data[0].Permitted &^= 1 << 8
					data[0].Inheritable &^= 1 << 8
					if e := unix.Capset(&hdr, &data[0]); e != nil {
						err = e
					}
				}
				if err != nil {
					out["harness_err"] = "capset: " + err.Error()
				} else {
					pid, err = r.Start()
				}
				close(done)
			}()
			<-done
		} else {
			pid, err = r.Start()
		}
		close(stopCont)
		if err != nil {
			out["err"] = err.Error()
			var ce forkexec.ChildError
			if errors.As(err, &ce) {
				out["loc"] = ce.Location.String()
			}
			var ws syscall.WaitStatus
			for {
				if wpid, werr := syscall.Wait4(-1, &ws, syscall.WNOHANG|syscall.WALL, nil); werr != nil || wpid <= 0 {
					break
				}
			}
		} else {
			// act as the parent / tracer until the child is gone: restart it at every stop, detach after exec
			deadline := time.Now().Add(10 * time.Second)
			stops := []int{}
			for time.Now().Before(deadline) {
				var ws syscall.WaitStatus
				wpid, werr := syscall.Wait4(pid, &ws, syscall.WALL|syscall.WUNTRACED|syscall.WNOHANG, nil)
				if werr != nil {
					break
				}
				if wpid == 0 {
					time.Sleep(time.Millisecond)
					continue
				}
				if ws.Exited() || ws.Signaled() {
					out["wait_status"] = int(ws)
					break
				}
				if ws.Stopped() {
					stops = append(stops, int(ws.StopSignal()))
					if r.Ptrace {
						sig := 0
						if s := ws.StopSignal(); s != syscall.SIGSTOP && s != syscall.SIGTRAP {
							sig = int(s)
						}
						if e := syscall.PtraceCont(pid, sig); e != nil {
							syscall.Kill(pid, syscall.SIGCONT)
						}
					} else {
						syscall.Kill(pid, syscall.SIGCONT)
					}
				}
			}
			if _, ok := out["wait_status"]; !ok {
				syscall.Kill(pid, syscall.SIGKILL)
				syscall.Wait4(pid, nil, syscall.WALL, nil)
				out["hang"] = true
			}
			out["stops"] = stops
		}
		out["callback_called"] = called
		if b, e := os.ReadFile(outp); e == nil {
			var st map[string]any
			if json.Unmarshal(b, &st) == nil {
				out["state"] = st
			} else {
				out["state_raw"] = string(b)
			}
		}
		os.Remove(outp)
		return out
	})
}

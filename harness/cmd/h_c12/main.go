// h_c12: residue after histories of runs and environment operations.
package main

import (
	"syscall"
	"context"
	"fmt"
	"github.com/criyle/go-sandbox/pkg/mount"
	"golang.org/x/sys/unix"
	"os"
	"runtime"
	"strings"
	"time"

	"verifh/lib/hx"

	"github.com/criyle/go-sandbox/container"
	"github.com/criyle/go-sandbox/pkg/forkexec"
	"github.com/criyle/go-sandbox/ptracer"
	"github.com/criyle/go-sandbox/runner"
	"github.com/criyle/go-sandbox/runner/ptrace"
)

type allowAll struct{}

func (allowAll) CheckRead(string) ptracer.TraceAction    { return ptracer.TraceAllow }
func (allowAll) CheckWrite(string) ptracer.TraceAction   { return ptracer.TraceAllow }
func (allowAll) CheckStat(string) ptracer.TraceAction    { return ptracer.TraceAllow }
func (allowAll) CheckSyscall(string) ptracer.TraceAction { return ptracer.TraceAllow }

func nfds(pid int) int {
	es, err := os.ReadDir(fmt.Sprintf("/proc/%d/fd", pid))
	if err != nil {
		return -1
	}
	return len(es)
}

// children of all threads of pid (zombies included)
func children(pid int) []string {
	var r []string
	ts, _ := os.ReadDir(fmt.Sprintf("/proc/%d/task", pid))
	for _, t := range ts {
		b, _ := os.ReadFile(fmt.Sprintf("/proc/%d/task/%s/children", pid, t.Name()))
		r = append(r, strings.Fields(string(b))...)
	}
	return r
}

func tokenProcs(token string) int {
	n := 0
	es, _ := os.ReadDir("/proc")
	for _, e := range es {
		if e.Name()[0] < '0' || e.Name()[0] > '9' {
			continue
		}
		b, _ := os.ReadFile("/proc/" + e.Name() + "/cmdline")
		if strings.Contains(string(b), token) {
			st, _ := os.ReadFile("/proc/" + e.Name() + "/stat")
			if !strings.Contains(string(st), ") Z") {
				n++
			}
		}
	}
	return n
}

func measure(env container.Environment) map[string]any {
	runtime.GC()
	time.Sleep(30 * time.Millisecond)
	m := map[string]any{"fds": nfds(os.Getpid()) - 1, "goroutines": runtime.NumGoroutine(), "children": len(children(os.Getpid()))}
	if env != nil {
		ip := container.InitPidVerif(env)
		m["init_fds"] = nfds(ip) - 0
		m["init_children"] = len(children(ip))
	}
	return m
}

var devNull, selfExe *os.File

// shapedEnv builds the environment of a history.  Shapes other than "plain" put mount points below the tmpfs mounts, the way
// services bind read-only data or a store below the work directory; Reset of such an environment removes what it can and
// reports what it cannot remove (a failing environment operation that can be repeated any number of times).
func shapedEnv(scratch, shape, token string) (container.Environment, error) {
	if shape == "" || shape == "plain" {
		return hx.NewEnv(scratch, nil)
	}
	mk := func(name string) (string, error) {
		d := scratch + "/" + name + "-" + token
		if err := os.MkdirAll(d+"/sub", 0755); err != nil {
			return "", err
		}
		for _, f := range []string{"/input.txt", "/sub/more.txt"} {
			if err := os.WriteFile(d+f, []byte("data\n"), 0644); err != nil {
				return "", err
			}
		}
		return d, nil
	}
	return hx.NewEnvWith(scratch, nil, func(b *container.Builder) {
		mb := mount.Builder{Mounts: b.Mounts}
		switch shape {
		case "robind":
			// read-only data below the work directory, a device node in /dev
			if d, err := mk("data"); err == nil {
				mb.WithBind(d, "w/data", true)
			}
			mb.WithBind("/dev/null", "dev/null", false)
		case "nested_tmpfs":
			// a tmpfs below the second tmpfs (the reset of the first tmpfs succeeds, that of the second fails)
			mb.WithTmpfs("tmp/sub", "size=1m,nr_inodes=64")
			mb.WithBind("/dev/zero", "dev/zero", false)
		case "deep_bind":
			// a writable store bound some levels below the work directory, a device node bound below the work directory
			if d, err := mk("store"); err == nil {
				mb.WithBind(d, "w/a/b/store", false)
			}
			mb.WithBind("/dev/null", "w/null", false)
		}
		b.Mounts = mb.Mounts
	})
}

// objects of every kind a path in the container can name, planted by a program of the container
func plantArgs(i int) []string {
	n := fmt.Sprint(i % 5)
	return []string{"/vb/probe_target", "plant",
		"dir", "/w/d1", "-", "dir", "/w/d1/in" + n, "-", "reg", "/w/d1/in" + n + "/f", "x", "fifo", "/w/ff", "-", "reg", "/w/reg", "content",
		"sym", "/w/sl", "/w/reg", "sym", "/w/sld", "/w/d1", "sym", "/w/dangling", "/w/nothing", "sock", "/w/sock", "-",
		"reg", "/tmp/t" + n, "x", "dir", "/tmp/td", "-", "fifo", "/tmp/td/ff", "-", "many", "/tmp/td", "7"}
}

func main() {
	hx.Init()
	scratch := os.Getenv("VERIF_SCRATCH")
	devNull, _ = os.OpenFile("/dev/null", os.O_RDWR, 0)
	selfExe, _ = os.Open(hx.Target())
	limit := runner.Limit{TimeLimit: 20 * time.Second, MemoryLimit: runner.Size(1 << 30)}
	hx.Cases(func(c map[string]any) map[string]any {
		token := c["token"].(string)
		t0 := time.Now()
		var env container.Environment
		var err error
		keepEnv := c["shared_env"] == true
		if keepEnv {
			shape, _ := c["env_shape"].(string)
			env, err = shapedEnv(scratch, shape, token)
			if err != nil {
				return map[string]any{"harness_err": "environment of shape " + shape + ": " + err.Error()}
			}
			env.Ping()
		}
		// warm up once so that lazily created runtime descriptors do not count as residue
		(&ptrace.Runner{Args: []string{hx.Target(), "exit", "0"}, Env: []string{}, WorkDir: "/", Limit: limit, Seccomp: hx.AllowAll(), Handler: allowAll{}}).Run(context.Background())
		base := measure(env)
		log := []string{}
		leftAfterRun, leftAfterWhich := 0, ""
		// descriptors of the host after every operation (no settling: only used to say which operation of a history
		// that did not return to baseline raised the count for good), and descriptors of the container init measured
		// once the init has answered a ping after the operation (the init handles one request at a time: the operation
		// is over for it, whatever became of it)
		hostTrace, initTrace := []int{}, []int{}
		initDev := []any{}
		for i, raw := range c["ops"].([]any) {
			op := raw.(map[string]any)
			args := []string{}
			for _, a := range op["args"].([]any) {
				args = append(args, strings.ReplaceAll(a.(string), "TOKEN", token))
			}
			ctx, cancel := context.WithTimeout(context.Background(), time.Duration(hx.Int(op["timeout_ms"]))*time.Millisecond)
			if op["bg"] == true {
				// a context that outlives the run and is never cancelled (a service-wide context)
				cancel()
				ctx, cancel = context.Background(), func() {}
			}
			var res runner.Result
			opNote := ""
			envOp := env != nil && (op["kind"] == "open" || op["kind"] == "open_kinds" || op["kind"] == "reset")
			initBefore := -1
			if envOp {
				env.Ping()
				initBefore = nfds(container.InitPidVerif(env))
			}
			okRet := hx.Guard(15*time.Second, func() {
				switch op["kind"].(string) {
				case "ptrace":
					r := &ptrace.Runner{Args: append([]string{hx.Target()}, args...), Env: []string{}, WorkDir: "/", Limit: limit, Seccomp: hx.AllowAll(), Handler: allowAll{}}
					res = r.Run(ctx)
				case "ns":
					r, e := hx.NsRunner(scratch, append([]string{"/vb/probe_target"}, args...))
					if e != nil {
						panic(e)
					}
					r.Limit = limit
					res = r.Run(ctx)
					os.RemoveAll(r.Root)
				case "container":
					p := container.ExecveParam{Args: append([]string{"/vb/probe_target"}, args...), Env: []string{"PATH=/usr/bin:/bin"}, SyncAfterExec: op["sync_after"] == true}
					if op["files"] == true {
						// descriptors travel with the command: whatever becomes of the run, none of them may stay behind in the container init
						p.Files = []uintptr{devNull.Fd(), devNull.Fd(), devNull.Fd()}
						if op["execfd"] == true {
							p.ExecFile = selfExe.Fd()
						}
					}
					if op["cb"] == "fail" {
						p.SyncFunc = func(int) error { return fmt.Errorf("no") }
					}
					if op["cb"] == "fail_late" {
						// the callback fails once the program (started already: sync after exec) has built its process tree
						p.SyncFunc = func(int) error { time.Sleep(150 * time.Millisecond); return fmt.Errorf("no") }
					}
					if len(args) > 0 && args[0] == "RAW" {
						p.Args = args[1:]
					}
					res = env.Execve(ctx, p)
				case "open_kinds":
					// a batch of opens whose targets are of every kind (directories, device nodes, fifos, links, sockets,
					// missing and regular files), refused and accepted entries in any position
					if op["plant"] != false {
						env.Execve(ctx, container.ExecveParam{Args: plantArgs(i), Env: []string{"PATH=/usr/bin:/bin"}})
					}
					var cmds []container.OpenCmd
					for _, t := range op["targets"].([]any) {
						tm := t.(map[string]any)
						cmds = append(cmds, container.OpenCmd{Path: tm["path"].(string), Flag: int(hx.Int(tm["flag"])), Perm: 0600, MkdirAll: tm["mkdir_all"] == true})
					}
					rs, oerr := env.Open(cmds)
					pat := ""
					var why []string
					for _, x := range rs {
						if x.File != nil {
							x.File.Close()
							pat += "o"
						} else {
							pat += "e"
							if x.Err != nil {
								why = append(why, x.Err.Error())
							}
						}
					}
					if len(why) > 0 {
						pat += " refused: " + strings.Join(why, "; ")
					}
					if oerr != nil {
						pat += "!" + oerr.Error()
					}
					opNote = pat
				case "reset":
					// the environment is returned to its pool: Reset after a program left files of every kind behind.  With mount
					// points below the tmpfs mounts the reset fails (and fails again the next time)
					if op["plant"] != false {
						env.Execve(ctx, container.ExecveParam{Args: plantArgs(i), Env: []string{"PATH=/usr/bin:/bin"}})
					}
					resetErr := ""
					for k := int64(0); k < hx.Int(op["times"]); k++ {
						if rerr := env.Reset(); rerr != nil {
							opNote += "e"
							resetErr = " failed: " + rerr.Error()
						} else {
							opNote += "o"
						}
					}
					opNote += resetErr
				case "open":
					rs, _ := env.Open([]container.OpenCmd{{Path: "/w/r" + fmt.Sprint(i%7), Flag: os.O_CREATE | os.O_RDWR, Perm: 0600}, {Path: "/w/nodir/x", Flag: os.O_RDONLY}})
					for _, x := range rs {
						if x.File != nil {
							x.File.Close()
						}
					}
				case "buildfail":
					// Build with a root under which the temporary directory cannot be created
					b := container.Builder{Root: "/nonexistent-root-" + token, TmpRoot: "x"}
					e2, berr := b.Build()
					if berr == nil {
						e2.Destroy()
					}
				case "buildfail_conf":
					// Build that gets as far as configuring the started container and fails there (a bind source that does not exist)
					e2, berr := hx.NewEnvWith(scratch, nil, func(b *container.Builder) {
						b.Mounts = append(b.Mounts, mount.Mount{Source: "/nonexistent-source-" + token, Target: "nx", Flags: unix.MS_BIND | unix.MS_RDONLY})
					})
					if berr == nil {
						e2.Destroy()
					}
				case "buildfail_init":
					// ... or whose InitCommand fails
					e2, berr := hx.NewEnvWith(scratch, nil, func(b *container.Builder) { b.InitCommand = []string{"/nonexistent-init-" + token} })
					if berr == nil {
						e2.Destroy()
					}
				case "builddestroy":
					e2, berr := hx.NewEnv(scratch, nil)
					if berr == nil {
						e2.Ping()
						e2.Destroy()
					}
				case "forkfail":
					// a launch that fails at exec: the child must be reaped
					r := &forkexec.Runner{Args: []string{"/nonexistent-" + token}, Env: []string{}}
					r.Start()
				case "destroy_broken", "destroy_dead":
					// an environment whose connection is already lost (a request too large for one message / the init killed from outside)
					// is destroyed: nothing of it may stay behind, not even as a zombie
					e2, err := hx.NewEnv(scratch, nil)
					if err != nil {
						panic(err)
					}
					if op["kind"] == "destroy_broken" {
						e2.Execve(ctx, container.ExecveParam{Args: []string{"/bin/true"}, Env: []string{"X=" + strings.Repeat("x", 40000)}})
					} else {
						syscall.Kill(container.InitPidVerif(e2), syscall.SIGKILL)
						time.Sleep(20 * time.Millisecond)
						e2.Ping()
					}
					e2.Destroy()
				case "idmapfail":
					// a launch whose id map the kernel refuses (an entry of size 0 / overlapping ranges): the launcher gives up cleanly
					r := &forkexec.Runner{Args: []string{"/bin/true"}, Env: []string{}, CloneFlags: unix.CLONE_NEWUSER}
					if i%2 == 0 {
						r.UIDMappings = []syscall.SysProcIDMap{{ContainerID: 0, HostID: 0, Size: 0}}
					} else {
						r.UIDMappings = []syscall.SysProcIDMap{{ContainerID: 0, HostID: 0, Size: 10}, {ContainerID: 5, HostID: 100, Size: 10}}
						r.GIDMappings = []syscall.SysProcIDMap{{ContainerID: 0, HostID: 0, Size: 1}}
					}
					r.Start()
				case "clonefail":
					// a launch whose clone itself fails (a descriptor that is not a cgroup directory)
					f, _ := os.Open("/dev/null")
					r := &forkexec.Runner{Args: []string{"/bin/true"}, Env: []string{}, CgroupFd: f.Fd()}
					r.Start()
					f.Close()
				}
			})
			cancel()
			if !okRet {
				return map[string]any{"hang": fmt.Sprintf("operation %d (%s) did not return within 15 s", i, op["kind"]), "log": log}
			}
			if opNote != "" {
				log = append(log, fmt.Sprintf("%s:%s", op["kind"], opNote))
			} else {
				log = append(log, fmt.Sprintf("%s:%d", op["kind"], int(res.Status)))
			}
			hostTrace = append(hostTrace, nfds(os.Getpid())-1)
			if envOp {
				env.Ping()
				n := nfds(container.InitPidVerif(env))
				initTrace = append(initTrace, n)
				if n != initBefore && len(initDev) < 5 {
					initDev = append(initDev, map[string]any{"op_index": i, "op": op, "outcome": log[len(log)-1], "init_fds_baseline": base["init_fds"],
						"init_fds_before_op": initBefore, "init_fds_after_op": n})
				}
			} else {
				initTrace = append(initTrace, -1)
			}
			if env != nil && op["kind"] == "container" && (op["cb"] != nil || hx.Int(op["timeout_ms"]) < 1000) {
				// right after a run that failed or was cut short: everything it started has been reaped by the init already
				// (not only once a later run sweeps)
				env.Ping()
				if n := len(children(container.InitPidVerif(env))); n > leftAfterRun {
					leftAfterRun = n
					leftAfterWhich = fmt.Sprintf("operation %d (%v)", i, op)
				}
			}
		}
		time.Sleep(50 * time.Millisecond)
		after := measure(env)
		out := map[string]any{"base": base, "after": after, "log": log, "token_procs": tokenProcs(token), "left_after_run": leftAfterRun, "left_after_which": leftAfterWhich,
			"elapsed_ms": time.Since(t0).Milliseconds(), "host_fds_trace": hostTrace, "init_fds_trace": initTrace, "init_fds_deviations": initDev}
		if env != nil {
			env.Destroy()
		}
		return out
	})
}

// h_c12: residue after histories of runs and environment operations.
package main

import (
	"syscall"
	"context"
	"fmt"
	"github.com/criyle/go-sandbox/pkg/mount"
	"golang.org/x/sys/unix"
	"os"
	"runtime"
	"strings"
	"time"

	"verifh/lib/hx"

	"github.com/criyle/go-sandbox/container"
	"github.com/criyle/go-sandbox/pkg/forkexec"
	"github.com/criyle/go-sandbox/ptracer"
	"github.com/criyle/go-sandbox/runner"
	"github.com/criyle/go-sandbox/runner/ptrace"
)

type allowAll struct{}

func (allowAll) CheckRead(string) ptracer.TraceAction    { return ptracer.TraceAllow }
func (allowAll) CheckWrite(string) ptracer.TraceAction   { return ptracer.TraceAllow }
func (allowAll) CheckStat(string) ptracer.TraceAction    { return ptracer.TraceAllow }
func (allowAll) CheckSyscall(string) ptracer.TraceAction { return ptracer.TraceAllow }

func nfds(pid int) int {
	es, err := os.ReadDir(fmt.Sprintf("/proc/%d/fd", pid))
	if err != nil {
		return -1
	}
	return len(es)
}

// children of all threads of pid (zombies included)
func children(pid int) []string {
	var r []string
	ts, _ := os.ReadDir(fmt.Sprintf("/proc/%d/task", pid))
	for _, t := range ts {
		b, _ := os.ReadFile(fmt.Sprintf("/proc/%d/task/%s/children", pid, t.Name()))
		r = append(r, strings.Fields(string(b))...)
	}
	return r
}

func tokenProcs(token string) int {
	n := 0
	es, _ := os.ReadDir("/proc")
	for _, e := range es {
		if e.Name()[0] < '0' || e.Name()[0] > '9' {
			continue
		}
		b, _ := os.ReadFile("/proc/" + e.Name() + "/cmdline")
		if strings.Contains(string(b), token) {
			st, _ := os.ReadFile("/proc/" + e.Name() + "/stat")
			if !strings.Contains(string(st), ") Z") {
				n++
			}
		}
	}
	return n
}

func measure(env container.Environment) map[string]any {
	runtime.GC()
	time.Sleep(30 * time.Millisecond)
	m := map[string]any{"fds": nfds(os.Getpid()) - 1, "goroutines": runtime.NumGoroutine(), "children": len(children(os.Getpid()))}
	if env != nil {
		ip := container.InitPidVerif(env)
		m["init_fds"] = nfds(ip) - 0
		m["init_children"] = len(children(ip))
	}
	return m
}

var devNull, selfExe *os.File

func main() {
	hx.Init()
	scratch := os.Getenv("VERIF_SCRATCH")
	devNull, _ = os.OpenFile("/dev/null", os.O_RDWR, 0)
	selfExe, _ = os.Open(hx.Target())
	limit := runner.Limit{TimeLimit: 20 * time.Second, MemoryLimit: runner.Size(1 << 30)}
	hx.Cases(func(c map[string]any) map[string]any {
		token := c["token"].(string)
		var env container.Environment
		var err error
		keepEnv := c["shared_env"] == true
		if keepEnv {
			env, err = hx.NewEnv(scratch, nil)
			if err != nil {
				return map[string]any{"harness_err": err.Error()}
			}
			env.Ping()
		}
		// warm up once so that lazily created runtime descriptors do not count as residue
		(&ptrace.Runner{Args: []string{hx.Target(), "exit", "0"}, Env: []string{}, WorkDir: "/", Limit: limit, Seccomp: hx.AllowAll(), Handler: allowAll{}}).Run(context.Background())
		base := measure(env)
		log := []string{}
		leftAfterRun, leftAfterWhich := 0, ""
		for i, raw := range c["ops"].([]any) {
			op := raw.(map[string]any)
			args := []string{}
			for _, a := range op["args"].([]any) {
				args = append(args, strings.ReplaceAll(a.(string), "TOKEN", token))
			}
			ctx, cancel := context.WithTimeout(context.Background(), time.Duration(hx.Int(op["timeout_ms"]))*time.Millisecond)
			if op["bg"] == true {
				// a context that outlives the run and is never cancelled (a service-wide context)
				cancel()
				ctx, cancel = context.Background(), func() {}
			}
			var res runner.Result
			okRet := hx.Guard(15*time.Second, func() {
				switch op["kind"].(string) {
				case "ptrace":
					r := &ptrace.Runner{Args: append([]string{hx.Target()}, args...), Env: []string{}, WorkDir: "/", Limit: limit, Seccomp: hx.AllowAll(), Handler: allowAll{}}
					res = r.Run(ctx)
				case "ns":
					r, e := hx.NsRunner(scratch, append([]string{"/vb/probe_target"}, args...))
					if e != nil {
						panic(e)
					}
					r.Limit = limit
					res = r.Run(ctx)
					os.RemoveAll(r.Root)
				case "container":
					p := container.ExecveParam{Args: append([]string{"/vb/probe_target"}, args...), Env: []string{"PATH=/usr/bin:/bin"}, SyncAfterExec: op["sync_after"] == true}
					if op["files"] == true {
						// descriptors travel with the command: whatever becomes of the run, none of them may stay behind in the container init
						p.Files = []uintptr{devNull.Fd(), devNull.Fd(), devNull.Fd()}
						if op["execfd"] == true {
							p.ExecFile = selfExe.Fd()
						}
					}
					if op["cb"] == "fail" {
						p.SyncFunc = func(int) error { return fmt.Errorf("no") }
					}
					if op["cb"] == "fail_late" {
						// the callback fails once the program (started already: sync after exec) has built its process tree
						p.SyncFunc = func(int) error { time.Sleep(150 * time.Millisecond); return fmt.Errorf("no") }
					}
					if len(args) > 0 && args[0] == "RAW" {
						p.Args = args[1:]
					}
					res = env.Execve(ctx, p)
				case "open":
					rs, _ := env.Open([]container.OpenCmd{{Path: "/w/r" + fmt.Sprint(i%7), Flag: os.O_CREATE | os.O_RDWR, Perm: 0600}, {Path: "/w/nodir/x", Flag: os.O_RDONLY}})
					for _, x := range rs {
						if x.File != nil {
							x.File.Close()
						}
					}
				case "buildfail":
					// Build with a root under which the temporary directory cannot be created
					b := container.Builder{Root: "/nonexistent-root-" + token, TmpRoot: "x"}
					e2, berr := b.Build()
					if berr == nil {
						e2.Destroy()
					}
				case "buildfail_conf":
					// Build that gets as far as configuring the started container and fails there (a bind source that does not exist)
					e2, berr := hx.NewEnvWith(scratch, nil, func(b *container.Builder) {
						b.Mounts = append(b.Mounts, mount.Mount{Source: "/nonexistent-source-" + token, Target: "nx", Flags: unix.MS_BIND | unix.MS_RDONLY})
					})
					if berr == nil {
						e2.Destroy()
					}
				case "buildfail_init":
					// ... or whose InitCommand fails
					e2, berr := hx.NewEnvWith(scratch, nil, func(b *container.Builder) { b.InitCommand = []string{"/nonexistent-init-" + token} })
					if berr == nil {
						e2.Destroy()
					}
				case "builddestroy":
					e2, berr := hx.NewEnv(scratch, nil)
					if berr == nil {
						e2.Ping()
						e2.Destroy()
					}
				case "forkfail":
					// a launch that fails at exec: the child must be reaped
					r := &forkexec.Runner{Args: []string{"/nonexistent-" + token}, Env: []string{}}
					r.Start()
				case "destroy_broken", "destroy_dead":
					// an environment whose connection is already lost (a request too large for one message / the init killed from outside)
					// is destroyed: nothing of it may stay behind, not even as a zombie
					e2, err := hx.NewEnv(scratch, nil)
					if err != nil {
						panic(err)
					}
					if op["kind"] == "destroy_broken" {
						e2.Execve(ctx, container.ExecveParam{Args: []string{"/bin/true"}, Env: []string{"X=" + strings.Repeat("x", 40000)}})
					} else {
						syscall.Kill(container.InitPidVerif(e2), syscall.SIGKILL)
						time.Sleep(20 * time.Millisecond)
						e2.Ping()
					}
					e2.Destroy()
				case "idmapfail":
					// a launch whose id map the kernel refuses (an entry of size 0 / overlapping ranges): the launcher gives up cleanly
					r := &forkexec.Runner{Args: []string{"/bin/true"}, Env: []string{}, CloneFlags: unix.CLONE_NEWUSER}
					if i%2 == 0 {
						r.UIDMappings = []syscall.SysProcIDMap{{ContainerID: 0, HostID: 0, Size: 0}}
					} else {
						r.UIDMappings = []syscall.SysProcIDMap{{ContainerID: 0, HostID: 0, Size: 10}, {ContainerID: 5, HostID: 100, Size: 10}}
						r.GIDMappings = []syscall.SysProcIDMap{{ContainerID: 0, HostID: 0, Size: 1}}
					}
					r.Start()
				case "clonefail":
					// a launch whose clone itself fails (a descriptor that is not a cgroup directory)
					f, _ := os.Open("/dev/null")
					r := &forkexec.Runner{Args: []string{"/bin/true"}, Env: []string{}, CgroupFd: f.Fd()}
					r.Start()
					f.Close()
				}
			})
			cancel()
			if !okRet {
				return map[string]any{"hang": fmt.Sprintf("operation %d (%s) did not return within 15 s", i, op["kind"]), "log": log}
			}
			log = append(log, fmt.Sprintf("%s:%d", op["kind"], int(res.Status)))
			if env != nil && op["kind"] == "container" && (op["cb"] != nil || hx.Int(op["timeout_ms"]) < 1000) {
				// right after a run that failed or was cut short: everything it started has been reaped by the init already
				// (not only once a later run sweeps)
				env.Ping()
				if n := len(children(container.InitPidVerif(env))); n > leftAfterRun {
					leftAfterRun = n
					leftAfterWhich = fmt.Sprintf("operation %d (%v)", i, op)
				}
			}
		}
		time.Sleep(50 * time.Millisecond)
		after := measure(env)
		out := map[string]any{"base": base, "after": after, "log": log, "token_procs": tokenProcs(token), "left_after_run": leftAfterRun, "left_after_which": leftAfterWhich}
		if env != nil {
			env.Destroy()
		}
		return out
	})
}

// h_c18: drives runner/ptrace/filehandler through its exported API.
// stdin: JSON lines (cases); stdout: JSON lines (observations).
package main

import (
	"bufio"
	"encoding/json"
	"fmt"
	"math/big"
	"os"
	"path/filepath"
	"sort"

	"github.com/criyle/go-sandbox/cmd/runprog/config"
	"github.com/criyle/go-sandbox/ptracer"
	"github.com/criyle/go-sandbox/runner/ptrace/filehandler"
)

type setJ struct {
	Entries []string `json:"entries"`
	False   []string `json:"false_entries,omitempty"` // keys stored with value false
	Root    bool     `json:"root"`
}

func (s setJ) build() filehandler.FileSet {
	fs := filehandler.NewFileSet()
	for _, e := range s.Entries {
		fs.Set[e] = true
	}
	for _, e := range s.False {
		fs.Set[e] = false
	}
	fs.SystemRoot = s.Root
	return fs
}

func dump(fs filehandler.FileSet) setJ {
	r := setJ{Root: fs.SystemRoot, Entries: []string{}}
	for k, v := range fs.Set {
		if v {
			r.Entries = append(r.Entries, k)
		}
	}
	sort.Strings(r.Entries)
	return r
}

type op struct {
	Op    string   `json:"op"` // add | addrange | addperm
	Set   string   `json:"set,omitempty"`
	Name  string   `json:"name,omitempty"`
	Names []string `json:"names,omitempty"`
	Work  string   `json:"work,omitempty"`
	Mode  int      `json:"mode,omitempty"`
}

type caseJ struct {
	ID   int    `json:"id"`
	Kind string `json:"kind"`
	// grid: every set x every path
	Sets  []setJ   `json:"sets,omitempty"`
	Paths []string `json:"paths,omitempty"`
	// smart
	Set  *setJ  `json:"set,omitempty"`
	Path string `json:"path,omitempty"`
	// cascade
	W, R, S, B *setJ
	Dir        string   `json:"dir,omitempty"`    // chdir here first (symlink farm)
	Relink     []string `json:"relink,omitempty"` // [link, target]: re-point this symbolic link before the query
	// ops
	Ops []op `json:"ops,omitempty"`
	// getconf: a history of configurations built in one process, then every handler asked about every path
	Confs   []confJ  `json:"confs,omitempty"`
	Queries []string `json:"queries,omitempty"`
	// counter
	Counter map[string]int `json:"counter,omitempty"`
	Hist    []string       `json:"hist,omitempty"`
}

type confJ struct {
	PType    string   `json:"ptype"`
	Work     string   `json:"work"`
	Arg0     string   `json:"arg0"`
	AddRead  []string `json:"add_read"`
	AddWrite []string `json:"add_write"`
}

func act(a ptracer.TraceAction) string {
	switch a {
	case ptracer.TraceAllow:
		return "allow"
	case ptracer.TraceBan:
		return "ban"
	case ptracer.TraceKill:
		return "kill"
	}
	return fmt.Sprintf("?%d", int(a))
}

func real(p string) string {
	f, err := filepath.EvalSymlinks(p)
	if err != nil {
		return ""
	}
	return f
}

func main() {
	in := bufio.NewReaderSize(os.Stdin, 1<<20)
	out := bufio.NewWriter(os.Stdout)
	defer out.Flush()
	dec := json.NewDecoder(in)
	enc := json.NewEncoder(out)
	for {
		var c caseJ
		if err := dec.Decode(&c); err != nil {
			break
		}
		res := map[string]any{"id": c.ID}
		switch c.Kind {
		case "grid":
			rows := make([]string, len(c.Sets))
			for i, sj := range c.Sets {
				fs := sj.build()
				m := new(big.Int)
				for j, p := range c.Paths {
					if fs.IsInSetSmart(p) {
						m.SetBit(m, j, 1)
					}
				}
				rows[i] = m.String()
			}
			res["rows"] = rows
		case "getconf":
			var hs []*filehandler.Handler
			for _, cf := range c.Confs {
				_, _, _, h := config.GetConf(cf.PType, cf.Work, []string{cf.Arg0}, cf.AddRead, cf.AddWrite, false)
				hs = append(hs, h)
			}
			ans := [][]string{}
			for _, h := range hs {
				row := []string{}
				for _, q := range c.Queries {
					row = append(row, act(h.CheckRead(q))+","+act(h.CheckWrite(q))+","+act(h.CheckStat(q)))
				}
				ans = append(ans, row)
			}
			res["answers"] = ans
		case "smart":
			fs := c.Set.build()
			res["in"] = fs.IsInSetSmart(c.Path)
		case "cascade":
			if len(c.Relink) == 2 {
				os.Remove(c.Relink[0])
				if err := os.Symlink(c.Relink[1], c.Relink[0]); err != nil {
					res["err"] = err.Error()
					break
				}
			}
			if c.Dir != "" {
				if err := os.Chdir(c.Dir); err != nil {
					res["err"] = err.Error()
					break
				}
			}
			ss := &filehandler.FileSets{Writable: c.W.build(), Readable: c.R.build(), Statable: c.S.build(), SoftBan: c.B.build()}
			h := &filehandler.Handler{FileSet: ss, SyscallCounter: filehandler.NewSyscallCounter()}
			res["real"] = real(c.Path)
			res["w"] = ss.IsWritableFile(c.Path)
			res["r"] = ss.IsReadableFile(c.Path)
			res["s"] = ss.IsStatableFile(c.Path)
			res["b"] = ss.IsSoftBanFile(c.Path)
			res["cw"] = act(h.CheckWrite(c.Path))
			res["cr"] = act(h.CheckRead(c.Path))
			res["cs"] = act(h.CheckStat(c.Path))
		case "ops":
			ss := filehandler.NewFileSets()
			pick := func(n string) *filehandler.FileSet {
				switch n {
				case "w":
					return &ss.Writable
				case "r":
					return &ss.Readable
				case "s":
					return &ss.Statable
				}
				return &ss.SoftBan
			}
			for _, o := range c.Ops {
				switch o.Op {
				case "add":
					pick(o.Set).Add(o.Name)
				case "addrange":
					pick(o.Set).AddRange(o.Names, o.Work)
				case "addperm":
					ss.AddFilePermission(o.Name, filehandler.FilePerm(o.Mode))
				}
			}
			res["w"], res["r"], res["s"], res["b"] = dump(ss.Writable), dump(ss.Readable), dump(ss.Statable), dump(ss.SoftBan)
		case "counter":
			sc := filehandler.NewSyscallCounter()
			sc.AddRange(c.Counter)
			h := &filehandler.Handler{FileSet: filehandler.NewFileSets(), SyscallCounter: sc}
			outs := []string{}
			for _, n := range c.Hist {
				outs = append(outs, act(h.CheckSyscall(n)))
			}
			res["acts"] = outs
			fin := map[string]int{}
			for k, v := range sc {
				fin[k] = v
			}
			res["final"] = fin
		}
		enc.Encode(res)
	}
}

// h_c10: one container environment used by SEVERAL callers at once, and callbacks that take time.
// case: {"id", "ops": [op ...]}; reply: {"obs": [...]}.
//
// Sequential ops (one call each): newenv, ping, reset, delete, symlink, open, exec, sleep, logs.
// {"op":"par","main":<exec op with a callback>,"others":[<op> ...]}: the main Execve is started; calls of "others" are made by
// other goroutines on the same environment, each at its own moment ("at": "callback" = once the callback of the main call
// has been entered, "start" = together with the main call, "before" = 20 ms before the main call); the callback stays inside
// until every "callback" caller stands right before its call, and then for another sync_ms milliseconds.
// What is reported per call: what it returned, when it began and ended (microseconds since the group began), whether it
// returned at all.  The callback also reports whether the program had already left its mark in the container when the
// callback was about to return (mark_at_callback_end) - a program that is synchronised before exec cannot have.
package main

import (
	"context"
	"errors"
	"io"
	"os"
	"strconv"
	"strings"
	"sync"
	"sync/atomic"
	"time"

	"verifh/lib/hx"

	"github.com/criyle/go-sandbox/container"
	"github.com/criyle/go-sandbox/pkg/pipe"
)

var (
	env     container.Environment
	errFile *os.File
	errOff  int64
	unshCg  bool
)

func errs(e error) any {
	if e == nil {
		return nil
	}
	return e.Error()
}

func strs(v any) []string {
	r := []string{}
	if v == nil {
		return r
	}
	for _, x := range v.([]any) {
		r = append(r, x.(string))
	}
	return r
}

func ensure(scratch string) error {
	if env != nil {
		return nil
	}
	var err error
	if errFile == nil {
		errFile, err = os.CreateTemp(scratch, "initerr")
		if err != nil {
			return err
		}
	}
	env, err = hx.NewEnvWith(scratch, errFile, func(b *container.Builder) { b.UnshareCgroupBeforeExec = unshCg })
	container.VerifTakeEvents()
	st, _ := errFile.Stat()
	errOff = st.Size()
	return err
}

func contLog() []string {
	time.Sleep(3 * time.Millisecond)
	b, _ := os.ReadFile(errFile.Name())
	if int64(len(b)) < errOff {
		return nil
	}
	var r []string
	for _, l := range strings.Split(string(b[errOff:]), "\n") {
		if l != "" {
			r = append(r, l)
		}
	}
	return r
}

// hooks of a callback: entered is called when the callback begins, leaving right before it returns
type cbHooks struct {
	entered func()
	leaving func()
}

// call makes ONE call of the API on e and reports what came back
func call(e container.Environment, op map[string]any, hooks *cbHooks) map[string]any {
	kind := op["op"].(string)
	o := map[string]any{"op": kind}
	switch kind {
	case "ping":
		o["err"] = errs(e.Ping())
	case "reset":
		o["err"] = errs(e.Reset())
	case "delete":
		o["err"] = errs(e.Delete(op["path"].(string)))
	case "symlink":
		res, err := e.Symlink([]container.SymbolicLink{{LinkPath: op["link"].(string), Target: op["target"].(string)}})
		o["err"] = errs(err)
		rs := []any{}
		for _, x := range res {
			rs = append(rs, errs(x))
		}
		o["results"] = rs
	case "open":
		res, err := e.Open([]container.OpenCmd{{Path: op["path"].(string), Flag: int(hx.Int(op["flag"])), Perm: os.FileMode(hx.Int(op["perm"]))}})
		o["err"] = errs(err)
		o["n_results"] = len(res)
		for _, r := range res {
			if r.Err != nil {
				o["item_err"] = r.Err.Error()
				continue
			}
			if w, _ := op["write"].(string); w != "" {
				_, werr := r.File.WriteString(w)
				o["write_err"] = errs(werr)
			}
			if op["read"] == true {
				b, rerr := io.ReadAll(io.LimitReader(r.File, 1<<12))
				o["content"], o["read_err"] = string(b), errs(rerr)
			}
			r.File.Close()
		}
	case "exec":
		buf, err := pipe.NewBuffer(1 << 20)
		if err != nil {
			o["harness_err"] = err.Error()
			return o
		}
		null, _ := os.Open("/dev/null")
		ctx, cancel := context.WithTimeout(context.Background(), 8*time.Second)
		p := container.ExecveParam{Args: strs(op["args"]), Env: []string{"PATH=/usr/bin:/bin"},
			Files: []uintptr{null.Fd(), buf.W.Fd(), buf.W.Fd()}, SyncAfterExec: op["sync_after"] == true}
		if s, _ := op["sync"].(string); s != "" {
			d := time.Duration(hx.Int(op["sync_ms"])) * time.Millisecond
			calls := 0
			p.SyncFunc = func(pid int) error {
				calls++
				o["sync_pid"], o["sync_calls"] = pid, calls
				if hooks != nil && hooks.entered != nil {
					hooks.entered()
				}
				time.Sleep(d)
				if hooks != nil && hooks.leaving != nil {
					hooks.leaving()
				}
				if s == "fail" {
					return errors.New("callback says no")
				}
				return nil
			}
		}
		if op["cancel_ms"] != nil {
			ms := hx.Int(op["cancel_ms"])
			go func() { time.Sleep(time.Duration(ms) * time.Millisecond); cancel() }()
		}
		r := e.Execve(ctx, p)
		cancel()
		null.Close()
		buf.W.Close()
		// the output is read for a bounded time only: a descendant that survives holds the pipe, which is not what is examined here
		select {
		case <-buf.Done:
			o["stdout"] = strings.TrimSpace(buf.Buffer.String())
		case <-time.After(2 * time.Second):
			o["stdout_held_open"] = true
		}
		o["status"], o["exit"], o["errmsg"] = int(r.Status), r.ExitStatus, r.Error
	}
	return o
}

func main() {
	hx.Init()
	scratch := os.Getenv("VERIF_SCRATCH")
	hung := false
	hx.Cases(func(c map[string]any) map[string]any {
		obs := []any{}
		if hung {
			// a call never returned; it may hold the fork lock for ever, nothing more can be started in this process
			return map[string]any{"obs": obs, "hang": true, "skipped_after_hangs": true}
		}
		for _, raw := range c["ops"].([]any) {
			op := raw.(map[string]any)
			kind := op["op"].(string)
			if kind != "newenv" {
				if err := ensure(scratch); err != nil {
					return map[string]any{"harness_err": err.Error()}
				}
			}
			t0 := time.Now()
			us := func() int64 { return time.Since(t0).Microseconds() }
			var mu sync.Mutex // guards o and its parts against the guard below
			o := map[string]any{"op": kind}
			finished := make(chan struct{})
			e := env
			go func() {
				defer close(finished)
				switch kind {
				case "newenv":
					if env != nil {
						env.Destroy()
						env = nil
					}
					unshCg = op["unshare_cgroup"] == true
					err := ensure(scratch)
					mu.Lock()
					o["err"] = errs(err)
					mu.Unlock()
				case "sleep":
					time.Sleep(time.Duration(hx.Int(op["ms"])) * time.Millisecond)
				case "logs":
					e.Ping()
					h, ct := container.VerifTakeEvents(), contLog()
					mu.Lock()
					o["host"], o["cont"] = h, ct
					mu.Unlock()
				case "par":
					mainOp := op["main"].(map[string]any)
					others := op["others"].([]any)
					entered := make(chan struct{})
					var once sync.Once
					var ready, wantReady int32
					for _, x := range others {
						if at, _ := x.(map[string]any)["at"].(string); at == "callback" || at == "" {
							wantReady++
						}
					}
					res := make([]map[string]any, len(others))
					mu.Lock()
					o["others"] = res // filled in as the calls return
					mu.Unlock()
					var wg sync.WaitGroup
					for i, x := range others {
						oo := x.(map[string]any)
						at, _ := oo["at"].(string)
						wg.Add(1)
						go func(i int) {
							defer wg.Done()
							switch at {
							case "start", "before":
							default:
								<-entered
								atomic.AddInt32(&ready, 1)
							}
							b := us()
							r := call(e, oo, nil)
							r["begin_us"], r["end_us"], r["returned"] = b, us(), true
							mu.Lock()
							res[i] = r
							mu.Unlock()
						}(i)
						if at == "before" {
							time.Sleep(20 * time.Millisecond)
						}
					}
					cb := map[string]any{}
					mark, _ := op["mark"].(string)
					hooks := &cbHooks{
						entered: func() {
							mu.Lock()
							cb["enter_us"] = us()
							mu.Unlock()
							once.Do(func() { close(entered) })
							// until every caller that waits for the callback stands right before its call (2 s at most)
							for k := 0; k < 2000 && atomic.LoadInt32(&ready) < wantReady; k++ {
								time.Sleep(time.Millisecond)
							}
						},
						leaving: func() {
							mu.Lock()
							defer mu.Unlock()
							cb["leave_us"] = us()
							if mark != "" {
								// what the program writes when it runs, looked at from outside through the root of the container init
								_, err := os.Stat("/proc/" + strconv.Itoa(container.InitPidVerif(e)) + "/root" + mark)
								cb["mark_at_callback_end"] = err == nil
							}
						},
					}
					b := us()
					m := call(e, mainOp, hooks)
					once.Do(func() { close(entered) }) // the callback was never invoked: let the others go all the same
					m["begin_us"], m["end_us"], m["returned"] = b, us(), true
					mu.Lock()
					o["main"], o["callback"] = m, cb
					mu.Unlock()
					wg.Wait()
				default:
					r := call(e, op, nil)
					mu.Lock()
					for k, v := range r {
						o[k] = v
					}
					mu.Unlock()
				}
			}()
			limit := 12 * time.Second
			if kind == "par" {
				limit = 20 * time.Second
			}
			select {
			case <-finished:
			case <-time.After(limit):
				// a call hangs: report what is known and abandon this environment (and the rest of the history)
				mu.Lock()
				h := map[string]any{"op": kind, "hang": true, "ms": time.Since(t0).Milliseconds()}
				for k, v := range o {
					if k != "op" {
						h[k] = snapshot(v)
					}
				}
				if _, ok := o["main"]; kind == "par" && !ok {
					h["main"] = map[string]any{"returned": false}
				}
				mu.Unlock()
				h["host_log_so_far"] = container.VerifTakeEvents()
				h["container_log_so_far"] = contLog()
				obs = append(obs, h)
				env = nil
				hung = true
				return map[string]any{"obs": obs, "hang": true}
			}
			o["ms"] = time.Since(t0).Milliseconds()
			obs = append(obs, o)
		}
		return map[string]any{"obs": obs}
	})
	if env != nil && !hung {
		env.Destroy()
	}
}

// snapshot copies the maps a goroutine that never ends may still write to
func snapshot(v any) any {
	switch x := v.(type) {
	case map[string]any:
		r := map[string]any{}
		for k, y := range x {
			r[k] = snapshot(y)
		}
		return r
	case []map[string]any:
		r := []any{}
		for _, y := range x {
			if y == nil {
				r = append(r, map[string]any{"returned": false})
			} else {
				r = append(r, snapshot(y))
			}
		}
		return r
	}
	return v
}

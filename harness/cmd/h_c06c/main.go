// h_c06c: descriptor table of a program started inside a container: exactly the caller's list, nothing of the
// container init (its stdio, the control socket, whatever it opened while setting up) and nothing of the launch.
package main

import (
	"context"
	"encoding/json"
	"fmt"
	"io"
	"os"
	"path/filepath"
	"syscall"
	"time"

	"verifh/lib/hx"

	"github.com/criyle/go-sandbox/container"
)

func ident(f *os.File) [2]uint64 {
	var st syscall.Stat_t
	syscall.Fstat(int(f.Fd()), &st)
	return [2]uint64{st.Dev, st.Ino}
}

func main() {
	hx.Init()
	scratch := os.Getenv("VERIF_SCRATCH")
	errf, err := os.OpenFile(filepath.Join(scratch, "init-stderr"), os.O_CREATE|os.O_RDWR, 0600)
	if err != nil {
		panic(err)
	}
	if len(os.Args) > 1 && os.Args[1] == "history" {
		runHistories(scratch, errf) // history.go
		return
	}
	var env container.Environment
	defer func() {
		if env != nil {
			env.Destroy()
		}
	}()
	hx.Cases(func(c map[string]any) map[string]any {
		if env == nil {
			if env, err = hx.NewEnv(scratch, errf); err != nil {
				return map[string]any{"harness_err": err.Error()}
			}
		}
		id := int(hx.Int(c["id"]))
		// distinct host files; the list refers to them by index (repeats allowed)
		var pool []*os.File
		for i := 0; i < int(hx.Int(c["pool"])); i++ {
			f, e := os.OpenFile(filepath.Join(scratch, fmt.Sprintf("h%d_%d", id, i)), os.O_CREATE|os.O_RDWR, 0600)
			if e != nil {
				return map[string]any{"harness_err": e.Error()}
			}
			defer f.Close()
			pool = append(pool, f)
		}
		var files []uintptr
		want := [][2]uint64{}
		for _, x := range c["list"].([]any) {
			f := pool[int(hx.Int(x))]
			files = append(files, f.Fd())
			want = append(want, ident(f))
		}
		report := fmt.Sprintf("/w/fds%d.json", id)
		p := container.ExecveParam{Args: []string{"/vb/probe_target", "fds", report, "1024"}, Env: []string{}, Files: files,
			SyncAfterExec: c["sync_after"] == true}
		if c["sync"] == true {
			p.SyncFunc = func(int) error { return nil }
		}
		if c["execfd"] == true {
			ef, e := os.Open(hx.Target())
			if e != nil {
				return map[string]any{"harness_err": e.Error()}
			}
			defer ef.Close()
			p.ExecFile = ef.Fd()
		}
		if c["script"] == true {
			// the executable descriptor is an interpreter script: whether or not such a launch is supported, the descriptor must not stay
			// open in whatever runs
			sp := filepath.Join(scratch, fmt.Sprintf("script%d", id))
			os.WriteFile(sp, []byte("#!/vb/probe_target fdsenv\n"), 0755)
			sf, e := os.Open(sp)
			if e != nil {
				return map[string]any{"harness_err": e.Error()}
			}
			defer sf.Close()
			p.ExecFile = sf.Fd()
			p.Env = []string{"VERIF_OUT=" + report}
		}
		if c["cgroupfd"] == true {
			cf, e := os.Open("/sys/fs/cgroup/unified")
			if e != nil {
				return map[string]any{"skipped": "no cgroup2 hierarchy: " + e.Error()}
			}
			defer cf.Close()
			p.CgroupFD = cf.Fd()
		}
		ctx, cancel := context.WithTimeout(context.Background(), 10*time.Second)
		res := env.Execve(ctx, p)
		cancel()
		out := map[string]any{"status": int(res.Status), "error": res.Error, "want": want, "init_stderr": ident(errf)}
		rs, e := env.Open([]container.OpenCmd{{Path: report, Flag: os.O_RDONLY}})
		if e != nil || len(rs) != 1 || rs[0].Err != nil {
			out["no_report"] = fmt.Sprint(e, rs)
			return out
		}
		b, _ := io.ReadAll(rs[0].File)
		rs[0].File.Close()
		var t [][5]uint64
		if json.Unmarshal(b, &t) != nil {
			out["no_report"] = "unparsable: " + string(b)
			return out
		}
		out["table"] = t
		return out
	})
}

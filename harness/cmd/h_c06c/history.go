// h_c06c history (selected by the argument "history"): histories of requests inside ONE container, then the descriptor table of a program started in it.
// Every case replays a list of steps through the public API. A step of kind "probe"
// starts the table probe with a descriptor list; every other kind is a request that carries descriptors of its own
// (a list, an executable descriptor, a cgroup descriptor) and that is refused by the container, fails while
// launching, is vetoed by the caller's SyncFunc, is cancelled, or simply runs. Whatever happened before, a program
// started afterwards has exactly its own list open: the identities of all descriptors that any earlier request
// carried are reported, so that a foreign descriptor in a table can be attributed to the request it came from.
package main

import (
	"context"
	"encoding/json"
	"errors"
	"fmt"
	"io"
	"os"
	"path/filepath"
	"syscall"
	"time"

	"verifh/lib/hx"

	"github.com/criyle/go-sandbox/container"
	"github.com/criyle/go-sandbox/pkg/rlimit"
)

type probeConf struct {
	pool []*os.File
	list []int
}

func runHistories(scratch string, errf *os.File) {
	// One container serves consecutive cases as long as every probe in it saw exactly its list (so that a foreign
	// descriptor is reported by the first program that inherits it); a case marked "fresh", and the case after one
	// whose container showed anything else, get a new container.
	var env container.Environment
	serial, served := 0, 0
	defer func() {
		if env != nil {
			env.Destroy()
		}
	}()
	hx.Cases(func(c map[string]any) (ret map[string]any) {
		id := int(hx.Int(c["id"]))
		if env != nil && c["fresh"] == true {
			env.Destroy()
			env = nil
		}
		if env == nil {
			root := filepath.Join(scratch, fmt.Sprintf("e%d", id))
			if e := os.MkdirAll(root, 0755); e != nil {
				return map[string]any{"harness_err": e.Error()}
			}
			var e error
			if env, e = hx.NewEnv(root, errf); e != nil {
				env = nil
				return map[string]any{"harness_err": "build: " + e.Error()}
			}
			serial++
			served = 0
		}
		clean := true
		defer func(servedBefore int) {
			if ret != nil {
				ret["container"] = serial
				ret["requests_before"] = servedBefore
			}
			if !clean {
				env.Destroy()
				env = nil
			}
		}(served)
		var toClose []*os.File
		defer func() {
			for _, f := range toClose {
				f.Close()
			}
		}()
		fresh := func(si int, tag string, i int) (*os.File, error) {
			f, e := os.OpenFile(filepath.Join(scratch, fmt.Sprintf("f%d_%d_%s%d", id, si, tag, i)), os.O_CREATE|os.O_RDWR, 0600)
			if e == nil {
				toClose = append(toClose, f)
			}
			return f, e
		}
		var last *probeConf
		var steps []map[string]any
		for si, sv := range c["steps"].([]any) {
			s := sv.(map[string]any)
			kind, _ := s["kind"].(string)
			out := map[string]any{"kind": kind}
			steps = append(steps, out)
			served++
			carried := map[string][2]uint64{} // role -> identity of every descriptor this request carries
			p := container.ExecveParam{Env: []string{}, SyncAfterExec: s["sync_after"] == true}
			if s["sync"] == true {
				p.SyncFunc = func(int) error { return nil }
			}
			if kind == "open" || kind == "ping" || kind == "reset" {
				switch kind {
				case "ping":
					out["error"] = fmt.Sprint(env.Ping())
				case "reset":
					out["error"] = fmt.Sprint(env.Reset())
				case "open":
					rs, e := env.Open([]container.OpenCmd{{Path: "/vb/probe_target", Flag: os.O_RDONLY}, {Path: "/w/absent", Flag: os.O_RDONLY},
						{Path: fmt.Sprintf("/w/made%d", si), Flag: os.O_CREATE | os.O_WRONLY, Perm: 0600}})
					out["error"] = fmt.Sprint(e)
					for _, r := range rs {
						if r.File != nil {
							r.File.Close()
						}
					}
				}
				continue
			}
			// descriptor list of the request
			var conf *probeConf
			if kind == "probe" && s["again"] == true && last != nil {
				conf = last // the same configuration started once more
			} else {
				conf = &probeConf{}
				for i := 0; i < int(hx.Int(s["pool"])); i++ {
					f, e := fresh(si, "l", i)
					if e != nil {
						return map[string]any{"harness_err": e.Error()}
					}
					conf.pool = append(conf.pool, f)
				}
				for _, x := range s["list"].([]any) {
					conf.list = append(conf.list, int(hx.Int(x)))
				}
			}
			want := [][2]uint64{}
			for k, x := range conf.list {
				f := conf.pool[x]
				p.Files = append(p.Files, f.Fd())
				want = append(want, ident(f))
				carried[fmt.Sprintf("list[%d]", k)] = ident(f)
			}
			// executable descriptor
			switch s["execfd"] {
			case "target":
				ef, e := os.Open(hx.Target())
				if e != nil {
					return map[string]any{"harness_err": e.Error()}
				}
				toClose = append(toClose, ef)
				p.ExecFile = ef.Fd()
				carried["exec"] = ident(ef)
			case "data": // a regular file without any execute permission
				ef, e := fresh(si, "x", 0)
				if e != nil {
					return map[string]any{"harness_err": e.Error()}
				}
				ef.WriteString("not a program\n")
				p.ExecFile = ef.Fd()
				carried["exec"] = ident(ef)
			case "dir":
				d := filepath.Join(scratch, fmt.Sprintf("d%d_%d", id, si))
				os.MkdirAll(d, 0755)
				ef, e := os.Open(d)
				if e != nil {
					return map[string]any{"harness_err": e.Error()}
				}
				toClose = append(toClose, ef)
				p.ExecFile = ef.Fd()
				carried["exec"] = ident(ef)
			}
			if s["cgroupfd"] == true {
				cf, e := os.Open("/sys/fs/cgroup/unified")
				if e != nil {
					out["skipped"] = "no cgroup2 hierarchy: " + e.Error()
					continue
				}
				toClose = append(toClose, cf)
				p.CgroupFD = cf.Fd()
				carried["cgroup"] = ident(cf)
			}
			out["carried"] = carried
			report := fmt.Sprintf("/w/fds%d_%d.json", id, si)
			timeout := 20 * time.Second
			switch kind {
			case "probe":
				p.Args = []string{"/vb/probe_target", "fds", report, "1024"}
			case "noargs":
				p.Args = nil
			case "emptyargs":
				p.Args = []string{}
			case "notinpath": // a bare name that no directory of PATH has: refused by the container before the launch
				p.Args = []string{"no-such-program-anywhere", "x"}
			case "notfound": // an absolute path that does not exist: the launch fails at exec
				p.Args = []string{"/vb/no-such-program", "x"}
			case "badexec": // the executable descriptor decides (execfd = data | dir): the launch fails at exec
				p.Args = []string{"/vb/probe_target", "exit", "0"}
			case "badrlimit": // soft limit above the hard limit: the launch fails at setrlimit
				p.Args = []string{"/vb/probe_target", "exit", "0"}
				p.RLimits = []rlimit.RLimit{{Res: syscall.RLIMIT_NOFILE, Rlim: syscall.Rlimit{Cur: 64, Max: 32}}}
			case "veto": // the caller's SyncFunc refuses the start
				p.Args = []string{"/vb/probe_target", "exit", "0"}
				p.SyncFunc = func(int) error { return errors.New("vetoed by the caller") }
			case "cancel": // a running program is cancelled
				p.Args = []string{"/vb/probe_target", "sleep", "60000"}
				timeout = 300 * time.Millisecond
			case "exit":
				p.Args = []string{"/vb/probe_target", "exit", "3"}
			case "killed":
				p.Args = []string{"/vb/probe_target", "sig", "9"}
			default:
				return map[string]any{"harness_err": "unknown step kind " + kind}
			}
			ctx, cancel := context.WithTimeout(context.Background(), timeout)
			res := env.Execve(ctx, p)
			cancel()
			out["status"] = int(res.Status)
			out["error"] = res.Error
			if kind != "probe" {
				continue
			}
			last = conf
			out["want"] = want
			if int(res.Status) != 1 {
				clean = false
			}
			rs, e := env.Open([]container.OpenCmd{{Path: report, Flag: os.O_RDONLY}})
			if e != nil || len(rs) != 1 || rs[0].Err != nil {
				out["no_report"] = fmt.Sprint(e, rs)
				clean = false
				continue
			}
			b, _ := io.ReadAll(rs[0].File)
			rs[0].File.Close()
			var t [][5]uint64
			if json.Unmarshal(b, &t) != nil {
				out["no_report"] = "unparsable: " + string(b)
				clean = false
				continue
			}
			out["table"] = t
			if len(t) != len(want) {
				clean = false
			}
			for k, row := range t {
				if k >= len(want) || row[0] != uint64(k) || row[1] != want[k][0] || row[2] != want[k][1] || row[4] != 0 {
					clean = false
				}
			}
		}
		return map[string]any{"steps": steps, "init_stderr": ident(errf)}
	})
}

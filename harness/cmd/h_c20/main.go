// h_c20: histories of cgroup operations on the real hierarchy of this machine (v1; v2 when started with cgroup2
// mounted at /sys/fs/cgroup in a private mount namespace), and the readers of statistics files on synthetic directories.
package main

import (
	"strconv"
	"fmt"
	"os"
	"os/exec"
	"path/filepath"
	"strings"
	"sync"
	"syscall"
	"time"

	"verifh/lib/hx"

	"github.com/criyle/go-sandbox/pkg/cgroup"
)

var ctrls = []string{"cpu", "cpuset", "cpuacct", "memory", "pids"}

func exists(prefix string) map[string]bool {
	r := map[string]bool{}
	if cgroup.DetectedCgroupType == cgroup.TypeV1 {
		for _, c := range ctrls {
			_, err := os.Stat(filepath.Join("/sys/fs/cgroup", c, prefix))
			r[c] = err == nil
		}
	} else {
		_, err := os.Stat(filepath.Join("/sys/fs/cgroup", prefix))
		r["v2"] = err == nil
	}
	return r
}

// where returns, per thread of pid, the group of every hierarchy we care about
func where(pid int) map[string][]string {
	r := map[string][]string{}
	tasks, _ := os.ReadDir(fmt.Sprintf("/proc/%d/task", pid))
	for _, t := range tasks {
		b, _ := os.ReadFile(fmt.Sprintf("/proc/%d/task/%s/cgroup", pid, t.Name()))
		for _, ln := range strings.Split(string(b), "\n") {
			f := strings.SplitN(ln, ":", 3)
			if len(f) != 3 {
				continue
			}
			key := f[1]
			if key == "" {
				key = "v2"
			}
			r[key] = append(r[key], f[2])
		}
	}
	return r
}

func errs(e error) any {
	if e == nil {
		return nil
	}
	return e.Error()
}

// readLimits reads the limit files of the group from the kernel
func readLimits(pre string, o map[string]any) {
	rd := func(p string) string { b, _ := os.ReadFile(p); return strings.TrimSpace(string(b)) }
	o["mem"] = rd(filepath.Join("/sys/fs/cgroup/memory", pre, "memory.limit_in_bytes"))
	o["pids"] = rd(filepath.Join("/sys/fs/cgroup/pids", pre, "pids.max"))
	o["quota"] = rd(filepath.Join("/sys/fs/cgroup/cpu", pre, "cpu.cfs_quota_us"))
	o["period"] = rd(filepath.Join("/sys/fs/cgroup/cpu", pre, "cpu.cfs_period_us"))
	o["cpuset"] = rd(filepath.Join("/sys/fs/cgroup/cpuset", pre, "cpuset.cpus"))
}

// ctrlsOf: the controller set an operation asks for ("ctrls": names), all of them when it does not say
func ctrlsOf(op map[string]any, all *cgroup.Controllers) *cgroup.Controllers {
	l, ok := op["ctrls"].([]any)
	if !ok || cgroup.DetectedCgroupType == cgroup.TypeV2 {
		return all
	}
	ct := &cgroup.Controllers{}
	for _, n := range l {
		switch n {
		case "cpu":
			ct.CPU = true
		case "cpuset":
			ct.CPUSet = true
		case "cpuacct":
			ct.CPUAcct = true
		case "memory":
			ct.Memory = true
		case "pids":
			ct.Pids = true
		}
	}
	return ct
}

// children counts the sub-directories of group prefix, per hierarchy
func children(prefix string) map[string]int {
	r := map[string]int{}
	count := func(key, dir string) {
		es, err := os.ReadDir(dir)
		if err != nil {
			r[key] = -1
			return
		}
		n := 0
		for _, e := range es {
			if e.IsDir() {
				n++
			}
		}
		r[key] = n
	}
	if cgroup.DetectedCgroupType == cgroup.TypeV1 {
		for _, c := range ctrls {
			if _, err := os.Stat(filepath.Join("/sys/fs/cgroup", c, prefix)); err == nil {
				count(c, filepath.Join("/sys/fs/cgroup", c, prefix))
			}
		}
	} else {
		count("v2", filepath.Join("/sys/fs/cgroup", prefix))
	}
	return r
}

func main() {
	hx.Init()
	all := &cgroup.Controllers{CPU: true, CPUSet: true, CPUAcct: true, Memory: true, Pids: true}
	if cgroup.DetectedCgroupType == cgroup.TypeV2 {
		all = &cgroup.Controllers{}
	}
	hx.Cases(func(c map[string]any) map[string]any {
		if c["mode"] == "parse" {
			dir, _ := os.MkdirTemp(os.Getenv("VERIF_SCRATCH"), "stat")
			defer os.RemoveAll(dir)
			for name, content := range c["files"].(map[string]any) {
				os.WriteFile(filepath.Join(dir, name), []byte(content.(string)), 0644)
			}
			v2 := cgroup.NewV2AtVerif(dir, &cgroup.Controllers{CPU: true, Memory: true, Pids: true})
			v1 := cgroup.NewV1AtVerif(dir)
			o := map[string]any{}
			put := func(k string, v uint64, e error) {
				if e != nil {
					o[k] = "err"
				} else {
					o[k] = fmt.Sprint(v)
				}
			}
			v, e := v2.CPUUsage()
			put("v2_cpu", v, e)
			v, e = v2.MemoryUsage()
			put("v2_mem", v, e)
			v, e = v2.MemoryMaxUsage()
			put("v2_mempeak", v, e)
			v, e = v2.ProcessPeak()
			put("v2_pidspeak", v, e)
			v, e = v1.CPUUsage()
			put("v1_cpu", v, e)
			v, e = v1.MemoryUsage()
			put("v1_mem", v, e)
			v, e = v1.MemoryMaxUsage()
			put("v1_mempeak", v, e)
			ps, e := v2.Processes()
			if e != nil {
				o["procs"] = "err"
			} else {
				o["procs"] = ps
			}
			return o
		}
		handles := map[int]cgroup.Cgroup{}
		procs := map[int]*exec.Cmd{}
		defer func() {
			for _, p := range procs {
				p.Process.Kill()
				p.Wait()
			}
		}()
		hnd := func(v any) cgroup.Cgroup { return handles[int(hx.Int(v))] }
		obs := []map[string]any{}
		for _, oo := range c["ops"].([]any) {
			op := oo.(map[string]any)
			o := map[string]any{"op": op["op"]}
			if hv, ok := op["h"]; ok && handles[int(hx.Int(hv))] == nil {
				o["err"] = "harness: no such handle"
				obs = append(obs, o)
				continue
			}
			switch op["op"] {
			case "pkgnew":
				h, err := cgroup.New(op["prefix"].(string), ctrlsOf(op, all))
				o["err"] = errs(err)
				if err == nil {
					handles[int(hx.Int(op["as"]))] = h
					o["existing"] = h.Existing()
				}
			case "open":
				h, err := cgroup.OpenExisting(op["prefix"].(string), ctrlsOf(op, all))
				o["err"] = errs(err)
				if err == nil {
					handles[int(hx.Int(op["as"]))] = h
					o["existing"] = h.Existing()
				}
			case "new":
				h, err := hnd(op["h"]).New(op["name"].(string))
				o["err"] = errs(err)
				if err == nil {
					handles[int(hx.Int(op["as"]))] = h
					o["existing"] = h.Existing()
				}
			case "random":
				h, err := hnd(op["h"]).Random(op["pattern"].(string))
				o["err"] = errs(err)
				if err == nil {
					handles[int(hx.Int(op["as"]))] = h
					o["existing"] = h.Existing()
					o["name"] = fmt.Sprint(h)
				}
			case "concurrent_new":
				// n goroutines create the same name at the same instant
				n := int(hx.Int(op["n"]))
				base := int(hx.Int(op["as"]))
				res := make([]cgroup.Cgroup, n)
				es := make([]error, n)
				var wg sync.WaitGroup
				start := make(chan struct{})
				for i := 0; i < n; i++ {
					wg.Add(1)
					go func(i int) {
						defer wg.Done()
						<-start
						if op["pkg"] == true {
							res[i], es[i] = cgroup.New(op["name"].(string), all)
						} else {
							res[i], es[i] = hnd(op["h"]).New(op["name"].(string))
						}
					}(i)
				}
				close(start)
				wg.Wait()
				ex := []any{}
				for i := range res {
					if es[i] != nil {
						ex = append(ex, "err:"+es[i].Error())
						continue
					}
					handles[base+i] = res[i]
					ex = append(ex, res[i].Existing())
				}
				o["existing"] = ex
			case "concurrent_random":
				n := int(hx.Int(op["n"]))
				base := int(hx.Int(op["as"]))
				res := make([]cgroup.Cgroup, n)
				var wg sync.WaitGroup
				for i := 0; i < n; i++ {
					wg.Add(1)
					go func(i int) { defer wg.Done(); res[i], _ = hnd(op["h"]).Random(op["pattern"].(string)) }(i)
				}
				wg.Wait()
				names := []string{}
				for i := range res {
					if res[i] != nil {
						handles[base+i] = res[i]
						names = append(names, fmt.Sprint(res[i]))
					}
				}
				o["names"] = names
			case "random_many":
				// a population of groups from Random under one parent, all alive at the same time; made by `workers` goroutines
				n, base, workers := int(hx.Int(op["n"])), int(hx.Int(op["as"])), int(hx.Int(op["workers"]))
				if workers < 1 {
					workers = 1
				}
				res := make([]cgroup.Cgroup, n)
				es := make([]error, n)
				parent := hnd(op["h"])
				var wg sync.WaitGroup
				for w := 0; w < workers; w++ {
					wg.Add(1)
					go func(w int) {
						defer wg.Done()
						for i := w; i < n; i += workers {
							res[i], es[i] = parent.Random(op["pattern"].(string))
						}
					}(w)
				}
				wg.Wait()
				names, ex := []string{}, []any{}
				for i := range res {
					if es[i] != nil || res[i] == nil {
						names = append(names, "")
						ex = append(ex, "err:"+fmt.Sprint(es[i]))
						continue
					}
					handles[base+i] = res[i]
					names = append(names, fmt.Sprint(res[i]))
					ex = append(ex, res[i].Existing())
				}
				o["names"], o["existing"] = names, ex
				o["children"] = children(op["prefix"].(string))
			case "destroy_many":
				n, base := int(hx.Int(op["n"])), int(hx.Int(op["as"]))
				nerr, first := 0, ""
				for i := 0; i < n; i++ {
					if h := handles[base+i]; h != nil {
						if err := h.Destroy(); err != nil {
							if nerr == 0 {
								first = fmt.Sprint(h) + ": " + err.Error()
							}
							nerr++
						}
						delete(handles, base+i)
					}
				}
				o["errors"], o["first_error"] = nerr, first
				o["children"] = children(op["prefix"].(string))
			case "rawaddproc":
				// somebody else (another manager, an earlier attempt) puts the process into the group's directory of ONE controller
				dir := filepath.Join("/sys/fs/cgroup", op["ctrl"].(string), op["prefix"].(string))
				if cgroup.DetectedCgroupType == cgroup.TypeV2 {
					dir = filepath.Join("/sys/fs/cgroup", op["prefix"].(string))
				}
				o["err"] = errs(os.WriteFile(filepath.Join(dir, "cgroup.procs"), []byte(fmt.Sprint(procs[int(hx.Int(op["proc"]))].Process.Pid)), 0644))
			case "rawmkdir":
				o["err"] = errs(os.Mkdir(filepath.Join("/sys/fs/cgroup", op["ctrl"].(string), op["prefix"].(string)), 0755))
			case "rawrmdir":
				o["err"] = errs(syscall.Rmdir(filepath.Join("/sys/fs/cgroup", op["ctrl"].(string), op["prefix"].(string))))
			case "destroy":
				o["err"] = errs(hnd(op["h"]).Destroy())
			case "spawn":
				cmd := exec.Command(hx.Target(), "threads", fmt.Sprint(hx.Int(op["threads"])), "30000")
				cmd.SysProcAttr = &syscall.SysProcAttr{Pdeathsig: syscall.SIGKILL}
				if err := cmd.Start(); err != nil {
					o["err"] = err.Error()
				} else {
					procs[int(hx.Int(op["as"]))] = cmd
					time.Sleep(30 * time.Millisecond)
					o["pid"] = cmd.Process.Pid
				}
			case "kill":
				if p := procs[int(hx.Int(op["proc"]))]; p != nil {
					p.Process.Kill()
					p.Wait()
					delete(procs, int(hx.Int(op["proc"])))
				}
			case "addproc":
				o["err"] = errs(hnd(op["h"]).AddProc(procs[int(hx.Int(op["proc"]))].Process.Pid))
			case "processes":
				ps, err := hnd(op["h"]).Processes()
				o["err"], o["pids"] = errs(err), ps
			case "where":
				o["where"] = where(procs[int(hx.Int(op["proc"]))].Process.Pid)
			case "exists":
				o["exists"] = exists(op["prefix"].(string))
			case "setlimits":
				h := hnd(op["h"])
				memv := uint64(hx.Int(op["mem"]))
				if ms, ok := op["mem_s"].(string); ok {
					// values that do not fit a JSON number
					memv, _ = strconv.ParseUint(ms, 10, 64)
				}
				o["mem_err"] = errs(h.SetMemoryLimit(memv))
				o["pids_err"] = errs(h.SetProcLimit(uint64(hx.Int(op["pids"]))))
				o["cpu_err"] = errs(h.SetCPUBandwidth(uint64(hx.Int(op["quota"])), uint64(hx.Int(op["period"]))))
				if cs, ok := op["cpuset"].(string); ok {
					o["cpuset_err"] = errs(h.SetCPUSet([]byte(cs)))
				}
				readLimits(op["prefix"].(string), o)
			case "readlimits":
				readLimits(op["prefix"].(string), o)
			case "burn":
				// a child in the group burns CPU and touches memory, then usage is read
				h := hnd(op["h"])
				cmd := exec.Command(hx.Target(), "burn", fmt.Sprint(hx.Int(op["ms"])), fmt.Sprint(hx.Int(op["mb"])))
				cmd.SysProcAttr = &syscall.SysProcAttr{Pdeathsig: syscall.SIGKILL}
				stdin, _ := cmd.StdinPipe()
				if err := cmd.Start(); err != nil {
					o["err"] = err.Error()
					break
				}
				o["add_err"] = errs(h.AddProc(cmd.Process.Pid))
				stdin.Write([]byte("go\n"))
				stdin.Close()
				cmd.Wait()
				cpu, e1 := h.CPUUsage()
				mem, e2 := h.MemoryMaxUsage()
				o["cpu_ns"], o["cpu_err"], o["mem_peak"], o["mem_err"] = cpu, errs(e1), mem, errs(e2)
			}
			obs = append(obs, o)
		}
		return map[string]any{"obs": obs, "type": fmt.Sprint(cgroup.DetectedCgroupType)}
	})
}

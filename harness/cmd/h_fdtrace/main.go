// h_fdtrace: a fixed series of program starts, successful and failing at every stage, all issued from the process's
// first thread; the check runs this under strace (first thread only) and looks at the close calls of the launcher:
// a close that fails with EBADF is a descriptor number closed that the launcher does not hold (closed twice) -- in
// a process that runs several starts at once that number may by then belong to another run.
// Before every start a marker "write(-1, "case:<name>")" is issued so that the trace can be cut into cases.
package main

import (
	"fmt"
	"os"
	"runtime"
	"syscall"

	"golang.org/x/sys/unix"

	"verifh/lib/hx"

	"github.com/criyle/go-sandbox/pkg/forkexec"
)

func init() { runtime.LockOSThread() } // main goroutine stays on the first thread

func mark(s string) {
	b := []byte("case:" + s)
	syscall.Write(-1, b)
}

func reap(pid int) {
	if pid > 0 {
		var ws syscall.WaitStatus
		syscall.Kill(pid, syscall.SIGKILL)
		syscall.Wait4(pid, &ws, syscall.WALL, nil)
	}
}

func main() {
	hx.Init()
	scratch := os.Getenv("VERIF_SCRATCH")
	null, _ := os.Open("/dev/null")
	defer null.Close()
	files := []uintptr{null.Fd(), null.Fd(), null.Fd()}
	tgt := hx.Target()
	filter := hx.AllowAll().SockFprog()
	// a program file that is open for writing: execve answers ETXTBSY
	busy := scratch + "/busy_prog"
	src, _ := os.ReadFile(tgt)
	os.WriteFile(busy, src, 0755)
	bf, _ := os.OpenFile(busy, os.O_WRONLY, 0)
	defer bf.Close()
	noexec := scratch + "/noexec_prog"
	os.WriteFile(noexec, []byte("not a program"), 0755)
	refuse := func(int) error { return fmt.Errorf("refused") }
	accept := func(int) error { return nil }
	umap := []syscall.SysProcIDMap{{ContainerID: 0, HostID: 0, Size: 70000}}
	badmap := []syscall.SysProcIDMap{{ContainerID: 0, HostID: 0, Size: 10}, {ContainerID: 5, HostID: 100, Size: 10}}
	type cs struct {
		name string
		r    forkexec.Runner
	}
	exit0 := []string{tgt, "exit", "0"}
	list := []cs{
		{"ok", forkexec.Runner{Args: exit0}},
		{"ok_sync", forkexec.Runner{Args: exit0, SyncFunc: accept}},
		{"enoent", forkexec.Runner{Args: []string{scratch + "/no_such_program"}}},
		{"enoent_sync", forkexec.Runner{Args: []string{scratch + "/no_such_program"}, SyncFunc: accept}},
		{"enoexec", forkexec.Runner{Args: []string{noexec}}},
		{"etxtbsy", forkexec.Runner{Args: []string{busy}}},
		{"chdir", forkexec.Runner{Args: exit0, WorkDir: scratch + "/no_such_dir"}},
		{"chdir_sync", forkexec.Runner{Args: exit0, WorkDir: scratch + "/no_such_dir", SyncFunc: accept}},
		{"refuse", forkexec.Runner{Args: exit0, SyncFunc: refuse}},
		{"badfile", forkexec.Runner{Args: exit0}}, // Files replaced below
		{"userns", forkexec.Runner{Args: exit0, CloneFlags: unix.CLONE_NEWUSER, UIDMappings: umap, GIDMappings: umap}},
		{"userns_enoent", forkexec.Runner{Args: []string{scratch + "/no_such_program"}, CloneFlags: unix.CLONE_NEWUSER, UIDMappings: umap, GIDMappings: umap}},
		{"userns_badmap", forkexec.Runner{Args: exit0, CloneFlags: unix.CLONE_NEWUSER, UIDMappings: badmap, GIDMappings: umap}},
		{"userns_refuse", forkexec.Runner{Args: exit0, CloneFlags: unix.CLONE_NEWUSER, UIDMappings: umap, GIDMappings: umap, SyncFunc: refuse}},
		{"ns_enoent", forkexec.Runner{Args: []string{scratch + "/no_such_program"}, CloneFlags: unix.CLONE_NEWNS | unix.CLONE_NEWPID}},
		{"seccomp_enoent", forkexec.Runner{Args: []string{scratch + "/no_such_program"}, Seccomp: filter}},
		{"ptrace_enoent", forkexec.Runner{Args: []string{scratch + "/no_such_program"}, Ptrace: true}},
		{"ptrace_chdir", forkexec.Runner{Args: exit0, Ptrace: true, Seccomp: filter, WorkDir: scratch + "/no_such_dir"}},
		{"ok_again", forkexec.Runner{Args: exit0}},
	}
	for i := range list {
		c := &list[i]
		c.r.Env = []string{}
		c.r.Files = files
		if c.name == "badfile" {
			c.r.Files = []uintptr{null.Fd(), 987, null.Fd()}
		}
		mark(c.name)
		pid, err := c.r.Start()
		mark("end:" + c.name)
		reap(pid)
		fmt.Printf("%s pid>0=%v err=%v\n", c.name, pid > 0, err)
	}
}

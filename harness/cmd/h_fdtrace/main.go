// h_fdtrace: a fixed series of program starts, successful and failing at every stage, all issued from the process's
// first thread; the check runs this under strace (first thread only) and looks at the close calls of the launcher:
// a close that fails with EBADF is a descriptor number closed that the launcher does not hold (closed twice) -- in
// a process that runs several starts at once that number may by then belong to another run.
// Before every start a marker "write(-1, "case:<name>")" is issued so that the trace can be cut into cases.
package main

import (
	"fmt"
	"os"
	"runtime"
	"syscall"

	"golang.org/x/sys/unix"

	"verifh/lib/hx"

	"github.com/criyle/go-sandbox/pkg/forkexec"
)

func init() { runtime.LockOSThread() } // main goroutine stays on the first thread

func mark(s string) {
	b := []byte("case:" + s)
	syscall.Write(-1, b)
}

func reap(pid int) {
	if pid > 0 {
		var ws syscall.WaitStatus
		syscall.Kill(pid, syscall.SIGKILL)
		syscall.Wait4(pid, &ws, syscall.WALL, nil)
	}
}

// idmaps: starts in a new user namespace with explicit id mappings of several shapes and with none; one JSON line per start
// says what was configured, the trace shows what the launcher wrote to uid_map / gid_map.
func idmaps() {
	null, _ := os.Open("/dev/null")
	defer null.Close()
	type m = syscall.SysProcIDMap
	euid, egid := os.Geteuid(), os.Getegid()
	cases := []struct{ u, g []m }{
		{nil, nil},
		{[]m{{ContainerID: 0, HostID: 0, Size: 1}}, []m{{ContainerID: 0, HostID: 0, Size: 1}}},
		{[]m{{ContainerID: 0, HostID: 1000, Size: 1}, {ContainerID: 1, HostID: 100000, Size: 65536}}, []m{{ContainerID: 0, HostID: 3000, Size: 2}, {ContainerID: 5, HostID: 20000, Size: 10}}},
		{[]m{{ContainerID: 0, HostID: 0, Size: 4294967295}}, nil},
		{nil, []m{{ContainerID: 0, HostID: 65534, Size: 1}, {ContainerID: 1, HostID: 1, Size: 1}, {ContainerID: 2, HostID: 2, Size: 1}, {ContainerID: 10, HostID: 1000000, Size: 1000}}},
		{[]m{{ContainerID: 1000, HostID: 0, Size: 1}}, []m{{ContainerID: 1000, HostID: 0, Size: 1}}},
		{[]m{{ContainerID: 0, HostID: 7, Size: 1}, {ContainerID: 1, HostID: 8, Size: 1}, {ContainerID: 2, HostID: 9, Size: 1}, {ContainerID: 3, HostID: 10, Size: 1}, {ContainerID: 4, HostID: 11, Size: 1}},
			[]m{{ContainerID: 0, HostID: 123456789, Size: 10}}},
	}
	js := func(l []m) string {
		if l == nil {
			return "null"
		}
		s := "["
		for i, x := range l {
			if i > 0 {
				s += ","
			}
			s += fmt.Sprintf("[%d,%d,%d]", x.ContainerID, x.HostID, x.Size)
		}
		return s + "]"
	}
	for i, c := range cases {
		r := forkexec.Runner{Args: []string{hx.Target(), "exit", "0"}, Env: []string{}, Files: []uintptr{null.Fd(), null.Fd(), null.Fd()},
			CloneFlags: unix.CLONE_NEWUSER, UIDMappings: c.u, GIDMappings: c.g}
		mark(fmt.Sprintf("idmap%d", i))
		pid, err := r.Start()
		mark(fmt.Sprintf("end:idmap%d", i))
		reap(pid)
		fmt.Printf("{\"case\":%d,\"uid\":%s,\"gid\":%s,\"euid\":%d,\"egid\":%d,\"started\":%v,\"err\":%q}\n", i, js(c.u), js(c.g), euid, egid, pid > 0, fmt.Sprint(err))
	}
}

func main() {
	hx.Init()
	if len(os.Args) > 1 && os.Args[1] == "idmaps" {
		idmaps()
		return
	}
	scratch := os.Getenv("VERIF_SCRATCH")
	null, _ := os.Open("/dev/null")
	defer null.Close()
	files := []uintptr{null.Fd(), null.Fd(), null.Fd()}
	tgt := hx.Target()
	filter := hx.AllowAll().SockFprog()
	// a program file that is open for writing: execve answers ETXTBSY
	busy := scratch + "/busy_prog"
	src, _ := os.ReadFile(tgt)
	os.WriteFile(busy, src, 0755)
	bf, _ := os.OpenFile(busy, os.O_WRONLY, 0)
	defer bf.Close()
	noexec := scratch + "/noexec_prog"
	os.WriteFile(noexec, []byte("not a program"), 0755)
	refuse := func(int) error { return fmt.Errorf("refused") }
	accept := func(int) error { return nil }
	umap := []syscall.SysProcIDMap{{ContainerID: 0, HostID: 0, Size: 70000}}
	badmap := []syscall.SysProcIDMap{{ContainerID: 0, HostID: 0, Size: 10}, {ContainerID: 5, HostID: 100, Size: 10}}
	type cs struct {
		name string
		r    forkexec.Runner
	}
	exit0 := []string{tgt, "exit", "0"}
	list := []cs{
		{"ok", forkexec.Runner{Args: exit0}},
		{"ok_sync", forkexec.Runner{Args: exit0, SyncFunc: accept}},
		{"enoent", forkexec.Runner{Args: []string{scratch + "/no_such_program"}}},
		{"enoent_sync", forkexec.Runner{Args: []string{scratch + "/no_such_program"}, SyncFunc: accept}},
		{"enoexec", forkexec.Runner{Args: []string{noexec}}},
		{"etxtbsy", forkexec.Runner{Args: []string{busy}}},
		{"chdir", forkexec.Runner{Args: exit0, WorkDir: scratch + "/no_such_dir"}},
		{"chdir_sync", forkexec.Runner{Args: exit0, WorkDir: scratch + "/no_such_dir", SyncFunc: accept}},
		{"refuse", forkexec.Runner{Args: exit0, SyncFunc: refuse}},
		{"badfile", forkexec.Runner{Args: exit0}}, // Files replaced below
		{"userns", forkexec.Runner{Args: exit0, CloneFlags: unix.CLONE_NEWUSER, UIDMappings: umap, GIDMappings: umap}},
		{"userns_enoent", forkexec.Runner{Args: []string{scratch + "/no_such_program"}, CloneFlags: unix.CLONE_NEWUSER, UIDMappings: umap, GIDMappings: umap}},
		{"userns_badmap", forkexec.Runner{Args: exit0, CloneFlags: unix.CLONE_NEWUSER, UIDMappings: badmap, GIDMappings: umap}},
		{"userns_refuse", forkexec.Runner{Args: exit0, CloneFlags: unix.CLONE_NEWUSER, UIDMappings: umap, GIDMappings: umap, SyncFunc: refuse}},
		{"ns_enoent", forkexec.Runner{Args: []string{scratch + "/no_such_program"}, CloneFlags: unix.CLONE_NEWNS | unix.CLONE_NEWPID}},
		{"seccomp_enoent", forkexec.Runner{Args: []string{scratch + "/no_such_program"}, Seccomp: filter}},
		{"ptrace_enoent", forkexec.Runner{Args: []string{scratch + "/no_such_program"}, Ptrace: true}},
		{"ptrace_chdir", forkexec.Runner{Args: exit0, Ptrace: true, Seccomp: filter, WorkDir: scratch + "/no_such_dir"}},
		{"ok_again", forkexec.Runner{Args: exit0}},
	}
	for i := range list {
		c := &list[i]
		c.r.Env = []string{}
		c.r.Files = files
		if c.name == "badfile" {
			c.r.Files = []uintptr{null.Fd(), 987, null.Fd()}
		}
		mark(c.name)
		pid, err := c.r.Start()
		mark("end:" + c.name)
		reap(pid)
		fmt.Printf("%s pid>0=%v err=%v\n", c.name, pid > 0, err)
	}
}

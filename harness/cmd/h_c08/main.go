// h_c08: limits in force and matching verdicts.
package main

import (
	"context"
	"encoding/json"
	"os"
	"os/exec"
	"syscall"
	"time"

	"verifh/lib/hx"

	"github.com/criyle/go-sandbox/container"
	"github.com/criyle/go-sandbox/pkg/pipe"
	"github.com/criyle/go-sandbox/pkg/rlimit"
	"github.com/criyle/go-sandbox/ptracer"
	"github.com/criyle/go-sandbox/runner"
	"github.com/criyle/go-sandbox/runner/ptrace"
)

type allowAll struct{}

func (allowAll) CheckRead(string) ptracer.TraceAction    { return ptracer.TraceAllow }
func (allowAll) CheckWrite(string) ptracer.TraceAction   { return ptracer.TraceAllow }
func (allowAll) CheckStat(string) ptracer.TraceAction    { return ptracer.TraceAllow }
func (allowAll) CheckSyscall(string) ptracer.TraceAction { return ptracer.TraceAllow }

func u(v any) uint64 {
	if v == nil {
		return 0
	}
	n, ok := v.(json.Number)
	if !ok {
		return 0
	}
	var x uint64
	json.Unmarshal([]byte(n.String()), &x)
	return x
}

func rl(c map[string]any) rlimit.RLimits {
	m, _ := c["rlimits"].(map[string]any)
	if m == nil {
		return rlimit.RLimits{}
	}
	return rlimit.RLimits{CPU: u(m["cpu"]), CPUHard: u(m["cpu_hard"]), Data: u(m["data"]), FileSize: u(m["fsize"]),
		Stack: u(m["stack"]), AddressSpace: u(m["as"]), OpenFile: u(m["nofile"]), DisableCore: m["nocore"] == true}
}

func own() map[string][2]uint64 {
	r := map[string][2]uint64{}
	for i := 0; i < 16; i++ {
		var l syscall.Rlimit
		if syscall.Getrlimit(i, &l) == nil {
			r[itoa(i)] = [2]uint64{l.Cur, l.Max}
		}
	}
	return r
}

func itoa(i int) string { b, _ := json.Marshal(i); return string(b) }

var env container.Environment

// withRaw appends explicitly given entries (resource, soft, hard) to a prepared list: callers of the launcher may pass any number
func withRaw(l []rlimit.RLimit, c map[string]any) []rlimit.RLimit {
	raw, _ := c["raw"].([]any)
	for _, e := range raw {
		t := e.([]any)
		l = append(l, rlimit.RLimit{Res: int(hx.Int(t[0])), Rlim: syscall.Rlimit{Cur: uint64(hx.Int(t[1])), Max: uint64(hx.Int(t[2]))}})
	}
	return l
}

func main() {
	hx.Init()
	scratch := os.Getenv("VERIF_SCRATCH")
	hx.Cases(func(c map[string]any) map[string]any {
		switch c["kind"].(string) {
		case "prepare":
			r := rl(c)
			out := [][3]uint64{}
			for _, e := range r.PrepareRLimit() {
				out = append(out, [3]uint64{uint64(e.Res), e.Rlim.Cur, e.Rlim.Max})
			}
			return map[string]any{"entries": out}
		case "pipe":
			max := hx.Int(c["max"])
			b, err := pipe.NewBuffer(max)
			if err != nil {
				return map[string]any{"harness_err": err.Error()}
			}
			args := []string{}
			for _, a := range c["args"].([]any) {
				args = append(args, a.(string))
			}
			cmd := exec.Command(hx.Target(), args...)
			cmd.Stdout = b.W
			t0 := time.Now()
			err = cmd.Run()
			b.W.Close()
			code := 0
			if ee, ok := err.(*exec.ExitError); ok {
				code = ee.ExitCode()
			} else if err != nil {
				return map[string]any{"harness_err": err.Error()}
			}
			doneOK := false
			select {
			case <-b.Done:
				doneOK = true
			case <-time.After(5 * time.Second):
			}
			data := b.Buffer.Bytes()
			allx := true
			for _, ch := range data {
				if ch != 'x' {
					allx = false
				}
			}
			return map[string]any{"retained": len(data), "writer_exit": code, "done": doneOK, "content_ok": allx, "ms": time.Since(t0).Milliseconds()}
		case "run":
			args := []string{}
			for _, a := range c["args"].([]any) {
				args = append(args, a.(string))
			}
			rls := rl(c)
			limit := runner.Limit{TimeLimit: time.Duration(hx.Int(c["tl_ms"])) * time.Millisecond, MemoryLimit: runner.Size(u(c["ml"]))}
			if limit.TimeLimit == 0 {
				limit.TimeLimit = 20 * time.Second
			}
			if limit.MemoryLimit == 0 {
				limit.MemoryLimit = 1 << 40
			}
			// lower our own hard limit first when asked (restored afterwards: we hold CAP_SYS_RESOURCE)
			if lo, ok := c["lower"].(map[string]any); ok {
				res := int(hx.Int(lo["res"]))
				var old syscall.Rlimit
				syscall.Getrlimit(res, &old)
				nl := syscall.Rlimit{Cur: u(lo["cur"]), Max: u(lo["max"])}
				if err := syscall.Setrlimit(res, &nl); err != nil {
					return map[string]any{"harness_err": "lower: " + err.Error()}
				}
				defer syscall.Setrlimit(res, &old)
			}
			inherited := own()
			buf, err := pipe.NewBuffer(1 << 16)
			if err != nil {
				return map[string]any{"harness_err": err.Error()}
			}
			null, _ := os.Open("/dev/null")
			defer null.Close()
			files := []uintptr{null.Fd(), buf.W.Fd(), null.Fd()}
			ctx, cancel := context.WithTimeout(context.Background(), 30*time.Second)
			defer cancel()
			var res runner.Result
			switch c["runner"].(string) {
			case "ptrace":
				r := &ptrace.Runner{Args: append([]string{hx.Target()}, args...), Env: []string{}, WorkDir: scratch,
					Limit: limit, Seccomp: hx.AllowAll(), Handler: allowAll{}, Files: files, RLimits: withRaw(rls.PrepareRLimit(), c)}
				res = r.Run(ctx)
			case "ns":
				r, err := hx.NsRunner(scratch, append([]string{"/vb/probe_target"}, args...))
				if err != nil {
					return map[string]any{"harness_err": err.Error()}
				}
				defer os.RemoveAll(r.Root)
				r.Limit = limit
				r.Files = files
				r.RLimits = withRaw(rls.PrepareRLimit(), c)
				res = r.Run(ctx)
			case "container":
				if env == nil {
					env, err = hx.NewEnv(scratch, nil)
					if err != nil {
						return map[string]any{"harness_err": err.Error()}
					}
				}
				p := container.ExecveParam{Args: append([]string{"/vb/probe_target"}, args...), Env: []string{"PATH=/usr/bin:/bin"},
					Files: files, RLimits: withRaw(rls.PrepareRLimit(), c)}
				res = env.Execve(ctx, p)
			}
			buf.W.Close()
			<-buf.Done
			out := map[string]any{"status": int(res.Status), "exit": res.ExitStatus, "errmsg": res.Error, "time_ns": int64(res.Time),
				"mem": uint64(res.Memory), "inherited": inherited}
			var lim map[string][2]uint64
			if json.Unmarshal(buf.Buffer.Bytes(), &lim) == nil {
				out["limits"] = lim
			}
			return out
		}
		return map[string]any{"harness_err": "unknown kind"}
	})
	if env != nil {
		env.Destroy()
	}
}

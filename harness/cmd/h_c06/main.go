// h_c06: descriptor table of the started program.  usage: h_c06 <cases.jsonl> <out.jsonl> <scratch>
// Descriptors 0,1,2 of this process are replaced by unique files so that every slot has its own identity.
package main

import (
	"bufio"
	"encoding/json"
	"fmt"
	"os"
	"path/filepath"
	"sort"
	"sync"
	"syscall"

	"verifh/lib/hx"

	"github.com/criyle/go-sandbox/pkg/forkexec"
)

// concurrent starts: every program must see exactly its three slots
func concurrent(g, m int) map[string]any {
	var mu sync.Mutex
	bad, total := 0, 0
	var firstBad any
	var wg sync.WaitGroup
	for w := 0; w < g; w++ {
		wg.Add(1)
		go func(w int) {
			defer wg.Done()
			f, err := os.OpenFile(filepath.Join(scratch, fmt.Sprintf("c%d", w)), os.O_CREATE|os.O_RDWR, 0600)
			if err != nil {
				return
			}
			defer f.Close()
			fi, _ := id(int(f.Fd()))
			for k := 0; k < m; k++ {
				report := filepath.Join(scratch, fmt.Sprintf("ct%d_%d.json", w, k))
				r := &forkexec.Runner{Args: []string{hx.Target(), "fds", report, "1024"}, Env: []string{},
					Files: []uintptr{f.Fd(), f.Fd(), f.Fd()}}
				if k%2 == 1 {
					r.SyncFunc = func(int) error { return nil }
				}
				pid, err := r.Start()
				if err != nil {
					mu.Lock()
					bad++
					if firstBad == nil {
						firstBad = "start: " + err.Error()
					}
					mu.Unlock()
					continue
				}
				var ws syscall.WaitStatus
				syscall.Wait4(pid, &ws, 0, nil)
				t, err := readTable(report)
				os.Remove(report)
				ok := err == nil && len(t) == 3
				if ok {
					for i, e := range t {
						if int(e[0]) != i || e[1] != fi[0] || e[2] != fi[1] {
							ok = false
						}
					}
				}
				mu.Lock()
				total++
				if !ok {
					bad++
					if firstBad == nil {
						firstBad = t
					}
				}
				mu.Unlock()
			}
		}(w)
	}
	wg.Wait()
	return map[string]any{"starts": total, "bad": bad, "first_bad": firstBad}
}

type caseJ struct {
	Conc   []int `json:"concurrent"` // [goroutines, starts per goroutine]
	ID     int   `json:"id"`
	Files  []int `json:"files"` // -1 = close this slot
	Exec   int   `json:"exec"`  // 0 = none
	Pipe   []int `json:"pipe"`  // desired numbers of the socketpair (nil = wherever it lands)
	Fork   bool  `json:"fork"`  // true: plain fork (SyncFunc set), false: vfork configuration
	Second bool  `json:"second"`
	Extra  []int `json:"extra"` // further open close-on-exec descriptors of the launcher
}

type ident [2]uint64

func id(fd int) (ident, bool) {
	var st syscall.Stat_t
	if syscall.Fstat(fd, &st) != nil {
		return ident{}, false
	}
	return ident{st.Dev, st.Ino}, true
}

var scratch string
var seq int

func uniqueAt(fd int, exe bool) error {
	var f *os.File
	var err error
	if exe {
		f, err = os.Open(hx.Target())
	} else {
		seq++
		f, err = os.OpenFile(filepath.Join(scratch, fmt.Sprintf("u%d", seq)), os.O_CREATE|os.O_RDWR, 0600)
	}
	if err != nil {
		return err
	}
	defer f.Close()
	if int(f.Fd()) == fd {
		return fmt.Errorf("temporary landed on the wanted number %d", fd)
	}
	return syscall.Dup3(int(f.Fd()), fd, syscall.O_CLOEXEC)
}

func openFds() map[int]bool {
	r := map[int]bool{}
	es, _ := os.ReadDir("/proc/self/fd")
	for _, e := range es {
		var n int
		fmt.Sscanf(e.Name(), "%d", &n)
		r[n] = true
	}
	return r
}

func readTable(path string) ([][5]uint64, error) {
	b, err := os.ReadFile(path)
	if err != nil {
		return nil, err
	}
	var t [][5]uint64
	err = json.Unmarshal(b, &t)
	return t, err
}

func main() {
	hx.Init()
	in, err := os.Open(os.Args[1])
	if err != nil {
		panic(err)
	}
	outF, err := os.Create(os.Args[2])
	if err != nil {
		panic(err)
	}
	scratch = os.Args[3]
	out := bufio.NewWriter(outF)
	enc := json.NewEncoder(out)
	dec := json.NewDecoder(bufio.NewReader(in))
	for _, fd := range []int{0, 1, 2} {
		if err := uniqueAt(fd, false); err != nil {
			panic(err)
		}
	}
	base := openFds() // runtime's own descriptors + ours
	for {
		var c caseJ
		if dec.Decode(&c) != nil {
			break
		}
		res := map[string]any{"id": c.ID}
		if len(c.Conc) == 2 {
			r := concurrent(c.Conc[0], c.Conc[1])
			r["id"] = c.ID
			enc.Encode(r)
			out.Flush()
			continue
		}
		placed := []int{}
		fail := func(s string) { res["skipped"] = s }
		want := map[int]bool{}
		for _, f := range c.Files {
			if f >= 3 {
				want[f] = false
			}
		}
		for _, f := range c.Extra {
			want[f] = false
		}
		if c.Exec > 0 {
			want[c.Exec] = true
		}
		ok := true
		nums := []int{}
		for f := range want {
			nums = append(nums, f)
		}
		sort.Ints(nums)
		for _, f := range nums {
			if base[f] {
				fail(fmt.Sprintf("descriptor %d is in use by the harness", f))
				ok = false
				break
			}
			if err := uniqueAt(f, want[f]); err != nil {
				fail(err.Error())
				ok = false
				break
			}
			placed = append(placed, f)
		}
		fillers := []int{}
		if ok && c.Pipe != nil {
			// make the two lowest free numbers be exactly c.Pipe
			hi := c.Pipe[1]
			if c.Pipe[0] > hi {
				hi = c.Pipe[0]
			}
			cur := openFds()
			if cur[c.Pipe[0]] || cur[c.Pipe[1]] {
				fail("wanted socketpair numbers are in use")
				ok = false
			}
			for f := 3; ok && f < hi; f++ {
				if f == c.Pipe[0] || f == c.Pipe[1] || cur[f] {
					continue
				}
				n, err := syscall.Open("/dev/null", syscall.O_RDONLY|syscall.O_CLOEXEC, 0)
				if err != nil {
					fail(err.Error())
					ok = false
					break
				}
				if n != f {
					if err := syscall.Dup3(n, f, syscall.O_CLOEXEC); err != nil {
						fail(err.Error())
						ok = false
					}
					syscall.Close(n)
				}
				fillers = append(fillers, f)
			}
		}
		if ok {
			parent := map[string]ident{}
			for f := range openFds() {
				if i, k := id(f); k {
					parent[fmt.Sprint(f)] = i
				}
			}
			res["parent"] = parent
			files := make([]uintptr, len(c.Files))
			for i, f := range c.Files {
				if f < 0 {
					files[i] = ^uintptr(0)
				} else {
					files[i] = uintptr(f)
				}
			}
			report := filepath.Join(scratch, fmt.Sprintf("t%d.json", c.ID))
			os.Remove(report)
			r := &forkexec.Runner{Args: []string{hx.Target(), "fds", report, "1024"}, Env: []string{}, Files: files, ExecFile: uintptr(c.Exec)}
			if c.Fork {
				r.SyncFunc = func(int) error { return nil }
			}
			start := func(tag string) {
				pid, err := r.Start()
				if err != nil {
					res[tag+"_err"] = err.Error()
					return
				}
				var ws syscall.WaitStatus
				syscall.Wait4(pid, &ws, 0, nil)
				res[tag+"_status"] = int(ws)
				t, err := readTable(report)
				if err != nil {
					res[tag+"_err"] = "no report: " + err.Error()
					return
				}
				res[tag+"_table"] = t
				os.Remove(report)
			}
			start("first")
			res["exec_after"] = int(r.ExecFile)
			res["files_after"] = fmt.Sprint(r.Files) == fmt.Sprint(files)
			if c.Second {
				start("second")
			}
			leaked := []int{}
			for f := range openFds() {
				if !base[f] && !contains(placed, f) && !contains(fillers, f) {
					leaked = append(leaked, f)
				}
			}
			sort.Ints(leaked)
			res["launcher_leaked"] = leaked
		}
		for _, f := range placed {
			syscall.Close(f)
		}
		for _, f := range fillers {
			syscall.Close(f)
		}
		enc.Encode(res)
		out.Flush()
	}
}

func contains(l []int, x int) bool {
	for _, y := range l {
		if x == y {
			return true
		}
	}
	return false
}

// h_c13: (a) histories of hostile programs filling the writable mounts of a pooled container, then Reset,
// observed from the host (/proc/<init>/root) and by a later program; (b) memfd.DupToMemfd on scripted readers.
package main

import (
	"syscall"
	"bytes"
	"context"
	"crypto/sha256"
	"encoding/hex"
	"errors"
	"fmt"
	"io"
	"math/rand"
	"os"
	"path/filepath"
	"strings"
	"testing/iotest"
	"time"

	"verifh/lib/hx"

	"github.com/criyle/go-sandbox/container"
	"github.com/criyle/go-sandbox/pkg/memfd"
	"github.com/criyle/go-sandbox/pkg/mount"
	"github.com/criyle/go-sandbox/pkg/pipe"
	"golang.org/x/sys/unix"
)

const T = "/vb/probe_target"

func strs(v any) []string {
	r := []string{}
	if v == nil {
		return r
	}
	for _, x := range v.([]any) {
		r = append(r, x.(string))
	}
	return r
}

func run(env container.Environment, args []string, execFile uintptr) (int, int, string, string) {
	buf, err := pipe.NewBuffer(1 << 20)
	if err != nil {
		return -1, 0, "", err.Error()
	}
	null, _ := os.Open("/dev/null")
	defer null.Close()
	ctx, cancel := context.WithTimeout(context.Background(), 20*time.Second)
	defer cancel()
	p := container.ExecveParam{Args: args, Env: []string{"PATH=/usr/bin:/bin"}, Files: []uintptr{null.Fd(), buf.W.Fd(), buf.W.Fd()}, ExecFile: execFile}
	r := env.Execve(ctx, p)
	buf.W.Close()
	<-buf.Done
	return int(r.Status), r.ExitStatus, strings.TrimSpace(buf.Buffer.String()), r.Error
}

// hostCensus lists the top-level names (hex) of dir seen through the init's root, and counts what is reachable below
func hostCensus(pid int, dir string) ([]string, int) {
	root := fmt.Sprintf("/proc/%d/root%s", pid, dir)
	f, err := os.Open(root)
	if err != nil {
		return nil, -1
	}
	names, _ := f.Readdirnames(-1)
	f.Close()
	r := []string{}
	for _, n := range names {
		r = append(r, hex.EncodeToString([]byte(n)))
	}
	total := 0
	filepath.WalkDir(root, func(p string, d os.DirEntry, err error) error {
		if p != root {
			total++
		}
		return nil
	})
	return r, total
}

type scripted struct {
	data   []byte
	chunks []int // sizes of successive reads; a negative size -n means: n bytes together with the final error
	final  error // io.EOF or another error, returned once chunks are used up
	i      int
}

func (s *scripted) Read(p []byte) (int, error) {
	if s.i >= len(s.chunks) {
		return 0, s.final
	}
	n := s.chunks[s.i]
	last := false
	if n < 0 {
		n, last = -n, true
	}
	if n > len(p) {
		n = len(p)
	}
	if n > len(s.data) {
		n = len(s.data)
	}
	copy(p, s.data[:n])
	s.data = s.data[n:]
	if last {
		s.i = len(s.chunks)
		return n, s.final
	}
	s.i++
	return n, nil
}

func sum(b []byte) string { h := sha256.Sum256(b); return hex.EncodeToString(h[:8]) }

func memfdCase(c map[string]any, env container.Environment) map[string]any {
	size := int(hx.Int(c["size"]))
	rng := rand.New(rand.NewSource(hx.Int(c["seed"])))
	data := make([]byte, size)
	rng.Read(data)
	if c["elf"] == true {
		b, _ := os.ReadFile(filepath.Join(hx.BinDir(), "probe_target"))
		data = append(b, data...)
	}
	if c["prog"] == "exeaway" {
		b, _ := os.ReadFile(filepath.Join(hx.BinDir(), "probe_exeaway"))
		data = append(b, data...)
	}
	var rd io.Reader
	var cleanup func()
	// supplier's side of a reader that is a descriptor of an in-memory file: the descriptor handed to the copier, the
	// supplier's own (read-write) descriptor of the same file, the file's total length
	var srcReader, srcMaster *os.File
	var srcTotal int64
	srcNote := map[string]any{}
	switch c["reader"] {
	case "bytes":
		rd = bytes.NewReader(data)
	case "buffer":
		rd = bytes.NewBuffer(append([]byte{}, data...))
	case "dataerr":
		rd = iotest.DataErrReader(bytes.NewReader(data))
	case "onebyte":
		rd = iotest.OneByteReader(bytes.NewReader(data))
	case "half":
		rd = iotest.HalfReader(bytes.NewReader(data))
	case "timeout":
		rd = iotest.TimeoutReader(iotest.HalfReader(bytes.NewReader(data)))
	case "limited":
		rd = io.LimitReader(bytes.NewReader(append(append([]byte{}, data...), 1, 2, 3)), int64(len(data)))
	case "file":
		f, _ := os.CreateTemp(os.Getenv("VERIF_SCRATCH"), "src")
		f.Write(data)
		f.Seek(0, 0)
		rd, cleanup = f, func() { f.Close(); os.Remove(f.Name()) }
	case "file_off", "file_read":
		// the supplied bytes are what is left of a file whose beginning (a header) was already consumed
		hdr := make([]byte, 1+size%5000)
		f, _ := os.CreateTemp(os.Getenv("VERIF_SCRATCH"), "src")
		f.Write(hdr)
		f.Write(data)
		if c["reader"] == "file_off" {
			f.Seek(int64(len(hdr)), 0)
		} else {
			f.Seek(0, 0)
			io.ReadFull(f, hdr)
		}
		rd, cleanup = f, func() { f.Close(); os.Remove(f.Name()) }
	case "bytes_off":
		b := bytes.NewReader(append(make([]byte, 7), data...))
		b.Seek(7, 0)
		rd = b
	case "section":
		f, _ := os.CreateTemp(os.Getenv("VERIF_SCRATCH"), "src")
		f.Write(make([]byte, 11))
		f.Write(data)
		f.Write([]byte{1, 2, 3})
		rd, cleanup = io.NewSectionReader(f, 11, int64(len(data))), func() { f.Close(); os.Remove(f.Name()) }
	case "pipe":
		r, w, _ := os.Pipe()
		go func() { w.Write(data); w.Close() }()
		rd, cleanup = r, func() { r.Close() }
	case "memfd":
		// the supplied bytes live in an in-memory file of the supplier (a cache entry), in whatever seal state the supplier
		// chose, handed over as its own descriptor, a duplicate or a re-opened one, at its start or behind a consumed header
		flags := unix.MFD_CLOEXEC | unix.MFD_ALLOW_SEALING
		if c["src_nosealing"] == true {
			flags = unix.MFD_CLOEXEC
		}
		mfd, err := unix.MemfdCreate("supplier-cache", flags)
		if err != nil {
			return map[string]any{"harness_err": "memfd_create: " + err.Error()}
		}
		master := os.NewFile(uintptr(mfd), "supplier-cache")
		hdr := make([]byte, int(hx.Int(c["src_off"])))
		master.Write(hdr)
		master.Write(data)
		if want := int(hx.Int(c["src_seals"])); want != 0 {
			if _, e := unix.FcntlInt(master.Fd(), unix.F_ADD_SEALS, want); e != nil {
				srcNote["src_seal_err"] = e.Error()
			}
		}
		got, _ := unix.FcntlInt(master.Fd(), unix.F_GET_SEALS, 0)
		srcNote["src_seals_before"] = got
		h := master
		switch c["src_handle"] {
		case "dup":
			d, e := unix.FcntlInt(master.Fd(), unix.F_DUPFD_CLOEXEC, 0)
			if e != nil {
				return map[string]any{"harness_err": "dup: " + e.Error()}
			}
			h = os.NewFile(uintptr(d), "supplier-cache")
		case "reopen_ro":
			g, e := os.Open(fmt.Sprintf("/proc/self/fd/%d", master.Fd()))
			if e != nil {
				return map[string]any{"harness_err": "reopen: " + e.Error()}
			}
			h = g
		}
		h.Seek(int64(len(hdr)), io.SeekStart)
		srcReader, srcMaster, srcTotal = h, master, int64(len(hdr)+len(data))
		rd, cleanup = h, func() {
			if h != master {
				h.Close()
			}
			master.Close()
		}
	case "scripted":
		s := &scripted{data: append([]byte{}, data...), final: io.EOF}
		for _, x := range c["chunks"].([]any) {
			s.chunks = append(s.chunks, int(hx.Int(x)))
		}
		if c["final"] == "err" {
			s.final = errors.New("source failed")
		}
		rd = s
	}
	if cleanup != nil {
		defer cleanup()
	}
	o := map[string]any{"want": sum(data), "want_len": len(data)}
	for k, v := range srcNote {
		o[k] = v
	}
	f, err := memfd.DupToMemfd("verif", rd)
	if err != nil {
		o["err"] = err.Error()
		return o
	}
	defer f.Close()
	observe := func(tag string) {
		pos, _ := f.Seek(0, io.SeekCurrent)
		st, _ := f.Stat()
		got := make([]byte, st.Size())
		n, _ := f.ReadAt(got, 0)
		seals, _ := unix.FcntlInt(f.Fd(), unix.F_GET_SEALS, 0)
		o[tag+"pos"], o[tag+"len"], o[tag+"sum"], o[tag+"seals"] = pos, st.Size(), sum(got[:n]), seals
		if len(got) <= 400 {
			o[tag+"bytes"] = hex.EncodeToString(got[:n])
		}
	}
	observe("")
	flen := o["len"].(int64)
	if srcReader != nil {
		// the supplier goes on using its reader (rewinds it, reads it again to the end): the sealed file stays at its start
		moved := []int64{}
		for _, to := range []int64{srcTotal, srcTotal / 2, 1, 0} {
			if to > srcTotal {
				continue
			}
			srcReader.Seek(to, io.SeekStart)
			if pos, _ := f.Seek(0, io.SeekCurrent); pos != 0 {
				moved = append(moved, pos)
			}
		}
		o["pos_after_supplier_seeks"] = moved
		f.Seek(0, io.SeekStart)
	}
	if c["prog"] == "exeaway" && env != nil {
		// the program attacks its executable while it runs from it and after it has exec'ed another binary, keeping descriptors
		st, ex, out, e := run(env, []string{"/vb/probe_exeaway", "run", "/vb/probe_exeaway"}, f.Fd())
		o["away_status"], o["away_exit"], o["away_out"], o["away_err"] = st, ex, out, e
		observe("away_")
	}
	// attempts by a holder of the descriptor
	att := []string{}
	if _, e := f.WriteAt([]byte("X"), 0); e == nil {
		att = append(att, "pwrite")
	}
	if _, e := f.WriteAt([]byte("X"), int64(len(data))); e == nil {
		att = append(att, "append")
	}
	if e := f.Truncate(0); e == nil && flen > 0 {
		att = append(att, "truncate0")
	}
	if e := f.Truncate(int64(len(data)) + 4096); e == nil {
		att = append(att, "grow")
	}
	if e := unix.Fallocate(int(f.Fd()), 0, 0, int64(len(data))+8192); e == nil && len(data)%4096 != 0 {
		att = append(att, "fallocate")
	}
	if _, e := unix.FcntlInt(f.Fd(), unix.F_ADD_SEALS, unix.F_SEAL_FUTURE_WRITE); e == nil {
		att = append(att, "addseals")
	}
	if m, e := unix.Mmap(int(f.Fd()), 0, 4096, unix.PROT_READ|unix.PROT_WRITE, unix.MAP_SHARED); e == nil {
		att = append(att, "mmap")
		unix.Munmap(m)
	}
	if g, e := os.OpenFile(fmt.Sprintf("/proc/self/fd/%d", f.Fd()), os.O_RDWR, 0); e == nil {
		if _, e := g.WriteAt([]byte("X"), 0); e == nil {
			att = append(att, "reopen-write")
		}
		if e := g.Truncate(0); e == nil && flen > 0 {
			att = append(att, "reopen-truncate")
		}
		g.Close()
	}
	f.Seek(0, io.SeekStart)
	o["succeeded"] = att
	if c["elf"] == true && env != nil {
		st, ex, out, e := run(env, []string{T, "selfmod"}, f.Fd())
		o["run_status"], o["run_exit"], o["run_out"], o["run_err"] = st, ex, out, e
	}
	observe("after_")
	if srcMaster != nil {
		// the supplier goes on using its own file as far as the seals IT chose allow: whatever it does there, the sealed
		// executable keeps its bytes
		done := []string{}
		if _, e := srcMaster.WriteAt([]byte("Y"), 0); e == nil {
			done = append(done, "pwrite")
		}
		if _, e := srcMaster.WriteAt([]byte("Y"), srcTotal); e == nil {
			done = append(done, "append")
		}
		if e := srcMaster.Truncate(srcTotal + 4096); e == nil {
			done = append(done, "grow")
		}
		if e := srcMaster.Truncate(0); e == nil {
			done = append(done, "truncate0")
		}
		o["supplier_did"] = done
		observe("src_")
	}
	return o
}

func main() {
	hx.Init()
	scratch := os.Getenv("VERIF_SCRATCH")
	var shared, sharedProc container.Environment
	hx.Cases(func(c map[string]any) map[string]any {
		if c["mode"] == "memfd" {
			if c["prog"] != nil {
				// these programs work through /proc/self/exe and /proc/self/fd: a container with /proc (as runprog-style configurations have)
				if sharedProc == nil {
					var err error
					if sharedProc, err = hx.NewEnvWith(scratch, nil, func(b *container.Builder) { b.Mounts = hx.Mounts().WithProc().Mounts }); err != nil {
						return map[string]any{"harness_err": err.Error()}
					}
				}
				var o map[string]any
				if !hx.Guard(60*time.Second, func() { o = memfdCase(c, sharedProc) }) {
					return map[string]any{"hang": true}
				}
				return o
			}
			if c["elf"] == true && shared == nil {
				var err error
				if shared, err = hx.NewEnv(scratch, nil); err != nil {
					return map[string]any{"harness_err": err.Error()}
				}
			}
			var o map[string]any
			if !hx.Guard(60*time.Second, func() { o = memfdCase(c, shared) }) {
				return map[string]any{"hang": true}
			}
			return o
		}
		// ---- reset history
		mounts := strs(c["mounts"]) // tmpfs targets
		var bindSrc string
		if n := hx.Int(c["nofile"]); n > 0 {
			// the container init inherits a small descriptor limit from the host process
			var old syscall.Rlimit
			syscall.Getrlimit(syscall.RLIMIT_NOFILE, &old)
			// (hard limit too: a Go program raises its soft limit to the hard one when it starts)
			syscall.Setrlimit(syscall.RLIMIT_NOFILE, &syscall.Rlimit{Cur: uint64(n), Max: uint64(n)})
			defer syscall.Setrlimit(syscall.RLIMIT_NOFILE, &old)
		}
		env, err := hx.NewEnvWith(scratch, nil, func(b *container.Builder) {
			mb := mount.NewDefaultBuilder().WithBind(hx.BinDir(), "vb", true)
			for _, m := range mounts {
				mb = mb.WithTmpfs(strings.TrimPrefix(m, "/"), "size=32m,nr_inodes=64k")
			}
			if c["rwbind"] == true {
				bindSrc, _ = os.MkdirTemp(scratch, "rwbind")
				mb = mb.WithBind(bindSrc, "data", false)
			}
			b.Mounts = mb.FilterNotExist().Mounts
		})
		if err != nil {
			return map[string]any{"harness_err": err.Error()}
		}
		defer env.Destroy()
		if bindSrc != "" {
			defer os.RemoveAll(bindSrc)
			mounts = append(mounts, "/data")
		}
		pid := container.InitPidVerif(env)
		out := map[string]any{}
		cycles := []any{}
		for _, cy := range c["cycles"].([]any) {
			co := map[string]any{}
			fails := []int{}
			for _, r := range cy.([]any) {
				if m, ok := r.(map[string]any); ok {
					// a run that starts (sync after exec) and whose sync callback then fails: it has written, the host sees a failed launch
					null, _ := os.Open("/dev/null")
					ctx, cancel := context.WithTimeout(context.Background(), 10*time.Second)
					res := env.Execve(ctx, container.ExecveParam{Args: append([]string{T, "plant"}, strs(m["args"])...), Env: []string{},
						Files: []uintptr{null.Fd(), null.Fd(), null.Fd()}, SyncAfterExec: true,
						SyncFunc: func(int) error { time.Sleep(150 * time.Millisecond); return errors.New("attach failed") }})
					cancel()
					null.Close()
					fails = append(fails, int(res.Status))
					continue
				}
				st, ex, _, e := run(env, append([]string{T, "plant"}, strs(r)...), 0)
				if st != 1 && st != 7 {
					co["plant_err"] = fmt.Sprintf("status %d %s", st, e)
				}
				fails = append(fails, ex)
			}
			co["plant_fails"] = fails
			before, reach := map[string]any{}, map[string]any{}
			for _, m := range mounts {
				before[m], reach[m] = hostCensus(pid, m)
			}
			co["before"], co["reachable"] = before, reach
			var rerr error
			if !hx.Guard(60*time.Second, func() { rerr = env.Reset() }) {
				co["hang"] = true
				cycles = append(cycles, co)
				break
			}
			if rerr != nil {
				co["reset_err"] = rerr.Error()
			}
			after := map[string]any{}
			for _, m := range mounts {
				after[m], _ = hostCensus(pid, m)
			}
			co["after_host"] = after
			_, _, o, _ := run(env, append([]string{T, "census"}, mounts...), 0)
			co["after_prog"] = o
			cycles = append(cycles, co)
		}
		out["cycles"] = cycles
		return out
	})
	if shared != nil {
		shared.Destroy()
	}
	if sharedProc != nil {
		sharedProc.Destroy()
	}
}

// h_c11: cancellation and Destroy at chosen instants.
package main

import (
	"context"
	"fmt"
	"github.com/criyle/go-sandbox/pkg/seccomp/libseccomp"
	"os"
	"strings"
	"syscall"
	"time"

	"verifh/lib/hx"

	"github.com/criyle/go-sandbox/container"
	"github.com/criyle/go-sandbox/ptracer"
	"github.com/criyle/go-sandbox/runner"
	"github.com/criyle/go-sandbox/runner/ptrace"
)

type allowAll struct{}

func (allowAll) CheckRead(string) ptracer.TraceAction    { return ptracer.TraceAllow }
func (allowAll) CheckWrite(string) ptracer.TraceAction   { return ptracer.TraceAllow }
func (allowAll) CheckStat(string) ptracer.TraceAction    { return ptracer.TraceAllow }
func (allowAll) CheckSyscall(string) ptracer.TraceAction { return ptracer.TraceAllow }

func alive(pid int) bool {
	if pid <= 0 {
		return false
	}
	b, err := os.ReadFile(fmt.Sprintf("/proc/%d/stat", pid))
	if err != nil {
		return false
	}
	// state after the closing parenthesis of comm
	for i := len(b) - 1; i >= 0; i-- {
		if b[i] == ')' {
			if i+2 < len(b) && (b[i+2] == 'Z' || b[i+2] == 'X') {
				return false
			}
			return true
		}
	}
	return true
}

var env container.Environment

// strict answers for the one path the program probes and kills on anything else (an empty or mangled path would be somebody's bug)
type strict struct{ ban bool }

func (s strict) path(p string) ptracer.TraceAction {
	if strings.HasSuffix(p, "/c11probe/marker") {
		if s.ban {
			return ptracer.TraceBan
		}
		return ptracer.TraceAllow
	}
	return ptracer.TraceKill
}
func (s strict) CheckRead(p string) ptracer.TraceAction  { return s.path(p) }
func (s strict) CheckWrite(p string) ptracer.TraceAction { return s.path(p) }
func (s strict) CheckStat(p string) ptracer.TraceAction  { return s.path(p) }
func (s strict) CheckSyscall(string) ptracer.TraceAction { return ptracer.TraceAllow }

func main() {
	hx.Init()
	scratch := os.Getenv("VERIF_SCRATCH")
	// many descriptors to list: the child spends a long time in its descriptor shuffle before setsid
	var manyFiles []uintptr
	null, _ := os.Open("/dev/null")
	hx.Cases(func(c map[string]any) map[string]any {
		if c["kind"] == "profile" {
			return profileCase(c, scratch, null)
		}
		args := []string{}
		if c["args"] != nil {
			for _, a := range c["args"].([]any) {
				args = append(args, a.(string))
			}
		}
		limit := runner.Limit{TimeLimit: 20 * time.Second, MemoryLimit: runner.Size(1 << 30)}
		cancelUs := hx.Int(c["cancel_us"]) // < 0: never; 0: cancelled before the call
		ctx, cancel := context.WithCancel(context.Background())
		defer cancel()
		var files []uintptr
		if n := int(hx.Int(c["nfiles"])); n > 0 {
			for len(manyFiles) < n {
				manyFiles = append(manyFiles, null.Fd())
			}
			files = manyFiles[:n]
		}
		pid := 0
		sync := func(p int) error { pid = p; return nil }
		var run func() runner.Result
		switch c["kind"].(string) {
		case "ptrace":
			r := &ptrace.Runner{Args: append([]string{hx.Target()}, args...), Env: []string{}, WorkDir: "/", Limit: limit,
				Seccomp: hx.AllowAll(), Handler: allowAll{}, Files: files}
			if c["syncfunc"] == true {
				r.SyncFunc = sync
			}
			run = func() runner.Result { return r.Run(ctx) }
		case "ptrace_busy":
			// a program that traps all the time (the tracer is almost always inside a trap when the cancellation arrives); the policy
			// bans or allows the probed path, and refuses (kill) anything else it is shown
			f, ferr := (&libseccomp.Builder{Trace: []string{"access"}, Default: libseccomp.ActionAllow}).Build()
			if ferr != nil {
				return map[string]any{"harness_err": ferr.Error()}
			}
			r := &ptrace.Runner{Args: append([]string{hx.Target()}, args...), Env: []string{}, WorkDir: "/", Limit: limit,
				Seccomp: f, Handler: strict{ban: c["policy"] == "ban"}, Files: files}
			run = func() runner.Result { return r.Run(ctx) }
		case "ns":
			r, err := hx.NsRunner(scratch, append([]string{"/vb/probe_target"}, args...))
			if err != nil {
				return map[string]any{"harness_err": err.Error()}
			}
			defer os.RemoveAll(r.Root)
			r.Limit = limit
			r.Files = files
			if c["syncfunc"] == true {
				r.SyncFunc = sync
			}
			run = func() runner.Result { return r.Run(ctx) }
		case "container", "container_after", "late_cancel":
			if env == nil {
				var err error
				env, err = hx.NewEnv(scratch, nil)
				if err != nil {
					return map[string]any{"harness_err": err.Error()}
				}
			}
			p := container.ExecveParam{Args: append([]string{"/vb/probe_target"}, args...), Env: []string{"PATH=/usr/bin:/bin"},
				SyncAfterExec: c["kind"] != "container", Files: files}
			if c["kind"] == "late_cancel" {
				// the program ends while the callback sleeps; the context is cancelled before the callback returns
				p.SyncFunc = func(int) error { time.Sleep(150 * time.Millisecond); cancel(); return nil }
				cancelUs = -1
			} else if c["syncfunc"] == true {
				p.SyncFunc = sync
			}
			run = func() runner.Result { return env.Execve(ctx, p) }
		case "destroy":
			// Destroy while a call is in flight
			e, err := hx.NewEnv(scratch, nil)
			if err != nil {
				return map[string]any{"harness_err": err.Error()}
			}
			p := container.ExecveParam{Args: []string{"/vb/probe_target", "sleep", "60000"}, Env: []string{"PATH=/usr/bin:/bin"}, SyncFunc: sync}
			done := make(chan runner.Result, 1)
			go func() { done <- e.Execve(context.Background(), p) }()
			time.Sleep(time.Duration(hx.Int(c["destroy_us"])) * time.Microsecond)
			t0 := time.Now()
			dd := make(chan error, 1)
			go func() { dd <- e.Destroy() }()
			out := map[string]any{}
			select {
			case r := <-done:
				out["call_returned_ms"] = time.Since(t0).Milliseconds()
				out["status"], out["errmsg"] = int(r.Status), r.Error
			case <-time.After(5 * time.Second):
				out["call_hangs"] = true
			}
			select {
			case err := <-dd:
				out["destroy_ms"] = time.Since(t0).Milliseconds()
				if err != nil {
					out["destroy_err"] = err.Error()
				}
			case <-time.After(5 * time.Second):
				out["destroy_hangs"] = true
			}
			time.Sleep(20 * time.Millisecond)
			out["program_alive"] = alive(pid)
			if pid > 0 && alive(pid) {
				syscall.Kill(pid, syscall.SIGKILL)
			}
			return out
		}
		if cancelUs == 0 {
			cancel()
		} else if cancelUs > 0 {
			go func() { time.Sleep(time.Duration(cancelUs) * time.Microsecond); cancel() }()
		}
		t0 := time.Now()
		resCh := make(chan runner.Result, 1)
		go func() { resCh <- run() }()
		select {
		case r := <-resCh:
			ms := time.Since(t0).Microseconds()
			time.Sleep(5 * time.Millisecond)
			return map[string]any{"status": int(r.Status), "exit": r.ExitStatus, "errmsg": r.Error, "us": ms, "program_alive": alive(pid), "pid": pid}
		case <-time.After(10 * time.Second):
			cancel()
			if c["kind"] == "container" || c["kind"] == "container_after" || c["kind"] == "late_cancel" {
				env = nil
			}
			return map[string]any{"hang": true}
		}
	})
	if env != nil {
		env.Destroy()
	}
}

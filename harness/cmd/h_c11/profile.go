// Cancellation of programs with a resource profile: the program first builds a profile (memory kept resident, CPU time burnt) that
// lies at a chosen place relative to the limits of the run, tells the harness that it has done so, and lives on; the context is
// cancelled a chosen time after that.  The harness reports the Result, the usage the runner measured, and the time from the
// cancellation to the return.
package main

import (
	"context"
	"os"
	"strconv"
	"time"

	"verifh/lib/hx"

	"github.com/criyle/go-sandbox/container"
	"github.com/criyle/go-sandbox/runner"
	"github.com/criyle/go-sandbox/runner/ptrace"
)

func profileCase(c map[string]any, scratch string, null *os.File) map[string]any {
	memBytes, cpuMs, liveMs := hx.Int(c["mem_bytes"]), hx.Int(c["cpu_ms"]), hx.Int(c["live_ms"])
	limit := runner.Limit{TimeLimit: time.Duration(hx.Int(c["limit_time_ms"])) * time.Millisecond, MemoryLimit: runner.Size(hx.Int(c["limit_mem"]))}
	cancelUs := hx.Int(c["cancel_after_ready_us"]) // < 0: never
	progArgs := []string{"load", itoa(memBytes), itoa(cpuMs), itoa(liveMs)}

	pr, pw, err := os.Pipe()
	if err != nil {
		return map[string]any{"harness_err": err.Error()}
	}
	defer pr.Close()
	pwOpen := true
	closeW := func() {
		if pwOpen {
			pw.Close()
			pwOpen = false
		}
	}
	defer closeW()
	files := []uintptr{null.Fd(), pw.Fd(), null.Fd()}

	ctx, cancel := context.WithCancel(context.Background())
	defer cancel()
	pid := 0
	sync := func(p int) error { pid = p; return nil }
	var run func() runner.Result
	kind := c["runner"].(string)
	switch kind {
	case "ptrace":
		r := &ptrace.Runner{Args: append([]string{hx.Target()}, progArgs...), Env: []string{}, WorkDir: "/", Limit: limit,
			Seccomp: hx.AllowAll(), Handler: allowAll{}, Files: files, SyncFunc: sync}
		run = func() runner.Result { return r.Run(ctx) }
	case "ns":
		r, err := hx.NsRunner(scratch, append([]string{"/vb/probe_target"}, progArgs...))
		if err != nil {
			return map[string]any{"harness_err": err.Error()}
		}
		defer os.RemoveAll(r.Root)
		r.Limit = limit
		r.Files = files
		r.SyncFunc = sync
		run = func() runner.Result { return r.Run(ctx) }
	case "container", "container_after":
		if env == nil {
			var err error
			env, err = hx.NewEnv(scratch, nil)
			if err != nil {
				return map[string]any{"harness_err": err.Error()}
			}
		}
		// (the container compares the usage with the limits itself only through the cgroup of the caller; the Result carries the usage)
		p := container.ExecveParam{Args: append([]string{"/vb/probe_target"}, progArgs...), Env: []string{"PATH=/usr/bin:/bin"},
			SyncAfterExec: kind == "container_after", Files: files, SyncFunc: sync}
		run = func() runner.Result { return env.Execve(ctx, p) }
	default:
		return map[string]any{"harness_err": "unknown runner " + kind}
	}

	readyCh := make(chan bool, 1)
	go func() {
		b := make([]byte, 1)
		n, _ := pr.Read(b)
		readyCh <- n == 1 && b[0] == 'R'
	}()
	t0 := time.Now()
	resCh := make(chan runner.Result, 1)
	go func() { resCh <- run() }()

	out := map[string]any{"ready": false, "cancelled": false}
	giveUp := func() map[string]any {
		cancel()
		if kind != "ptrace" && kind != "ns" {
			env = nil
		}
		out["hang"] = true
		return out
	}
	finish := func(r runner.Result, tc time.Time) map[string]any {
		out["us"] = time.Since(t0).Microseconds()
		if !tc.IsZero() {
			out["cancel_to_return_us"] = time.Since(tc).Microseconds()
		}
		closeW()
		time.Sleep(5 * time.Millisecond)
		out["status"], out["exit"], out["errmsg"] = int(r.Status), r.ExitStatus, r.Error
		out["time_us"], out["memory"] = r.Time.Microseconds(), int64(r.Memory)
		out["program_alive"], out["pid"] = alive(pid), pid
		return out
	}
	select {
	case ok := <-readyCh:
		out["ready"] = ok
		out["ready_us"] = time.Since(t0).Microseconds()
	case r := <-resCh:
		// the run ended before the report of the program was seen: it is in the pipe if the program made it
		closeW()
		select {
		case ok := <-readyCh:
			out["ready"] = ok
		case <-time.After(5 * time.Second):
		}
		return finish(r, time.Time{})
	case <-time.After(30 * time.Second):
		return giveUp()
	}
	var tc time.Time
	if cancelUs >= 0 && out["ready"] == true {
		time.Sleep(time.Duration(cancelUs) * time.Microsecond)
		// (is the run still going on at the instant of the cancellation?)
		select {
		case r := <-resCh:
			return finish(r, time.Time{})
		default:
		}
		tc = time.Now()
		cancel()
		out["cancelled"] = true
	}
	select {
	case r := <-resCh:
		return finish(r, tc)
	case <-time.After(time.Duration(liveMs)*time.Millisecond + 30*time.Second):
		return giveUp()
	}
}

func itoa(n int64) string { return strconv.FormatInt(n, 10) }

// h_c14: Open batches of any length on one container environment, observed item by item.
// Unlike h_env's "open" it makes no assumption about the shape of a result (a result that carries neither a file nor an
// error, or both, is reported as such), it looks at the container's files from the host side (through
// /proc/<init>/root, i.e. not through Open itself) and it accounts for the descriptors of the harness process.
//
// case: {"id", "ops": [ {op: newenv|reset|ping|exec|openx|view, ...} ]}; reply: {"obs": [...]}
//
//	openx: {"items": [{path, flag, perm, mkdirall, token?}], "view": [path, ...]}
//	       -> {"err", "n_results", "results": [{"file": bool, "err": string|null, dev, ino, mode, accmode, cloexec, name, write_err}],
//	           "fd_before", "fd_after", "view": [{"kind", dev, ino, size, head, target}], "ms"}
package main

import (
	"context"
	"os"
	"strconv"
	"strings"
	"syscall"
	"time"

	"verifh/lib/hx"

	"github.com/criyle/go-sandbox/container"
	"github.com/criyle/go-sandbox/pkg/pipe"
)

var env container.Environment
var errFile *os.File

func errs(e error) any {
	if e == nil {
		return nil
	}
	return e.Error()
}

func strs(v any) []string {
	r := []string{}
	if v == nil {
		return r
	}
	for _, x := range v.([]any) {
		r = append(r, x.(string))
	}
	return r
}

func ensure(scratch string) error {
	if env != nil {
		return nil
	}
	var err error
	if errFile == nil {
		errFile, err = os.CreateTemp(scratch, "initerr")
		if err != nil {
			return err
		}
	}
	env, err = hx.NewEnv(scratch, errFile)
	if err != nil {
		return err
	}
	// warm-up: whatever the runtime opens lazily (poller, ...) is open before descriptors are counted
	if res, e := env.Open([]container.OpenCmd{{Path: "/tmp/warm-up", Flag: os.O_CREATE | os.O_RDWR, Perm: 0600}}); e == nil {
		for _, r := range res {
			if r.File != nil {
				r.File.Close()
			}
		}
	}
	env.Delete("/tmp/warm-up")
	return nil
}

// openFds is the number of descriptors of this process
func openFds() int {
	d, err := os.Open("/proc/self/fd")
	if err != nil {
		return -1
	}
	defer d.Close()
	names, _ := d.Readdirnames(-1)
	return len(names) - 1 // without d itself
}

// hostView looks at a path of the container from the host side, without following a final symbolic link
func hostView(initPid int, p string) map[string]any {
	o := map[string]any{}
	hp := "/proc/" + strconv.Itoa(initPid) + "/root" + p
	var st syscall.Stat_t
	if err := syscall.Lstat(hp, &st); err != nil {
		if err == syscall.ENOENT || err == syscall.ENOTDIR {
			o["kind"] = "absent"
		} else {
			o["kind"] = "error:" + err.Error()
		}
		return o
	}
	o["dev"], o["ino"], o["size"] = st.Dev, st.Ino, st.Size
	switch st.Mode & syscall.S_IFMT {
	case syscall.S_IFREG:
		o["kind"] = "reg"
		if fd, err := syscall.Open(hp, syscall.O_RDONLY|syscall.O_NOFOLLOW|syscall.O_NONBLOCK|syscall.O_CLOEXEC, 0); err == nil {
			buf := make([]byte, 64)
			n, _ := syscall.Read(fd, buf)
			syscall.Close(fd)
			if n > 0 {
				o["head"] = string(buf[:n])
			} else {
				o["head"] = ""
			}
		}
	case syscall.S_IFDIR:
		o["kind"] = "dir"
	case syscall.S_IFIFO:
		o["kind"] = "fifo"
	case syscall.S_IFSOCK:
		o["kind"] = "sock"
	case syscall.S_IFLNK:
		o["kind"] = "sym"
		buf := make([]byte, 4096)
		if n, err := syscall.Readlink(hp, buf); err == nil {
			o["target"] = string(buf[:n])
		}
	default:
		o["kind"] = "other"
	}
	return o
}

func main() {
	hx.Init()
	scratch := os.Getenv("VERIF_SCRATCH")
	hung := false
	hx.Cases(func(c map[string]any) map[string]any {
		obs := []any{}
		if hung {
			// a call never returned: Open holds the fork lock for ever, nothing more can be started in this process
			return map[string]any{"obs": obs, "hang": true, "skipped_after_hangs": true}
		}
		for _, raw := range c["ops"].([]any) {
			op := raw.(map[string]any)
			kind := op["op"].(string)
			if kind != "newenv" {
				if err := ensure(scratch); err != nil {
					return map[string]any{"harness_err": err.Error()}
				}
			}
			t0 := time.Now()
			o := map[string]any{"op": kind}
			finished := make(chan struct{})
			go func() {
				defer close(finished)
				switch kind {
				case "newenv":
					if env != nil {
						env.Destroy()
						env = nil
					}
					o["err"] = errs(ensure(scratch))
				case "ping":
					o["err"] = errs(env.Ping())
				case "reset":
					err := env.Reset()
					o["err"] = errs(err)
					if err != nil {
						// the environment did not survive the previous history (reported there): the next one starts on a new one
						env.Destroy()
						env = nil
						o["rebuilt"] = true
						o["rebuild_err"] = errs(ensure(scratch))
					}
				case "view":
					ip := container.InitPidVerif(env)
					vs := []any{}
					for _, p := range strs(op["paths"]) {
						vs = append(vs, hostView(ip, p))
					}
					o["view"] = vs
				case "exec":
					buf, err := pipe.NewBuffer(1 << 20)
					if err != nil {
						o["harness_err"] = err.Error()
						return
					}
					null, _ := os.Open("/dev/null")
					ctx, cancel := context.WithTimeout(context.Background(), 20*time.Second)
					r := env.Execve(ctx, container.ExecveParam{Args: strs(op["args"]), Env: []string{"PATH=/usr/bin:/bin"},
						Files: []uintptr{null.Fd(), buf.W.Fd(), buf.W.Fd()}})
					cancel()
					null.Close()
					buf.W.Close()
					<-buf.Done
					o["status"], o["exit"], o["errmsg"] = int(r.Status), r.ExitStatus, r.Error
					o["stdout"] = strings.TrimSpace(buf.Buffer.String())
				case "openx":
					raws := op["items"].([]any)
					items := make([]container.OpenCmd, 0, len(raws))
					for _, it := range raws {
						m := it.(map[string]any)
						items = append(items, container.OpenCmd{Path: m["path"].(string), Flag: int(hx.Int(m["flag"])),
							Perm: os.FileMode(hx.Int(m["perm"])), MkdirAll: m["mkdirall"] == true})
					}
					o["fd_before"] = openFds()
					tc := time.Now()
					res, err := env.Open(items)
					o["call_ms"] = time.Since(tc).Milliseconds()
					o["err"] = errs(err)
					o["n_results"] = len(res)
					rs := []any{}
					var files []*os.File
					for i, r := range res {
						x := map[string]any{"file": r.File != nil, "err": errs(r.Err)}
						if r.File != nil {
							files = append(files, r.File)
							var st syscall.Stat_t
							if e := syscall.Fstat(int(r.File.Fd()), &st); e != nil {
								x["fstat_err"] = e.Error()
							} else {
								x["dev"], x["ino"], x["mode"] = st.Dev, st.Ino, st.Mode
							}
							fl, _, _ := syscall.Syscall(syscall.SYS_FCNTL, r.File.Fd(), syscall.F_GETFL, 0)
							x["accmode"] = int(fl) & 3
							fd, _, _ := syscall.Syscall(syscall.SYS_FCNTL, r.File.Fd(), syscall.F_GETFD, 0)
							x["cloexec"] = int(fd)&1 == 1
							x["name"] = r.File.Name()
							if i < len(raws) {
								if tok, _ := raws[i].(map[string]any)["token"].(string); tok != "" {
									_, we := r.File.WriteString(tok)
									x["write_err"] = errs(we)
								}
							}
						}
						rs = append(rs, x)
					}
					for _, f := range files {
						f.Close()
					}
					o["results"] = rs
					o["fd_after"] = openFds()
					if op["view"] != nil && env != nil {
						ip := container.InitPidVerif(env)
						vs := []any{}
						for _, p := range strs(op["view"]) {
							vs = append(vs, hostView(ip, p))
						}
						o["view"] = vs
					}
				}
			}()
			select {
			case <-finished:
			case <-time.After(40 * time.Second):
				obs = append(obs, map[string]any{"op": kind, "hang": true, "ms": time.Since(t0).Milliseconds()})
				env = nil
				hung = true
				return map[string]any{"obs": obs, "hang": true}
			}
			o["ms"] = time.Since(t0).Milliseconds()
			obs = append(obs, o)
		}
		return map[string]any{"obs": obs}
	})
	if env != nil {
		env.Destroy()
	}
}

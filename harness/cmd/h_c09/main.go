// h_c09: status classification of the three runners.
package main

import (
	"github.com/criyle/go-sandbox/pkg/rlimit"
	"context"
	"os"
	"strconv"
	"syscall"
	"time"

	unix "golang.org/x/sys/unix"

	"verifh/lib/hx"

	"github.com/criyle/go-sandbox/container"
	"github.com/criyle/go-sandbox/ptracer"
	"github.com/criyle/go-sandbox/runner"
	"github.com/criyle/go-sandbox/runner/ptrace"
)

type nopHandler struct{}

func (nopHandler) Handle(*ptracer.Context) ptracer.TraceAction { return ptracer.TraceAllow }
func (nopHandler) Debug(v ...interface{})                      {}

type allowAll struct{}

func (allowAll) CheckRead(string) ptracer.TraceAction    { return ptracer.TraceAllow }
func (allowAll) CheckWrite(string) ptracer.TraceAction   { return ptracer.TraceAllow }
func (allowAll) CheckStat(string) ptracer.TraceAction    { return ptracer.TraceAllow }
func (allowAll) CheckSyscall(string) ptracer.TraceAction { return ptracer.TraceAllow }

func res(r runner.Result) map[string]any {
	return map[string]any{"status": int(r.Status), "exit": r.ExitStatus, "err": r.Error != "", "errmsg": r.Error}
}

var env container.Environment

func main() {
	hx.Init()
	// core files are off (soft 0) unless a case asks for them, but may be switched on per program (hard unlimited)
	syscall.Setrlimit(syscall.RLIMIT_CORE, &syscall.Rlimit{Cur: 0, Max: ^uint64(0)})
	scratch := os.Getenv("VERIF_SCRATCH")
	limit := runner.Limit{TimeLimit: 10 * time.Second, MemoryLimit: runner.Size(1 << 30)}
	hx.Cases(func(c map[string]any) map[string]any {
		switch c["kind"].(string) {
		case "convert": // all status words lo..hi through convertReply+convertReplyResult
			lo, hi := hx.Int(c["lo"]), hx.Int(c["hi"])
			out := make([]int64, 0, hi-lo)
			for w := lo; w < hi; w++ {
				r := container.ConvertReplyVerif(syscall.WaitStatus(w), syscall.Rusage{}, "", "", false)
				code := int64(r.Status)<<40 | int64(uint32(int32(r.ExitStatus)))<<1
				if r.Error != "" {
					code |= 1
				}
				out = append(out, code)
			}
			return map[string]any{"codes": out}
		case "convert1":
			w := hx.Int(c["w"])
			we, se := "", ""
			if c["wait_err"] == true {
				we = "boom"
			}
			if c["sock_err"] == true {
				se = "sock"
			}
			return res(container.ConvertReplyVerif(syscall.WaitStatus(w), syscall.Rusage{}, we, se, c["no_reply"] == true))
		case "handle": // ptraceHandle.handle on a pid that is not a tracee: ptrace requests fail with ESRCH
			var traced []int
			for _, p := range c["traced"].([]any) {
				traced = append(traced, int(hx.Int(p)))
			}
			st, ex, es, fin, ev, tr := ptracer.HandleVerif(nopHandler{}, int(hx.Int(c["pgid"])), c["execved"] == true, traced,
				int(hx.Int(c["pid"])), unix.WaitStatus(hx.Int(c["w"])))
			return map[string]any{"status": int(st), "exit": ex, "err": es != "", "finished": fin, "execved": ev, "traced": tr}
		case "usage":
			ru := unix.Rusage{}
			ru.Utime.Sec = hx.Int(c["sec"])
			ru.Utime.Usec = hx.Int(c["usec"])
			ru.Maxrss = hx.Int(c["maxrss"])
			t, m, st := ptracer.CheckUsageVerif(runner.Limit{TimeLimit: time.Duration(hx.Int(c["tl"])), MemoryLimit: runner.Size(uint64(hx.Int(c["ml"])))}, ru)
			return map[string]any{"time": t, "mem": m, "status": int(st)}
		case "run":
			args := []string{}
			for _, a := range c["args"].([]any) {
				args = append(args, a.(string))
			}
			ctx, cancel := context.WithTimeout(context.Background(), 20*time.Second)
			defer cancel()
			var sync func(pid int) error
			if k := hx.Int(c["kill"]); k != 0 {
				sync = func(pid int) error {
					go func() {
						time.Sleep(time.Duration(hx.Int(c["kill_after_ms"])) * time.Millisecond)
						syscall.Kill(pid, syscall.Signal(k))
					}()
					return nil
				}
			} else if c["syncfunc"] == true {
				sync = func(pid int) error { return nil }
			}
			// core: the program may write a core file (soft limit raised for it; the hard limit of this process is unlimited)
			var rl []rlimit.RLimit
			wd := "/"
			if c["core"] == true {
				rl = []rlimit.RLimit{{Res: syscall.RLIMIT_CORE, Rlim: syscall.Rlimit{Cur: 1 << 30, Max: ^uint64(0)}}}
				wd, _ = os.MkdirTemp(scratch, "core")
				defer os.RemoveAll(wd)
			}
			switch c["runner"].(string) {
			case "ptrace":
				r := &ptrace.Runner{Args: append([]string{hx.Target()}, args...), Env: []string{}, WorkDir: wd,
					Limit: limit, Seccomp: hx.AllowAll(), Handler: allowAll{}, SyncFunc: sync, RLimits: rl}
				return res(r.Run(ctx))
			case "ns":
				r, err := hx.NsRunner(scratch, append([]string{"/vb/probe_target"}, args...))
				if err != nil {
					return map[string]any{"harness_err": err.Error()}
				}
				defer os.RemoveAll(r.Root)
				r.Limit = limit
				r.SyncFunc = sync
				r.RLimits = rl
				return res(r.Run(ctx))
			case "container", "container_after":
				if env == nil {
					var err error
					env, err = hx.NewEnv(scratch, nil)
					if err != nil {
						return map[string]any{"harness_err": err.Error()}
					}
				}
				p := container.ExecveParam{Args: append([]string{"/vb/probe_target"}, args...), Env: []string{"PATH=/usr/bin:/bin"},
					SyncAfterExec: c["runner"] == "container_after"}
				p.SyncFunc = sync
				p.RLimits = rl
				return res(env.Execve(ctx, p))
			}
		}
		return map[string]any{"harness_err": "unknown kind " + strconv.Quote(c["kind"].(string))}
	})
	if env != nil {
		env.Destroy()
	}
}

// h_env: drives one container environment through a scripted history of API calls.
// case: {"id", "ops": [ {op: ping|reset|delete|symlink|open|exec|newenv|destroy, ...} ]}; reply: {"obs": [...]}
package main

import (
	"context"
	"errors"
	"io"
	"os"
	"strconv"
	"strings"
	"sync/atomic"
	"syscall"
	"time"

	"verifh/lib/hx"

	"github.com/criyle/go-sandbox/container"
	"github.com/criyle/go-sandbox/pkg/pipe"
	"github.com/criyle/go-sandbox/pkg/seccomp"
)

var env container.Environment

// lateDone is cancelled from the start, but says so only after a delay
type lateDone struct {
	context.Context
	after time.Duration
}

var closedCh = func() chan struct{} { c := make(chan struct{}); close(c); return c }()

func (l lateDone) Done() <-chan struct{} { time.Sleep(l.after); return closedCh }
func (l lateDone) Err() error            { return context.Canceled }

func strs(v any) []string {
	r := []string{}
	if v == nil {
		return r
	}
	for _, x := range v.([]any) {
		r = append(r, x.(string))
	}
	return r
}

func errs(e error) any {
	if e == nil {
		return nil
	}
	return e.Error()
}

var errFile *os.File
var errOff int64

var unshareCgroup bool
var busyMounts bool

func ensure(scratch string) error {
	if env != nil {
		return nil
	}
	var err error
	if errFile == nil {
		errFile, err = os.CreateTemp(scratch, "initerr")
		if err != nil {
			return err
		}
	}
	env, err = hx.NewEnvWith(scratch, errFile, func(b *container.Builder) {
		b.UnshareCgroupBeforeExec = unshareCgroup
		if busyMounts {
			// a file bound below each of the two tmpfs mounts: Reset cannot empty either of them (EBUSY)
			b.Mounts = hx.Mounts().WithBind("/bin/true", "w/tool", true).WithBind("/bin/true", "tmp/tool", true).FilterNotExist().Mounts
		}
	})
	container.VerifTakeEvents()
	st, _ := errFile.Stat()
	errOff = st.Size()
	return err
}

// contLog returns what the container init wrote to its stderr since the environment was built
func contLog() []string {
	time.Sleep(3 * time.Millisecond)
	b, _ := os.ReadFile(errFile.Name())
	if int64(len(b)) < errOff {
		return nil
	}
	var r []string
	for _, l := range strings.Split(string(b[errOff:]), "\n") {
		if l != "" {
			r = append(r, l)
		}
	}
	return r
}

func fileObs(f *os.File, read bool, write string) map[string]any {
	var st syscall.Stat_t
	o := map[string]any{}
	if err := syscall.Fstat(int(f.Fd()), &st); err != nil {
		o["fstat_err"] = err.Error()
		return o
	}
	o["dev"], o["ino"], o["mode"], o["size"] = st.Dev, st.Ino, st.Mode, st.Size
	fl, _, _ := syscall.Syscall(syscall.SYS_FCNTL, f.Fd(), syscall.F_GETFL, 0)
	o["accmode"] = int(fl) & 3
	fd, _, _ := syscall.Syscall(syscall.SYS_FCNTL, f.Fd(), syscall.F_GETFD, 0)
	o["cloexec"] = int(fd)&1 == 1
	if write != "" {
		_, err := f.WriteString(write)
		o["write_err"] = errs(err)
	}
	if read {
		b, err := io.ReadAll(io.LimitReader(f, 1<<16))
		o["content"] = string(b)
		o["read_err"] = errs(err)
	}
	return o
}

// allStopped: every thread of pid is in state T (stopped)
func allStopped(pid int) bool {
	ts, err := os.ReadDir("/proc/" + strconv.Itoa(pid) + "/task")
	if err != nil || len(ts) == 0 {
		return false
	}
	for _, t := range ts {
		b, err := os.ReadFile("/proc/" + strconv.Itoa(pid) + "/task/" + t.Name() + "/stat")
		if err != nil {
			continue // the thread is gone
		}
		f := strings.Fields(string(b[strings.LastIndexByte(string(b), ')')+1:]))
		if len(f) == 0 || f[0] != "T" {
			return false
		}
	}
	return true
}

// execcross reports every finished round here; its guard is about progress, not about speed (on a loaded machine one round
// takes a multiple of what it takes on an idle one, and the op schedules pauses of 6 * the measured duration of a run itself)
var crossProgress, crossAllow atomic.Int64

// hangGuard fires when a call counts as hanging: 12 s (+ 200 ms per round) after the op began; for execcross, when no round has
// finished for 12 s + 20 * the measured duration of one run (no progress: a call of that round never returned)
func hangGuard(kind string, op map[string]any, finished <-chan struct{}) <-chan time.Time {
	if kind != "execcross" {
		return time.After(12*time.Second + time.Duration(hx.Int(op["rounds"]))*200*time.Millisecond)
	}
	ch := make(chan time.Time, 1)
	crossProgress.Store(time.Now().UnixNano())
	crossAllow.Store(0)
	go func() {
		for {
			select {
			case <-finished:
				return
			case <-time.After(250 * time.Millisecond):
			}
			if time.Since(time.Unix(0, crossProgress.Load())) > 12*time.Second+time.Duration(crossAllow.Load()) {
				ch <- time.Now()
				return
			}
		}
	}()
	return ch
}

func main() {
	hx.Init()
	scratch := os.Getenv("VERIF_SCRATCH")
	hangs := 0
	hx.Cases(func(c map[string]any) map[string]any {
		obs := []any{}
		if hangs >= 1 {
			// a call never returned: it may hold the fork lock for ever (Open does), so nothing more can be started in this process
			return map[string]any{"obs": obs, "hang": true, "skipped_after_hangs": true}
		}
		for _, raw := range c["ops"].([]any) {
			op := raw.(map[string]any)
			kind := op["op"].(string)
			if kind != "destroy" && kind != "newenv" {
				if err := ensure(scratch); err != nil {
					return map[string]any{"harness_err": err.Error()}
				}
			}
			t0 := time.Now()
			o := map[string]any{"op": kind}
			finished := make(chan struct{})
			go func() {
				defer close(finished)
				switch kind {
				case "logs":
					// wire-level logs of both endpoints since the environment was built (a ping first, so that the
					// container has consumed whatever the host still owed it)
					env.Ping()
					o["host"] = container.VerifTakeEvents()
					o["cont"] = contLog()
				case "newenv":
					if env != nil {
						env.Destroy()
						env = nil
					}
					unshareCgroup = op["unshare_cgroup"] == true
					busyMounts = op["busy_mounts"] == true
					o["err"] = errs(ensure(scratch))
				case "destroy":
					if env != nil {
						o["err"] = errs(env.Destroy())
						env = nil
					}
				case "execcross":
					// cancellations aimed at the instant the program ends by itself, each followed by a Ping: whatever verdict the race
					// produces, the next call must be answered
					rounds := int(hx.Int(op["rounds"]))
					null, _ := os.Open("/dev/null")
					one := func(d time.Duration) (int, string) {
						ctx, cancel := context.WithCancel(context.Background())
						if d > 0 {
							t := time.AfterFunc(d, cancel)
							defer t.Stop()
						}
						defer cancel()
						r := env.Execve(ctx, container.ExecveParam{Args: []string{"/vb/probe_target", "exit", "0"}, Env: []string{}, Files: []uintptr{null.Fd(), null.Fd(), null.Fd()}})
						return int(r.Status), r.Error
					}
					var base time.Duration
					for i := 0; i < 5; i++ {
						t0 := time.Now()
						one(0)
						base += time.Since(t0)
						crossProgress.Store(time.Now().UnixNano())
					}
					base /= 5
					// the longest pause this op schedules inside one round is 6*base (lateDone); the guard allows for it
					crossAllow.Store(int64(20 * base))
					counts := map[string]int{}
					fail := ""
					done := 0
					// the same crossing forced: a context whose Done() is only answered once the program has certainly ended, so that
					// the cancellation and the result are both there when the runtime chooses
					for rd := 0; rd < rounds/10 && fail == ""; rd++ {
						r := env.Execve(lateDone{context.Background(), 6 * base}, container.ExecveParam{Args: []string{"/vb/probe_target", "exit", "0"}, Env: []string{},
							Files: []uintptr{null.Fd(), null.Fd(), null.Fd()}})
						counts["forced:"+strconv.Itoa(int(r.Status))]++
						if err := env.Ping(); err != nil {
							fail = "ping after a run whose cancellation arrived together with its result: " + err.Error()
						}
						done++
						crossProgress.Store(time.Now().UnixNano())
					}
					for rd := 0; rd < rounds && fail == ""; rd++ {
						d := base + time.Duration(rd%61-30)*(base/60)
						st, _ := one(d)
						counts[strconv.Itoa(st)]++
						if err := env.Ping(); err != nil {
							fail = "ping after a run whose cancellation crossed its end: " + err.Error()
						}
						done++
						crossProgress.Store(time.Now().UnixNano())
					}
					null.Close()
					o["rounds_done"], o["fail"], o["statuses"], o["base_us"] = done, fail, counts, base.Microseconds()
				case "sleep":
					time.Sleep(time.Duration(hx.Int(op["ms"])) * time.Millisecond)
				case "stallinit":
					// the container stalls for a while (longer than any reasonable wait of the host) and then goes on by itself
					ip := container.InitPidVerif(env)
					syscall.Kill(ip, syscall.SIGSTOP)
					go func(d time.Duration) { time.Sleep(d); syscall.Kill(ip, syscall.SIGCONT) }(time.Duration(hx.Int(op["ms"])) * time.Millisecond)
				case "stopinit":
					// the container stalls (stopped) ...
					ip := container.InitPidVerif(env)
					syscall.Kill(ip, syscall.SIGSTOP)
					// the stop takes effect thread by thread: wait (2 s at most) until every thread of the init shows state T, so that
					// none of them answers the next call
					for k := 0; k < 400 && !allStopped(ip); k++ {
						time.Sleep(5 * time.Millisecond)
					}
				case "continit":
					// ... and goes on later
					syscall.Kill(container.InitPidVerif(env), syscall.SIGCONT)
					time.Sleep(50 * time.Millisecond)
				case "killinit":
					// the container dies under the host's feet: the transport is lost from now on
					syscall.Kill(container.InitPidVerif(env), syscall.SIGKILL)
					time.Sleep(30 * time.Millisecond)
				case "ping":
					o["err"] = errs(env.Ping())
				case "reset":
					o["err"] = errs(env.Reset())
				case "delete":
					o["err"] = errs(env.Delete(op["path"].(string)))
				case "symlink":
					var ls []container.SymbolicLink
					for _, l := range op["links"].([]any) {
						m := l.(map[string]any)
						ls = append(ls, container.SymbolicLink{LinkPath: m["link"].(string), Target: m["target"].(string)})
					}
					res, err := env.Symlink(ls)
					o["err"] = errs(err)
					rs := []any{}
					for _, e := range res {
						rs = append(rs, errs(e))
					}
					o["results"] = rs
				case "open":
					var items []container.OpenCmd
					raws := op["items"].([]any)
					for _, it := range raws {
						m := it.(map[string]any)
						items = append(items, container.OpenCmd{Path: m["path"].(string), Flag: int(hx.Int(m["flag"])),
							Perm: os.FileMode(hx.Int(m["perm"])), MkdirAll: m["mkdirall"] == true})
					}
					res, err := env.Open(items)
					o["err"] = errs(err)
					rs := []any{}
					for i, r := range res {
						m := raws[i].(map[string]any)
						if r.Err != nil {
							rs = append(rs, map[string]any{"err": r.Err.Error()})
							continue
						}
						w, _ := m["write"].(string)
						fo := fileObs(r.File, m["read"] == true, w)
						fo["name"] = r.File.Name()
						rs = append(rs, fo)
						r.File.Close()
					}
					o["results"] = rs
				case "openstress":
					// rounds of large create / read-back batches: identity, content and order of every descriptor
					rounds, n := int(hx.Int(op["rounds"])), int(hx.Int(op["n"]))
					fail := ""
					done := 0
				outer:
					for rd := 0; rd < rounds && fail == ""; rd++ {
						items := make([]container.OpenCmd, n)
						for i := range items {
							items[i] = container.OpenCmd{Path: "/w/stress/d" + strconv.Itoa(i%7) + "/file-with-a-rather-long-name-" + strconv.Itoa(i), Flag: os.O_CREATE | os.O_RDWR | os.O_TRUNC, Perm: 0600, MkdirAll: true}
						}
						res, err := env.Open(items)
						if err != nil {
							fail = "round " + strconv.Itoa(rd) + ": open: " + err.Error()
							break
						}
						inos := map[uint64]int{}
						for i, r := range res {
							if r.Err != nil {
								fail = "round " + strconv.Itoa(rd) + ": item " + strconv.Itoa(i) + ": " + r.Err.Error()
								break outer
							}
							var st syscall.Stat_t
							if err := syscall.Fstat(int(r.File.Fd()), &st); err != nil {
								fail = "round " + strconv.Itoa(rd) + ": item " + strconv.Itoa(i) + ": fstat: " + err.Error()
								break outer
							}
							if j, dup := inos[st.Ino]; dup {
								fail = "round " + strconv.Itoa(rd) + ": items " + strconv.Itoa(j) + " and " + strconv.Itoa(i) + " were handed the same file"
								break outer
							}
							inos[st.Ino] = i
							r.File.WriteString(strconv.Itoa(i))
						}
						for _, r := range res {
							r.File.Close()
						}
						for i := range items {
							items[i].Flag = os.O_RDONLY
							items[i].MkdirAll = false
						}
						res, err = env.Open(items)
						if err != nil {
							fail = "round " + strconv.Itoa(rd) + ": read-back open: " + err.Error()
							break
						}
						for i, r := range res {
							if r.Err != nil {
								fail = "round " + strconv.Itoa(rd) + ": read-back item " + strconv.Itoa(i) + ": " + r.Err.Error()
								break
							}
							b, _ := io.ReadAll(io.LimitReader(r.File, 64))
							if string(b) != strconv.Itoa(i) && fail == "" {
								fail = "round " + strconv.Itoa(rd) + ": item " + strconv.Itoa(i) + " reads back " + strconv.Quote(string(b))
							}
							r.File.Close()
						}
						if err := env.Ping(); err != nil && fail == "" {
							fail = "round " + strconv.Itoa(rd) + ": ping: " + err.Error()
						}
						done++
					}
					o["rounds_done"], o["fail"] = done, fail
				case "exec":
					buf, err := pipe.NewBuffer(1 << 20)
					if err != nil {
						o["harness_err"] = err.Error()
						return
					}
					null, _ := os.Open("/dev/null")
					ctx, cancel := context.WithTimeout(context.Background(), 8*time.Second)
					p := container.ExecveParam{Args: strs(op["args"]), Env: []string{"PATH=/usr/bin:/bin"},
						Files: []uintptr{null.Fd(), buf.W.Fd(), buf.W.Fd()}, SyncAfterExec: op["sync_after"] == true}
					switch op["seccomp"] {
					case "ok":
						p.Seccomp = hx.AllowAll()
					case "bad":
						p.Seccomp = seccomp.Filter{{Code: 0xffff, K: 0}} // the kernel refuses it
					}
					if n := int(hx.Int(op["env_bytes"])); n > 0 {
						p.Env = append(p.Env, "BIG="+strings.Repeat("x", n))
					}
					syncPid := 0
					switch op["sync"] {
					case "ok":
						p.SyncFunc = func(pid int) error { syncPid = pid; return nil }
					case "fail":
						p.SyncFunc = func(pid int) error { syncPid = pid; return errors.New("callback says no") }
					}
					if ms := hx.Int(op["cancel_ms"]); op["cancel_ms"] != nil && ms >= 0 {
						go func() { time.Sleep(time.Duration(ms) * time.Millisecond); cancel() }()
					}
					r := env.Execve(ctx, p)
					cancel()
					null.Close()
					buf.W.Close()
					<-buf.Done
					o["status"], o["exit"], o["errmsg"] = int(r.Status), r.ExitStatus, r.Error
					o["stdout"] = strings.TrimSpace(buf.Buffer.String())
					o["sync_pid"] = syncPid
				}
			}()
			select {
			case <-finished:
			case <-hangGuard(kind, op, finished):
				_ = 0
				// the call hangs: report it and abandon this environment (and the rest of the history)
				obs = append(obs, map[string]any{"op": kind, "hang": true, "ms": time.Since(t0).Milliseconds()})
				env = nil
				hangs++
				return map[string]any{"obs": obs, "hang": true}
			}
			o["ms"] = time.Since(t0).Milliseconds()
			obs = append(obs, o)
		}
		return map[string]any{"obs": obs}
	})
	if env != nil {
		env.Destroy()
	}
}

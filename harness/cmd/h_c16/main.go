// h_c16: a controller process that is going to be killed.  usage: h_c16 <point> <token> <scratch>
// It brings a sandbox to the named point, prints one JSON line {"point", "init", "pid"} and stays there.
package main

import (
	"context"
	"encoding/json"
	"fmt"
	"golang.org/x/sys/unix"
	"os"
	"path/filepath"
	"strconv"
	"strings"
	"syscall"
	"time"

	"verifh/lib/hx"

	"github.com/criyle/go-sandbox/container"
	"github.com/criyle/go-sandbox/pkg/forkexec"
	"github.com/criyle/go-sandbox/pkg/mount"
	"github.com/criyle/go-sandbox/ptracer"
	"github.com/criyle/go-sandbox/runner"
	"github.com/criyle/go-sandbox/runner/ptrace"
)

type allowAll struct{}

func (allowAll) CheckRead(string) ptracer.TraceAction    { return ptracer.TraceAllow }
func (allowAll) CheckWrite(string) ptracer.TraceAction   { return ptracer.TraceAllow }
func (allowAll) CheckStat(string) ptracer.TraceAction    { return ptracer.TraceAllow }
func (allowAll) CheckSyscall(string) ptracer.TraceAction { return ptracer.TraceAllow }

// stepper is a tracer handler that parks the tracer at the n-th debug message containing pat: the controller is killed
// while its tracer stands exactly at that step
type stepper struct {
	pat, point string
	n, seen    int
	pgid       int
}

func (s *stepper) Handle(*ptracer.Context) ptracer.TraceAction { return ptracer.TraceAllow }
func (s *stepper) Debug(v ...interface{}) {
	msg := fmt.Sprint(v...)
	if s.pgid == 0 && strings.HasPrefix(msg, "tracer started") && len(v) > 1 {
		if p, ok := v[1].(int); ok {
			s.pgid = p
		}
	}
	if strings.Contains(msg, s.pat) {
		s.seen++
		if s.seen == s.n {
			announce(map[string]any{"point": s.point, "pid": s.pgid, "step": msg})
			for {
				time.Sleep(time.Hour)
			}
		}
	}
}

func announce(m map[string]any) {
	b, _ := json.Marshal(m)
	fmt.Println(string(b))
	os.Stdout.Sync()
}

func main() {
	hx.Init()
	point, token, scratch := os.Args[1], os.Args[2], os.Args[3]
	forever := func() {
		for {
			time.Sleep(time.Hour)
		}
	}
	tree := []string{"/vb/probe_target", "tree", "3", token}
	if point == "fileop" {
		// killed during a file operation on what a previous program left behind, in a container of a given configuration (fileops.go)
		fileOpPoint(token, scratch, os.Args[4])
		forever()
	}
	if point == "ptrace_noseccomp_running" {
		// a traced run without a filter (the child asks to be traced right before exec): its descendants are tracees as well
		go func() { time.Sleep(300 * time.Millisecond); announce(map[string]any{"point": point}) }()
		fr := &forkexec.Runner{Args: []string{hx.Target(), "tree", "2", token}, Env: []string{}, Ptrace: true, WorkDir: "/"}
		t := ptracer.Tracer{Handler: &stepper{pat: "\x00never", n: 1}, Runner: fr, Limit: runner.Limit{TimeLimit: time.Hour, MemoryLimit: 1 << 40}}
		t.Trace(context.Background())
		forever()
	}
	if strings.HasPrefix(point, "ptrace_step:") || strings.HasPrefix(point, "ptrace_step_cred:") || strings.HasPrefix(point, "ptrace_step_slow:") {
		cred := strings.HasPrefix(point, "ptrace_step_cred:")
		slow := strings.HasPrefix(point, "ptrace_step_slow:")
		spec := strings.TrimPrefix(strings.TrimPrefix(strings.TrimPrefix(point, "ptrace_step_cred:"), "ptrace_step_slow:"), "ptrace_step:")
		i := strings.LastIndexByte(spec, '#')
		n, _ := strconv.Atoi(spec[i+1:])
		st := &stepper{pat: spec[:i], n: n, point: point}
		fr := &forkexec.Runner{Args: []string{hx.Target(), "tree", "3", token}, Env: []string{}, Ptrace: true, Seccomp: hx.AllowAll().SockFprog(), WorkDir: "/"}
		if cred {
			// the program runs under other ids than the launcher (a change of ids clears a parent-death signal asked for earlier)
			fr.Credential = &syscall.Credential{Uid: 65534, Gid: 65534, NoSetGroups: true}
		}
		if slow {
			// a long set-up in the child (thousands of mounts in its own mount namespace): the launcher has long returned from
			// Start, the steps "tracer started" .. lie inside the child's set-up, before it asks to be traced
			tg := filepath.Join(scratch, "slowmnt")
			os.MkdirAll(tg, 0755)
			sp, err := (&mount.Mount{Source: "tmpfs", Target: tg, FsType: "tmpfs"}).ToSyscall()
			if err != nil {
				announce(map[string]any{"err": err.Error()})
				forever()
			}
			fr.CloneFlags = unix.CLONE_NEWNS
			for i := 0; i < 3000; i++ {
				fr.Mounts = append(fr.Mounts, *sp)
			}
		}
		t := ptracer.Tracer{Handler: st, Runner: fr, Limit: runner.Limit{TimeLimit: time.Hour, MemoryLimit: 1 << 40}}
		t.Trace(context.Background())
		announce(map[string]any{"err": "the tracer never reached the step " + spec})
		forever()
	}
	switch point {
	case "ptrace_running":
		r := &ptrace.Runner{Args: []string{hx.Target(), "tree", "3", token}, Env: []string{}, WorkDir: "/",
			Limit: runner.Limit{TimeLimit: time.Hour, MemoryLimit: 1 << 40}, Seccomp: hx.AllowAll(), Handler: allowAll{},
			SyncFunc: func(pid int) error {
				go func() { time.Sleep(150 * time.Millisecond); announce(map[string]any{"point": point, "pid": pid}) }()
				return nil
			}}
		r.Run(context.Background())
		forever()
	case "ptrace_after_run":
		// a traced run whose descendants left the process group (own sessions) has ended; the idle controller is killed afterwards
		r := &ptrace.Runner{Args: []string{hx.Target(), "tree", "2", token, "setsid"}, Env: []string{}, WorkDir: "/",
			Limit: runner.Limit{TimeLimit: time.Hour, MemoryLimit: 1 << 40}, Seccomp: hx.AllowAll(), Handler: allowAll{}}
		ctx, cancel := context.WithTimeout(context.Background(), 300*time.Millisecond)
		r.Run(ctx)
		cancel()
		announce(map[string]any{"point": point})
		forever()
	case "ptrace_in_sync":
		// killed while the sync callback of a ptrace run is executing: the child is held before exec, nobody will answer it
		r := &ptrace.Runner{Args: []string{hx.Target(), "tree", "3", token}, Env: []string{}, WorkDir: "/",
			Limit: runner.Limit{TimeLimit: time.Hour, MemoryLimit: 1 << 40}, Seccomp: hx.AllowAll(), Handler: allowAll{},
			SyncFunc: func(pid int) error { announce(map[string]any{"point": point, "pid": pid}); forever(); return nil }}
		r.Run(context.Background())
		forever()
	case "forkexec_in_sync", "ns_in_sync":
		fr := &forkexec.Runner{Args: []string{hx.Target(), "tree", "3", token}, Env: []string{},
			SyncFunc: func(pid int) error { announce(map[string]any{"point": point, "pid": pid}); forever(); return nil }}
		if point == "ns_in_sync" {
			fr.CloneFlags = unix.CLONE_NEWUSER | unix.CLONE_NEWPID | unix.CLONE_NEWIPC
			fr.UIDMappings = []syscall.SysProcIDMap{{ContainerID: 0, HostID: 0, Size: 1}}
			fr.GIDMappings = []syscall.SysProcIDMap{{ContainerID: 0, HostID: 0, Size: 1}}
		}
		fr.Start()
		forever()
	case "init_command":
		// killed while the container init runs its InitCommand (it is not reading the socket then)
		go func() { time.Sleep(300 * time.Millisecond); announce(map[string]any{"point": point}) }()
		hx.NewEnvWith(scratch, nil, func(b *container.Builder) {
			b.InitCommand = []string{"/vb/probe_target", "tree", "0", token}
			b.Mounts = append(b.Mounts, hx.Mounts().WithBind("/dev/null", "dev/null", false).Mounts[len(b.Mounts):]...)
		})
		forever()
	}
	env, err := hx.NewEnv(scratch, nil)
	if err != nil {
		announce(map[string]any{"err": err.Error()})
		return
	}
	init := container.InitPidVerif(env)
	switch point {
	case "idle":
		announce(map[string]any{"point": point, "init": init})
		forever()
	case "exec_running", "exec_running_after":
		p := container.ExecveParam{Args: tree, Env: []string{"PATH=/usr/bin:/bin"}, SyncAfterExec: point == "exec_running_after",
			SyncFunc: func(pid int) error {
				go func() {
					time.Sleep(150 * time.Millisecond)
					announce(map[string]any{"point": point, "init": init, "pid": pid})
				}()
				return nil
			}}
		env.Execve(context.Background(), p)
		forever()
	case "in_sync":
		// killed while the callback runs: the program is held at the sync point
		p := container.ExecveParam{Args: tree, Env: []string{"PATH=/usr/bin:/bin"},
			SyncFunc: func(pid int) error {
				announce(map[string]any{"point": point, "init": init, "pid": pid})
				forever()
				return nil
			}}
		env.Execve(context.Background(), p)
	case "after_exec_returned":
		// a program ran and left descendants behind; the call has returned
		ctx, cancel := context.WithTimeout(context.Background(), 300*time.Millisecond)
		env.Execve(ctx, container.ExecveParam{Args: tree, Env: []string{"PATH=/usr/bin:/bin"}})
		cancel()
		announce(map[string]any{"point": point, "init": init})
		forever()
	case "file_ops":
		go func() { time.Sleep(50 * time.Millisecond); announce(map[string]any{"point": point, "init": init}) }()
		for i := 0; ; i++ {
			env.Open([]container.OpenCmd{{Path: fmt.Sprintf("/w/f%d", i%50), Flag: os.O_CREATE | os.O_RDWR, Perm: 0600}})
			env.Ping()
		}
	}
}

// Crash points of the class "during a file operation": a container of a given configuration (with or without a credential
// generator, default or explicit ids inside), a previous program that planted objects in the writable directories, earlier file
// operations, then one file operation during which the controller is killed.  usage: h_c16 fileop <token> <scratch> <spec json>
//
// The controller announces {"point":"fileop","init":pid,...} when the container init has logged the receipt of the command
// (when = "recv": the init writes its wire events to the file given as its stderr) or right before the call (when = "send"),
// and prints a second line {"op_returned":...} if the call comes back before the kill.
package main

import (
	"bytes"
	"context"
	"encoding/json"
	"fmt"
	"os"
	"path/filepath"
	"syscall"
	"time"

	"verifh/lib/hx"

	"github.com/criyle/go-sandbox/container"
	"github.com/criyle/go-sandbox/runner"
)

type fileOpItem struct {
	Path     string `json:"path"`
	Flag     int    `json:"flag"`
	Perm     uint32 `json:"perm"`
	MkdirAll bool   `json:"mkdirall"`
}

type fileOpLink struct {
	Target string `json:"target"`
	Link   string `json:"link"`
}

type fileOp struct {
	Kind  string       `json:"kind"` // open | delete | reset | symlink | ping
	Items []fileOpItem `json:"items"`
	Path  string       `json:"path"`
	Links []fileOpLink `json:"links"`
}

type fileOpSpec struct {
	Cred    bool     `json:"cred"`
	HostUID uint32   `json:"host_uid"`
	HostGID uint32   `json:"host_gid"`
	CUID    int      `json:"cuid"`
	CGID    int      `json:"cgid"`
	Plant   []string `json:"plant"` // arguments of "probe_target plant", run by a program inside the container
	Prior   []fileOp `json:"prior"`
	Op      fileOp   `json:"op"`
	When    string   `json:"when"` // recv | send
	Then    string   `json:"then"` // "" | exec_running: after the operation a signal-ignoring process tree is started, the kill falls while it runs
}

type fixedCred struct{ uid, gid uint32 }

func (f fixedCred) Get() syscall.Credential { return syscall.Credential{Uid: f.uid, Gid: f.gid} }

func runFileOp(env container.Environment, op fileOp) string {
	switch op.Kind {
	case "ping":
		return fmt.Sprint(env.Ping())
	case "open":
		cmds := make([]container.OpenCmd, 0, len(op.Items))
		for _, it := range op.Items {
			cmds = append(cmds, container.OpenCmd{Path: it.Path, Flag: it.Flag, Perm: os.FileMode(it.Perm), MkdirAll: it.MkdirAll})
		}
		res, err := env.Open(cmds)
		if err != nil {
			return "error: " + err.Error()
		}
		ok, bad, first := 0, 0, ""
		for _, r := range res {
			if r.Err != nil {
				bad++
				if first == "" {
					first = r.Err.Error()
				}
			} else {
				ok++
				if r.File != nil {
					r.File.Close()
				}
			}
		}
		return fmt.Sprintf("opened %d, refused %d %s", ok, bad, first)
	case "delete":
		return fmt.Sprint(env.Delete(op.Path))
	case "reset":
		return fmt.Sprint(env.Reset())
	case "symlink":
		ls := make([]container.SymbolicLink, 0, len(op.Links))
		for _, l := range op.Links {
			ls = append(ls, container.SymbolicLink{LinkPath: l.Link, Target: l.Target})
		}
		errs, err := env.Symlink(ls)
		return fmt.Sprint(errs, err)
	}
	return "unknown operation " + op.Kind
}

func fileOpPoint(token, scratch, specJSON string) {
	forever := func() {
		for {
			time.Sleep(time.Hour)
		}
	}
	var sp fileOpSpec
	if err := json.Unmarshal([]byte(specJSON), &sp); err != nil {
		announce(map[string]any{"err": "spec: " + err.Error()})
		return
	}
	logPath := filepath.Join(scratch, token+".initlog")
	logf, err := os.OpenFile(logPath, os.O_CREATE|os.O_WRONLY|os.O_APPEND, 0644)
	if err != nil {
		announce(map[string]any{"err": err.Error()})
		return
	}
	env, err := hx.NewEnvWith(scratch, logf, func(b *container.Builder) {
		if sp.Cred {
			b.CredGenerator = fixedCred{sp.HostUID, sp.HostGID}
			b.ContainerUID, b.ContainerGID = sp.CUID, sp.CGID
		}
	})
	if err != nil {
		announce(map[string]any{"err": err.Error()})
		return
	}
	init := container.InitPidVerif(env)
	base := map[string]any{"point": "fileop", "init": init}
	if len(sp.Plant) > 0 {
		// the previous tenant of the container: a program that leaves objects behind where the host is going to operate
		ctx, cancel := context.WithTimeout(context.Background(), 20*time.Second)
		res := env.Execve(ctx, container.ExecveParam{Args: append([]string{"/vb/probe_target", "plant"}, sp.Plant...), Env: []string{"PATH=/usr/bin:/bin"}})
		cancel()
		if res.Status != runner.StatusNormal || res.ExitStatus != 0 {
			announce(map[string]any{"err": fmt.Sprintf("planting program: status %v exit %d error %q", res.Status, res.ExitStatus, res.Error)})
			forever()
		}
	}
	prior := []string{}
	for i, op := range sp.Prior {
		var r string
		if !hx.Guard(5*time.Second, func() { r = runFileOp(env, op) }) {
			// an earlier operation does not come back: that is where this controller is when it is killed
			base["stuck_in_prior_operation"] = i
			base["prior_results"] = prior
			announce(base)
			forever()
		}
		prior = append(prior, r)
	}
	base["prior_results"] = prior
	count := func() int {
		b, _ := os.ReadFile(logPath)
		return bytes.Count(b, []byte("VERIF recv "+sp.Op.Kind+"\n"))
	}
	n0 := count()
	done := make(chan string, 1)
	announced := make(chan struct{})
	go func() {
		defer close(announced)
		if sp.Then != "" {
			return
		}
		if sp.When == "recv" {
			// the init has the command: from here to its reply the operation is in progress
			seen := false
			for t0 := time.Now(); time.Since(t0) < 2*time.Second; time.Sleep(200 * time.Microsecond) {
				if count() > n0 {
					seen = true
					break
				}
			}
			base["init_logged_receipt"] = seen
		}
		announce(base)
	}()
	if sp.When != "recv" {
		<-announced
	}
	go func() { done <- runFileOp(env, sp.Op) }()
	if sp.Then == "exec_running" {
		select {
		case r := <-done:
			base["op_result"] = r
		case <-time.After(5 * time.Second):
			base["stuck_in_operation"] = true
			announce(base)
			forever()
		}
		p := container.ExecveParam{Args: []string{"/vb/probe_target", "tree", "3", token}, Env: []string{"PATH=/usr/bin:/bin"},
			SyncFunc: func(pid int) error {
				go func() {
					time.Sleep(150 * time.Millisecond)
					base["pid"] = pid
					announce(base)
				}()
				return nil
			}}
		env.Execve(context.Background(), p)
		forever()
	}
	r := <-done
	<-announced
	announce(map[string]any{"op_returned": true, "result": r})
	forever()
}

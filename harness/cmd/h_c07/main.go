// h_c07: the sync gate and failing launches.
package main

import (
	"context"
	"errors"
	"fmt"
	"os"
	"os/exec"
	"path/filepath"
	"strings"
	"syscall"
	"time"

	"golang.org/x/sys/unix"

	"verifh/lib/hx"

	"github.com/criyle/go-sandbox/container"
	"github.com/criyle/go-sandbox/pkg/forkexec"
	"github.com/criyle/go-sandbox/pkg/mount"
	"github.com/criyle/go-sandbox/pkg/rlimit"
	"github.com/criyle/go-sandbox/ptracer"
	"github.com/criyle/go-sandbox/runner"
	"github.com/criyle/go-sandbox/runner/ptrace"
)

type allowAll struct{}

func (allowAll) CheckRead(string) ptracer.TraceAction    { return ptracer.TraceAllow }
func (allowAll) CheckWrite(string) ptracer.TraceAction   { return ptracer.TraceAllow }
func (allowAll) CheckStat(string) ptracer.TraceAction    { return ptracer.TraceAllow }
func (allowAll) CheckSyscall(string) ptracer.TraceAction { return ptracer.TraceAllow }

// launcherHelper is the launching process that is going to be killed: it starts the target with a callback that
// reports the pid and then never returns.
func launcherHelper() {
	marker := os.Getenv("VERIF_C07_MARKER")
	r := &forkexec.Runner{Args: []string{hx.Target(), "mark", marker}, Env: []string{}}
	if os.Getenv("VERIF_C07_USERNS") == "1" {
		r.CloneFlags = unix.CLONE_NEWUSER
	}
	r.SyncFunc = func(pid int) error {
		fmt.Printf("%d\n", pid)
		os.Stdout.Sync()
		for { // never returns (a bare select{} would end the process at once: the runtime reports a deadlock)
			time.Sleep(time.Hour)
		}
	}
	r.Start()
	os.Exit(3)
}

// cgroup2Root is a cgroup v2 hierarchy in which the harness may create directories (no controllers are needed: the
// directories only serve as the target of clone-into-cgroup and as a membership list)
func cgroup2Root() string {
	cands := []string{os.Getenv("VERIF_CGROUP2"), "/sys/fs/cgroup/unified", "/sys/fs/cgroup"}
	for _, d := range cands {
		if d == "" {
			continue
		}
		var st unix.Statfs_t
		if unix.Statfs(d, &st) == nil && st.Type == unix.CGROUP2_SUPER_MAGIC {
			return d
		}
	}
	return ""
}

func cgroupProcs(dir string) []int {
	b, err := os.ReadFile(filepath.Join(dir, "cgroup.procs"))
	if err != nil {
		return nil
	}
	out := []int{}
	for _, f := range strings.Fields(string(b)) {
		var n int
		fmt.Sscan(f, &n)
		out = append(out, n)
	}
	return out
}

// procFacts: what /proc says about pid: image, state, parent, pid in every pid namespace it is visible in
func procFacts(pid int, o map[string]any, initPid int, initExe string) {
	exe, _ := os.Readlink(fmt.Sprintf("/proc/%d/exe", pid))
	o["exe_is_target"] = strings.HasSuffix(exe, "probe_target")
	o["exe_is_launcher"] = exe != "" && exe == initExe
	st, _ := os.ReadFile(fmt.Sprintf("/proc/%d/stat", pid))
	if i := strings.LastIndexByte(string(st), ')'); i >= 0 {
		if f := strings.Fields(string(st[i+1:])); len(f) > 1 {
			o["state"] = f[0]
			o["ppid_is_init"] = f[1] == fmt.Sprint(initPid)
		}
	}
	status, _ := os.ReadFile(fmt.Sprintf("/proc/%d/status", pid))
	nspid := []int{}
	for _, l := range strings.Split(string(status), "\n") {
		if strings.HasPrefix(l, "NSpid:") {
			for _, f := range strings.Fields(l[6:]) {
				var n int
				fmt.Sscan(f, &n)
				nspid = append(nspid, n)
			}
		}
	}
	o["nspid"] = nspid
}

// containerHist: a history of launches in ONE container environment, with the callback before or after exec, succeeding or refusing,
// under a live or an already cancelled context; what the callback finds, and whether the target ran.  Each launch may use the further
// options of the launch request: a cgroup v2 directory descriptor (the child is cloned into it), a descriptor that is not a cgroup
// directory (the clone fails), the executable by descriptor, a filter, resource limits, a longer descriptor list; the callback may
// wait before it looks (a target that was not held back has time to run)
func containerHist(c map[string]any, scratch string) map[string]any {
	env, err := hx.NewEnv(scratch, nil)
	if err != nil {
		return map[string]any{"harness_err": err.Error()}
	}
	defer env.Destroy()
	initPid := container.InitPidVerif(env)
	initExe, _ := os.Readlink(fmt.Sprintf("/proc/%d/exe", initPid))
	null, _ := os.OpenFile("/dev/null", os.O_RDWR, 0)
	defer null.Close()
	cgRoot := cgroup2Root()
	outs := []any{}
	for i, raw := range c["launches"].([]any) {
		l := raw.(map[string]any)
		marker := fmt.Sprintf("/w/marker%d_%d", hx.Int(c["id"]), i)
		hostMarker := fmt.Sprintf("/proc/%d/root%s", initPid, marker)
		os.Remove(hostMarker)
		o := map[string]any{"calls": 0}
		nfiles := 3
		if n := int(hx.Int(l["files_n"])); n > 3 {
			nfiles = n
		}
		files := make([]uintptr, nfiles)
		for k := range files {
			files[k] = null.Fd()
		}
		p := container.ExecveParam{Args: []string{"/vb/probe_target", "mark", marker}, Env: []string{}, Files: files,
			SyncAfterExec: l["sync_after"] == true}
		var closers []func()
		cgDir := ""
		switch l["cgroup"] {
		case "dir":
			if cgRoot == "" {
				o["cgroup_unavailable"] = "no cgroup v2 hierarchy"
				break
			}
			d, derr := os.MkdirTemp(cgRoot, "verif_c07_")
			if derr != nil {
				o["cgroup_unavailable"] = derr.Error()
				break
			}
			f, ferr := os.Open(d)
			if ferr != nil {
				os.Remove(d)
				o["cgroup_unavailable"] = ferr.Error()
				break
			}
			cgDir = d
			p.CgroupFD = f.Fd()
			closers = append(closers, func() { f.Close() })
		case "bad":
			f, _ := os.Open("/dev/null")
			p.CgroupFD = f.Fd()
			closers = append(closers, func() { f.Close() })
		}
		if l["exec_fd"] == true {
			f, ferr := os.Open(hx.Target())
			if ferr != nil {
				return map[string]any{"harness_err": ferr.Error()}
			}
			p.ExecFile = f.Fd()
			closers = append(closers, func() { f.Close() })
		}
		if l["seccomp"] == true {
			p.Seccomp = hx.AllowAll()
		}
		if l["rlimits"] == true {
			p.RLimits = []rlimit.RLimit{{Res: syscall.RLIMIT_STACK, Rlim: syscall.Rlimit{Cur: 8 << 20, Max: 8 << 20}},
				{Res: syscall.RLIMIT_NOFILE, Rlim: syscall.Rlimit{Cur: 256, Max: 256}},
				{Res: syscall.RLIMIT_CORE, Rlim: syscall.Rlimit{Cur: 0, Max: 0}}}
		}
		delay := time.Duration(hx.Int(l["cb_delay_ms"])) * time.Millisecond
		if l["cb"] != "none" {
			p.SyncFunc = func(pid int) error {
				o["calls"] = o["calls"].(int) + 1
				time.Sleep(delay)
				o["pid_is_init"] = pid == initPid
				procFacts(pid, o, initPid, initExe)
				_, merr := os.Stat(hostMarker)
				o["marker_at_callback"] = merr == nil
				if cgDir != "" {
					members := cgroupProcs(cgDir)
					o["cgroup_members_at_callback"] = members
					in := false
					for _, m := range members {
						in = in || m == pid
					}
					o["pid_in_cgroup"] = in
				}
				if l["cb"] == "fail" {
					return errors.New("callback refuses")
				}
				return nil
			}
		}
		ctx, cancel := context.WithTimeout(context.Background(), 10*time.Second)
		if l["precancel"] == true {
			cancel()
		}
		res := env.Execve(ctx, p)
		cancel()
		if cgDir != "" {
			// every process of the launch was killed and reaped when the call returned: nobody is a member any more
			o["cgroup_members_after"] = cgroupProcs(cgDir)
		}
		time.Sleep(5 * time.Millisecond)
		_, merr := os.Stat(hostMarker)
		o["target_ran"] = merr == nil
		o["status"], o["error"] = int(res.Status), res.Error
		for _, f := range closers {
			f()
		}
		if cgDir != "" {
			for k := 0; k < 200; k++ {
				if os.Remove(cgDir) == nil {
					break
				}
				time.Sleep(10 * time.Millisecond)
			}
		}
		outs = append(outs, o)
	}
	perr := env.Ping()
	return map[string]any{"launches": outs, "ping_err": fmt.Sprint(perr)}
}

func launcherDeath(c map[string]any, scratch string) map[string]any {
	marker := filepath.Join(scratch, fmt.Sprintf("dmarker%d", hx.Int(c["id"])))
	os.Remove(marker)
	unix.Prctl(unix.PR_SET_CHILD_SUBREAPER, 1, 0, 0, 0)
	self, _ := os.Readlink("/proc/self/exe")
	cmd := exec.Command(self)
	u := "0"
	if c["userns"] == true {
		u = "1"
	}
	cmd.Env = append(os.Environ(), "VERIF_C07_HELPER=1", "VERIF_C07_MARKER="+marker, "VERIF_C07_USERNS="+u)
	pr, pw, _ := os.Pipe()
	cmd.Stdout = pw
	if err := cmd.Start(); err != nil {
		return map[string]any{"harness_err": err.Error()}
	}
	pw.Close()
	var pid int
	if _, err := fmt.Fscan(pr, &pid); err != nil || pid <= 0 {
		cmd.Process.Kill()
		cmd.Wait()
		return map[string]any{"harness_err": "no pid from the helper"}
	}
	pr.Close()
	out := map[string]any{}
	exe, _ := os.Readlink(fmt.Sprintf("/proc/%d/exe", pid))
	out["blocked_in_launcher_image"] = exe == self
	time.Sleep(time.Duration(hx.Int(c["delay_ms"])) * time.Millisecond)
	cmd.Process.Kill() // the launcher dies inside the callback: no ack was sent, nobody kills the child
	cmd.Wait()
	var ws syscall.WaitStatus
	deadline := time.Now().Add(5 * time.Second)
	exited := false
	for time.Now().Before(deadline) {
		wpid, err := syscall.Wait4(pid, &ws, syscall.WNOHANG, nil)
		if wpid == pid {
			exited = true
			break
		}
		if err != nil && err != syscall.EINTR {
			out["wait_err"] = err.Error()
			break
		}
		time.Sleep(2 * time.Millisecond)
	}
	if !exited {
		syscall.Kill(pid, syscall.SIGKILL)
		syscall.Wait4(pid, &ws, 0, nil)
	}
	out["exited"], out["wait_status"] = exited, int(ws)
	_, merr := os.Stat(marker)
	out["target_ran"] = merr == nil
	os.Remove(marker)
	return out
}

func main() {
	if os.Getenv("VERIF_C07_HELPER") == "1" {
		launcherHelper()
	}
	hx.Init()
	scratch := os.Getenv("VERIF_SCRATCH")
	self, _ := os.Readlink("/proc/self/exe")
	hx.Cases(func(c map[string]any) map[string]any {
		fault := c["fault"].(string)
		if fault == "container_hist" {
			return containerHist(c, scratch)
		}
		if fault == "launcher_death" {
			return launcherDeath(c, scratch)
		}
		if fault == "ptrace_runner" {
			// a launch step that fails under the ptrace runner (whose launcher returns the pid before exec)
			pr := &ptrace.Runner{Args: []string{hx.Target(), "exit", "0"}, Env: []string{}, WorkDir: "/nonexistent-workdir",
				Limit: runner.Limit{TimeLimit: 5 * time.Second, MemoryLimit: 1 << 30}, Seccomp: hx.AllowAll(), Handler: allowAll{}}
			res := pr.Run(context.Background())
			return map[string]any{"status": int(res.Status), "errmsg": res.Error}
		}
		marker := filepath.Join(scratch, fmt.Sprintf("marker%d", hx.Int(c["id"])))
		os.Remove(marker)
		r := &forkexec.Runner{Args: []string{hx.Target(), "mark", marker}, Env: []string{}}
		userns := c["userns"] == true
		if userns {
			r.CloneFlags = unix.CLONE_NEWUSER
		}
		// traced launch without a filter: the launcher still waits for the outcome of execve
		r.Ptrace = c["ptrace"] == true
		var closers []func()
		switch fault {
		case "clone":
			f, _ := os.Open("/dev/null")
			r.CgroupFd = f.Fd()
			closers = append(closers, func() { f.Close() })
		case "idmap":
			r.CloneFlags = unix.CLONE_NEWUSER
			r.UIDMappings = []syscall.SysProcIDMap{{ContainerID: 0, HostID: 0, Size: 1}, {ContainerID: 0, HostID: 1, Size: 1}}
		case "setgid":
			r.CloneFlags = unix.CLONE_NEWUSER
			r.Credential = &syscall.Credential{Uid: 0, Gid: 12345, NoSetGroups: true}
		case "setgroups":
			// supplementary groups asked for in a user namespace in which setgroups is denied
			r.CloneFlags = unix.CLONE_NEWUSER
			r.Credential = &syscall.Credential{Uid: 0, Gid: 0, Groups: []uint32{0}}
		case "dup3":
			r.Files = []uintptr{0, 1, 2, 999}
		case "mount":
			r.CloneFlags = unix.CLONE_NEWUSER | unix.CLONE_NEWNS
			root, _ := os.MkdirTemp(scratch, "pr")
			closers = append(closers, func() { os.RemoveAll(root) })
			gone, _ := os.MkdirTemp(scratch, "gone")
			mt, berr := mount.NewBuilder().WithBind("/usr", "usr", true).WithBind(gone, "nx", true).Build()
			if berr != nil {
				return map[string]any{"harness_err": berr.Error()}
			}
			os.RemoveAll(gone) // the source disappears between Build and the launch
			r.Mounts, r.PivotRoot = mt, root
		case "pivot":
			r.CloneFlags = unix.CLONE_NEWUSER | unix.CLONE_NEWNS
			r.PivotRoot = "/nonexistent-root"
		case "chdir":
			r.WorkDir = "/nonexistent-workdir"
		case "rlimit":
			r.CloneFlags = unix.CLONE_NEWUSER
			var old syscall.Rlimit
			syscall.Getrlimit(syscall.RLIMIT_FSIZE, &old)
			syscall.Setrlimit(syscall.RLIMIT_FSIZE, &syscall.Rlimit{Cur: 1 << 26, Max: 1 << 26})
			closers = append(closers, func() { syscall.Setrlimit(syscall.RLIMIT_FSIZE, &old) })
			r.RLimits = []rlimit.RLimit{{Res: syscall.RLIMIT_STACK, Rlim: syscall.Rlimit{Cur: 8 << 20, Max: 8 << 20}},
				{Res: syscall.RLIMIT_FSIZE, Rlim: syscall.Rlimit{Cur: 1 << 27, Max: 1 << 27}}}
		case "seccomp":
			bad := []syscall.SockFilter{{Code: 0xffff, K: 0}}
			r.Seccomp = &syscall.SockFprog{Len: 1, Filter: &bad[0]}
		case "execve":
			r.Args = []string{"/nonexistent-executable"}
		}
		if n := int(hx.Int(c["files_n"])); n > 0 {
			// a descriptor list of n repeated low descriptors: the scratch numbers of the shuffle walk over the sync socket's number
			r.Files = make([]uintptr, n)
			for i := range r.Files {
				r.Files[i] = uintptr(i % 2)
			}
		}
		cb := map[string]any{"called": false}
		if c["sync"] == "ok" || c["sync"] == "fail" {
			r.SyncFunc = func(pid int) error {
				cb["called"] = true
				exe, _ := os.Readlink(fmt.Sprintf("/proc/%d/exe", pid))
				cb["exe_is_launcher"] = exe == self
				cb["exe_is_target"] = strings.HasSuffix(exe, "probe_target")
				st, _ := os.ReadFile(fmt.Sprintf("/proc/%d/stat", pid))
				f := strings.Fields(string(st[strings.LastIndexByte(string(st), ')')+1:]))
				if len(f) > 1 {
					cb["state"] = f[0]
					cb["ppid_is_launcher"] = f[1] == fmt.Sprint(os.Getpid())
				}
				_, merr := os.Stat(marker)
				cb["marker_exists"] = merr == nil
				if c["sync"] == "fail" {
					return errors.New("callback refuses")
				}
				return nil
			}
		}
		pid, err := r.Start()
		for _, f := range closers {
			f()
		}
		out := map[string]any{"cb": cb}
		if err != nil {
			out["err"] = err.Error()
			var ce forkexec.ChildError
			if errors.As(err, &ce) {
				out["loc"], out["index"], out["errno"] = ce.Location.String(), ce.Index, int(ce.Err)
			}
			// no child may be left: neither running nor as a zombie
			var ws syscall.WaitStatus
			wpid, werr := syscall.Wait4(-1, &ws, syscall.WNOHANG, nil)
			out["leftover_child"] = !(werr == syscall.ECHILD)
			out["leftover_detail"] = fmt.Sprint(wpid, werr)
			if wpid > 0 {
				syscall.Kill(wpid, syscall.SIGKILL)
			} else if werr == nil {
				// a child exists but has not changed state: kill and reap it
				time.Sleep(20 * time.Millisecond)
				syscall.Kill(-1, 0)
			}
		} else {
			var ws syscall.WaitStatus
			syscall.Wait4(pid, &ws, 0, nil)
			out["wait_status"] = int(ws)
		}
		time.Sleep(2 * time.Millisecond)
		_, merr := os.Stat(marker)
		out["target_ran"] = merr == nil
		os.Remove(marker)
		return out
	})
}

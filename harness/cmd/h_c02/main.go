// h_c02: a really traced program performs scripted path syscalls with exact register values; the handler records what the
// policy is asked for each of them (and bans it, so that the tree never changes); the program itself reports the kernel's
// resolution of the same (dirfd, path) pairs.
package main

import (
	"context"
	"os"
	"strings"
	"time"

	"verifh/lib/hx"

	"github.com/criyle/go-sandbox/pkg/seccomp/libseccomp"
	"github.com/criyle/go-sandbox/ptracer"
	"github.com/criyle/go-sandbox/runner"
	"github.com/criyle/go-sandbox/runner/ptrace"
)

type rec struct {
	cur   string
	calls map[string][][2]string
	order []string
}

func (r *rec) note(class, arg string) ptracer.TraceAction {
	if class == "stat" && strings.HasPrefix(arg, "/__m__/") {
		id := strings.TrimPrefix(arg, "/__m__/")
		if id == "end" {
			r.cur = ""
		} else {
			r.cur = id
			r.order = append(r.order, id)
			r.calls[id] = [][2]string{}
		}
		return ptracer.TraceBan
	}
	if r.cur == "" {
		return ptracer.TraceAllow
	}
	r.calls[r.cur] = append(r.calls[r.cur], [2]string{class, arg})
	return ptracer.TraceBan
}

func (r *rec) CheckRead(s string) ptracer.TraceAction    { return r.note("read", s) }
func (r *rec) CheckWrite(s string) ptracer.TraceAction   { return r.note("write", s) }
func (r *rec) CheckStat(s string) ptracer.TraceAction    { return r.note("stat", s) }
func (r *rec) CheckSyscall(s string) ptracer.TraceAction { return r.note("syscall", s) }

var pathCalls = []string{"open", "openat", "openat2", "readlink", "readlinkat", "unlink", "unlinkat", "mkdirat", "mknodat", "symlinkat",
	"fchmodat", "fchmodat2", "linkat", "renameat", "renameat2", "access", "faccessat", "faccessat2", "stat", "lstat", "statx",
	"newfstatat", "execve", "execveat", "chmod", "rename"}

func main() {
	hx.Init()
	filter, err := (&libseccomp.Builder{Trace: pathCalls, Default: libseccomp.ActionAllow}).Build()
	if err != nil {
		panic(err)
	}
	hx.Cases(func(c map[string]any) map[string]any {
		h := &rec{calls: map[string][][2]string{}}
		ctx, cancel := context.WithTimeout(context.Background(), 300*time.Second)
		defer cancel()
		// "probe": the escaped-script variant of pathops (names of the forest may contain any byte)
		args := []string{hx.Target(), "pathops", c["script"].(string), c["out"].(string)}
		if p, ok := c["probe"].(string); ok && p != "" {
			args = []string{p, c["script"].(string), c["out"].(string)}
		}
		r := &ptrace.Runner{Args: args, Env: []string{},
			WorkDir: c["wd"].(string), Limit: runner.Limit{TimeLimit: 30 * time.Second, MemoryLimit: runner.Size(1 << 30)},
			Seccomp: filter, Handler: h}
		res := r.Run(ctx)
		out, _ := os.ReadFile(c["out"].(string))
		return map[string]any{"status": int(res.Status), "exit": res.ExitStatus, "error": res.Error, "calls": h.calls, "out": string(out)}
	})
}

// h_c19: the control socket, raw and gob-framed.
package main

import (
	"sync"
	"time"
	"fmt"
	"os"
	"syscall"

	"verifh/lib/hx"

	"github.com/criyle/go-sandbox/container"
	"github.com/criyle/go-sandbox/pkg/unixsocket"
)

type MsgA struct {
	Seq  int
	Text string
}
type MsgB struct {
	Seq  int
	Data []byte
}
type MsgC struct {
	Seq   int
	Names []string
}

func nfds() int {
	es, _ := os.ReadDir("/proc/self/fd")
	return len(es) - 1 // the directory handle itself
}

func ident(fd int) [2]uint64 {
	var st syscall.Stat_t
	if syscall.Fstat(fd, &st) != nil {
		return [2]uint64{}
	}
	return [2]uint64{st.Dev, st.Ino}
}

func pattern(n int, salt int) []byte {
	b := make([]byte, n)
	for i := range b {
		b[i] = byte((i*7 + salt) % 251)
	}
	return b
}

// mkfds opens k distinct temporary files (already unlinked)
func mkfds(dir string, k int) ([]*os.File, []int, [][2]uint64) {
	var fs []*os.File
	var nums []int
	var ids [][2]uint64
	for i := 0; i < k; i++ {
		f, err := os.CreateTemp(dir, "a")
		if err != nil {
			panic(err)
		}
		os.Remove(f.Name())
		fs = append(fs, f)
		nums = append(nums, int(f.Fd()))
		ids = append(ids, ident(int(f.Fd())))
	}
	return fs, nums, ids
}

func errs(e error) any {
	if e == nil {
		return nil
	}
	return e.Error()
}

func main() {
	hx.Init()
	scratch := os.Getenv("VERIF_SCRATCH")
	hx.Cases(func(c map[string]any) map[string]any {
		switch c["kind"].(string) {
		case "oob": // pure: the stdlib encoders the library uses, and the library's parser
			var fds []int
			for _, f := range c["fds"].([]any) {
				fds = append(fds, int(hx.Int(f)))
			}
			var oob []byte
			if len(fds) > 0 {
				oob = append(oob, syscall.UnixRights(fds...)...)
			}
			var cred *syscall.Ucred
			if m, ok := c["cred"].(map[string]any); ok {
				cred = &syscall.Ucred{Pid: int32(hx.Int(m["pid"])), Uid: uint32(hx.Int(m["uid"])), Gid: uint32(hx.Int(m["gid"]))}
				oob = append(oob, syscall.UnixCredentials(cred)...)
			}
			m, err := unixsocket.ParseOOBVerif(oob)
			r := map[string]any{"oob": oob2ints(oob), "err": errs(err), "fds": m.Fds}
			if m.Cred != nil {
				r["cred"] = []int64{int64(m.Cred.Pid), int64(m.Cred.Uid), int64(m.Cred.Gid)}
			}
			return r
		case "raw": // a history of sends and receives on one socket pair
			a, b, err := unixsocket.NewSocketPair()
			if err != nil {
				return map[string]any{"harness_err": err.Error()}
			}
			// late_passcred: credentials are asked for only when the first message is about to be received (they were sent before)
			late := c["late_passcred"] == true
			if !late {
				b.SetPassCred(1)
			}
			before := nfds()
			obs := []any{}
			var pending [][]*os.File
			// received messages stay in use until the end of the history: they are looked at only then
			type heldMsg struct {
				o map[string]any
				m unixsocket.Msg
			}
			var held []heldMsg
			for _, raw := range c["ops"].([]any) {
				op := raw.(map[string]any)
				o := map[string]any{}
				switch op["op"].(string) {
				case "send":
					n, k := int(hx.Int(op["n"])), int(hx.Int(op["fds"]))
					fs, nums, ids := mkfds(scratch, k)
					msg := unixsocket.Msg{Fds: nums}
					if op["bad_fd"] == true {
						// a number that is no open descriptor (too large, or negative as a closed *os.File reports), at the end, the start or in the middle
						bv := 987654
						if v := hx.Int(op["bad_val"]); v != 0 {
							bv = int(v)
						}
						switch op["bad_pos"] {
						case "start":
							msg.Fds = append([]int{bv}, msg.Fds...)
						case "middle":
							h := len(msg.Fds) / 2
							msg.Fds = append(append(append([]int{}, msg.Fds[:h]...), bv), msg.Fds[h:]...)
						default:
							msg.Fds = append(msg.Fds, bv)
						}
					}
					if op["cred"] == true {
						msg.Cred = &syscall.Ucred{Pid: int32(os.Getpid()), Uid: uint32(os.Getuid()), Gid: uint32(os.Getgid())}
					}
					err := a.SendMsg(pattern(n, int(hx.Int(op["salt"]))), msg)
					o["err"] = errs(err)
					o["ids"] = ids
					pending = append(pending, fs)
				case "recv":
					if late {
						b.SetPassCred(1)
						late = false
					}
					buf := make([]byte, int(hx.Int(op["buf"])))
					// room: the receiving process can take only that many more descriptors at the moment of the receive
					var tt *tight
					if rv, ok := op["room"]; ok && rv != nil {
						where, _ := op["room_where"].(string)
						var terr error
						if tt, terr = tighten(int(hx.Int(rv)), where); terr != nil {
							return map[string]any{"harness_err": "tighten: " + terr.Error()}
						}
						o["room_seen"] = freeSlots(tt.Room + 2)
						o["limit"] = tt.Limit
					}
					n, m, err := b.RecvMsg(buf)
					tt.release()
					o["err"] = errs(err)
					o["nfds"] = len(m.Fds)
					o["n"] = n
					want := pattern(n, int(hx.Int(op["salt"])))
					ok := true
					for i := 0; i < n; i++ {
						if buf[i] != want[i] {
							ok = false
						}
					}
					o["payload_ok"] = ok
					o["ids"] = [][2]uint64{}
					o["cloexec"] = true
					held = append(held, heldMsg{o, m})
				}
				obs = append(obs, o)
			}
			closed := map[int]bool{}
			for _, h := range held {
				ids := [][2]uint64{}
				clo := true
				for _, f := range h.m.Fds {
					if closed[f] {
						// the same number in two messages: the second holder finds whatever the number means by now
						ids = append(ids, [2]uint64{0, 0})
						continue
					}
					ids = append(ids, ident(f))
					fl, _, _ := syscall.Syscall(syscall.SYS_FCNTL, uintptr(f), syscall.F_GETFD, 0)
					if fl&1 == 0 {
						clo = false
					}
				}
				for _, f := range h.m.Fds {
					if !closed[f] {
						syscall.Close(f)
						closed[f] = true
					}
				}
				h.o["ids"] = ids
				h.o["cloexec"] = clo
				if h.m.Cred != nil {
					h.o["cred"] = []int64{int64(h.m.Cred.Pid), int64(h.m.Cred.Uid), int64(h.m.Cred.Gid)}
				}
			}
			for _, fs := range pending {
				for _, f := range fs {
					f.Close()
				}
			}
			after := nfds()
			a.Close()
			b.Close()
			return map[string]any{"obs": obs, "fd_delta": after - before, "pid": os.Getpid(), "uid": os.Getuid(), "gid": os.Getgid()}
		case "duplex": // both directions of one framed connection in use at the same time (as the host's and the container's loops use it)
			a, b, err := unixsocket.NewSocketPair()
			if err != nil {
				return map[string]any{"harness_err": err.Error()}
			}
			fa, fb := container.NewFramedVerif(a), container.NewFramedVerif(b)
			n, size := int(hx.Int(c["n"])), int(hx.Int(c["size"]))
			var mu sync.Mutex
			fail := ""
			setFail := func(s string) {
				mu.Lock()
				if fail == "" {
					fail = s
				}
				mu.Unlock()
			}
			var wg sync.WaitGroup
			send := func(s interface {
				SendMsg(any, unixsocket.Msg) error
			}, salt int) {
				defer wg.Done()
				for i := 0; i < n; i++ {
					if err := s.SendMsg(MsgB{Seq: i, Data: pattern(size, i+salt)}, unixsocket.Msg{}); err != nil {
						setFail(fmt.Sprintf("send %d: %v", i, err))
						return
					}
				}
			}
			recv := func(s interface {
				RecvMsg(any) (unixsocket.Msg, error)
			}, salt int) {
				defer wg.Done()
				for i := 0; i < n; i++ {
					var v MsgB
					if _, err := s.RecvMsg(&v); err != nil {
						setFail(fmt.Sprintf("receive %d: %v", i, err))
						return
					}
					if v.Seq != i || string(v.Data) != string(pattern(size, i+salt)) {
						setFail(fmt.Sprintf("message %d arrived changed (seq %d, %d bytes)", i, v.Seq, len(v.Data)))
						return
					}
				}
			}
			wg.Add(4)
			go send(fa, 1000)
			go recv(fb, 1000)
			go send(fb, 5000)
			go recv(fa, 5000)
			finished := hx.Guard(60*time.Second, wg.Wait)
			a.Close()
			b.Close()
			if !finished {
				setFail("the exchange did not finish within 60 s")
			}
			return map[string]any{"fail": fail}
		case "framed": // a history of typed messages through the gob-framed layer
			a, b, err := unixsocket.NewSocketPair()
			if err != nil {
				return map[string]any{"harness_err": err.Error()}
			}
			fa, fb := container.NewFramedVerif(a), container.NewFramedVerif(b)
			before := nfds()
			obs := []any{}
			for i, raw := range c["msgs"].([]any) {
				m := raw.(map[string]any)
				size := int(hx.Int(m["size"]))
				var e any
				switch m["type"].(string) {
				case "A":
					e = MsgA{Seq: i, Text: string(pattern(size, i))}
				case "B":
					e = MsgB{Seq: i, Data: pattern(size, i)}
				default:
					e = MsgC{Seq: i, Names: []string{string(pattern(size, i))}}
				}
				k := int(hx.Int(m["fds"]))
				fs, nums, ids := mkfds(scratch, k)
				msg := unixsocket.Msg{Fds: nums}
				if m["bad_fd"] == true {
					msg.Fds = append(msg.Fds, 987654)
				}
				serr := fa.SendMsg(e, msg)
				o := map[string]any{"send_err": errs(serr)}
				if serr == nil {
					var rm unixsocket.Msg
					var rerr error
					seq := -1
					okPayload := false
					// room: as on the raw socket, the receiver can take only that many more descriptors
					var tt *tight
					if rv, ok := m["room"]; ok && rv != nil {
						where, _ := m["room_where"].(string)
						var terr error
						if tt, terr = tighten(int(hx.Int(rv)), where); terr != nil {
							return map[string]any{"harness_err": "tighten: " + terr.Error()}
						}
						o["room_seen"] = freeSlots(tt.Room + 2)
					}
					returned := hx.Guard(5*time.Second, func() {
						switch m["type"].(string) {
						case "A":
							var v MsgA
							rm, rerr = fb.RecvMsg(&v)
							seq, okPayload = v.Seq, v.Text == string(pattern(size, i))
						case "B":
							var v MsgB
							rm, rerr = fb.RecvMsg(&v)
							seq, okPayload = v.Seq, string(v.Data) == string(pattern(size, i))
						default:
							var v MsgC
							rm, rerr = fb.RecvMsg(&v)
							seq, okPayload = v.Seq, len(v.Names) == 1 && v.Names[0] == string(pattern(size, i))
						}
					})
					tt.release()
					if !returned {
						// the message was accepted by the sender and never arrives: nothing more can be learnt from this connection
						o["recv_hang"] = true
						obs = append(obs, o)
						a.Close()
						b.Close()
						return map[string]any{"obs": obs, "fd_delta": 0, "abandoned": true}
					}
					o["recv_err"] = errs(rerr)
					o["nfds"] = len(rm.Fds)
					o["seq"] = seq
					o["payload_ok"] = okPayload
					same := len(rm.Fds) == len(ids)
					for j, f := range rm.Fds {
						if j < len(ids) && ident(f) != ids[j] {
							same = false
						}
						syscall.Close(f)
					}
					o["fds_ok"] = same
				}
				for _, f := range fs {
					f.Close()
				}
				obs = append(obs, o)
			}
			after := nfds()
			a.Close()
			b.Close()
			return map[string]any{"obs": obs, "fd_delta": after - before}
		}
		return map[string]any{"harness_err": fmt.Sprint("unknown kind ", c["kind"])}
	})
}

func oob2ints(b []byte) []int {
	r := make([]int, len(b))
	for i, x := range b {
		r[i] = int(x)
	}
	return r
}

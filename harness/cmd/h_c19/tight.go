// The receiving process short of room in its descriptor table: the state of the receiver, not the size of a
// message, decides how many of the attached descriptors the kernel can install (RLIMIT_NOFILE).
package main

import (
	"fmt"
	"os"
	"strconv"
	"syscall"
)

// tight is a descriptor table that has been filled so that exactly `room` more descriptors fit.
type tight struct {
	saved   syscall.Rlimit
	fillers []int
	active  bool
	// what was really established, for the replay
	Limit int `json:"limit"`
	Room  int `json:"room"`
}

func maxOpenFd() (int, error) {
	es, err := os.ReadDir("/proc/self/fd")
	if err != nil {
		return 0, err
	}
	m := 0
	for _, e := range es {
		if n, err := strconv.Atoi(e.Name()); err == nil && n > m {
			m = n
		}
	}
	return m, nil
}

// tighten lowers the soft RLIMIT_NOFILE just above the highest descriptor in use, fills every free slot below it
// and frees `room` of them again: the lowest ones ("low"), the highest ones ("high") or every other one ("spread").
func tighten(room int, where string) (*tight, error) {
	t := &tight{Room: room}
	if err := syscall.Getrlimit(syscall.RLIMIT_NOFILE, &t.saved); err != nil {
		return nil, err
	}
	m, err := maxOpenFd()
	if err != nil {
		return nil, err
	}
	null, err := syscall.Open("/dev/null", syscall.O_RDONLY|syscall.O_CLOEXEC, 0)
	if err != nil {
		return nil, err
	}
	if null > m {
		m = null
	}
	limit := uint64(m + 1 + room + 8)
	if limit > t.saved.Cur {
		syscall.Close(null)
		return nil, fmt.Errorf("descriptor limit %d too low for this scenario", t.saved.Cur)
	}
	t.Limit = int(limit)
	if err := syscall.Setrlimit(syscall.RLIMIT_NOFILE, &syscall.Rlimit{Cur: limit, Max: t.saved.Max}); err != nil {
		syscall.Close(null)
		return nil, err
	}
	t.active = true
	t.fillers = append(t.fillers, null)
	for {
		// F_DUPFD_CLOEXEC: the lowest free number at or above 0
		fd, _, e := syscall.Syscall(syscall.SYS_FCNTL, uintptr(null), syscall.F_DUPFD_CLOEXEC, 0)
		if e == syscall.EMFILE {
			break
		}
		if e != 0 {
			t.release()
			return nil, e
		}
		t.fillers = append(t.fillers, int(fd))
		if len(t.fillers) > 1<<16 {
			t.release()
			return nil, fmt.Errorf("descriptor table does not fill up")
		}
	}
	if len(t.fillers) < room {
		t.release()
		return nil, fmt.Errorf("only %d free slots below the limit, %d wanted", len(t.fillers), room)
	}
	// fillers are in increasing order of their numbers except the first (null), which may be anywhere
	free := map[int]bool{}
	switch where {
	case "high":
		for i := 0; i < room; i++ {
			free[len(t.fillers)-1-i] = true
		}
	case "spread":
		for i := 0; len(free) < room && i < len(t.fillers); i += 2 {
			free[i] = true
		}
		for i := 1; len(free) < room && i < len(t.fillers); i += 2 {
			free[i] = true
		}
	default:
		for i := 0; i < room; i++ {
			free[i] = true
		}
	}
	var keep []int
	for i, f := range t.fillers {
		if free[i] {
			syscall.Close(f)
		} else {
			keep = append(keep, f)
		}
	}
	t.fillers = keep
	return t, nil
}

// release closes the fillers and restores the limit.
func (t *tight) release() {
	if t == nil || !t.active {
		return
	}
	for _, f := range t.fillers {
		syscall.Close(f)
	}
	t.fillers = nil
	syscall.Setrlimit(syscall.RLIMIT_NOFILE, &t.saved)
	t.active = false
}

// freeSlots counts how many descriptors can still be opened right now (and closes them again).
func freeSlots(max int) int {
	var got []int
	for len(got) < max {
		fd, err := syscall.Open("/dev/null", syscall.O_RDONLY|syscall.O_CLOEXEC, 0)
		if err != nil {
			break
		}
		got = append(got, fd)
	}
	for _, f := range got {
		syscall.Close(f)
	}
	return len(got)
}

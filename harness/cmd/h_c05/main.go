// h_c05: builds a mount table for the namespace runner or a container, runs the FS probe inside and reports the mount
// table of the sandboxed process (/proc/<pid>/mountinfo).  Must run in a private mount namespace (unshare -m).
package main

import (
	"context"
	"fmt"
	"os"
	"strings"
	"syscall"
	"time"

	"golang.org/x/sys/unix"

	"verifh/lib/hx"

	"github.com/criyle/go-sandbox/container"
	"github.com/criyle/go-sandbox/pkg/forkexec"
	"github.com/criyle/go-sandbox/pkg/mount"
	"github.com/criyle/go-sandbox/pkg/pipe"
	"github.com/criyle/go-sandbox/runner"
	"github.com/criyle/go-sandbox/runner/unshare"
)

func strs(v any) []string {
	r := []string{}
	if v == nil {
		return r
	}
	for _, x := range v.([]any) {
		r = append(r, x.(string))
	}
	return r
}

func main() {
	hx.Init()
	scratch := os.Getenv("VERIF_SCRATCH")
	hx.Cases(func(c map[string]any) map[string]any {
		t0 := time.Now()
		out := one(c, scratch)
		out["ms"] = time.Since(t0).Milliseconds()
		return out
	})
}

func one(c map[string]any, scratch string) map[string]any {
	{
		if c["mode"] == "raw_twice" {
			// the raw mount sequence of the launcher, as a root caller without user namespace and without callback (the child shares the
			// launcher's memory until it execs), started three times with the same prepared table
			root, err := os.MkdirTemp(scratch, "rawroot")
			if err != nil {
				return map[string]any{"harness_err": err.Error()}
			}
			defer os.RemoveAll(root)
			data, _ := os.MkdirTemp(scratch, "rawdata")
			defer os.RemoveAll(data)
			mt, err := mount.NewBuilder().WithBind(hx.BinDir(), "vb", true).WithBind(data, "data", true).WithTmpfs("w", "size=1m").Build()
			if err != nil {
				return map[string]any{"harness_err": err.Error()}
			}
			runs := []any{}
			for k := 0; k < 3; k++ {
				buf, _ := pipe.NewBuffer(1 << 20)
				null, _ := os.Open("/dev/null")
				r := &forkexec.Runner{Args: []string{"/vb/probe_target", "fsprobe", "/data", "/w"}, Env: []string{}, CloneFlags: unix.CLONE_NEWNS,
					Mounts: mt, PivotRoot: root, WorkDir: "/", Files: []uintptr{null.Fd(), buf.W.Fd(), buf.W.Fd()}}
				pid, err := r.Start()
				null.Close()
				buf.W.Close()
				if err != nil {
					runs = append(runs, map[string]any{"start_err": err.Error()})
					continue
				}
				var ws syscall.WaitStatus
				syscall.Wait4(pid, &ws, 0, nil)
				<-buf.Done
				runs = append(runs, map[string]any{"wait_status": int(ws), "probe": strings.TrimSpace(buf.Buffer.String())})
			}
			return map[string]any{"runs": runs}
		}
		if c["mode"] == "builder_alias" {
			// one base table handed to two builders: neither may see the other's additions, the caller's slice stays as it was
			show := func(ms []mount.Mount) []string {
				r := []string{}
				for _, m := range ms {
					r = append(r, fmt.Sprintf("%s|%s|%d", m.Source, m.Target, m.Flags))
				}
				return r
			}
			ja, _ := os.MkdirTemp(scratch, "jobA")
			jb, _ := os.MkdirTemp(scratch, "jobB")
			defer os.RemoveAll(ja)
			defer os.RemoveAll(jb)
			tmp := mount.NewBuilder().WithBind("/usr", "usr", true).WithBind("/nonexistent-c05-source", "nx", true).WithBind("/bin", "bin", true).WithTmpfs("w", "size=1m")
			base := append([]mount.Mount(nil), tmp.Mounts...)
			before := show(base)
			b1 := mount.NewBuilder().WithMounts(base).FilterNotExist().WithBind(ja, "src", false)
			t1 := show(b1.Mounts)
			b2 := mount.NewBuilder().WithMounts(base).FilterNotExist().WithBind(jb, "other", false)
			return map[string]any{"base_before": before, "base_after": show(base), "first": t1, "first_later": show(b1.Mounts), "second": show(b2.Mounts),
				"job_a": ja, "job_b": jb}
		}
		// mounts inside bind sources (this process lives in its own mount namespace)
		var mounted []string
		defer func() {
			for i := len(mounted) - 1; i >= 0; i-- {
				syscall.Unmount(mounted[i], syscall.MNT_DETACH)
			}
		}()
		for _, p := range strs(c["submounts"]) {
			os.MkdirAll(p, 0755)
			if err := syscall.Mount("tmpfs", p, "tmpfs", 0, "size=1m"); err != nil {
				return map[string]any{"harness_err": "submount: " + err.Error()}
			}
			mounted = append(mounted, p)
		}
		if c["mode"] == "sb_readonly" {
			// the source of a read-only bind lies on a file system that is read-only as a whole while the sandbox is set up (made so through
			// another mount of it) and becomes writable again later: the bind must stay read-only
			v, _ := os.MkdirTemp(scratch, "vol")
			v2, _ := os.MkdirTemp(scratch, "volagain")
			if err := syscall.Mount("tmpfs", v, "tmpfs", 0, "size=1m"); err != nil {
				return map[string]any{"harness_err": "vol: " + err.Error()}
			}
			mounted = append(mounted, v)
			os.MkdirAll(v+"/data", 0755)
			os.WriteFile(v+"/data/data.txt", []byte("x"), 0644)
			if err := syscall.Mount(v, v2, "", syscall.MS_BIND, ""); err != nil {
				return map[string]any{"harness_err": "second mount: " + err.Error()}
			}
			mounted = append(mounted, v2)
			if err := syscall.Mount("", v2, "", syscall.MS_REMOUNT|syscall.MS_RDONLY, ""); err != nil {
				return map[string]any{"harness_err": "remount ro: " + err.Error()}
			}
			c["mounts"] = []any{map[string]any{"kind": "bind", "source": v + "/data", "target": "data", "ro": true},
				map[string]any{"kind": "tmpfs", "target": "w"}}
			c["probe"] = []any{"/data", "/w"}
			c["_after_build"] = v2
		}
		b := mount.NewBuilder().WithBind(hx.BinDir(), "vb", true)
		for _, mm := range c["mounts"].([]any) {
			m := mm.(map[string]any)
			src, _ := m["source"].(string)
			tgt, _ := m["target"].(string)
			ro := m["ro"] == true
			switch m["kind"] {
			case "bind":
				if m["rec"] == false {
					var fl uintptr = unix.MS_BIND
					if ro {
						fl |= unix.MS_RDONLY
					}
					b = b.WithMount(mount.Mount{Source: src, Target: tgt, Flags: fl})
				} else {
					b = b.WithBind(src, tgt, ro)
				}
			case "tmpfs":
				b = b.WithTmpfs(tgt, "size=1m")
			case "proc":
				b = b.WithProcRW(!ro)
			}
		}
		b = b.FilterNotExist()
		args := append([]string{"/vb/probe_target", "fsprobe"}, strs(c["probe"])...)
		if mod := strs(c["modify"]); len(mod) > 0 {
			// first the modifications of objects that exist below the mounts (and which proc instance is shown), then the FS probe
			args = append(append(append([]string{"/vb/probe_fsmodify"}, mod...), "--"), args...)
		}
		out := map[string]any{"kept": len(b.Mounts)}
		// the output of the two probes: the line of probe_fsmodify (if it ran) and the line of the FS probe
		split := func(text string) {
			text = strings.TrimSpace(text)
			if len(strs(c["modify"])) > 0 {
				first, rest, _ := strings.Cut(text, "\n")
				out["modify"], text = strings.TrimSpace(first), strings.TrimSpace(rest)
			}
			out["probe"] = text
		}
		if c["runner"] == "raw" {
			// the launcher (pkg/forkexec) driven directly: the raw in-child mount sequence under the caller's choice of namespaces,
			// identity mapping and privilege dropping (runner/unshare fixes one such choice)
			root, err := os.MkdirTemp(scratch, "rawroot")
			if err != nil {
				return map[string]any{"harness_err": err.Error()}
			}
			defer os.RemoveAll(root)
			mt, err := b.Build()
			if err != nil {
				return map[string]any{"harness_err": "build: " + err.Error()}
			}
			nsflag := map[string]uintptr{"mnt": unix.CLONE_NEWNS, "user": unix.CLONE_NEWUSER, "pid": unix.CLONE_NEWPID, "uts": unix.CLONE_NEWUTS,
				"ipc": unix.CLONE_NEWIPC, "net": unix.CLONE_NEWNET, "cgroup": unix.CLONE_NEWCGROUP}
			var flags uintptr
			for _, n := range strs(c["namespaces"]) {
				f, ok := nsflag[n]
				if !ok {
					return map[string]any{"harness_err": "namespace " + n}
				}
				flags |= f
			}
			if flags&unix.CLONE_NEWNS == 0 {
				return map[string]any{"harness_err": "a pivoted root without a mount namespace would rearrange the harness's own mounts"}
			}
			buf, _ := pipe.NewBuffer(1 << 20)
			null, _ := os.Open("/dev/null")
			defer null.Close()
			r := &forkexec.Runner{Args: args, Env: []string{}, CloneFlags: flags, Mounts: mt, PivotRoot: root, WorkDir: "/",
				Files: []uintptr{null.Fd(), buf.W.Fd(), buf.W.Fd()}, DropCaps: c["drop_caps"] == true, NoNewPrivs: c["no_new_privs"] == true,
				SyncFunc: func(pid int) error {
					mi, _ := os.ReadFile(fmt.Sprintf("/proc/%d/mountinfo", pid))
					out["mountinfo"] = string(mi)
					return nil
				}}
			if flags&unix.CLONE_NEWUTS != 0 {
				r.HostName, r.DomainName = "v", "v"
			}
			if id, ok := c["id_inside"].(float64); ok && flags&unix.CLONE_NEWUSER != 0 {
				r.UIDMappings = []syscall.SysProcIDMap{{ContainerID: int(id), HostID: os.Geteuid(), Size: 1}}
				r.GIDMappings = []syscall.SysProcIDMap{{ContainerID: int(id), HostID: os.Getegid(), Size: 1}}
			}
			pid, err := r.Start()
			buf.W.Close()
			if err != nil {
				<-buf.Done
				out["started"], out["start_err"] = false, err.Error()
				split(buf.Buffer.String())
				return out
			}
			done := make(chan struct{})
			go func() {
				select {
				case <-done:
				case <-time.After(60 * time.Second):
					syscall.Kill(pid, syscall.SIGKILL)
				}
			}()
			var ws syscall.WaitStatus
			for {
				if _, err = syscall.Wait4(pid, &ws, 0, nil); err != syscall.EINTR {
					break
				}
			}
			close(done)
			<-buf.Done
			out["started"], out["wait_status"] = true, int(ws)
			out["status"] = 0
			if err == nil && ws.Exited() && ws.ExitStatus() == 0 {
				out["status"] = 1
			} else {
				out["error"] = fmt.Sprintf("wait status %#x (%v)", int(ws), err)
			}
			split(buf.Buffer.String())
			return out
		}
		if c["runner"] == "ns" {
			root, err := os.MkdirTemp(scratch, "nsroot")
			if err != nil {
				return map[string]any{"harness_err": err.Error()}
			}
			defer os.RemoveAll(root)
			mt, err := b.Build()
			if err != nil {
				return map[string]any{"harness_err": "build: " + err.Error()}
			}
			buf, _ := pipe.NewBuffer(1 << 20)
			null, _ := os.Open("/dev/null")
			defer null.Close()
			r := &unshare.Runner{Args: args, Env: []string{}, WorkDir: "/", Seccomp: hx.AllowAll(), Root: root, Mounts: mt,
				Files: []uintptr{null.Fd(), buf.W.Fd(), buf.W.Fd()}, HostName: "v", DomainName: "v",
				Limit: runner.Limit{TimeLimit: 10 * time.Second, MemoryLimit: 1 << 30},
				SyncFunc: func(pid int) error {
					mi, _ := os.ReadFile(fmt.Sprintf("/proc/%d/mountinfo", pid))
					out["mountinfo"] = string(mi)
					return nil
				}}
			ctx, cancel := context.WithTimeout(context.Background(), 20*time.Second)
			res := r.Run(ctx)
			cancel()
			buf.W.Close()
			<-buf.Done
			out["status"], out["error"] = int(res.Status), res.Error
			split(buf.Buffer.String())
			return out
		}
		var env container.Environment
		var err error
		for try := 0; ; try++ {
			env, err = hx.NewEnvWith(scratch, nil, func(cb *container.Builder) {
				cb.Mounts = b.Mounts
				cb.WorkDir = "/"
				if c["init_cmd"] == true {
					cb.Mounts = append(cb.Mounts, mount.Mount{Source: "/dev/null", Target: "dev/null", Flags: unix.MS_BIND})
					cb.InitCommand = []string{"/vb/probe_target", "exit", "0"}
				}
			})
			// the builder gives the container init 3 seconds to answer the first ping; on a loaded machine that is a matter of speed, not of
			// the mount table: such a build is tried again (at most twice, counted in the evidence); any other failure is reported as before
			if err == nil || try >= 2 || !strings.Contains(err.Error(), "i/o timeout") {
				break
			}
			out["build_retries"] = try + 1
		}
		if err != nil {
			out["build_err"] = err.Error()
			return out
		}
		defer env.Destroy()
		if v2, ok := c["_after_build"].(string); ok {
			// the file system becomes writable again
			if err := syscall.Mount("", v2, "", syscall.MS_REMOUNT, ""); err != nil {
				return map[string]any{"harness_err": "remount rw: " + err.Error()}
			}
		}
		mi, _ := os.ReadFile(fmt.Sprintf("/proc/%d/mountinfo", container.InitPidVerif(env)))
		out["mountinfo"] = string(mi)
		buf, _ := pipe.NewBuffer(1 << 20)
		null, _ := os.Open("/dev/null")
		defer null.Close()
		ctx, cancel := context.WithTimeout(context.Background(), 20*time.Second)
		res := env.Execve(ctx, container.ExecveParam{Args: args, Env: []string{}, Files: []uintptr{null.Fd(), buf.W.Fd(), buf.W.Fd()}})
		cancel()
		buf.W.Close()
		<-buf.Done
		out["status"], out["error"] = int(res.Status), res.Error
		split(buf.Buffer.String())
		return out
	}
}

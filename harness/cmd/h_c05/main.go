// h_c05: builds a mount table for the namespace runner or a container, runs the FS probe inside and reports the mount
// table of the sandboxed process (/proc/<pid>/mountinfo).  Must run in a private mount namespace (unshare -m).
package main

import (
	"context"
	"fmt"
	"os"
	"strings"
	"syscall"
	"time"

	"golang.org/x/sys/unix"

	"verifh/lib/hx"

	"github.com/criyle/go-sandbox/container"
	"github.com/criyle/go-sandbox/pkg/mount"
	"github.com/criyle/go-sandbox/pkg/pipe"
	"github.com/criyle/go-sandbox/runner"
	"github.com/criyle/go-sandbox/runner/unshare"
)

func strs(v any) []string {
	r := []string{}
	if v == nil {
		return r
	}
	for _, x := range v.([]any) {
		r = append(r, x.(string))
	}
	return r
}

func main() {
	hx.Init()
	scratch := os.Getenv("VERIF_SCRATCH")
	hx.Cases(func(c map[string]any) map[string]any {
		// mounts inside bind sources (this process lives in its own mount namespace)
		var mounted []string
		defer func() {
			for i := len(mounted) - 1; i >= 0; i-- {
				syscall.Unmount(mounted[i], syscall.MNT_DETACH)
			}
		}()
		for _, p := range strs(c["submounts"]) {
			os.MkdirAll(p, 0755)
			if err := syscall.Mount("tmpfs", p, "tmpfs", 0, "size=1m"); err != nil {
				return map[string]any{"harness_err": "submount: " + err.Error()}
			}
			mounted = append(mounted, p)
		}
		b := mount.NewBuilder().WithBind(hx.BinDir(), "vb", true)
		for _, mm := range c["mounts"].([]any) {
			m := mm.(map[string]any)
			src, _ := m["source"].(string)
			tgt, _ := m["target"].(string)
			ro := m["ro"] == true
			switch m["kind"] {
			case "bind":
				if m["rec"] == false {
					var fl uintptr = unix.MS_BIND
					if ro {
						fl |= unix.MS_RDONLY
					}
					b = b.WithMount(mount.Mount{Source: src, Target: tgt, Flags: fl})
				} else {
					b = b.WithBind(src, tgt, ro)
				}
			case "tmpfs":
				b = b.WithTmpfs(tgt, "size=1m")
			case "proc":
				b = b.WithProcRW(!ro)
			}
		}
		b = b.FilterNotExist()
		args := append([]string{"/vb/probe_target", "fsprobe"}, strs(c["probe"])...)
		out := map[string]any{"kept": len(b.Mounts)}
		if c["runner"] == "ns" {
			root, err := os.MkdirTemp(scratch, "nsroot")
			if err != nil {
				return map[string]any{"harness_err": err.Error()}
			}
			defer os.RemoveAll(root)
			mt, err := b.Build()
			if err != nil {
				return map[string]any{"harness_err": "build: " + err.Error()}
			}
			buf, _ := pipe.NewBuffer(1 << 20)
			null, _ := os.Open("/dev/null")
			defer null.Close()
			r := &unshare.Runner{Args: args, Env: []string{}, WorkDir: "/", Seccomp: hx.AllowAll(), Root: root, Mounts: mt,
				Files: []uintptr{null.Fd(), buf.W.Fd(), buf.W.Fd()}, HostName: "v", DomainName: "v",
				Limit: runner.Limit{TimeLimit: 10 * time.Second, MemoryLimit: 1 << 30},
				SyncFunc: func(pid int) error {
					mi, _ := os.ReadFile(fmt.Sprintf("/proc/%d/mountinfo", pid))
					out["mountinfo"] = string(mi)
					return nil
				}}
			ctx, cancel := context.WithTimeout(context.Background(), 20*time.Second)
			res := r.Run(ctx)
			cancel()
			buf.W.Close()
			<-buf.Done
			out["status"], out["error"], out["probe"] = int(res.Status), res.Error, strings.TrimSpace(buf.Buffer.String())
			return out
		}
		env, err := hx.NewEnvWith(scratch, nil, func(cb *container.Builder) {
			cb.Mounts = b.Mounts
			cb.WorkDir = "/"
			if c["init_cmd"] == true {
				cb.Mounts = append(cb.Mounts, mount.Mount{Source: "/dev/null", Target: "dev/null", Flags: unix.MS_BIND})
				cb.InitCommand = []string{"/vb/probe_target", "exit", "0"}
			}
		})
		if err != nil {
			out["build_err"] = err.Error()
			return out
		}
		defer env.Destroy()
		mi, _ := os.ReadFile(fmt.Sprintf("/proc/%d/mountinfo", container.InitPidVerif(env)))
		out["mountinfo"] = string(mi)
		buf, _ := pipe.NewBuffer(1 << 20)
		null, _ := os.Open("/dev/null")
		defer null.Close()
		ctx, cancel := context.WithTimeout(context.Background(), 20*time.Second)
		res := env.Execve(ctx, container.ExecveParam{Args: args, Env: []string{}, Files: []uintptr{null.Fd(), buf.W.Fd(), buf.W.Fd()}})
		cancel()
		buf.W.Close()
		<-buf.Done
		out["status"], out["error"], out["probe"] = int(res.Status), res.Error, strings.TrimSpace(buf.Buffer.String())
		return out
	})
}

// h_c15: reading paths from hostile memory, and hostile traced programs.
package main

import (
	"context"
	"fmt"
	"os"
	"syscall"
	"time"
	"unsafe"

	"verifh/lib/hx"

	"github.com/criyle/go-sandbox/pkg/seccomp/libseccomp"
	"github.com/criyle/go-sandbox/ptracer"
	"github.com/criyle/go-sandbox/runner"
	"github.com/criyle/go-sandbox/runner/ptrace"
)

type allowAll struct{}

func (allowAll) CheckRead(string) ptracer.TraceAction    { return ptracer.TraceAllow }
func (allowAll) CheckWrite(string) ptracer.TraceAction   { return ptracer.TraceAllow }
func (allowAll) CheckStat(string) ptracer.TraceAction    { return ptracer.TraceAllow }
func (allowAll) CheckSyscall(string) ptracer.TraceAction { return ptracer.TraceAllow }

const pages = 5
const ps = 4096

var region []byte

func getString(addr uintptr) (res map[string]any) {
	defer func() {
		if e := recover(); e != nil {
			res = map[string]any{"panic": fmt.Sprint(e)}
		}
	}()
	var regs syscall.PtraceRegs
	ctx := ptracer.NewContextVerif(os.Getpid(), regs)
	s := ctx.GetString(addr)
	sum := uint64(0)
	for i := 0; i < len(s); i++ {
		sum = (sum*131 + uint64(s[i])) % 4294967291
	}
	return map[string]any{"len": len(s), "sum": sum}
}

func main() {
	hx.Init()
	var err error
	region, err = syscall.Mmap(-1, 0, pages*ps, syscall.PROT_READ|syscall.PROT_WRITE, syscall.MAP_PRIVATE|syscall.MAP_ANON)
	if err != nil {
		panic(err)
	}
	base := uintptr(unsafe.Pointer(&region[0]))
	// every traced syscall of the hostile runs traps
	trapAll, err := (&libseccomp.Builder{Default: libseccomp.ActionTrace}).Build()
	if err != nil {
		panic(err)
	}
	hx.Cases(func(c map[string]any) map[string]any {
		switch c["kind"].(string) {
		case "getstring":
			// pages: which of the first four pages are readable; nuls: offsets holding NUL; off: where the string starts
			syscall.Mprotect(region, syscall.PROT_READ|syscall.PROT_WRITE)
			for i := range region {
				region[i] = byte(i%251) + 1
			}
			for _, n := range c["nuls"].([]any) {
				region[hx.Int(n)] = 0
			}
			for p, v := range c["pages"].([]any) {
				if v != true {
					syscall.Mprotect(region[p*ps:(p+1)*ps], syscall.PROT_NONE)
				}
			}
			syscall.Mprotect(region[(pages-1)*ps:], syscall.PROT_NONE)
			r := getString(base + uintptr(hx.Int(c["off"])))
			syscall.Mprotect(region, syscall.PROT_READ|syscall.PROT_WRITE)
			return r
		case "clen":
			n := int(hx.Int(c["n"]))
			b := make([]byte, n)
			for i := range b {
				b[i] = 'x'
			}
			if z := hx.Int(c["zero"]); z >= 0 && int(z) < n {
				b[z] = 0
			}
			return map[string]any{"clen": ptracer.ClenVerif(b)}
		case "hostile":
			limit := runner.Limit{TimeLimit: 5 * time.Second, MemoryLimit: runner.Size(1 << 30)}
			wd := os.Getenv("VERIF_SCRATCH")
			if wd == "" {
				wd = "/"
			}
			r := &ptrace.Runner{Args: []string{hx.Target(), "hostile", c["scenario"].(string)}, Env: []string{}, WorkDir: wd,
				Limit: limit, Seccomp: trapAll, Handler: allowAll{}}
			reps := int(hx.Int(c["reps"]))
			if reps == 0 {
				reps = 1
			}
			counts := map[string]int{}
			first := ""
			var slowest int64
			for i := 0; i < reps; i++ {
				t0 := time.Now()
				ctx, cancel := context.WithTimeout(context.Background(), 10*time.Second)
				res := r.Run(ctx)
				cancel()
				if d := time.Since(t0).Milliseconds(); d > slowest {
					slowest = d
				}
				k := fmt.Sprintf("%d", int(res.Status))
				counts[k]++
				if res.Status == runner.StatusRunnerError && first == "" {
					first = res.Error
				}
			}
			return map[string]any{"statuses": counts, "runner_error": first, "slowest_ms": slowest}
		}
		return map[string]any{"harness_err": "unknown kind"}
	})
}

// h_c15: reading paths from hostile memory, and hostile traced programs.
package main

import (
	"context"
	"fmt"
	"math/rand"
	"os"
	"path/filepath"
	"syscall"
	"time"
	"unsafe"

	"verifh/lib/hx"

	"github.com/criyle/go-sandbox/pkg/seccomp"
	"github.com/criyle/go-sandbox/pkg/seccomp/libseccomp"
	"github.com/criyle/go-sandbox/ptracer"
	"github.com/criyle/go-sandbox/runner"
	"github.com/criyle/go-sandbox/runner/ptrace"
)

type allowAll struct{}

func (allowAll) CheckRead(string) ptracer.TraceAction    { return ptracer.TraceAllow }
func (allowAll) CheckWrite(string) ptracer.TraceAction   { return ptracer.TraceAllow }
func (allowAll) CheckStat(string) ptracer.TraceAction    { return ptracer.TraceAllow }
func (allowAll) CheckSyscall(string) ptracer.TraceAction { return ptracer.TraceAllow }

const pages = 5
const ps = 4096

var region []byte

func getString(addr uintptr) (res map[string]any) {
	defer func() {
		if e := recover(); e != nil {
			res = map[string]any{"panic": fmt.Sprint(e)}
		}
	}()
	var regs syscall.PtraceRegs
	ctx := ptracer.NewContextVerif(os.Getpid(), regs)
	s := ctx.GetString(addr)
	sum := uint64(0)
	for i := 0; i < len(s); i++ {
		sum = (sum*131 + uint64(s[i])) % 4294967291
	}
	return map[string]any{"len": len(s), "sum": sum}
}

func main() {
	hx.Init()
	var err error
	region, err = syscall.Mmap(-1, 0, pages*ps, syscall.PROT_READ|syscall.PROT_WRITE, syscall.MAP_PRIVATE|syscall.MAP_ANON)
	if err != nil {
		panic(err)
	}
	base := uintptr(unsafe.Pointer(&region[0]))
	// every traced syscall of the hostile runs traps
	trapAll, err := (&libseccomp.Builder{Default: libseccomp.ActionTrace}).Build()
	if err != nil {
		panic(err)
	}
	// only the path syscalls trap (the usual production shape: exit_group, clone, kill ... are not seen by the tracer)
	var trapPaths seccomp.Filter
	names := []string{"open", "openat", "openat2", "readlink", "readlinkat", "unlink", "unlinkat", "mkdirat", "rename", "renameat", "renameat2",
		"access", "faccessat", "faccessat2", "stat", "lstat", "newfstatat", "statx", "execve", "execveat", "chmod"}
	for len(names) > 0 {
		if trapPaths, err = (&libseccomp.Builder{Trace: names, Default: libseccomp.ActionAllow}).Build(); err == nil {
			break
		}
		// a name the assembler's table does not know: drop names from the end until it builds
		names = names[:len(names)-1]
	}
	if trapPaths == nil {
		panic(err)
	}
	hx.Cases(func(c map[string]any) map[string]any {
		switch c["kind"].(string) {
		case "dying":
			// a program whose tasks die (exit_group / SIGKILL / execve of a sibling) while they are inside traced path syscalls
			wd := os.Getenv("VERIF_SCRATCH")
			if wd == "" {
				wd = "/tmp"
			}
			filter := trapAll
			if c["filter"].(string) == "paths" {
				filter = trapPaths
			}
			args := []string{filepath.Join(hx.BinDir(), "probe_dying"), c["killer"].(string), c["form"].(string), c["cwd"].(string),
				fmt.Sprint(hx.Int(c["workers"])), fmt.Sprint(hx.Int(c["maxdelay_us"]))}
			r := &ptrace.Runner{Args: args, Env: []string{}, WorkDir: wd,
				Limit: runner.Limit{TimeLimit: 5 * time.Second, MemoryLimit: runner.Size(1 << 30)}, Seccomp: filter, Handler: allowAll{}}
			reps := int(hx.Int(c["reps"]))
			// the verdicts that describe how this program ends
			want := map[int]bool{}
			for _, w := range c["want_status"].([]any) {
				want[int(hx.Int(w))] = true
			}
			counts := map[string]int{}
			var slowest int64
			var bad []map[string]any
			ready := filepath.Join(wd, "c15.ready")
			rnd := rand.New(rand.NewSource(hx.Int(c["id"])))
			for i := 0; i < reps; i++ {
				os.Remove(ready)
				t0 := time.Now()
				ctx, cancel := context.WithTimeout(context.Background(), 10*time.Second)
				var res runner.Result
				if c["killer"].(string) == "none" {
					// the run is cancelled by its owner at a random moment after the workers started their calls
					done := make(chan runner.Result, 1)
					go func() { done <- r.Run(ctx) }()
					limit := time.Now().Add(8 * time.Second)
					for time.Now().Before(limit) {
						if _, e := os.Stat(ready); e == nil {
							break
						}
						time.Sleep(200 * time.Microsecond)
					}
					time.Sleep(time.Duration(rnd.Int63n(hx.Int(c["maxdelay_us"])*1000 + 1)))
					cancel()
					res = <-done
				} else {
					res = r.Run(ctx)
				}
				cancel()
				d := time.Since(t0).Milliseconds()
				if d > slowest {
					slowest = d
				}
				counts[fmt.Sprintf("%d", int(res.Status))]++
				if !want[int(res.Status)] && len(bad) < 3 {
					bad = append(bad, map[string]any{"run": i, "argv": args, "status": int(res.Status), "status_name": res.Status.String(),
						"exit_status": res.ExitStatus, "error": res.Error, "ms": d})
				}
				// one failing repetition is a counterexample: do not spend the rest of the budget on the same case
				if !want[int(res.Status)] && (res.Status == runner.StatusRunnerError || res.Status == runner.StatusTimeLimitExceeded) {
					break
				}
			}
			return map[string]any{"statuses": counts, "unexpected": bad, "slowest_ms": slowest}
		case "getstring":
			// pages: which of the first four pages are readable; nuls: offsets holding NUL; off: where the string starts
			syscall.Mprotect(region, syscall.PROT_READ|syscall.PROT_WRITE)
			for i := range region {
				region[i] = byte(i%251) + 1
			}
			for _, n := range c["nuls"].([]any) {
				region[hx.Int(n)] = 0
			}
			for p, v := range c["pages"].([]any) {
				if v != true {
					syscall.Mprotect(region[p*ps:(p+1)*ps], syscall.PROT_NONE)
				}
			}
			syscall.Mprotect(region[(pages-1)*ps:], syscall.PROT_NONE)
			r := getString(base + uintptr(hx.Int(c["off"])))
			syscall.Mprotect(region, syscall.PROT_READ|syscall.PROT_WRITE)
			return r
		case "clen":
			n := int(hx.Int(c["n"]))
			b := make([]byte, n)
			for i := range b {
				b[i] = 'x'
			}
			if z := hx.Int(c["zero"]); z >= 0 && int(z) < n {
				b[z] = 0
			}
			return map[string]any{"clen": ptracer.ClenVerif(b)}
		case "hostile":
			limit := runner.Limit{TimeLimit: 5 * time.Second, MemoryLimit: runner.Size(1 << 30)}
			wd := os.Getenv("VERIF_SCRATCH")
			if wd == "" {
				wd = "/"
			}
			r := &ptrace.Runner{Args: []string{hx.Target(), "hostile", c["scenario"].(string)}, Env: []string{}, WorkDir: wd,
				Limit: limit, Seccomp: trapAll, Handler: allowAll{}}
			reps := int(hx.Int(c["reps"]))
			if reps == 0 {
				reps = 1
			}
			counts := map[string]int{}
			first := ""
			var slowest int64
			for i := 0; i < reps; i++ {
				t0 := time.Now()
				ctx, cancel := context.WithTimeout(context.Background(), 10*time.Second)
				res := r.Run(ctx)
				cancel()
				if d := time.Since(t0).Milliseconds(); d > slowest {
					slowest = d
				}
				k := fmt.Sprintf("%d", int(res.Status))
				counts[k]++
				if res.Status == runner.StatusRunnerError && first == "" {
					first = res.Error
				}
			}
			return map[string]any{"statuses": counts, "runner_error": first, "slowest_ms": slowest}
		}
		return map[string]any{"harness_err": "unknown kind"}
	})
}

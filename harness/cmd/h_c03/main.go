// h_c03: really traced programs (trees of processes, vfork children and threads) issue marker syscalls; the handler decides
// allow / ban / kill by the marker's name; reports the tracer's event log, the verdict and the handler's consultations.
package main

import (
	"context"
	"fmt"
	"os"
	"path/filepath"
	"strings"
	"sync"
	"time"

	"verifh/lib/hx"

	"github.com/criyle/go-sandbox/pkg/seccomp/libseccomp"
	"github.com/criyle/go-sandbox/ptracer"
	"github.com/criyle/go-sandbox/runner"
	"github.com/criyle/go-sandbox/runner/ptrace"
)

type byName struct {
	mu    sync.Mutex
	asked []string
}

func (h *byName) decide(class, p string) ptracer.TraceAction {
	b := filepath.Base(p)
	if !strings.HasPrefix(b, "m_") {
		return ptracer.TraceAllow
	}
	h.mu.Lock()
	h.asked = append(h.asked, class+" "+b)
	h.mu.Unlock()
	switch b[len(b)-1] {
	case 'b':
		return ptracer.TraceBan
	case 'k':
		return ptracer.TraceKill
	}
	return ptracer.TraceAllow
}
func (h *byName) CheckRead(s string) ptracer.TraceAction    { return h.decide("read", s) }
func (h *byName) CheckWrite(s string) ptracer.TraceAction   { return h.decide("write", s) }
func (h *byName) CheckStat(s string) ptracer.TraceAction    { return h.decide("stat", s) }
func (h *byName) CheckSyscall(s string) ptracer.TraceAction { return ptracer.TraceAllow }

func main() {
	hx.Init()
	filter, err := (&libseccomp.Builder{Trace: []string{"mkdirat", "execve"}, Default: libseccomp.ActionAllow}).Build()
	if err != nil {
		panic(err)
	}
	base := []string{"read", "write", "exit_group", "exit", "execve", "brk", "arch_prctl", "set_tid_address",
		"set_robust_list", "rseq", "prlimit64", "readlinkat", "getrandom", "mprotect", "mmap", "munmap", "openat", "close", "fstat", "newfstatat",
		"rt_sigaction", "rt_sigprocmask", "uname", "readlink", "open", "lseek", "pread64", "wait4", "futex", "clone", "clone3", "madvise", "getpid",
		"gettid", "sched_yield", "nanosleep", "clock_nanosleep", "sigaltstack", "tgkill"}
	killFilter, err := (&libseccomp.Builder{Allow: base, Trace: []string{}, Default: libseccomp.ActionKill}).Build()
	if err != nil {
		panic(err)
	}
	// the same with the marker syscall allowed: a control that the list is enough for the program to run
	killFilterCtl, err := (&libseccomp.Builder{Allow: append(append([]string{}, base...), "mkdirat"), Trace: []string{}, Default: libseccomp.ActionKill}).Build()
	if err != nil {
		panic(err)
	}
	var mu sync.Mutex
	hx.Cases(func(c map[string]any) map[string]any {
		par := int(hx.Int(c["parallel"]))
		if par == 0 {
			par = 1
		}
		runs := c["runs"].([]any)
		res := make([]map[string]any, len(runs))
		sem := make(chan struct{}, par)
		var wg sync.WaitGroup
		for i, rr := range runs {
			wg.Add(1)
			sem <- struct{}{}
			go func(i int, rc map[string]any) {
				defer wg.Done()
				defer func() { <-sem }()
				h := &byName{}
				ctx, cancel := context.WithTimeout(context.Background(), 30*time.Second)
				defer cancel()
				f := filter
				if rc["filter_kill"] == true {
					f = killFilter
				}
				if rc["filter_kill"] == "control" {
					f = killFilterCtl
				}
				r := &ptrace.Runner{Args: []string{hx.Target(), "verdicts", rc["script"].(string), rc["dir"].(string), rc["out"].(string)}, Env: []string{},
					WorkDir: rc["dir"].(string), Limit: runner.Limit{TimeLimit: 20 * time.Second, MemoryLimit: runner.Size(1 << 30)},
					Seccomp: f, Handler: h}
				out := r.Run(ctx)
				o := map[string]any{"status": int(out.Status), "exit": out.ExitStatus, "error": out.Error, "asked": h.asked}
				mu.Lock()
				res[i] = o
				mu.Unlock()
			}(i, rr.(map[string]any))
		}
		wg.Wait()
		traces := ptracer.VerifTakeTraces()
		tl := map[string][]string{}
		for k, t := range traces {
			tl[fmt.Sprint(k)] = t
		}
		for i, rr := range runs {
			b, _ := os.ReadFile(rr.(map[string]any)["out"].(string))
			res[i]["out"] = string(b)
			ents, _ := os.ReadDir(rr.(map[string]any)["dir"].(string))
			names := []string{}
			for _, e := range ents {
				names = append(names, e.Name())
			}
			res[i]["markers"] = names
		}
		return map[string]any{"runs": res, "traces": tl}
	})
}

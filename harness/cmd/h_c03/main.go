// h_c03: really traced programs (trees of processes, vfork children and threads) issue marker syscalls; the handler decides
// allow / ban / kill by the marker's name; reports the tracer's event log, the verdict and the handler's consultations.
package main

import (
	"syscall"
	"context"
	"fmt"
	"os"
	"os/exec"
	"path/filepath"
	"runtime"
	"runtime/debug"
	"strings"
	"sync"
	"time"

	"verifh/lib/hx"

	"github.com/criyle/go-sandbox/pkg/seccomp/libseccomp"
	"github.com/criyle/go-sandbox/ptracer"
	"github.com/criyle/go-sandbox/runner"
	"github.com/criyle/go-sandbox/runner/ptrace"
)

type byName struct {
	mu    sync.Mutex
	asked []string
}

func (h *byName) decide(class, p string) ptracer.TraceAction {
	b := filepath.Base(p)
	if !strings.HasPrefix(b, "m_") {
		return ptracer.TraceAllow
	}
	h.mu.Lock()
	h.asked = append(h.asked, class+" "+b)
	h.mu.Unlock()
	switch b[len(b)-1] {
	case 'b':
		return ptracer.TraceBan
	case 'k':
		return ptracer.TraceKill
	}
	return ptracer.TraceAllow
}
func (h *byName) CheckRead(s string) ptracer.TraceAction    { return h.decide("read", s) }
func (h *byName) CheckWrite(s string) ptracer.TraceAction   { return h.decide("write", s) }
func (h *byName) CheckStat(s string) ptracer.TraceAction    { return h.decide("stat", s) }
func (h *byName) CheckSyscall(s string) ptracer.TraceAction { return ptracer.TraceAllow }

func main() {
	hx.Init()
	filter, err := (&libseccomp.Builder{Trace: []string{"mkdirat", "execve", "rename", "renameat2", "linkat"}, Default: libseccomp.ActionAllow}).Build()
	if err != nil {
		panic(err)
	}
	base := []string{"read", "write", "exit_group", "exit", "execve", "brk", "arch_prctl", "set_tid_address",
		"set_robust_list", "rseq", "prlimit64", "readlinkat", "getrandom", "mprotect", "mmap", "munmap", "openat", "close", "fstat", "newfstatat",
		"rt_sigaction", "rt_sigprocmask", "uname", "readlink", "open", "lseek", "pread64", "wait4", "futex", "clone", "clone3", "madvise", "getpid",
		"gettid", "sched_yield", "nanosleep", "clock_nanosleep", "sigaltstack", "tgkill"}
	killFilter, err := (&libseccomp.Builder{Allow: base, Trace: []string{}, Default: libseccomp.ActionKill}).Build()
	if err != nil {
		panic(err)
	}
	// the same with the marker syscall allowed: a control that the list is enough for the program to run
	killFilterCtl, err := (&libseccomp.Builder{Allow: append(append([]string{}, base...), "mkdirat"), Trace: []string{}, Default: libseccomp.ActionKill}).Build()
	if err != nil {
		panic(err)
	}
	var mu sync.Mutex
	hx.Cases(func(c map[string]any) map[string]any {
		if c["mode"] == "pidreuse" {
			// (needs a private pid namespace with a small pid_max) run A ends while a descendant is alive; process numbers are used up until
			// the descendant's number is next; run B's main process gets it: B must be treated like any new tracee
			os.WriteFile("/proc/sys/kernel/pid_max", []byte("400"), 0644)
			// no garbage collection between the two runs: whatever the library keeps between runs (pools, caches) stays
			defer debug.SetGCPercent(debug.SetGCPercent(-1))
			defer runtime.GOMAXPROCS(runtime.GOMAXPROCS(1)) // one scheduler context: per-context caches are the same for both runs
			one := func(script, dir, out string) (runner.Result, []string) {
				h := &byName{}
				r := &ptrace.Runner{Args: []string{hx.Target(), "verdicts", script, dir, out}, Env: []string{}, WorkDir: dir,
					Limit: runner.Limit{TimeLimit: 20 * time.Second, MemoryLimit: runner.Size(1 << 30)}, Seccomp: filter, Handler: h}
				res := r.Run(context.Background())
				tr := ptracer.VerifTakeTraces()
				var log []string
				for _, t := range tr {
					log = append(log, t...)
				}
				return res, log
			}
			// numbers up to 300 are never handed out again after a wrap: get past them first
			for i := 0; i < 400; i++ {
				cmd := exec.Command("/bin/true")
				if cmd.Start() == nil {
					pid := cmd.Process.Pid
					cmd.Wait()
					if pid >= 310 {
						break
					}
				}
			}
			_, logA := one(c["script_a"].(string), c["dir"].(string), c["out_a"].(string))
			leader, child := 0, 0
			for _, l := range logA {
				var k string
				var p, a int
				fmt.Sscanf(l, "%s %d %d", &k, &p, &a)
				if k == "wait" && leader == 0 {
					leader = p
				}
				if k == "wait" && p != leader {
					child = p
				}
			}
			if child == 0 {
				return map[string]any{"harness_err": "run A had no descendant"}
			}
			delta, tries := 1, []int{}
			for lap := 0; lap < 6000; lap++ {
				cmd := exec.Command("/bin/true")
				if cmd.Start() != nil {
					continue
				}
				pid := cmd.Process.Pid
				cmd.Wait()
				if pid == child-delta {
					os.Remove(c["out_b"].(string))
					resB, logB := one(c["script_b"].(string), c["dir"].(string), c["out_b"].(string))
					b, _ := os.ReadFile(c["out_b"].(string))
					// the number of B's main process: the first task its tracer heard of (the program may not even get to report it)
					var pb int
					if len(logB) > 0 {
						var k string
						var a int
						fmt.Sscanf(logB[0], "%s %d %d", &k, &pb, &a)
					}
					if pb == child {
						return map[string]any{"reused": child, "log_b": logB, "status_b": int(resB.Status), "out_b": string(b), "laps": lap, "tries": tries}
					}
					// the launch used up more numbers than assumed (threads of the runtime): aim accordingly next time round
					tries = append(tries, pb-pid)
					if pb > pid && pb-pid < 50 {
						delta = pb - pid
					}
				}
			}
			return map[string]any{"reused": 0, "tries": tries, "child": child}
		}
		par := int(hx.Int(c["parallel"]))
		if par == 0 {
			par = 1
		}
		// the error a banned syscall returns is configured per process and may be changed between runs
		if e := hx.Int(c["ban_ret"]); e != 0 {
			ptrace.BanRet = syscall.Errno(e)
		} else {
			ptrace.BanRet = syscall.EACCES
		}
		runs := c["runs"].([]any)
		res := make([]map[string]any, len(runs))
		sem := make(chan struct{}, par)
		var wg sync.WaitGroup
		for i, rr := range runs {
			wg.Add(1)
			sem <- struct{}{}
			go func(i int, rc map[string]any) {
				defer wg.Done()
				defer func() { <-sem }()
				h := &byName{}
				ctx, cancel := context.WithTimeout(context.Background(), 30*time.Second)
				defer cancel()
				f := filter
				if rc["filter_kill"] == true {
					f = killFilter
				}
				if rc["filter_kill"] == "control" {
					f = killFilterCtl
				}
				r := &ptrace.Runner{Args: []string{hx.Target(), "verdicts", rc["script"].(string), rc["dir"].(string), rc["out"].(string)}, Env: []string{},
					WorkDir: rc["dir"].(string), Limit: runner.Limit{TimeLimit: 20 * time.Second, MemoryLimit: runner.Size(1 << 30)},
					Seccomp: f, Handler: h}
				out := r.Run(ctx)
				o := map[string]any{"status": int(out.Status), "exit": out.ExitStatus, "error": out.Error, "asked": h.asked}
				mu.Lock()
				res[i] = o
				mu.Unlock()
			}(i, rr.(map[string]any))
		}
		wg.Wait()
		traces := ptracer.VerifTakeTraces()
		tl := map[string][]string{}
		for k, t := range traces {
			tl[fmt.Sprint(k)] = t
		}
		for i, rr := range runs {
			b, _ := os.ReadFile(rr.(map[string]any)["out"].(string))
			res[i]["out"] = string(b)
			ents, _ := os.ReadDir(rr.(map[string]any)["dir"].(string))
			names := []string{}
			for _, e := range ents {
				names = append(names, e.Name())
			}
			res[i]["markers"] = names
		}
		return map[string]any{"runs": res, "traces": tl}
	})
}

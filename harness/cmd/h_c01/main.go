// h_c01: libseccomp.Builder.Build, cleanTrace / GetConf, and the kernel cross-check.
package main

import (
	"sort"

	"github.com/elastic/go-seccomp-bpf/arch"

	"verifh/lib/hx"

	"github.com/criyle/go-sandbox/cmd/runprog/config"
	"github.com/criyle/go-sandbox/pkg/seccomp"
	"github.com/criyle/go-sandbox/pkg/seccomp/libseccomp"
)

func strs(v any) []string {
	if v == nil {
		return nil
	}
	r := []string{}
	for _, x := range v.([]any) {
		r = append(r, x.(string))
	}
	return r
}

func quads(f seccomp.Filter) [][4]uint32 {
	r := make([][4]uint32, 0, len(f))
	for _, i := range f {
		r = append(r, [4]uint32{uint32(i.Code), uint32(i.Jt), uint32(i.Jf), i.K})
	}
	return r
}

// one Builder value that lives as long as the process: callers may keep a Builder and build again
var shared libseccomp.Builder

// every filter Build returned in this process stays referenced, with a copy of its content at that time
var (
	heldID   []int
	held     []seccomp.Filter
	heldSnap [][][4]uint32
)

func main() {
	hx.Init()
	hx.Cases(func(c map[string]any) map[string]any {
		switch c["kind"].(string) {
		case "table":
			info, err := arch.GetInfo("")
			if err != nil {
				return map[string]any{"harness_err": err.Error()}
			}
			names := make([]string, 0, len(info.SyscallNames))
			for n := range info.SyscallNames {
				names = append(names, n)
			}
			sort.Strings(names)
			nums := make([]int, len(names))
			for i, n := range names {
				nums[i] = info.SyscallNames[n]
			}
			return map[string]any{"names": names, "nums": nums, "arch": info.ID, "mask": info.SeccompMask}
		case "build":
			b := &libseccomp.Builder{}
			if c["reuse"] == true {
				b = &shared
			}
			b.Allow, b.Trace, b.Default = strs(c["allow"]), strs(c["trace"]), libseccomp.Action(uint32(hx.Int(c["default"])))
			f, err := b.Build()
			if err != nil {
				return map[string]any{"err": err.Error()}
			}
			fp := f.SockFprog()
			q := quads(f)
			heldID, held, heldSnap = append(heldID, int(hx.Int(c["id"]))), append(held, f), append(heldSnap, q)
			return map[string]any{"filter": q, "len": fp.Len}
		case "names":
			// the tracer's name lookups happen between builds in a long-lived process: they must leave the table alone
			out := []string{}
			for _, v := range c["nums"].([]any) {
				n, err := libseccomp.ToSyscallName(uint(hx.Int(v)))
				if err != nil {
					out = append(out, "!")
				} else {
					out = append(out, n)
				}
			}
			return map[string]any{"names": out}
		case "recheck":
			// the filters returned earlier, read again now
			changed := []map[string]any{}
			for i, f := range held {
				now := quads(f)
				same := len(now) == len(heldSnap[i])
				for j := 0; same && j < len(now); j++ {
					same = now[j] == heldSnap[i][j]
				}
				if !same {
					changed = append(changed, map[string]any{"id": heldID[i], "now": now})
				}
			}
			return map[string]any{"held": len(held), "changed": changed}
		case "cleantrace":
			a, t := config.CleanTraceVerif(strs(c["allow"]), strs(c["trace"]))
			sort.Strings(a)
			sort.Strings(t)
			return map[string]any{"allow": a, "trace": t}
		case "types":
			return map[string]any{"types": config.ProgramTypesVerif()}
		case "getconf":
			pt := c["ptype"].(string)
			ap := c["allowproc"] == true
			ra, rt := config.RawSyscallListsVerif(pt, ap)
			_, a, t, _ := config.GetConf(pt, "/w", []string{"/w/a.out"}, nil, nil, ap)
			sort.Strings(a)
			sort.Strings(t)
			def := libseccomp.ActionKill
			if c["details"] == true {
				def = libseccomp.ActionTrace
			}
			f, err := (&libseccomp.Builder{Allow: a, Trace: t, Default: def}).Build()
			r := map[string]any{"raw_allow": ra, "raw_trace": rt, "allow": a, "trace": t, "default": int(def)}
			if err != nil {
				r["err"] = err.Error()
			} else {
				r["filter"] = quads(f)
			}
			return r
		}
		return map[string]any{"harness_err": "unknown kind"}
	})
}

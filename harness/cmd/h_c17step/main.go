// h_c17step: every launch window of a run, one system call at a time.
//
// Two roles in one binary.  The TRACEE is a host process that uses the library like any program: its first thread (the
// launching thread) performs a list of launches -- forkexec starts of every configuration (with and without a user
// namespace and id maps of several shapes, callbacks, seccomp, ptrace, failing at exec / chdir / dup / id map / callback),
// whole namespace runs, whole traced runs, a container environment built, used and destroyed -- and a second goroutine
// (the prober) launches, on request, a SECOND run of a program that reports the descriptor table it was started with.
// The TRACER (default role) ptrace-attaches to the launching thread only (the other threads of the tracee run freely),
// holds it at the boundary of every system call it makes between the markers of a launch, and while it is held there asks
// the prober for a second run.  So the second run is cloned at exactly that point of the first run's launch: a schedule
// of two concurrent runs at system call granularity, produced deterministically instead of waited for.
//
// The prober honours the fork lock protocol of the Go runtime and of the library (a clone waits for syscall.ForkLock):
// when the held thread owns the lock, no clone could happen at that point and the prober answers "locked"; the tracer
// then also tries just before the next system call (the lock may have been released in between).
//
// The tracer only records; the check (checks/c17.py) compares every second run with the same run started while nothing
// else goes on, and every launch with the same launch made without interruption.
package main

import (
	"bufio"
	"context"
	"encoding/binary"
	"encoding/json"
	"fmt"
	"os"
	"os/exec"
	"path/filepath"
	"runtime"
	"runtime/debug"
	"sort"
	"strconv"
	"strings"
	"sync"
	"syscall"
	"time"
	"unsafe"

	"golang.org/x/sys/unix"

	"verifh/lib/hx"

	"github.com/criyle/go-sandbox/container"
	"github.com/criyle/go-sandbox/pkg/forkexec"
	"github.com/criyle/go-sandbox/pkg/pipe"
	"github.com/criyle/go-sandbox/ptracer"
	"github.com/criyle/go-sandbox/runner"
	"github.com/criyle/go-sandbox/runner/ptrace"
)

// ------------------------------------------------------------------------------------------------ tracee

type launchCase struct {
	Name     string     `json:"name"`
	Launcher string     `json:"launcher"` // forkexec | unshare | ptrace | container
	Prog     string     `json:"prog"`     // exit0 | enoent | enoexec | etxtbsy
	Clone    []string   `json:"clone"`    // user ns pid net ipc uts cgroup
	UID      [][3]int64 `json:"uid"`
	GID      [][3]int64 `json:"gid"`
	Sync     string     `json:"sync"` // "" | accept | refuse
	BadDir   bool       `json:"baddir"`
	BadFile  bool       `json:"badfile"`
	Seccomp  bool       `json:"seccomp"`
	Ptrace   bool       `json:"ptrace"`
	SetGrp   bool       `json:"setgroups"`
}

var cloneBits = map[string]uintptr{"user": unix.CLONE_NEWUSER, "ns": unix.CLONE_NEWNS, "pid": unix.CLONE_NEWPID, "net": unix.CLONE_NEWNET,
	"ipc": unix.CLONE_NEWIPC, "uts": unix.CLONE_NEWUTS, "cgroup": unix.CLONE_NEWCGROUP}

type allowAll struct{}

func (allowAll) CheckRead(string) ptracer.TraceAction    { return ptracer.TraceAllow }
func (allowAll) CheckWrite(string) ptracer.TraceAction   { return ptracer.TraceAllow }
func (allowAll) CheckStat(string) ptracer.TraceAction    { return ptracer.TraceAllow }
func (allowAll) CheckSyscall(string) ptracer.TraceAction { return ptracer.TraceAllow }

var (
	scratch string
	repMu   sync.Mutex
	rep     *os.File
)

func report(v map[string]any) {
	b, _ := json.Marshal(v)
	repMu.Lock()
	rep.Write(append(b, '\n'))
	repMu.Unlock()
}

func mark(fd int) { syscall.Write(fd, []byte("c17step")) }

func fdsProbe() string { return filepath.Join(hx.BinDir(), "probe_c17fds") }

func idmap(l [][3]int64) []syscall.SysProcIDMap {
	if l == nil {
		return nil
	}
	r := []syscall.SysProcIDMap{}
	for _, x := range l {
		r = append(r, syscall.SysProcIDMap{ContainerID: int(x[0]), HostID: int(x[1]), Size: int(x[2])})
	}
	return r
}

// prepare returns the launch of one case (to be executed inside the markers) and its cleanup (outside).
func prepare(c launchCase, null, busy *os.File, noexec string) (launch func() map[string]any, cleanup func()) {
	cleanup = func() {}
	exit0 := []string{hx.Target(), "exit", "0"}
	switch c.Launcher {
	case "forkexec":
		r := &forkexec.Runner{Env: []string{}, Files: []uintptr{null.Fd(), null.Fd(), null.Fd()}}
		switch c.Prog {
		case "enoent":
			r.Args = []string{scratch + "/no_such_program"}
		case "enoexec":
			r.Args = []string{noexec}
		case "etxtbsy":
			r.Args = []string{busy.Name()}
		default:
			r.Args = exit0
		}
		for _, f := range c.Clone {
			r.CloneFlags |= cloneBits[f]
		}
		r.UIDMappings, r.GIDMappings, r.GIDMappingsEnableSetgroups = idmap(c.UID), idmap(c.GID), c.SetGrp
		switch c.Sync {
		case "accept":
			r.SyncFunc = func(int) error { return nil }
		case "refuse":
			r.SyncFunc = func(int) error { return fmt.Errorf("refused") }
		}
		if c.BadDir {
			r.WorkDir = scratch + "/no_such_dir"
		}
		if c.BadFile {
			r.Files = []uintptr{null.Fd(), 987, null.Fd()}
		}
		if c.Seccomp {
			r.Seccomp = hx.AllowAll().SockFprog()
		}
		r.Ptrace = c.Ptrace
		pid := 0
		launch = func() map[string]any {
			var err error
			pid, err = r.Start()
			return map[string]any{"started": pid > 0, "err": fmt.Sprint(err)}
		}
		cleanup = func() {
			if pid > 0 {
				var ws syscall.WaitStatus
				syscall.Kill(pid, syscall.SIGKILL)
				syscall.Wait4(pid, &ws, syscall.WALL, nil)
			}
		}
	case "unshare":
		r, err := hx.NsRunner(scratch, []string{"/vb/probe_target", "exit", "5"})
		if err != nil {
			return func() map[string]any { return map[string]any{"harness_err": err.Error()} }, cleanup
		}
		if c.Prog == "enoent" {
			r.Args = []string{"/vb/no_such_program"}
		}
		r.Files = []uintptr{null.Fd(), null.Fd(), null.Fd()}
		r.Limit = runner.Limit{TimeLimit: 20 * time.Second, MemoryLimit: 1 << 30}
		if c.Sync == "accept" {
			r.SyncFunc = func(int) error { return nil }
		}
		launch = func() map[string]any {
			res := r.Run(context.Background())
			return map[string]any{"status": int(res.Status), "exit": res.ExitStatus, "error": res.Error}
		}
		cleanup = func() { os.RemoveAll(r.Root) }
	case "ptrace":
		args := []string{hx.Target(), "exit", "6"}
		if c.Prog == "enoent" {
			args = []string{scratch + "/no_such_program"}
		}
		r := &ptrace.Runner{Args: args, Env: []string{}, WorkDir: "/", Files: []uintptr{null.Fd(), null.Fd(), null.Fd()},
			Limit: runner.Limit{TimeLimit: 20 * time.Second, MemoryLimit: 1 << 30}, Seccomp: hx.AllowAll(), Handler: allowAll{}}
		launch = func() map[string]any {
			res := r.Run(context.Background())
			return map[string]any{"status": int(res.Status), "exit": res.ExitStatus, "error": res.Error}
		}
	case "container":
		launch = func() map[string]any {
			env, err := hx.NewEnv(scratch, nil)
			if err != nil {
				return map[string]any{"build_err": err.Error()}
			}
			perr := fmt.Sprint(env.Ping())
			res := env.Execve(context.Background(), container.ExecveParam{Args: []string{"/vb/probe_target", "exit", "4"}, Env: []string{},
				Files: []uintptr{null.Fd(), null.Fd(), null.Fd()}})
			derr := fmt.Sprint(env.Destroy())
			return map[string]any{"ping": perr, "status": int(res.Status), "exit": res.ExitStatus, "error": res.Error, "destroy": derr}
		}
	default:
		launch = func() map[string]any { return map[string]any{"harness_err": "unknown launcher " + c.Launcher} }
	}
	return
}

// forkLockState: "" when a clone could go ahead now, "w" / "r" when the fork lock is held for writing / reading (by the held
// launching thread: nobody else of this process is active while a probe is made).
func forkLockState() string {
	if syscall.ForkLock.TryLock() {
		syscall.ForkLock.Unlock()
		return ""
	}
	if syscall.ForkLock.TryRLock() {
		syscall.ForkLock.RUnlock()
		return "r"
	}
	return "w"
}

// secondRun launches a run of the table-reporting program through one of three launchers and returns what it printed.
func secondRun(kind int) map[string]any {
	out := map[string]any{"t": "probe", "kind": kind}
	if l := forkLockState(); l != "" {
		out["locked"] = l
		return out
	}
	buf, err := pipe.NewBuffer(1 << 16)
	if err != nil {
		out["harness_err"] = err.Error()
		return out
	}
	null, _ := os.Open("/dev/null")
	defer null.Close()
	files := []uintptr{null.Fd(), buf.W.Fd(), buf.W.Fd()}
	switch kind {
	case 0: // forkexec, directly
		r := &forkexec.Runner{Args: []string{fdsProbe(), "7"}, Env: []string{}, Files: files}
		pid, err := r.Start()
		if err != nil {
			out["error"] = err.Error()
		} else {
			var ws syscall.WaitStatus
			for {
				if _, e := syscall.Wait4(pid, &ws, 0, nil); e != syscall.EINTR {
					break
				}
			}
			out["exit"] = ws.ExitStatus()
		}
	case 1: // the standard library's launcher
		cmd := exec.Command(fdsProbe(), "7")
		cmd.Env = []string{}
		cmd.Stdin, cmd.Stdout, cmd.Stderr = null, buf.W, buf.W
		err := cmd.Run()
		out["exit"] = cmd.ProcessState.ExitCode()
		if _, isExit := err.(*exec.ExitError); err != nil && !isExit {
			out["error"] = err.Error()
		}
	case 2: // a namespace run
		r, err := hx.NsRunner(scratch, []string{"/vb/probe_c17fds", "7"})
		if err != nil {
			out["harness_err"] = err.Error()
			break
		}
		r.Files = files
		r.Limit = runner.Limit{TimeLimit: 20 * time.Second, MemoryLimit: 1 << 30}
		res := r.Run(context.Background())
		os.RemoveAll(r.Root)
		out["exit"] = res.ExitStatus
		if res.Error != "" {
			out["error"] = res.Error
		}
	}
	buf.W.Close()
	<-buf.Done
	out["stdout"] = strings.TrimSpace(buf.Buffer.String())
	return out
}

func tracee() {
	debug.SetGCPercent(-1) // a collection would wait for the held thread
	scratch = os.Getenv("VERIF_SCRATCH")
	ctl := os.NewFile(3, "ctl")
	rep = os.NewFile(4, "rep")
	syscall.CloseOnExec(3)
	syscall.CloseOnExec(4)
	var cases []launchCase
	raw, err := os.ReadFile(os.Getenv("C17STEP_CASES"))
	if err == nil {
		err = json.Unmarshal(raw, &cases)
	}
	if err != nil {
		report(map[string]any{"t": "fatal", "harness_err": err.Error()})
		return
	}
	go func() {
		b := make([]byte, 1)
		for {
			if n, err := ctl.Read(b); n != 1 || err != nil {
				return
			}
			t0 := time.Now()
			r := secondRun(int(b[0] - '0'))
			r["us"] = time.Since(t0).Microseconds()
			report(r)
		}
	}()
	null, _ := os.Open("/dev/null")
	busyPath := scratch + "/busy_prog"
	src, _ := os.ReadFile(hx.Target())
	os.WriteFile(busyPath, src, 0755)
	busy, _ := os.OpenFile(busyPath, os.O_WRONLY, 0) // a program file that is open for writing: execve answers ETXTBSY
	noexec := scratch + "/noexec_prog"
	os.WriteFile(noexec, []byte("not a program"), 0755)
	// every launch once without interruption
	for i, c := range cases {
		launch, cleanup := prepare(c, null, busy, noexec)
		r := launch()
		cleanup()
		report(map[string]any{"t": "alone", "i": i, "res": r})
	}
	mark(-3) // nothing goes on: the tracer asks for the second runs "alone"
	for i, c := range cases {
		launch, cleanup := prepare(c, null, busy, noexec)
		report(map[string]any{"t": "case", "i": i})
		mark(-1)
		r := launch()
		mark(-2)
		cleanup()
		report(map[string]any{"t": "result", "i": i, "res": r})
	}
	report(map[string]any{"t": "done"})
}

// ------------------------------------------------------------------------------------------------ tracer

var sysName = map[uint64]string{0: "read", 1: "write", 2: "open", 3: "close", 4: "stat", 5: "fstat", 6: "lstat", 7: "poll", 8: "lseek", 9: "mmap", 10: "mprotect",
	11: "munmap", 13: "rt_sigaction", 14: "rt_sigprocmask", 15: "rt_sigreturn", 16: "ioctl", 17: "pread64", 21: "access", 22: "pipe", 24: "sched_yield", 28: "madvise",
	32: "dup", 33: "dup2", 35: "nanosleep", 39: "getpid", 41: "socket", 42: "connect", 43: "accept", 44: "sendto", 45: "recvfrom", 46: "sendmsg", 47: "recvmsg",
	48: "shutdown", 53: "socketpair", 54: "setsockopt", 55: "getsockopt", 56: "clone", 57: "fork", 58: "vfork", 59: "execve", 60: "exit", 61: "wait4", 62: "kill",
	72: "fcntl", 77: "ftruncate", 79: "getcwd", 80: "chdir", 82: "rename", 83: "mkdir", 84: "rmdir", 87: "unlink", 89: "readlink", 90: "chmod", 101: "ptrace",
	102: "getuid", 104: "getgid", 107: "geteuid", 108: "getegid", 109: "setpgid", 110: "getppid", 121: "getpgid", 131: "sigaltstack", 157: "prctl", 165: "mount",
	166: "umount2", 186: "gettid", 200: "tkill", 202: "futex", 204: "sched_getaffinity", 217: "getdents64", 228: "clock_gettime", 230: "clock_nanosleep",
	231: "exit_group", 232: "epoll_wait", 233: "epoll_ctl", 234: "tgkill", 247: "waitid", 257: "openat", 258: "mkdirat", 262: "newfstatat", 263: "unlinkat",
	270: "pselect6", 271: "ppoll", 281: "epoll_pwait", 284: "eventfd", 288: "accept4", 290: "eventfd2", 291: "epoll_create1", 292: "dup3", 293: "pipe2",
	302: "prlimit64", 318: "getrandom", 319: "memfd_create", 332: "statx", 424: "pidfd_send_signal", 434: "pidfd_open", 435: "clone3", 436: "close_range",
	437: "openat2", 438: "pidfd_getfd", 439: "faccessat2", 441: "epoll_pwait2"}

// system calls that neither change the descriptor table nor belong to a phase of a run (memory, signals masks, clocks, the
// scheduler's own waiting): the launching thread is not held at them
var neutral = map[uint64]bool{9: true, 10: true, 11: true, 13: true, 14: true, 15: true, 24: true, 28: true, 35: true, 39: true, 102: true, 104: true, 107: true,
	108: true, 110: true, 131: true, 186: true, 200: true, 202: true, 204: true, 228: true, 230: true, 232: true, 233: true, 234: true, 281: true, 318: true, 441: true}

const ptraceGetSyscallInfo = 0x420e

var debugOn = os.Getenv("C17STEP_DEBUG") == "1"

type sysInfo struct {
	op   uint8
	nr   uint64
	args [6]uint64
	rval int64
}

func getSyscallInfo(pid int) (sysInfo, error) {
	var buf [96]byte
	_, _, e := syscall.Syscall6(syscall.SYS_PTRACE, ptraceGetSyscallInfo, uintptr(pid), uintptr(len(buf)), uintptr(unsafe.Pointer(&buf[0])), 0, 0)
	if e != 0 {
		return sysInfo{}, e
	}
	si := sysInfo{op: buf[0]}
	switch si.op {
	case 1:
		si.nr = binary.LittleEndian.Uint64(buf[24:])
		for i := 0; i < 6; i++ {
			si.args[i] = binary.LittleEndian.Uint64(buf[32+8*i:])
		}
	case 2:
		si.rval = int64(binary.LittleEndian.Uint64(buf[24:]))
	}
	return si, nil
}

func readString(mem *os.File, addr uint64) string {
	b := make([]byte, 200)
	n, _ := mem.ReadAt(b, int64(addr))
	for i := 0; i < n; i++ {
		if b[i] == 0 {
			return string(b[:i])
		}
	}
	return string(b[:n])
}

func openFlags(f uint64) string {
	names := []struct {
		bit  uint64
		name string
	}{{unix.O_WRONLY, "O_WRONLY"}, {unix.O_RDWR, "O_RDWR"}, {unix.O_CREAT, "O_CREAT"}, {unix.O_EXCL, "O_EXCL"}, {unix.O_TRUNC, "O_TRUNC"}, {unix.O_APPEND, "O_APPEND"},
		{unix.O_NONBLOCK, "O_NONBLOCK"}, {unix.O_DIRECTORY, "O_DIRECTORY"}, {unix.O_NOFOLLOW, "O_NOFOLLOW"}, {unix.O_CLOEXEC, "O_CLOEXEC"}, {unix.O_PATH, "O_PATH"},
		{unix.O_LARGEFILE, "O_LARGEFILE"}, {unix.O_TMPFILE &^ unix.O_DIRECTORY, "__O_TMPFILE"}}
	s := []string{}
	if f&3 == 0 {
		s = append(s, "O_RDONLY")
	}
	for _, n := range names {
		if f&n.bit == n.bit && n.bit != 0 {
			s = append(s, n.name)
			f &^= n.bit
		}
	}
	if f&^3 != 0 {
		s = append(s, fmt.Sprintf("%#x", f&^3))
	}
	return strings.Join(s, "|")
}

func describe(mem *os.File, si sysInfo) string {
	name, ok := sysName[si.nr]
	if !ok {
		name = "syscall_" + strconv.FormatUint(si.nr, 10)
	}
	a := si.args
	dirfd := func(v uint64) string {
		if int32(v) == unix.AT_FDCWD {
			return "AT_FDCWD"
		}
		return strconv.Itoa(int(int32(v)))
	}
	switch name {
	case "openat":
		return fmt.Sprintf("openat(%s, %q, %s)", dirfd(a[0]), readString(mem, a[1]), openFlags(a[2]))
	case "open":
		return fmt.Sprintf("open(%q, %s)", readString(mem, a[0]), openFlags(a[1]))
	case "close", "dup", "fstat":
		return fmt.Sprintf("%s(%d)", name, int32(a[0]))
	case "read", "write", "sendmsg", "recvmsg":
		return fmt.Sprintf("%s(%d, ..., %d)", name, int32(a[0]), a[2])
	case "dup3", "dup2":
		return fmt.Sprintf("%s(%d, %d, %#x)", name, int32(a[0]), int32(a[1]), a[2])
	case "fcntl":
		return fmt.Sprintf("fcntl(%d, %d, %#x)", int32(a[0]), a[1], a[2])
	case "socketpair", "socket":
		return fmt.Sprintf("%s(%d, %#x, %d)", name, a[0], a[1], a[2])
	case "pipe2":
		return fmt.Sprintf("pipe2(..., %s)", openFlags(a[1]))
	case "clone":
		return fmt.Sprintf("clone(%#x)", a[0])
	case "wait4":
		return fmt.Sprintf("wait4(%d, ..., %#x)", int32(a[0]), a[2])
	case "kill":
		return fmt.Sprintf("kill(%d, %d)", int32(a[0]), a[1])
	case "ptrace":
		return fmt.Sprintf("ptrace(%#x, %d)", a[0], int32(a[1]))
	case "mkdirat", "unlinkat", "newfstatat":
		return fmt.Sprintf("%s(%s, %q)", name, dirfd(a[0]), readString(mem, a[1]))
	case "mkdir", "rmdir", "unlink", "chdir", "stat", "lstat", "access", "readlink", "umount2":
		return fmt.Sprintf("%s(%q)", name, readString(mem, a[0]))
	case "mount":
		return fmt.Sprintf("mount(%q, %q)", readString(mem, a[0]), readString(mem, a[1]))
	}
	return fmt.Sprintf("%s(%#x, %#x, %#x)", name, a[0], a[1], a[2])
}

// hostFds: the descriptor table of the host process as /proc shows it: [fd, "link", close-on-exec]
func hostFds(pid int) []any {
	dir := fmt.Sprintf("/proc/%d/fd", pid)
	ents, _ := os.ReadDir(dir)
	res := []any{}
	nums := []int{}
	for _, e := range ents {
		if n, err := strconv.Atoi(e.Name()); err == nil {
			nums = append(nums, n)
		}
	}
	sort.Ints(nums)
	for _, n := range nums {
		link, _ := os.Readlink(fmt.Sprintf("%s/%d", dir, n))
		cloexec := -1
		if b, err := os.ReadFile(fmt.Sprintf("/proc/%d/fdinfo/%d", pid, n)); err == nil {
			for _, ln := range strings.Split(string(b), "\n") {
				if strings.HasPrefix(ln, "flags:") {
					if v, err := strconv.ParseUint(strings.TrimSpace(ln[6:]), 8, 64); err == nil {
						cloexec = int(v & unix.O_CLOEXEC / unix.O_CLOEXEC)
					}
				}
			}
		}
		res = append(res, []any{n, link, cloexec})
	}
	return res
}

func tracer() int {
	runtime.LockOSThread()
	kinds := 3
	// C17STEP_ALL=1: a second run of every kind at every point.  Otherwise one second run per point, the kinds taking turns (the
	// namespace run, the most expensive one, every 8th time), and no second run at a point where the descriptor table of the
	// host process is what it was at the previous point of this launch that was tried with the fork lock free (same table,
	// same lock state: the same second run).
	all := os.Getenv("C17STEP_ALL") == "1"
	rot, _ := strconv.Atoi(os.Getenv("C17STEP_ROT"))
	budget, _ := strconv.Atoi(os.Getenv("C17STEP_BUDGET_S"))
	if budget <= 0 {
		budget = 150
	}
	maxSteps := 400
	nextKinds := func(seq int) []int {
		if all {
			return []int{0, 1, 2}
		}
		if (seq+rot)%8 == 7 {
			return []int{2}
		}
		return []int{(seq + rot) % 2}
	}
	ctlR, ctlW, _ := os.Pipe()
	repR, repW, _ := os.Pipe()
	self, _ := os.Executable()
	cmd := exec.Command(self, "tracee")
	cmd.Env = append(os.Environ(), "GODEBUG=asyncpreemptoff=1", "VERIF_BIN="+hx.BinDir())
	cmd.Stdout, cmd.Stderr = os.Stderr, os.Stderr
	cmd.ExtraFiles = []*os.File{ctlR, repW}
	cmd.SysProcAttr = &syscall.SysProcAttr{Ptrace: true}
	if err := cmd.Start(); err != nil {
		fmt.Printf("{\"harness_err\": %q}\n", err.Error())
		return 0
	}
	ctlR.Close()
	repW.Close()
	pid := cmd.Process.Pid
	probeCh := make(chan map[string]any, 4)
	var infoMu sync.Mutex
	info := []map[string]any{}
	go func() {
		sc := bufio.NewScanner(repR)
		sc.Buffer(make([]byte, 1<<20), 1<<24)
		for sc.Scan() {
			var m map[string]any
			if json.Unmarshal(sc.Bytes(), &m) != nil {
				continue
			}
			if m["t"] == "probe" {
				probeCh <- m
			} else {
				infoMu.Lock()
				info = append(info, m)
				infoMu.Unlock()
			}
		}
		close(probeCh)
	}()
	deadline := time.Now().Add(time.Duration(budget) * time.Second)
	var ws syscall.WaitStatus
	if _, err := syscall.Wait4(pid, &ws, syscall.WALL, nil); err != nil || !ws.Stopped() {
		fmt.Printf("{\"harness_err\": \"the tracee did not stop at exec: %v\"}\n", err)
		return 0
	}
	syscall.PtraceSetOptions(pid, unix.PTRACE_O_TRACESYSGOOD|unix.PTRACE_O_EXITKILL)
	mem, _ := os.Open(fmt.Sprintf("/proc/%d/mem", pid))
	type step struct {
		N     int            `json:"n"`
		At    string         `json:"at"`
		Call  string         `json:"call"`
		Probe map[string]any `json:"probe"`
		Host  []any          `json:"host_fds,omitempty"`
	}
	type caseRec struct {
		Steps  []step   `json:"steps"`
		Calls  []string `json:"calls"`
		Capped bool     `json:"capped"`
	}
	var (
		cases     []*caseRec
		cur       *caseRec
		baseline  []map[string]any
		entry     sysInfo
		pending   bool // a probe that did not answer in time is still out
		late      int
		lastLock  bool
		probeSeq  int
		aborted   string
		sig       int
		probesRun int
		lastSnap  string
		same      int
	)
	snapOf := func(h []any) string { b, _ := json.Marshal(h); return string(b) }
	probe := func(kind int) map[string]any {
		if pending {
			select {
			case m, ok := <-probeCh:
				if !ok {
					return map[string]any{"skipped": "tracee gone"}
				}
				_ = m // the answer to an earlier point: too late to say anything about it
				pending = false
			default:
				return map[string]any{"skipped": "an earlier second run has not returned yet"}
			}
		}
		ctlW.Write([]byte{byte('0' + kind)})
		select {
		case m, ok := <-probeCh:
			if !ok {
				return map[string]any{"skipped": "tracee gone"}
			}
			probesRun++
			return m
		case <-time.After(15 * time.Second):
			pending = true
			late++
			return map[string]any{"skipped": "the second run did not return within 15 s while the launching thread was held"}
		}
	}
	for {
		if time.Now().After(deadline) {
			aborted = "time budget of the tracer used up"
			syscall.Kill(pid, syscall.SIGKILL)
			break
		}
		if err := syscall.PtraceSyscall(pid, sig); err != nil {
			aborted = "ptrace(PTRACE_SYSCALL): " + err.Error()
			break
		}
		sig = 0
		if _, err := syscall.Wait4(pid, &ws, syscall.WALL, nil); err != nil {
			if err == syscall.EINTR {
				continue
			}
			aborted = "wait4: " + err.Error()
			break
		}
		if ws.Exited() || ws.Signaled() {
			break
		}
		if !ws.Stopped() {
			continue
		}
		if ws.StopSignal() != syscall.SIGTRAP|0x80 {
			if ws.StopSignal() == syscall.SIGTRAP && ws.TrapCause() > 0 {
				continue // a ptrace event stop
			}
			sig = int(ws.StopSignal()) // a signal on its way to the launching thread: deliver it
			continue
		}
		si, err := getSyscallInfo(pid)
		if debugOn {
			fmt.Fprintf(os.Stderr, "stop op=%d nr=%d a0=%#x rval=%d err=%v\n", si.op, si.nr, si.args[0], si.rval, err)
		}
		if err != nil {
			continue
		}
		if si.op == 1 {
			entry = si
			if cur != nil && lastLock && !neutral[si.nr] && !(si.nr == 1 && int32(si.args[0]) < 0) && len(cur.Steps) < maxSteps {
				// the fork lock was held at the end of the previous call: it may have been released since
				d := describe(mem, si)
				h := hostFds(pid)
				for _, k := range nextKinds(probeSeq) {
					p := probe(k)
					lastLock = p["locked"] != nil
					cur.Steps = append(cur.Steps, step{N: len(cur.Calls), At: "before", Call: d, Probe: p, Host: h})
					if lastLock {
						break
					}
					if p["stdout"] != nil {
						lastSnap = snapOf(h)
					}
				}
				probeSeq++
			}
			continue
		}
		if si.op != 2 {
			continue
		}
		if entry.nr == 1 && int32(entry.args[0]) < 0 { // markers
			switch int32(entry.args[0]) {
			case -3:
				for k := 0; k < kinds; k++ {
					for rpt := 0; rpt < 2; rpt++ {
						baseline = append(baseline, probe(k))
					}
				}
			case -1:
				cur = &caseRec{Steps: []step{}, Calls: []string{}}
				cases = append(cases, cur)
				lastLock, lastSnap = false, ""
			case -2:
				cur = nil
			}
			continue
		}
		if cur == nil || neutral[entry.nr] {
			continue
		}
		d := fmt.Sprintf("%s = %d", describe(mem, entry), si.rval)
		cur.Calls = append(cur.Calls, d)
		if len(cur.Steps) >= maxSteps {
			cur.Capped = true
			continue
		}
		h := hostFds(pid)
		if !all && !lastLock && snapOf(h) == lastSnap {
			same++
			continue
		}
		for _, k := range nextKinds(probeSeq) {
			p := probe(k)
			lastLock = p["locked"] != nil
			cur.Steps = append(cur.Steps, step{N: len(cur.Calls), At: "after", Call: d, Probe: p, Host: h})
			if lastLock {
				break
			}
			if p["stdout"] != nil {
				lastSnap = snapOf(h)
			}
		}
		probeSeq++
	}
	ctlW.Close()
	syscall.Kill(pid, syscall.SIGKILL)
	cmd.Wait()
	time.Sleep(50 * time.Millisecond)
	infoMu.Lock()
	out := map[string]any{"baseline": baseline, "cases": cases, "info": info, "aborted": aborted, "late": late, "probes_run": probesRun, "points_with_unchanged_table": same, "exit": ws.ExitStatus()}
	b, _ := json.Marshal(out)
	infoMu.Unlock()
	fmt.Println(string(b))
	return 0
}

func init() { runtime.LockOSThread() } // the main goroutine stays on the first thread: it is the launching thread (tracee), the ptrace thread (tracer)

func main() {
	hx.Init()
	if len(os.Args) > 1 && os.Args[1] == "tracee" {
		tracee()
		return
	}
	os.Exit(tracer())
}

// h_c17: the same workloads alone and all at once in one host process (ptrace runs, namespace runs, several container
// environments, concurrent calls on one environment), with goroutines that create inheritable descriptors under
// ForkLock.RLock in the background.
package main

import (
	"context"
	"encoding/json"
	"fmt"
	"os"
	"path/filepath"
	"runtime"
	"strings"
	"sync"
	"sync/atomic"
	"syscall"
	"time"

	"verifh/lib/hx"

	"github.com/criyle/go-sandbox/container"
	"github.com/criyle/go-sandbox/pkg/forkexec"
	"github.com/criyle/go-sandbox/pkg/pipe"
	"github.com/criyle/go-sandbox/pkg/seccomp"
	"github.com/criyle/go-sandbox/pkg/seccomp/libseccomp"
	"github.com/criyle/go-sandbox/ptracer"
	"github.com/criyle/go-sandbox/runner"
	"github.com/criyle/go-sandbox/runner/ptrace"
)

type allowAll struct{}

func (allowAll) CheckRead(string) ptracer.TraceAction    { return ptracer.TraceAllow }
func (allowAll) CheckWrite(string) ptracer.TraceAction   { return ptracer.TraceAllow }
func (allowAll) CheckStat(string) ptracer.TraceAction    { return ptracer.TraceAllow }
func (allowAll) CheckSyscall(string) ptracer.TraceAction { return ptracer.TraceAllow }

// tagged allows everything except a path that carries the tag of another run: that would be another run's trap event
type tagged struct {
	tag     string
	foreign *atomic.Int64
}

func (t tagged) check(p string) ptracer.TraceAction {
	if i := strings.Index(p, "c17run-"); i >= 0 && !strings.Contains(p, t.tag) {
		t.foreign.Add(1)
		return ptracer.TraceKill
	}
	return ptracer.TraceAllow
}
func (t tagged) CheckRead(p string) ptracer.TraceAction    { return t.check(p) }
func (t tagged) CheckWrite(p string) ptracer.TraceAction   { return t.check(p) }
func (t tagged) CheckStat(p string) ptracer.TraceAction    { return t.check(p) }
func (t tagged) CheckSyscall(string) ptracer.TraceAction   { return ptracer.TraceAllow }

var traceStat seccomp.Filter

func strs(v any) []string {
	r := []string{}
	for _, x := range v.([]any) {
		r = append(r, x.(string))
	}
	return r
}

var scratch string

func one(w map[string]any, envs []container.Environment) map[string]any {
	buf, err := pipe.NewBuffer(1 << 20)
	if err != nil {
		return map[string]any{"harness_err": err.Error()}
	}
	null, _ := os.Open("/dev/null")
	defer null.Close()
	tl := time.Duration(hx.Int(w["tl_ms"])) * time.Millisecond
	if tl == 0 {
		tl = 10 * time.Second
	}
	ctxLimit := 30 * time.Second
	if ms := hx.Int(w["cancel_ms"]); ms > 0 {
		ctxLimit = time.Duration(ms) * time.Millisecond
	}
	ctx, cancel := context.WithTimeout(context.Background(), ctxLimit)
	defer cancel()
	if w["precancel"] == true {
		cancel() // the caller has given up before the call is made
	}
	var res runner.Result
	args := strs(w["prog"])
	t0 := time.Now()
	switch w["kind"] {
	case "ptrace_paths":
		// the program probes paths that carry this run's tag; the handler refuses any path with another run's tag
		var foreign atomic.Int64
		r := &ptrace.Runner{Args: append([]string{hx.Target()}, args...), Env: []string{}, WorkDir: "/", Files: []uintptr{null.Fd(), buf.W.Fd(), buf.W.Fd()},
			Limit: runner.Limit{TimeLimit: tl, MemoryLimit: 1 << 30}, Seccomp: traceStat, Handler: tagged{tag: args[2], foreign: &foreign}}
		res = r.Run(ctx)
		defer func() {}()
		buf.W.Close()
		<-buf.Done
		return map[string]any{"status": int(res.Status), "exit": res.ExitStatus, "error": res.Error, "stdout": "", "foreign_paths": foreign.Load(),
			"ms": time.Since(t0).Milliseconds()}
	case "openloop":
		// one user of an environment: its own file, opened and read back again and again, a Ping now and then
		env := envs[int(hx.Int(w["env"]))%len(envs)]
		tag := w["tag"].(string)
		verdict := "ok"
		rs, err := env.Open([]container.OpenCmd{{Path: "/w/" + tag, Flag: os.O_CREATE | os.O_RDWR | os.O_TRUNC, Perm: 0600}})
		if err != nil || len(rs) != 1 || rs[0].Err != nil {
			verdict = fmt.Sprint("create: ", err, rs)
		} else {
			rs[0].File.WriteString(tag)
			rs[0].File.Close()
			for rd := 0; rd < int(hx.Int(w["rounds"])) && verdict == "ok"; rd++ {
				rs, err := env.Open([]container.OpenCmd{{Path: "/w/" + tag, Flag: os.O_RDONLY}})
				if err != nil || len(rs) != 1 || rs[0].Err != nil {
					verdict = fmt.Sprintf("round %d: open failed: %v %v", rd, err, rs)
					break
				}
				b := make([]byte, 64)
				n, _ := rs[0].File.Read(b)
				rs[0].File.Close()
				if string(b[:n]) != tag {
					verdict = fmt.Sprintf("round %d: opened its own file and read another user's: %q", rd, string(b[:n]))
				}
				if rd%10 == 9 {
					if err := env.Ping(); err != nil {
						verdict = fmt.Sprintf("round %d: ping: %v", rd, err)
					}
				}
			}
		}
		buf.W.Close()
		<-buf.Done
		return map[string]any{"status": 1, "exit": 0, "error": "", "stdout": verdict, "ms": time.Since(t0).Milliseconds()}
	case "ping":
		time.Sleep(time.Duration(hx.Int(w["delay_ms"])) * time.Millisecond)
		err := envs[int(hx.Int(w["env"]))%len(envs)].Ping()
		e := ""
		if err != nil {
			e = err.Error()
		}
		buf.W.Close()
		<-buf.Done
		return map[string]any{"status": 1, "exit": 0, "error": e, "stdout": "", "ms": time.Since(t0).Milliseconds()}
	case "ptrace":
		r := &ptrace.Runner{Args: append([]string{hx.Target()}, args...), Env: []string{}, WorkDir: "/", Files: []uintptr{null.Fd(), buf.W.Fd(), buf.W.Fd()},
			Limit: runner.Limit{TimeLimit: tl, MemoryLimit: 1 << 30}, Seccomp: hx.AllowAll(), Handler: allowAll{}}
		res = r.Run(ctx)
	case "ns":
		r, err := hx.NsRunner(scratch, append([]string{"/vb/probe_target"}, args...))
		if err != nil {
			return map[string]any{"harness_err": err.Error()}
		}
		r.Files = []uintptr{null.Fd(), buf.W.Fd(), buf.W.Fd()}
		r.Limit = runner.Limit{TimeLimit: tl, MemoryLimit: 1 << 30}
		res = r.Run(ctx)
		os.RemoveAll(r.Root)
	case "container":
		env := envs[int(hx.Int(w["env"]))%len(envs)]
		res = env.Execve(ctx, container.ExecveParam{Args: append([]string{"/vb/probe_target"}, args...), Env: []string{},
			Files: []uintptr{null.Fd(), buf.W.Fd(), buf.W.Fd()}})
	}
	buf.W.Close()
	<-buf.Done
	return map[string]any{"status": int(res.Status), "exit": res.ExitStatus, "error": res.Error, "stdout": strings.TrimSpace(buf.Buffer.String()),
		"ms": time.Since(t0).Milliseconds()}
}

// etxtbsy: run A executes a freshly written program through its descriptor; run B (with a callback that holds its child back for
// 10 ms) is cloned while A still has the file open for writing, so B's child carries a write descriptor of A's program until it
// execs.  A's launch must not depend on B.
func etxtbsy(iters int, withB bool) map[string]any {
	probe, err := os.ReadFile(hx.Target())
	if err != nil {
		return map[string]any{"harness_err": err.Error()}
	}
	null, _ := os.OpenFile("/dev/null", os.O_RDWR, 0)
	defer null.Close()
	outcomes := []string{}
	for i := 0; i < iters; i++ {
		path := filepath.Join(scratch, fmt.Sprintf("fresh%d", i))
		f, err := os.OpenFile(path, os.O_CREATE|os.O_WRONLY|os.O_TRUNC, 0700)
		if err != nil {
			return map[string]any{"harness_err": err.Error()}
		}
		bdone := make(chan struct{})
		if withB {
			cloned := make(chan struct{})
			go func() {
				defer close(bdone)
				b := &forkexec.Runner{Args: []string{hx.Target(), "exit", "0"}, Env: []string{}, Files: []uintptr{null.Fd(), null.Fd(), null.Fd()},
					SyncFunc: func(int) error { close(cloned); time.Sleep(10 * time.Millisecond); return nil }}
				pid, err := b.Start()
				if err != nil {
					select {
					case <-cloned:
					default:
						close(cloned)
					}
					return
				}
				var ws syscall.WaitStatus
				syscall.Wait4(pid, &ws, 0, nil)
			}()
			<-cloned
		} else {
			close(bdone)
		}
		f.Write(probe)
		f.Close()
		ef, err := os.Open(path)
		if err != nil {
			return map[string]any{"harness_err": err.Error()}
		}
		a := &forkexec.Runner{Args: []string{"fresh", "exit", "7"}, Env: []string{}, ExecFile: ef.Fd(), Files: []uintptr{null.Fd(), null.Fd(), null.Fd()}}
		pid, err := a.Start()
		if err != nil {
			outcomes = append(outcomes, "start: "+err.Error())
		} else {
			var ws syscall.WaitStatus
			syscall.Wait4(pid, &ws, 0, nil)
			outcomes = append(outcomes, fmt.Sprintf("exit %d", ws.ExitStatus()))
		}
		ef.Close()
		<-bdone
		os.Remove(path)
	}
	return map[string]any{"outcomes": outcomes}
}

// threadRetire: an environment is built by a goroutine that is wired to its thread for a while; on the same thread a traced run
// succeeds and another fails to start; the goroutine unwires and returns.  The environment belongs to nobody's run: it must live on.
func threadRetire() map[string]any {
	out := map[string]any{}
	var env container.Environment
	work := func(done chan struct{}) {
		defer close(done)
		var err error
		if env, err = hx.NewEnv(scratch, nil); err != nil {
			out["harness_err"] = err.Error()
			return
		}
		lim := runner.Limit{TimeLimit: 5 * time.Second, MemoryLimit: 1 << 30}
		good := (&ptrace.Runner{Args: []string{hx.Target(), "exit", "0"}, Env: []string{}, WorkDir: "/", Limit: lim, Seccomp: hx.AllowAll(), Handler: allowAll{}}).Run(context.Background())
		bad := (&ptrace.Runner{Args: []string{"/nonexistent-program"}, Env: []string{}, WorkDir: "/", Limit: lim, Seccomp: hx.AllowAll(), Handler: allowAll{}}).Run(context.Background())
		out["good_status"], out["bad_status"] = int(good.Status), int(bad.Status)
	}
	done := make(chan struct{})
	go func() {
		runtime.LockOSThread()
		if syscall.Gettid() == syscall.Getpid() {
			// the process's initial thread never ends: do the work on another one, keeping this one occupied meanwhile
			inner := make(chan struct{})
			go func() {
				runtime.LockOSThread()
				work(inner)
				runtime.UnlockOSThread()
			}()
			<-inner
			runtime.UnlockOSThread()
			close(done)
			return
		}
		work(done)
		runtime.UnlockOSThread()
	}()
	<-done
	if _, bad := out["harness_err"]; bad {
		return out
	}
	time.Sleep(100 * time.Millisecond)
	perr := env.Ping()
	out["ping_err"] = ""
	if perr != nil {
		out["ping_err"] = perr.Error()
	}
	null, _ := os.Open("/dev/null")
	r := env.Execve(context.Background(), container.ExecveParam{Args: []string{"/vb/probe_target", "exit", "7"}, Env: []string{}, Files: []uintptr{null.Fd(), null.Fd(), null.Fd()}})
	null.Close()
	out["run_status"], out["run_exit"], out["run_error"] = int(r.Status), r.ExitStatus, r.Error
	if perr == nil {
		env.Destroy()
	}
	return out
}

func main() {
	hx.Init()
	scratch = os.Getenv("VERIF_SCRATCH")
	var ferr error
	if traceStat, ferr = (&libseccomp.Builder{Trace: []string{"access", "stat", "newfstatat", "faccessat", "faccessat2"}, Default: libseccomp.ActionAllow}).Build(); ferr != nil {
		panic(ferr)
	}
	hx.Cases(func(c map[string]any) map[string]any {
		if c["mode"] == "etxtbsy" {
			return etxtbsy(int(hx.Int(c["iters"])), c["with_b"] == true)
		}
		if c["mode"] == "thread_retire" {
			return threadRetire()
		}
		nenv := int(hx.Int(c["envs"]))
		envs := []container.Environment{}
		for i := 0; i < nenv; i++ {
			e, err := hx.NewEnv(scratch, nil)
			if err != nil {
				return map[string]any{"harness_err": err.Error()}
			}
			envs = append(envs, e)
		}
		defer func() {
			for _, e := range envs {
				e.Destroy()
			}
		}()
		ws := c["workloads"].([]any)
		alone := make([]map[string]any, len(ws))
		for i, w := range ws {
			if !hx.Guard(60*time.Second, func() { alone[i] = one(w.(map[string]any), envs) }) {
				// a run on its own does not return: report and give up on this process
				fmt.Printf("{\"id\": %d, \"hang\": true, \"hang_phase\": \"alone\", \"hang_index\": %d}\n", hx.Int(c["id"]), i)
				os.Exit(0)
			}
		}
		// background: goroutines that own an inheritable descriptor for a while, under the fork lock protocol
		var stop atomic.Bool
		var created atomic.Int64
		var nwg sync.WaitGroup
		for g := 0; g < int(hx.Int(c["noise"])); g++ {
			nwg.Add(1)
			go func() {
				defer nwg.Done()
				for !stop.Load() {
					var p [2]int
					syscall.ForkLock.RLock()
					if err := syscall.Pipe(p[:]); err == nil {
						for k := 0; k < 2000; k++ { // keep the window open for a moment
							_ = k
						}
						syscall.CloseOnExec(p[0])
						syscall.CloseOnExec(p[1])
					}
					syscall.ForkLock.RUnlock()
					created.Add(1)
					syscall.Close(p[0])
					syscall.Close(p[1])
				}
			}()
		}
		together := make([]map[string]any, len(ws))
		var wg sync.WaitGroup
		start := make(chan struct{})
		for i, w := range ws {
			wg.Add(1)
			go func(i int, w map[string]any) {
				defer wg.Done()
				<-start
				together[i] = one(w, envs)
			}(i, w.(map[string]any))
		}
		close(start)
		done := make(chan struct{})
		go func() { wg.Wait(); close(done) }()
		hang := false
		select {
		case <-done:
		case <-time.After(90 * time.Second):
			hang = true
		}
		stop.Store(true)
		nwg.Wait()
		if hang {
			b, _ := json.Marshal(map[string]any{"id": c["id"], "alone": alone, "together": together, "hang": true, "noise_descriptors": created.Load()})
			fmt.Println(string(b))
			os.Exit(0)
		}
		return map[string]any{"alone": alone, "together": together, "hang": hang, "noise_descriptors": created.Load(), "note": fmt.Sprint(len(ws))}
	})
}

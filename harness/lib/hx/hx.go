// Package hx: helpers shared by the verification harnesses.
package hx

import (
	"bufio"
	"encoding/json"
	"os"
	"path/filepath"
	"time"

	"github.com/criyle/go-sandbox/container"
	"github.com/criyle/go-sandbox/pkg/mount"
	"github.com/criyle/go-sandbox/pkg/seccomp"
	"github.com/criyle/go-sandbox/pkg/seccomp/libseccomp"
	"github.com/criyle/go-sandbox/runner/unshare"
)

// Init must be the first call of every harness main: the binary doubles as
// the container init process.
func Init() { container.Init() }

// BinDir is the directory of the running harness binary (probes live beside it).
func BinDir() string {
	if d := os.Getenv("VERIF_BIN"); d != "" {
		return d
	}
	exe, err := os.Executable()
	if err != nil {
		panic(err)
	}
	return filepath.Dir(exe)
}

// Target is the path of the static multi-purpose target program.
func Target() string { return filepath.Join(BinDir(), "probe_target") }

// AllowAll is a filter that allows every native syscall.
func AllowAll() seccomp.Filter {
	f, err := (&libseccomp.Builder{Default: libseccomp.ActionAllow}).Build()
	if err != nil {
		panic(err)
	}
	return f
}

// Mounts: default minimal rootfs + the harness bin dir at /vb (read-only) + tmpfs /w and /tmp.
func Mounts() *mount.Builder {
	return mount.NewDefaultBuilder().
		WithBind(BinDir(), "vb", true).
		WithTmpfs("w", "size=8m,nr_inodes=4k").
		WithTmpfs("tmp", "size=8m,nr_inodes=4k").
		FilterNotExist()
}

// NewEnv builds a container environment; scratch is a directory under which the root is created.
func NewEnv(scratch string, stderr *os.File) (container.Environment, error) {
	return NewEnvWith(scratch, stderr, nil)
}

// NewEnvWith lets the caller adjust the builder.
func NewEnvWith(scratch string, stderr *os.File, adjust func(*container.Builder)) (container.Environment, error) {
	b := container.Builder{
		Root:    scratch,
		TmpRoot: "ct",
		Mounts:  Mounts().Mounts,
	}
	if stderr != nil {
		b.Stderr = stderr
	}
	if adjust != nil {
		adjust(&b)
	}
	return b.Build()
}

// NsRunner prepares a namespace runner whose root is created under scratch.
func NsRunner(scratch string, args []string) (*unshare.Runner, error) {
	root, err := os.MkdirTemp(scratch, "ns")
	if err != nil {
		return nil, err
	}
	mt, err := Mounts().Build()
	if err != nil {
		return nil, err
	}
	return &unshare.Runner{
		Args: args, Env: []string{"PATH=/usr/bin:/bin"}, WorkDir: "/w",
		Seccomp: AllowAll(), Root: root, Mounts: mt,
		HostName: "verif", DomainName: "verif",
	}, nil
}

// Guard runs f and reports whether it returned within d.
func Guard(d time.Duration, f func()) bool {
	done := make(chan struct{})
	go func() { defer close(done); f() }()
	select {
	case <-done:
		return true
	case <-time.After(d):
		return false
	}
}

// Cases reads JSON lines from stdin, calls f, writes JSON lines to stdout.
func Cases(f func(c map[string]any) map[string]any) {
	in := bufio.NewReaderSize(os.Stdin, 1<<20)
	out := bufio.NewWriter(os.Stdout)
	defer out.Flush()
	dec := json.NewDecoder(in)
	dec.UseNumber()
	enc := json.NewEncoder(out)
	for {
		var c map[string]any
		if err := dec.Decode(&c); err != nil {
			return
		}
		r := f(c)
		if r == nil {
			r = map[string]any{}
		}
		r["id"] = c["id"]
		enc.Encode(r)
		out.Flush()
	}
}

// Int reads a JSON number.
func Int(v any) int64 {
	switch x := v.(type) {
	case json.Number:
		n, err := x.Int64()
		if err != nil {
			f, _ := x.Float64()
			return int64(f)
		}
		return n
	case float64:
		return int64(x)
	}
	return 0
}

// c17fds: the descriptor table this program was started with, as the program itself sees it:
//   [[fd, access mode, close-on-exec, "what /proc/self/fd/<fd> points to"], ...]   (fd < 256)
// written to standard output; exit status = argv[1] (default 0).
// Used by the C17 check for the second run that is launched inside another run's launch window.
#define _GNU_SOURCE
#include <fcntl.h>
#include <stdio.h>
#include <stdlib.h>
#include <string.h>
#include <unistd.h>

int main(int argc, char **argv) {
  static char buf[1 << 16];
  int n = 0, first = 1;
  n += snprintf(buf + n, sizeof buf - n, "[");
  for (int fd = 0; fd < 256 && n < (int)sizeof buf - 600; fd++) {
    int fdfl = fcntl(fd, F_GETFD);
    if (fdfl < 0) continue;
    int fl = fcntl(fd, F_GETFL);
    char p[64], l[256];
    snprintf(p, sizeof p, "/proc/self/fd/%d", fd);
    ssize_t k = readlink(p, l, sizeof l - 1);
    if (k < 0) k = 0;
    l[k] = 0;
    for (ssize_t i = 0; i < k; i++) if (l[i] == '"' || l[i] == '\\' || (unsigned char)l[i] < 32) l[i] = '?';
    n += snprintf(buf + n, sizeof buf - n, "%s[%d,%d,%d,\"%s\"]", first ? "" : ",", fd, fl & 3, fdfl & 1, l);
    first = 0;
  }
  n += snprintf(buf + n, sizeof buf - n, "]\n");
  int off = 0;
  while (off < n) {
    ssize_t w = write(1, buf + off, n - off);
    if (w <= 0) _exit(99);
    off += w;
  }
  _exit(argc > 1 ? atoi(argv[1]) : 0);
}

// Hostile program for C15: tasks that die while the tracer is handling one of their traced PATH syscalls.
// Usage: probe_dying <killer> <form> <cwd> <workers> <maxdelay_us>
//   killer : sibling_exit_group | leader_exit_group | sigkill_child | sigkill_sibling | exec_sibling | none
//            who ends the thread group, at a pseudo-random moment 0..maxdelay_us after the first worker announced its calls
//            (none: the program never ends by itself; it creates c15.ready in the work directory when its workers start, and
//            whoever started the run cancels it)
//   form   : which path syscall the workers issue in a loop (relative to the cwd, through a descriptor, empty, absolute, ...)
//   cwd    : wd (stay in the work directory) | sub (a fresh sub directory) | root ("/") | deep (a long nested directory)
// Whatever the schedule, the program ends by exit_group(0) / exit(0) of the new image (verdict Normal) or by SIGKILL sent by
// the program itself (verdict Signalled).   probe_dying exit0  just leaves (the image that exec_sibling switches to).
#define _GNU_SOURCE
#include <errno.h>
#include <fcntl.h>
#include <pthread.h>
#include <signal.h>
#include <stdio.h>
#include <stdlib.h>
#include <string.h>
#include <sys/mman.h>
#include <sys/stat.h>
#include <sys/syscall.h>
#include <sys/types.h>
#include <unistd.h>

static volatile int *flag;            // shared with a forked child too
static const char *form;
static int dfd = -1;
static unsigned long maxdelay_us;
static char self_exe[4096];

static unsigned long tsc(void) { unsigned lo, hi; __asm__ volatile("rdtsc" : "=a"(lo), "=d"(hi)); return ((unsigned long)hi << 32) | lo; }
static unsigned long tsc_per_us = 3000;
static void calibrate(void) {
  struct timespec a, b; clock_gettime(CLOCK_MONOTONIC, &a); unsigned long t0 = tsc();
  do clock_gettime(CLOCK_MONOTONIC, &b); while ((b.tv_sec - a.tv_sec) * 1000000000L + (b.tv_nsec - a.tv_nsec) < 200000);
  unsigned long dt = tsc() - t0; tsc_per_us = dt / 200; if (tsc_per_us < 100) tsc_per_us = 100;
}
static void random_delay(void) {
  unsigned long t0 = tsc();
  unsigned long x = t0 * 6364136223846793005UL + 1442695040888963407UL; x ^= x >> 29;
  unsigned long d = maxdelay_us ? (x % (maxdelay_us * tsc_per_us)) : 0;
  while (tsc() - t0 < d) ;
}

static long one_call(void) {
  static __thread struct stat st; static __thread char buf[256]; static unsigned long how[3];
  long r;
  if (!strcmp(form, "open_rel")) { r = syscall(SYS_open, "rel", O_RDONLY); if (r >= 0) close(r); }
  else if (!strcmp(form, "openat_cwd_rel")) { r = syscall(SYS_openat, -100, "rel", O_RDONLY); if (r >= 0) close(r); }
  else if (!strcmp(form, "openat_cwd_dotdot")) { r = syscall(SYS_openat, -100, "s/../rel", O_RDONLY); if (r >= 0) close(r); }
  else if (!strcmp(form, "openat_cwd_dot")) { r = syscall(SYS_openat, -100, ".", O_RDONLY); if (r >= 0) close(r); }
  else if (!strcmp(form, "openat_cwd_empty")) { r = syscall(SYS_openat, -100, "", O_RDONLY); if (r >= 0) close(r); }
  else if (!strcmp(form, "openat_cwd_sx64")) { r = syscall(SYS_openat, 0xffffffffffffff9cUL, "rel", O_RDONLY); if (r >= 0) close(r); }
  else if (!strcmp(form, "openat_cwd_zx64")) { r = syscall(SYS_openat, 0x00000000ffffff9cUL, "rel", O_RDONLY); if (r >= 0) close(r); }
  else if (!strcmp(form, "openat_dirfd_rel")) { r = syscall(SYS_openat, dfd, "rel", O_RDONLY); if (r >= 0) close(r); }
  else if (!strcmp(form, "openat_badfd_rel")) { r = syscall(SYS_openat, 999, "rel", O_RDONLY); }
  else if (!strcmp(form, "openat2_cwd_rel")) { r = syscall(437, -100, "rel", how, 24L); if (r >= 0) close(r); }
  else if (!strcmp(form, "open_symlink_rel")) { r = syscall(SYS_open, "lnk", O_RDONLY); if (r >= 0) close(r); }
  else if (!strcmp(form, "open_create_rel")) { r = syscall(SYS_open, "out", O_WRONLY | O_CREAT, 0600); if (r >= 0) close(r); }
  else if (!strcmp(form, "open_abs")) { r = syscall(SYS_open, "/dev/null", O_RDONLY); if (r >= 0) close(r); }
  else if (!strcmp(form, "stat_rel")) r = syscall(SYS_stat, "rel", &st);
  else if (!strcmp(form, "lstat_rel")) r = syscall(SYS_lstat, "lnk", &st);
  else if (!strcmp(form, "fstatat_cwd_rel")) r = syscall(SYS_newfstatat, -100, "rel", &st, 0);
  else if (!strcmp(form, "access_rel")) r = syscall(SYS_access, "rel", R_OK);
  else if (!strcmp(form, "faccessat_cwd_rel")) r = syscall(SYS_faccessat, -100, "rel", R_OK);
  else if (!strcmp(form, "readlink_rel")) r = syscall(SYS_readlink, "lnk", buf, sizeof buf);
  else if (!strcmp(form, "readlinkat_cwd_rel")) r = syscall(SYS_readlinkat, -100, "lnk", buf, sizeof buf);
  else if (!strcmp(form, "unlink_rel")) r = syscall(SYS_unlink, "absent");
  else if (!strcmp(form, "unlinkat_cwd_rel")) r = syscall(SYS_unlinkat, -100, "absent", 0);
  else if (!strcmp(form, "rename_rel")) r = syscall(SYS_rename, "absent", "absent2");
  else if (!strcmp(form, "renameat_cwd_rel")) r = syscall(SYS_renameat, -100, "absent", -100, "absent2");
  else if (!strcmp(form, "chmod_rel")) r = syscall(SYS_chmod, "absent", 0600);
  else if (!strcmp(form, "mkdirat_cwd_rel")) r = syscall(SYS_mkdirat, -100, "s", 0700);
  else if (!strcmp(form, "execve_rel")) r = syscall(SYS_execve, "absent", NULL, NULL);
  else if (!strcmp(form, "execveat_cwd_rel")) r = syscall(SYS_execveat, -100, "absent", NULL, NULL, 0);
  else _exit(3);
  return r;
}

// A worker waits until every task of the program exists, announces itself and issues the call BUDGET times; then it idles in user
// space.  The budget makes the end of the program independent of the order in which the tracer serves stopped tasks: wait4 hands
// out the youngest stopped task first, so tasks that trap without pause can keep an older task (the one that is to end the group)
// waiting for as long as they go on.
#ifndef BUDGET
#define BUDGET 400
#endif
#ifdef NOGATE
static volatile int go = 1;
#else
static volatile int go;
#endif
static void *worker(void *a) {
  (void)a;
  while (!go) ;
  *flag = 1;
  for (int i = 0; i < BUDGET; i++) one_call();
  for (;;) __asm__ volatile("pause");
  return NULL;
}

static void end_group(const char *killer) {
  while (!*flag) ;
  random_delay();
  if (!strcmp(killer, "sigkill_sibling")) syscall(SYS_kill, getpid(), SIGKILL);
  else if (!strcmp(killer, "exec_sibling")) { char *av[] = {self_exe, "exit0", NULL}; char *ev[] = {NULL}; syscall(SYS_execve, self_exe, av, ev); syscall(SYS_exit_group, 97); }
  else syscall(SYS_exit_group, 0);
  for (;;) ;
}
static void *ender(void *a) { end_group((const char *)a); return NULL; }

int main(int argc, char **argv) {
  if (argc >= 2 && !strcmp(argv[1], "exit0")) _exit(0);
  if (argc < 6) return 3;
  const char *killer = argv[1]; form = argv[2]; const char *cwd = argv[3];
  int workers = atoi(argv[4]); maxdelay_us = strtoul(argv[5], NULL, 0);
  if (workers < 1) workers = 1;
  ssize_t l = readlink("/proc/self/exe", self_exe, sizeof self_exe - 1); if (l < 0) return 4; self_exe[l] = 0;
  flag = mmap(NULL, 4096, PROT_READ | PROT_WRITE, MAP_SHARED | MAP_ANONYMOUS, -1, 0);
  if (flag == MAP_FAILED) return 5;
  calibrate();
  int wd0 = open(".", O_RDONLY | O_DIRECTORY);
  int creates = !strcmp(form, "open_create_rel") || !strcmp(form, "mkdirat_cwd_rel");
  if (!strcmp(cwd, "root") && creates) return 9;   // nothing is ever created in the host's root directory
  if (!strcmp(cwd, "sub")) { mkdir("c15sub", 0700); if (chdir("c15sub")) return 6; }
  else if (!strcmp(cwd, "root")) { if (chdir("/")) return 6; }   // the only directory the kernel prints with a trailing separator
  else if (!strcmp(cwd, "deep")) {
    // a nested directory whose path is long (a few hundred bytes), entered step by step
    static char comp[101]; memset(comp, 'd', 100);
    for (int i = 0; i < 6; i++) { mkdir(comp, 0700); if (chdir(comp)) return 6; }
  }
  // the names the calls use; in "/" nothing is created, they simply do not exist there
  if (strcmp(cwd, "root")) {
    int fd = open("rel", O_CREAT | O_WRONLY, 0600); if (fd >= 0) close(fd);
    mkdir("s", 0700); if (symlink("rel", "lnk")) {}
  }
  dfd = open(".", O_RDONLY | O_DIRECTORY);

  if (!strcmp(killer, "sigkill_child")) {
    pid_t me = getpid(), p = fork();
    if (p == 0) { while (!*flag) ; random_delay(); syscall(SYS_kill, me, SIGKILL); _exit(0); }
    if (p < 0) return 7;
  }
  { int fd = openat(wd0, "c15.ready", O_CREAT | O_WRONLY, 0600); if (fd >= 0) close(fd); }
  pthread_t th;
  int leader_works = strcmp(killer, "leader_exit_group") != 0;
  int extra = leader_works ? workers - 1 : workers;
  for (int i = 0; i < extra; i++)
    if (pthread_create(&th, NULL, worker, NULL)) return 8;
  if (!strcmp(killer, "sibling_exit_group") || !strcmp(killer, "sigkill_sibling") || !strcmp(killer, "exec_sibling"))
    if (pthread_create(&th, NULL, ender, (void *)killer)) return 8;
  go = 1;
  if (leader_works) worker(NULL);          // the thread group leader itself is inside the traced call when the group ends
  end_group(killer);                       // leader_exit_group
  return 0;
}
